"""C11 - flow accumulation equals the sum over everything upstream."""
import copy
import itertools
import os
import pickle
from fractions import Fraction

import numpy as np

from harness import common as cm
from harness.props.c06 import ESRI, CODES, VALUES, o_down, rand_acyclic

PID = "C11"
HEADER = ("From Coq Require Import ZArith List PrimFloat.\n"
          "From Hy Require Import Base.Num Model.Grid Model.Catchment Model.Accumulate.")


# Stored representations of the two input grids (the property speaks of cell values, whatever
# the array type that holds them): integer types of the flow-direction grid with the no-data
# values they can hold (0 = the Grid default, the others are usual raster conventions; none is
# one of the eight direction codes), and types of the accumulated field with their no-data values.
FD_STORAGE = [
    (np.int64, [0, -1, -9999, 255, 3]),
    (np.int32, [0, -1, -9999, 255, -2147483648]),
    (np.int16, [0, -1, -9999, 255, -32768]),
    (np.uint8, [0, 255, 3]),
    (np.uint16, [0, 255, 65535]),
    (np.uint32, [0, 255, 4294967295]),
]
FIELD_STORAGE = [
    (np.float64, [float("nan"), -9999.0, 0.0, -1.0]),
    (np.float32, [float("nan"), -9999.0, 0.0, -1.0]),
    (np.int32, [-9999, 0, -1]),
    (np.int64, [-9999, 0, -1]),
]


# How a caller can put the cell values into a grid handed to accumulate, and how the result can be read (the
# property speaks of cell values: it holds whatever the container, memory layout or accessor).
# LAYOUTS: container / memory layout of the object that carries the values (all hold the same cell values).
LAYOUTS = ["c", "f", "tview", "strided", "window", "fwindow", "fstrided", "neg", "negrows", "negcols", "fneg",
           "readonly", "readonly_f", "swapped", "swapped_f", "wide", "wide_f", "list", "tuple", "flat1d", "bcast"]
# ROUTES: operation (sequence) that brings that object into the grid.
ROUTES = ["setter", "resetter", "inplace", "inplace_cells", "setitem", "setitem_each", "fill", "clone", "clone_dtype",
          "dtype_setter", "from_dict", "pickle", "deepcopy", "copy", "clip", "apply", "load"]
# READS: accessor through which the cell values of the result grid are read.
READS = ["ravel", "getitem_vec", "getitem_each", "rowcol", "flat", "tolist", "clone", "pickle", "apply", "rows"]
# in-place corrections of single cells / rows / columns after the values were put (None = no correction)
# ("limits": mindata / maxdata set to the extreme values held, which leaves every cell as it is)
EDITS = [None, "rowcol", "flat", "setitem", "row", "col", "limits"]
INT_JUNK = [1, 2, 4, 8, 16, 32, 64, 128, 0, 3]
FLT_JUNK = [0.5, 2.5, -3.0, 7.0]


def read_grid(acc, mode, nrows, ncols):
    """cell values of grid `acc` in row-major order, read through accessor `mode`"""
    n = nrows * ncols
    if mode == "ravel":
        out = acc.data.ravel()
    elif mode == "getitem_vec":
        out = acc[np.arange(n)]
    elif mode == "getitem_each":
        out = [acc[i] for i in range(n)]
    elif mode == "rowcol":
        out = [acc.data[r, c] for r in range(nrows) for c in range(ncols)]
    elif mode == "flat":
        out = list(acc.data.flat)
    elif mode == "tolist":
        out = [x for row in acc.data.tolist() for x in row]
    elif mode == "clone":
        out = acc.clone().data.ravel()
    elif mode == "pickle":
        out = pickle.loads(pickle.dumps(acc)).data.ravel()
    elif mode == "apply":
        out = acc.apply(np.copy).data.ravel()
    elif mode == "rows":
        out = [x for r in range(nrows) for x in acc.data[r]]
    else:
        raise AssertionError(mode)
    return [float(x) for x in out]


class quiet_stdout:
    """c_accumulate prints its progress with fprintf(stdout): silence file descriptor 1."""

    def __enter__(self):
        import sys
        sys.stdout.flush()
        self.saved = os.dup(1)
        self.null = os.open(os.devnull, os.O_WRONLY)
        os.dup2(self.null, 1)

    def __exit__(self, *a):
        # the C library buffers its output: flush it into /dev/null before restoring
        import ctypes
        ctypes.CDLL(None).fflush(None)
        os.dup2(self.saved, 1)
        os.close(self.saved)
        os.close(self.null)


def chain(fd, nrows, ncols, c):
    """cells down^1 c, down^2 c, ... ; (list, terminal cell, cyclic?)"""
    out, seen, cur = [], {c}, c
    while True:
        d = o_down(fd, nrows, ncols, cur)
        if d < 0:
            return out, cur, False
        if d in seen:
            return out, None, True
        out.append(d)
        seen.add(d)
        cur = d


def run(ctx):
    ctx.rule = ("exhaustive: every grid with <= 3 cells over 10 cell values (8 codes, sink, invalid) x 3 fields; "
                "random acyclic forests and arbitrary (cyclic) grids up to 10x10 (thorough 24x24); fields uniform / "
                "positive dyadic / zeros and negatives / random doubles; default and reduced max_accumulated_cells; "
                "stored representations: directions held as int64/int32/int16/uint8/uint16/uint32 with zero and "
                "non-zero no-data values and cells holding that value (exhaustive on <= 3 cells with the invalid value "
                "= the no-data value, random beyond), field = default / float64 / float32 / int32 / int64 grids with "
                "NaN and numeric no-data values, the same grid objects taken through one or two successive calls "
                "(each call checked; cell values of both inputs compared with the generated values after every call); "
                "boustrophedon grids whose single flow path visits every cell (longest walk under the default limit); "
                "how the values got into the two grids (class of its own, flow-direction grid with the default field / "
                "field grid / both): container and memory layout of what is assigned (C, Fortran, transposed view, "
                "strided, window of a larger C / Fortran array, negative strides, read-only, zero strides, other byte "
                "order, wider dtype, nested lists / tuples, 1-d row) x operation (data setter on a fresh / used grid, "
                "in-place assignment to grid.data, grid[k] = v, fill, clone, clone(dtype), dtype setter, from_dict, "
                "pickle, copy, clip of a larger grid, apply, load of a binary file) x in-place correction of cells / "
                "rows / columns or tight mindata / maxdata afterwards, values put again in another layout between "
                "successive calls, nprint default / 1 / 3, explicit cell limit = longest flow path; the grids must hold "
                "the generated values before the call; result read through .data (ravel, [r, c], rows, flat, tolist), "
                "grid[k], grid[array], clone, pickle, apply; "
                "non-trivial = distinct (shape class, field kind, acyclic, cap class, max upstream count class, "
                "direction storage, zero/non-zero no-data, no-data cells 0/1/2+, field storage, call number, how each "
                "grid got its values, result accessor)")
    ctx.trusted = cm.STD_TRUST
    ctx.tested_not_proved = ["binary64 sums equal the real-number sums to 1e-9 relative (tested with exact rationals)",
                             "input grids' cell values unchanged (tested after every call against the generated values, for every "
                             "storage type / no-data value of the two grids; dtype conversion is Python glue)"]
    proved = cm.prove_with_kernels(ctx, ["c_accumulate", "c_downstream", "c_neighbours"])
    cm.use_impl()
    from hydrodiy.gis import grid as hygrid
    rng = ctx.rng
    terms, replays = [], []
    orc_fail = set()

    def fail(idx, key, what):
        orc_fail.add(idx)
        ctx.failure(key, replays[idx], what)

    def field_of(kind, n):
        if kind == "unit":
            return [1.0] * n
        if kind == "uniform":
            return [0.1] * n
        if kind == "dyadic":
            return [rng.randint(1, 64) / 8.0 for _ in range(n)]
        if kind == "signed":
            return [rng.choice([0.0, 0.0, -1.5, 2.0, -0.25, 3.0, 1e3]) for _ in range(n)]
        return [rng.uniform(0.0, 10.0) ** 3 for _ in range(n)]


    # ---- every way of putting cell values into a grid (class "how the values got there") ----
    def junk_like(a):
        """array of the shape / dtype of `a` whose values are all plausible but (mostly) different"""
        pool = INT_JUNK if np.issubdtype(a.dtype, np.integer) else FLT_JUNK
        return np.array([rng.choice(pool) for _ in range(a.size)]).astype(a.dtype).reshape(a.shape)

    def other_value(a, k):
        pool = INT_JUNK if np.issubdtype(a.dtype, np.integer) else FLT_JUNK
        return rng.choice([v for v in pool if a.dtype.type(v) != a.flat[k]])

    def wider(dt):
        dt = np.dtype(dt)
        if np.issubdtype(dt, np.integer):
            return np.float64 if dt == np.dtype(np.int64) else np.int64
        return np.float64

    def relayout(a, layout):
        """an object carrying the cell values of the C-contiguous 2-d array `a` (same values, same shape) in
        another container / memory layout; values around windows and between strides are junk"""
        nr, nc = a.shape
        if layout == "c":
            return a.copy()
        if layout == "f":
            return np.asfortranarray(a)
        if layout == "tview":
            return np.ascontiguousarray(a.T).T
        if layout in ("strided", "fstrided"):
            sr, sc = rng.choice([(2, 1), (1, 2), (2, 3), (3, 2)])
            big = junk_like(np.zeros((nr * sr + rng.randint(0, 2), nc * sc + rng.randint(0, 2)), dtype=a.dtype))
            if layout == "fstrided":
                big = np.asfortranarray(big)
            v = big[:nr * sr:sr, :nc * sc:sc]
            v[...] = a
            return v
        if layout in ("window", "fwindow"):
            r0, c0 = rng.randint(0, 2), rng.randint(0, 2)
            big = junk_like(np.zeros((nr + r0 + rng.randint(0, 2), nc + c0 + rng.randint(1, 2)), dtype=a.dtype))
            if layout == "fwindow":
                big = np.asfortranarray(big)
            v = big[r0:r0 + nr, c0:c0 + nc]
            v[...] = a
            return v
        if layout == "neg":
            return a[::-1, ::-1].copy()[::-1, ::-1]
        if layout == "negrows":
            return a[::-1].copy()[::-1]
        if layout == "negcols":
            return a[:, ::-1].copy()[:, ::-1]
        if layout == "fneg":
            return np.asfortranarray(a[::-1, ::-1])[::-1, ::-1]
        if layout in ("readonly", "readonly_f"):
            b = a.copy() if layout == "readonly" else np.asfortranarray(a)
            b.flags.writeable = False
            return b
        if layout in ("swapped", "swapped_f"):
            b = a.astype(a.dtype.newbyteorder())        # non-native byte order
            return b if layout == "swapped" else np.asfortranarray(b)
        if layout in ("wide", "wide_f"):
            b = a.astype(wider(a.dtype))                # another (wider) dtype than the grid's: exact widening
            return b if layout == "wide" else np.asfortranarray(b)
        if layout == "list":
            return a.tolist()
        if layout == "tuple":
            return tuple(tuple(r) for r in a.tolist())
        if layout == "flat1d":                          # a 1-d sequence is a grid of one row
            return a[0].copy() if nr == 1 else np.asfortranarray(a)
        if layout == "bcast":                           # zero strides (read-only): uniform values only
            if a.size and (a == a.flat[0]).all():
                return np.broadcast_to(a.flat[0], a.shape)
            return np.ascontiguousarray(a.T).T
        raise AssertionError(layout)

    def build(name, nrows, ncols, dtype, nodata, exp, how):
        """a Grid of nrows x ncols cells of type dtype holding the values of the array `exp` (of that dtype),
        brought there by how = (route, layout, edit)"""
        route, layout, edit = how
        n = nrows * ncols
        first, cells = exp, []
        if edit is not None and edit != "limits":
            # some cells first hold another value and are corrected in place afterwards
            cells = rng.sample(range(n), min(n, rng.randint(1, 3)))
            first = exp.copy()
            for k in cells:
                first.flat[k] = other_value(exp, k)

        def new(dt=dtype, nc=ncols, nr=nrows):
            return hygrid.Grid(name, nc, nr, dtype=dt, nodata=nodata)
        if route not in ("fill", "clip", "load"):
            src = relayout(first, layout)
        if route == "setter":
            g = new()
            g.data = src
        elif route == "resetter":       # the setter on a grid that already holds (other) values in another layout
            g = new()
            g.data = relayout(junk_like(exp), rng.choice(["c", "f", "tview", "list", "window"]))
            g.data = src
        elif route == "inplace":
            g = new()
            g.data[...] = src
        elif route == "inplace_cells":
            g = new()
            a2 = np.atleast_2d(np.asarray(src))
            for r in range(nrows):
                for c in range(ncols):
                    g.data[r, c] = a2[r, c]
        elif route == "setitem":
            g = new()
            a2 = np.atleast_2d(np.asarray(src))
            g[np.arange(n)] = [a2[k // ncols, k % ncols] for k in range(n)]
        elif route == "setitem_each":
            g = new()
            a2 = np.atleast_2d(np.asarray(src))
            for k in rng.sample(range(n), n):
                g[k] = a2[k // ncols, k % ncols]
        elif route == "fill":           # fill with the most frequent value, then the other cells one by one
            g = new()
            vals = [first.flat[k] for k in range(n)]
            top = max(set(vals), key=vals.count)
            g.fill(top)
            for k in range(n):
                if vals[k] != top:
                    g.data[k // ncols, k % ncols] = vals[k]
        elif route == "clone":
            s = new()
            s.data = src
            g = s.clone()
        elif route == "clone_dtype":    # held as another type, cloned into the wanted type
            s = new(wider(dtype))
            s.data = src
            g = s.clone(dtype)
        elif route == "dtype_setter":
            g = new(wider(dtype))
            g.data = src
            g.dtype = dtype
        elif route == "from_dict":
            g = hygrid.Grid.from_dict(new().to_dict())
            g.data = src
        elif route in ("pickle", "deepcopy", "copy"):
            s = new()
            s.data = src
            g = pickle.loads(pickle.dumps(s)) if route == "pickle" else \
                copy.deepcopy(s) if route == "deepcopy" else copy.copy(s)
        elif route == "apply":
            # generator restriction: the function applied returns a C-ordered array.  Grid.apply stores what the
            # function returns without the data setter's np.ascontiguousarray, so grid.apply(np.transpose) on a
            # square grid (or np.asfortranarray) leaves a Fortran-ordered array in the grid and accumulate then raises
            # ValueError('ndarray is not C-contiguous') on that (valid, acyclic) grid - reported to the coordinator
            # as a defect of Grid.apply, not exercised here.
            s = new()
            s.data = src
            g = s.apply(np.copy)
        elif route == "load":           # binary file (BIL) in the native or the other byte order
            bo = rng.choice(["=", "<", ">"])
            path = cm.scratch() / "c11_load.bin"
            path.write_bytes(first.astype(first.dtype.newbyteorder(bo)).tobytes())
            g = new()
            g.load(str(path), byteorder=bo)
        elif route == "clip":           # the grid is the clip of a larger grid (cell centres of its two corners)
            r0, c0, r1, c1 = rng.randint(0, 2), rng.randint(0, 2), rng.randint(0, 2), rng.randint(0, 2)
            BR, BC = nrows + r0 + r1, ncols + c0 + c1
            bigarr = junk_like(np.zeros((BR, BC), dtype=exp.dtype))
            bigarr[r0:r0 + nrows, c0:c0 + ncols] = first
            big = new(dtype, BC, BR)
            big.data = relayout(bigarr, layout if layout != "flat1d" else "c")
            g = big.clip(c0 + 0.5, BR - 1 - (r0 + nrows - 1) + 0.5, c0 + ncols - 1 + 0.5, BR - 1 - r0 + 0.5)
        else:
            raise AssertionError(route)
        for k in cells:
            r, c, v = k // ncols, k % ncols, exp.flat[k]
            if edit == "rowcol":
                g.data[r, c] = v
            elif edit == "flat":
                g.data.flat[k] = v
            elif edit == "setitem":
                g[k] = v
            elif edit == "row":
                g.data[r, :] = exp[r, :]
            elif edit == "col":
                g.data[:, c] = exp[:, c]
            else:
                raise AssertionError(edit)
        if edit == "limits":
            g.mindata = exp.min()
            g.maxdata = exp.max()
        return g

    def holds(g, exp):
        a = np.asarray(g.data)
        return a.shape == exp.shape and np.array_equal(a.astype(np.float64), exp.astype(np.float64), equal_nan=True)

    def do(nrows, ncols, fd, kind, field, maxcells=-1, nodata=float("nan"), fd_dtype=np.int64, fd_nodata=0,
           field_dtype=np.float64, default_field=None, calls=1, fd_how=None, ta_how=None, read="ravel",
           nprint=10 ** 9, again=()):
        """One pair of grid objects (flow directions stored as fd_dtype with no-data value fd_nodata; field stored
        as field_dtype with no-data value nodata, or the default unit field) taken through `calls` successive
        calls of accumulate; every call is a case of its own (model correspondence + oracle).
        fd_how / ta_how = (route, layout, edit): how the cell values are brought into the two grids (default: the
        data setter with a C array); again = for the calls after the first, (fd_how, ta_how) with which the same
        values are put again into the same grid objects before the call (None = left as they are); read = accessor
        of the result grid; nprint = None leaves the argument at its default."""
        n = nrows * ncols
        fd = [int(v) for v in fd]
        fd_exp = np.array(fd, dtype=fd_dtype).reshape(nrows, ncols)
        assert [int(x) for x in fd_exp.ravel()] == fd, "generator: direction values do not fit the storage type"
        hows = {"flowdir_put": "setter/c" if fd_how is None else "/".join(map(str, fd_how)),
                "field_put": "setter/c" if ta_how is None else "/".join(map(str, ta_how))}
        if fd_how is None:
            g = hygrid.Grid("fd", ncols, nrows, dtype=fd_dtype, nodata=fd_nodata)
            g.data = fd_exp
        else:
            g = build("fd", nrows, ncols, fd_dtype, fd_nodata, fd_exp, fd_how)
        pre_ok = holds(g, fd_exp)
        if default_field is None:
            default_field = kind == "unit" and nodata == float(fd_nodata)
        ta_exp = None
        if default_field:
            # accumulate(flowdir): unit field, no-data value of the flow-direction grid
            ta, stored, nd = None, [1.0] * n, float(g.nodata)
        else:
            ta_exp = np.array(field, dtype=np.float64).reshape(nrows, ncols).astype(field_dtype)
            exact = np.array_equal(ta_exp.astype(np.float64).ravel(), np.array(field, dtype=np.float64))
            if ta_how is None:
                ta = hygrid.Grid("ta", ncols, nrows, dtype=field_dtype, nodata=nodata)
                ta.data = np.array(field, dtype=np.float64).reshape(nrows, ncols)
            else:
                ta = build("ta", nrows, ncols, field_dtype, nodata, ta_exp, ta_how)
            if exact or ta_how is not None:
                # the storage type holds the generated values exactly: these are the accumulated field
                stored, pre_ok = [float(x) for x in ta_exp.ravel()], pre_ok and holds(ta, ta_exp)
            else:
                # the accumulated field is what the grid holds (float32 / integer storage rounds what it is given)
                stored = [float(x) for x in ta.data.ravel()]
            nd = float(ta.nodata)
        fdt = np.dtype(fd_dtype).name
        tat = "default" if ta is None else np.dtype(field_dtype).name
        holes = sum(1 for v in fd if v == fd_nodata)
        capz = n if maxcells == -1 else maxcells
        chains = [chain(fd, nrows, ncols, c) for c in range(n)]
        acyclic = not any(cy for _, _, cy in chains)
        complete = acyclic and all(len(p) <= capz for p, _, _ in chains)
        nup = [0] * n
        for c in range(n):
            for d in chains[c][0]:
                nup[d] += 1

        def oracle(idx, res):
            # ---- oracle (independent of the model) ----
            fd_after = [int(x) for x in np.asarray(g.data).ravel()]
            if pre_ok and (np.shape(g.data) != (nrows, ncols) or fd_after != fd):
                k = next((i for i in range(min(n, len(fd_after))) if fd_after[i] != fd[i]), None)
                fail(idx, "C11/accumulate/input-grid-altered",
                     f"accumulate changed the cell values of the flow-direction grid ({fdt}, no-data value {fd_nodata})"
                     + (f": cell {k} held {fd[k]}, holds {fd_after[k]} after the call" if k is not None else ""))
            if ta is not None and pre_ok:
                ta_after = np.asarray(ta.data, dtype=np.float64)
                if ta_after.shape != (nrows, ncols) or not np.array_equal(
                        ta_after.ravel(), np.array(stored, dtype=np.float64), equal_nan=True):
                    fail(idx, "C11/accumulate/input-grid-altered",
                         f"accumulate changed the cell values of the accumulated field grid ({tat})")
            if res is None:
                if maxcells == -1 or maxcells >= 1:
                    fail(idx, "C11/accumulate/spurious-error", "accumulate raised on a valid grid")
                return
            if len(res) != n:
                fail(idx, "C11/accumulate/not-upstream-sum", f"result has {len(res)} cells, grid has {n}")
                return
            if not complete:
                return      # cycles or a reduced cap: only termination without error is required
            F = [Fraction(x) for x in stored]
            total = list(F)
            for c in range(n):
                for d in chains[c][0]:
                    total[d] += F[c]
            for c in range(n):
                dn = o_down(fd, nrows, ncols, c)
                if dn < 0:
                    ok = (np.isnan(res[c]) and np.isnan(nd)) or res[c] == nd
                    if not ok:
                        fail(idx, "C11/accumulate/terminal-cell-not-nodata",
                             f"cell {c} drains nowhere but carries {res[c]} instead of the no-data value {nd}")
                        return
                    continue
                want = total[c]
                scale = sum(abs(F[u]) for u in range(n) if c in chains[u][0]) + abs(F[c])
                if np.isnan(res[c]) or np.isinf(res[c]) or \
                        abs(Fraction(res[c]) - want) > Fraction(1, 10 ** 9) * max(scale, 1):
                    fail(idx, "C11/accumulate/not-upstream-sum",
                         f"{nrows}x{ncols} grid: accumulation of cell {c} = {res[c]}, sum over the cell and everything "
                         f"upstream = {float(want)}")
                    return
                ups = [u for u in range(n) if o_down(fd, nrows, ncols, u) == c]
                if any(np.isnan(res[u]) or np.isinf(res[u]) for u in ups):
                    continue    # an upstream neighbour failed the previous clause already (reported at that cell)
                loc = F[c] + sum(Fraction(res[u]) for u in ups)
                if abs(Fraction(res[c]) - loc) > Fraction(1, 10 ** 9) * max(scale, 1):
                    fail(idx, "C11/accumulate/not-local-sum",
                         f"accumulation of cell {c} = {res[c]} differs from own value + direct upstream neighbours = {float(loc)}")
                    return

        for call in range(1, calls + 1):
            if call > 1 and call - 2 < len(again) and again[call - 2] is not None:
                # the same values put again into the same grid objects, another way
                fh, th = again[call - 2]
                if fh is not None:
                    g.data = relayout(fd_exp, fh[1])
                    hows["flowdir_put"] += f" then setter/{fh[1]} before call {call}"
                if th is not None and ta is not None:
                    ta.data = relayout(ta_exp, th[1])
                    hows["field_put"] += f" then setter/{th[1]} before call {call}"
                pre_ok = holds(g, fd_exp) and (ta is None or holds(ta, ta_exp))
            replay = {"nrows": nrows, "ncols": ncols, "flowdir": list(fd), "flowdir_dtype": fdt,
                      "flowdir_nodata": int(fd_nodata), "field": list(stored), "field_dtype": tat,
                      "max_accumulated_cells": maxcells, "nodata": repr(nd),
                      "call": f"{call} of {calls} on the same grid objects",
                      "flowdir_put": hows["flowdir_put"], "field_put": hows["field_put"],
                      "result_read": read, "nprint": "default" if nprint is None else nprint}
            cm.mark(replay)
            shape = None
            try:
                with quiet_stdout():
                    if nprint is None:
                        acc = hygrid.accumulate(g, ta, max_accumulated_cells=maxcells)
                    else:
                        acc = hygrid.accumulate(g, ta, nprint=nprint, max_accumulated_cells=maxcells)
                shape = tuple(int(x) for x in np.shape(acc.data))
                res = read_grid(acc, read, nrows, ncols) if shape == (nrows, ncols) else \
                    [float(x) for x in np.asarray(acc.data).ravel()]
            except ValueError:
                res = None
            replay["impl"] = res
            terms.append("{| a_nrows := %s; a_ncols := %s; a_max := %s; a_nodata := %s; a_fd := %s; "
                         "a_field := %s; a_expect := %s |}" % (
                             cm.coq_z(nrows), cm.coq_z(ncols), cm.coq_z(capz), cm.coq_float(nd),
                             cm.coq_zlist(fd), cm.coq_flist(stored), cm.coq_option(res, cm.coq_flist)))
            replays.append(replay)
            idx = len(terms) - 1
            ctx.count(((min(nrows, 3), min(ncols, 3)), kind, acyclic, maxcells == -1, min(max(nup or [0]), 4),
                       res is None, fdt, fd_nodata == 0, min(holes, 2), tat, call,
                       replay["flowdir_put"], replay["field_put"], read))
            if idx % 500 == 0:
                ctx.sample({k: replay[k] for k in ("nrows", "ncols", "flowdir", "flowdir_dtype", "field", "impl")})
            if not pre_ok:
                fail(idx, "C11/accumulate/grid-does-not-hold-given-values",
                     f"before the call the grids do not hold the cell values given to them (flow directions put by "
                     f"{hows['flowdir_put']}, field by {hows['field_put']})")
            if res is not None and shape != (nrows, ncols):
                fail(idx, "C11/accumulate/not-upstream-sum",
                     f"the result grid has shape {shape}, the flow-direction grid {(nrows, ncols)}")
            oracle(idx, res)

    # ---- corpus: the replay of the fixed defect
    do(1, 3, [1, 1, 1], "dyadic", [1.0, 10.0, 100.0])
    # ---- exhaustive tiny grids
    for (nrows, ncols) in [(1, 1), (1, 2), (2, 1), (1, 3), (3, 1)]:
        n = nrows * ncols
        for fd in itertools.product(VALUES, repeat=n):
            do(nrows, ncols, list(fd), "unit", [1.0] * n, nodata=0.0)
            do(nrows, ncols, list(fd), "dyadic", [2.0 ** k for k in range(n)])
            do(nrows, ncols, list(fd), "signed", [(-1.5) ** (k + 1) for k in range(n)], maxcells=rng.choice([-1, 1, 2]))
    # ---- random grids
    S = ctx.scale(10, 24)
    for it in range(ctx.scale(700, 6000)):
        nrows = rng.choice([1, 2, 2, 3, rng.randint(1, S)])
        ncols = rng.choice([1, 2, 2, 3, rng.randint(1, S)])
        n = nrows * ncols
        if rng.random() < 0.8:
            fd = rand_acyclic(rng, nrows, ncols)
        else:
            fd = [rng.choice(VALUES if rng.random() < 0.3 else CODES) for _ in range(n)]
        kind = rng.choice(["unit", "uniform", "dyadic", "dyadic", "signed", "random"])
        maxcells = -1 if rng.random() < 0.8 else rng.choice([1, 2, 3, max(1, n // 2), n + 3])
        nodata = rng.choice([float("nan"), -9999.0, 0.0])
        do(nrows, ncols, fd, kind, field_of(kind, n), maxcells, nodata)
    # ---- stored representations, exhaustive tiny grids: the invalid cell value is the grid's no-data value, every
    #      storage type of the directions x each of its no-data values x default field / each field storage type
    #      (rotating), the same grid objects taken through two calls
    combos = [(dt, ndv, fs) for (dt, ndvs) in FD_STORAGE for ndv in ndvs for fs in [None] + FIELD_STORAGE]
    rng.shuffle(combos)
    k = 0
    for (nrows, ncols) in [(1, 1), (1, 2), (2, 1), (1, 3), (3, 1)]:
        n = nrows * ncols
        for fd in itertools.product(VALUES, repeat=n):
            if 3 not in fd:
                continue
            dt, ndv, fs = combos[k % len(combos)]
            k += 1
            fdh = [ndv if v == 3 else v for v in fd]
            if fs is None:
                do(nrows, ncols, fdh, "unit", [1.0] * n, nodata=float(ndv), fd_dtype=dt, fd_nodata=ndv,
                   default_field=True, calls=2)
            else:
                ft, fnds = fs
                do(nrows, ncols, fdh, "dyadic", [2.0 ** (j + 1) + 1 for j in range(n)], nodata=fnds[k % len(fnds)],
                   fd_dtype=dt, fd_nodata=ndv, field_dtype=ft, default_field=False, calls=2)
    # ---- stored representations, random grids: storage type and no-data value of the directions, cells holding
    #      that no-data value, default field or a field of each storage type, one or two calls on the same objects
    for it in range(ctx.scale(450, 4000)):
        nrows = rng.choice([1, 2, 3, rng.randint(1, S), rng.randint(2, S)])
        ncols = rng.choice([1, 2, 3, rng.randint(1, S), rng.randint(2, S)])
        n = nrows * ncols
        dt, ndvs = rng.choice(FD_STORAGE)
        ndv = rng.choice(ndvs)
        if rng.random() < 0.85:
            fd = rand_acyclic(rng, nrows, ncols)
        else:
            fd = [rng.choice(VALUES if rng.random() < 0.3 else CODES) for _ in range(n)]
        if rng.random() < 0.85:
            ph = rng.choice([0.05, 0.2, 0.5])
            fd = [ndv if rng.random() < ph else v for v in fd]
            fd[rng.randrange(n)] = ndv
        maxcells = -1 if rng.random() < 0.9 else rng.choice([1, 2, max(1, n // 2), n + 3])
        calls = rng.choice([1, 2])
        if rng.random() < 0.3:
            do(nrows, ncols, fd, "unit", [1.0] * n, maxcells, float(ndv), fd_dtype=dt, fd_nodata=ndv,
               default_field=True, calls=calls)
            continue
        ft, fnds = rng.choice(FIELD_STORAGE)
        if np.issubdtype(ft, np.integer):
            kind = rng.choice(["unit", "count", "signed"])
            field = [float(rng.randint(0, 1000)) for _ in range(n)] if kind == "count" else field_of(kind, n)
        else:
            kind = rng.choice(["unit", "uniform", "dyadic", "signed", "random"])
            field = field_of(kind, n)
        do(nrows, ncols, fd, kind, field, maxcells, rng.choice(fnds), fd_dtype=dt, fd_nodata=ndv, field_dtype=ft,
           default_field=False, calls=calls)


    # ---- how the cell values got into the two grids and how the result is read: the property speaks of cell values,
    #      so it holds for every container / memory layout of what the caller assigns (C, Fortran, transposed, strided,
    #      windows of larger arrays, negative strides, read-only, zero strides, other byte order, other dtype, lists,
    #      tuples, 1-d rows), every operation that brings it into the grid (data setter on a fresh or used grid,
    #      in-place assignment to grid.data, grid[k] = v, fill, clone, clone(dtype), dtype setter, from_dict, pickle,
    #      copy, clip of a larger grid, apply, load of a binary file), in-place corrections and data limits afterwards, for the flow-direction grid (with the
    #      default unit field, which is derived from it) and for the field grid; result read through every accessor.
    #      Same independent upstream-sum oracle; before the call the grids must hold the generated values.
    reads = itertools.cycle(READS)

    def put_case(nrows, ncols, target, fd_how, ta_how, maxcells=-1, calls=1, again=(), nprint=10 ** 9, cyclic=False):
        n = nrows * ncols
        dt, ndvs = rng.choice(FD_STORAGE)
        ndv = rng.choice(ndvs)
        if fd_how is not None and fd_how[1] == "bcast":
            fd = [rng.choice(CODES)] * n                # one direction everywhere: acyclic, uniform
        elif cyclic:
            fd = [rng.choice(VALUES if rng.random() < 0.3 else CODES) for _ in range(n)]
        else:
            fd = rand_acyclic(rng, nrows, ncols)
            if rng.random() < 0.4:
                fd = [ndv if rng.random() < 0.15 else v for v in fd]
        if maxcells == "longest":
            L = max(len(chain(fd, nrows, ncols, c)[0]) for c in range(n))
            maxcells = L if L >= 1 else -1
        if target == "flowdir-default":
            do(nrows, ncols, fd, "unit", [1.0] * n, maxcells, float(ndv), fd_dtype=dt, fd_nodata=ndv,
               default_field=True, calls=calls, fd_how=fd_how, read=next(reads), nprint=nprint, again=again)
            return
        ft, fnds = rng.choice(FIELD_STORAGE)
        if ta_how is not None and ta_how[1] == "bcast":
            kind = rng.choice(["unit", "uniform"])
            field = field_of(kind, n)
        elif np.issubdtype(ft, np.integer):
            kind = rng.choice(["unit", "count"])
            field = [float(rng.randint(0, 1000)) for _ in range(n)] if kind == "count" else field_of(kind, n)
        else:
            kind = rng.choice(["uniform", "dyadic", "signed", "random"])
            field = field_of(kind, n)
        do(nrows, ncols, fd, kind, field, maxcells, rng.choice(fnds), fd_dtype=dt, fd_nodata=ndv, field_dtype=ft,
           default_field=False, calls=calls, fd_how=fd_how if target != "field" else None, ta_how=ta_how,
           read=next(reads), nprint=nprint, again=again)

    def side(layout=None):
        return rng.choice([2, 2, 3, 3, 4, 5])

    TARGETS = ["field", "flowdir-default", "both"]
    FLIKE = ["f", "tview", "fwindow", "fstrided", "fneg", "readonly_f", "swapped_f", "wide_f"]
    for rep in range(ctx.scale(1, 8)):
        # every layout, by the setter on a fresh and on a used grid
        for layout in LAYOUTS:
            for target in TARGETS:
                for route in ("setter", "resetter"):
                    nrows, ncols = (1, rng.randint(2, 6)) if layout == "flat1d" else (side(), side())
                    put_case(nrows, ncols, target, (route, layout, None), (route, layout, None))
        # every route, with a C and with a Fortran-like source
        for route in ROUTES:
            for target in TARGETS:
                for layout in ("c", rng.choice(FLIKE), rng.choice(LAYOUTS)):
                    nrows, ncols = (1, rng.randint(2, 6)) if layout == "flat1d" else (side(), side())
                    put_case(nrows, ncols, target, (route, layout, None), (route, layout, None))
        # every kind of in-place correction after the values were put
        for edit in EDITS[1:]:
            for target in TARGETS:
                for layout in ("c", rng.choice(FLIKE)):
                    route = rng.choice(["setter", "resetter", "clone", "pickle", "from_dict"])
                    put_case(side(), side(), target, (route, layout, edit), (route, layout, edit))
        # the same grid objects through several calls, the same values put again in another layout in between
        for layout in ["c"] + FLIKE:
            for target in TARGETS:
                l2 = rng.choice(LAYOUTS[:-2])
                put_case(side(), side(), target, ("setter", l2, None), ("setter", l2, None), calls=2,
                         again=[(("setter", layout, None), ("setter", layout, None))])

    def rand_how():
        return (rng.choice(ROUTES), rng.choice(LAYOUTS[:-2] if rng.random() < 0.9 else LAYOUTS), rng.choice(EDITS + [None] * 6))
    for it in range(ctx.scale(260, 4000)):
        nrows = rng.choice([1, 2, 2, 3, 3, rng.randint(1, S), rng.randint(2, S)])
        ncols = rng.choice([1, 2, 2, 3, 3, rng.randint(1, S), rng.randint(2, S)])
        n = nrows * ncols
        calls = rng.choice([1, 1, 2, 3])
        again = [rng.choice([None, (rand_how(), rand_how()), (rand_how(), None), (None, rand_how())])
                 for _ in range(calls - 1)]
        u = rng.random()
        maxcells = -1 if u < 0.75 else "longest" if u < 0.9 else rng.choice([n, n + 3, max(1, n - 1)])
        put_case(nrows, ncols, rng.choice(TARGETS), rand_how(), rand_how(), maxcells, calls, again,
                 nprint=rng.choice([None, 1, 3, 10 ** 9, 10 ** 9]), cyclic=rng.random() < 0.1)

    # ---- longest possible flow path: every cell of the grid on one meandering path (row-wise or column-wise
    #      boustrophedon, either end as the outlet), so that the walk from the head takes nrows*ncols - 1 steps -
    #      the most an acyclic grid can ask of the default cell limit
    step = {v: k for k, v in ESRI.items()}
    for it in range(ctx.scale(24, 120)):
        nrows, ncols = rng.randint(1, S), rng.randint(1, S)
        n = nrows * ncols
        if rng.random() < 0.5:
            order = [(r, k if r % 2 == 0 else ncols - 1 - k) for r in range(nrows) for k in range(ncols)]
        else:
            order = [(r if k % 2 == 0 else nrows - 1 - r, k) for k in range(ncols) for r in range(nrows)]
        if rng.random() < 0.5:
            order.reverse()
        dt, ndvs = rng.choice(FD_STORAGE)
        ndv = rng.choice(ndvs)
        fd = [0] * n
        for (r, k), (r2, k2) in zip(order, order[1:]):
            fd[r * ncols + k] = step[(r2 - r, k2 - k)]
        r, k = order[-1]
        fd[r * ncols + k] = rng.choice([0, 3, ndv] + [c for c in CODES if not (
            0 <= r + ESRI[c][0] < nrows and 0 <= k + ESRI[c][1] < ncols)])
        if rng.random() < 0.4:
            do(nrows, ncols, fd, "unit", [1.0] * n, -1, float(ndv), fd_dtype=dt, fd_nodata=ndv, default_field=True)
        else:
            ft, fnds = rng.choice(FIELD_STORAGE[:2])
            kind = rng.choice(["uniform", "dyadic", "signed", "random"])
            do(nrows, ncols, fd, kind, field_of(kind, n), -1, rng.choice(fnds), fd_dtype=dt, fd_nodata=ndv,
               field_dtype=ft, default_field=False)

    bad, nshards, failed = cm.run_case_files(PID, HEADER, "acase", "a_ok", terms, shard=600, max_bytes=300000)
    ctx.notes["correspondence_cases"] = len(terms)
    ctx.notes["correspondence_mismatches"] = len(bad)
    for k in range(nshards):
        ctx.obligation(f"Cases_{PID}_{k}.agree (model = implementation on the shard)", True)
    cm.settle(ctx, proved, bad, failed, orc_fail, lambda i: replays[i],
              "Model/Accumulate.v vs c_grid.c:c_accumulate + grid.py:accumulate")
    return ctx.finish()
