"""C11 - flow accumulation equals the sum over everything upstream."""
import itertools
import os
from fractions import Fraction

import numpy as np

from harness import common as cm
from harness.props.c06 import ESRI, CODES, VALUES, o_down, rand_acyclic

PID = "C11"
HEADER = ("From Coq Require Import ZArith List PrimFloat.\n"
          "From Hy Require Import Base.Num Model.Grid Model.Catchment Model.Accumulate.")


class quiet_stdout:
    """c_accumulate prints its progress with fprintf(stdout): silence file descriptor 1."""

    def __enter__(self):
        import sys
        sys.stdout.flush()
        self.saved = os.dup(1)
        self.null = os.open(os.devnull, os.O_WRONLY)
        os.dup2(self.null, 1)

    def __exit__(self, *a):
        # the C library buffers its output: flush it into /dev/null before restoring
        import ctypes
        ctypes.CDLL(None).fflush(None)
        os.dup2(self.saved, 1)
        os.close(self.saved)
        os.close(self.null)


def chain(fd, nrows, ncols, c):
    """cells down^1 c, down^2 c, ... ; (list, terminal cell, cyclic?)"""
    out, seen, cur = [], {c}, c
    while True:
        d = o_down(fd, nrows, ncols, cur)
        if d < 0:
            return out, cur, False
        if d in seen:
            return out, None, True
        out.append(d)
        seen.add(d)
        cur = d


def run(ctx):
    ctx.rule = ("exhaustive: every grid with <= 3 cells over 10 cell values (8 codes, sink, invalid) x 3 fields; "
                "random acyclic forests and arbitrary (cyclic) grids up to 10x10 (thorough 24x24); fields uniform / "
                "positive dyadic / zeros and negatives / random doubles; default and reduced max_accumulated_cells; "
                "non-trivial = distinct (shape class, field kind, acyclic, cap class, max upstream count class)")
    ctx.trusted = cm.STD_TRUST
    ctx.tested_not_proved = ["binary64 sums equal the real-number sums to 1e-9 relative (tested with exact rationals)",
                             "input grids' cell values unchanged (tested before/after; dtype conversion is Python glue)"]
    proved = cm.prove_with_kernels(ctx, ["c_accumulate", "c_downstream", "c_neighbours"])
    cm.use_impl()
    from hydrodiy.gis import grid as hygrid
    rng = ctx.rng
    terms, replays = [], []
    orc_fail = set()

    def fail(idx, key, what):
        orc_fail.add(idx)
        ctx.failure(key, replays[idx], what)

    def field_of(kind, n):
        if kind == "unit":
            return [1.0] * n
        if kind == "uniform":
            return [0.1] * n
        if kind == "dyadic":
            return [rng.randint(1, 64) / 8.0 for _ in range(n)]
        if kind == "signed":
            return [rng.choice([0.0, 0.0, -1.5, 2.0, -0.25, 3.0, 1e3]) for _ in range(n)]
        return [rng.uniform(0.0, 10.0) ** 3 for _ in range(n)]

    def do(nrows, ncols, fd, kind, field, maxcells=-1, nodata=float("nan")):
        n = nrows * ncols
        g = hygrid.Grid("fd", ncols, nrows, dtype=np.int64)
        g.data = np.array(fd, dtype=np.int64).reshape(nrows, ncols)
        if kind == "unit" and nodata == 0.0:
            ta = None
        else:
            ta = hygrid.Grid("ta", ncols, nrows, dtype=np.float64, nodata=nodata)
            ta.data = np.array(field, dtype=np.float64).reshape(nrows, ncols)
        fd_before = g.data.copy()
        ta_before = ta.data.copy() if ta is not None else None
        replay = {"nrows": nrows, "ncols": ncols, "flowdir": list(fd), "field": list(field),
                  "max_accumulated_cells": maxcells, "nodata": repr(nodata)}
        cm.mark(replay)
        try:
            with quiet_stdout():
                acc = hygrid.accumulate(g, ta, nprint=10 ** 9, max_accumulated_cells=maxcells)
            res = [float(x) for x in acc.data.ravel()]
        except ValueError:
            res = None
        replay["impl"] = res
        capz = n if maxcells == -1 else maxcells
        chains = [chain(fd, nrows, ncols, c) for c in range(n)]
        acyclic = not any(cy for _, _, cy in chains)
        complete = acyclic and all(len(p) <= capz for p, _, _ in chains)
        nup = [0] * n
        for c in range(n):
            for d in chains[c][0]:
                nup[d] += 1
        terms.append("{| a_nrows := %s; a_ncols := %s; a_max := %s; a_nodata := %s; a_fd := %s; "
                     "a_field := %s; a_expect := %s |}" % (
                         cm.coq_z(nrows), cm.coq_z(ncols), cm.coq_z(capz), cm.coq_float(nodata),
                         cm.coq_zlist(fd), cm.coq_flist(field), cm.coq_option(res, cm.coq_flist)))
        replays.append(replay)
        idx = len(terms) - 1
        ctx.count(((min(nrows, 3), min(ncols, 3)), kind, acyclic, maxcells == -1, min(max(nup or [0]), 4),
                   res is None))
        if idx % 500 == 0:
            ctx.sample({k: replay[k] for k in ("nrows", "ncols", "flowdir", "field", "impl")})
        # ---- oracle (independent of the model) ----
        if not np.array_equal(g.data, fd_before) or (ta is not None and not np.array_equal(
                ta.data, ta_before, equal_nan=True)):
            fail(idx, "C11/accumulate/input-grid-altered", "accumulate changed the cell values of an input grid")
        if res is None:
            if maxcells == -1 or maxcells >= 1:
                fail(idx, "C11/accumulate/spurious-error", "accumulate raised on a valid grid")
            return
        if not complete:
            return      # cycles or a reduced cap: only termination without error is required
        F = [Fraction(x) for x in field]
        total = list(F)
        for c in range(n):
            for d in chains[c][0]:
                total[d] += F[c]
        for c in range(n):
            dn = o_down(fd, nrows, ncols, c)
            if dn < 0:
                ok = (np.isnan(res[c]) and np.isnan(nodata)) or res[c] == nodata
                if not ok:
                    fail(idx, "C11/accumulate/terminal-cell-not-nodata",
                         f"cell {c} drains nowhere but carries {res[c]} instead of the no-data value {nodata}")
                    return
                continue
            want = total[c]
            scale = sum(abs(F[u]) for u in range(n) if c in chains[u][0]) + abs(F[c])
            if abs(Fraction(res[c]) - want) > Fraction(1, 10 ** 9) * max(scale, 1):
                fail(idx, "C11/accumulate/not-upstream-sum",
                     f"{nrows}x{ncols} grid: accumulation of cell {c} = {res[c]}, sum over the cell and everything "
                     f"upstream = {float(want)}")
                return
            ups = [u for u in range(n) if o_down(fd, nrows, ncols, u) == c]
            loc = F[c] + sum(Fraction(res[u]) for u in ups)
            if abs(Fraction(res[c]) - loc) > Fraction(1, 10 ** 9) * max(scale, 1):
                fail(idx, "C11/accumulate/not-local-sum",
                     f"accumulation of cell {c} = {res[c]} differs from own value + direct upstream neighbours = {float(loc)}")
                return

    # ---- corpus: the replay of the fixed defect
    do(1, 3, [1, 1, 1], "dyadic", [1.0, 10.0, 100.0])
    # ---- exhaustive tiny grids
    for (nrows, ncols) in [(1, 1), (1, 2), (2, 1), (1, 3), (3, 1)]:
        n = nrows * ncols
        for fd in itertools.product(VALUES, repeat=n):
            do(nrows, ncols, list(fd), "unit", [1.0] * n, nodata=0.0)
            do(nrows, ncols, list(fd), "dyadic", [2.0 ** k for k in range(n)])
            do(nrows, ncols, list(fd), "signed", [(-1.5) ** (k + 1) for k in range(n)], maxcells=rng.choice([-1, 1, 2]))
    # ---- random grids
    S = ctx.scale(10, 24)
    for it in range(ctx.scale(700, 6000)):
        nrows = rng.choice([1, 2, 2, 3, rng.randint(1, S)])
        ncols = rng.choice([1, 2, 2, 3, rng.randint(1, S)])
        n = nrows * ncols
        if rng.random() < 0.8:
            fd = rand_acyclic(rng, nrows, ncols)
        else:
            fd = [rng.choice(VALUES if rng.random() < 0.3 else CODES) for _ in range(n)]
        kind = rng.choice(["unit", "uniform", "dyadic", "dyadic", "signed", "random"])
        maxcells = -1 if rng.random() < 0.8 else rng.choice([1, 2, 3, max(1, n // 2), n + 3])
        nodata = rng.choice([float("nan"), -9999.0, 0.0])
        do(nrows, ncols, fd, kind, field_of(kind, n), maxcells, nodata)

    bad, nshards, failed = cm.run_case_files(PID, HEADER, "acase", "a_ok", terms, shard=600, max_bytes=300000)
    ctx.notes["correspondence_cases"] = len(terms)
    ctx.notes["correspondence_mismatches"] = len(bad)
    for k in range(nshards):
        ctx.obligation(f"Cases_{PID}_{k}.agree (model = implementation on the shard)", True)
    cm.settle(ctx, proved, bad, failed, orc_fail, lambda i: replays[i],
              "Model/Accumulate.v vs c_grid.c:c_accumulate + grid.py:accumulate")
    return ctx.finish()
