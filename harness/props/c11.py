"""C11 - flow accumulation equals the sum over everything upstream."""
import itertools
import os
from fractions import Fraction

import numpy as np

from harness import common as cm
from harness.props.c06 import ESRI, CODES, VALUES, o_down, rand_acyclic

PID = "C11"
HEADER = ("From Coq Require Import ZArith List PrimFloat.\n"
          "From Hy Require Import Base.Num Model.Grid Model.Catchment Model.Accumulate.")


# Stored representations of the two input grids (the property speaks of cell values, whatever
# the array type that holds them): integer types of the flow-direction grid with the no-data
# values they can hold (0 = the Grid default, the others are usual raster conventions; none is
# one of the eight direction codes), and types of the accumulated field with their no-data values.
FD_STORAGE = [
    (np.int64, [0, -1, -9999, 255, 3]),
    (np.int32, [0, -1, -9999, 255, -2147483648]),
    (np.int16, [0, -1, -9999, 255, -32768]),
    (np.uint8, [0, 255, 3]),
    (np.uint16, [0, 255, 65535]),
    (np.uint32, [0, 255, 4294967295]),
]
FIELD_STORAGE = [
    (np.float64, [float("nan"), -9999.0, 0.0, -1.0]),
    (np.float32, [float("nan"), -9999.0, 0.0, -1.0]),
    (np.int32, [-9999, 0, -1]),
    (np.int64, [-9999, 0, -1]),
]


class quiet_stdout:
    """c_accumulate prints its progress with fprintf(stdout): silence file descriptor 1."""

    def __enter__(self):
        import sys
        sys.stdout.flush()
        self.saved = os.dup(1)
        self.null = os.open(os.devnull, os.O_WRONLY)
        os.dup2(self.null, 1)

    def __exit__(self, *a):
        # the C library buffers its output: flush it into /dev/null before restoring
        import ctypes
        ctypes.CDLL(None).fflush(None)
        os.dup2(self.saved, 1)
        os.close(self.saved)
        os.close(self.null)


def chain(fd, nrows, ncols, c):
    """cells down^1 c, down^2 c, ... ; (list, terminal cell, cyclic?)"""
    out, seen, cur = [], {c}, c
    while True:
        d = o_down(fd, nrows, ncols, cur)
        if d < 0:
            return out, cur, False
        if d in seen:
            return out, None, True
        out.append(d)
        seen.add(d)
        cur = d


def run(ctx):
    ctx.rule = ("exhaustive: every grid with <= 3 cells over 10 cell values (8 codes, sink, invalid) x 3 fields; "
                "random acyclic forests and arbitrary (cyclic) grids up to 10x10 (thorough 24x24); fields uniform / "
                "positive dyadic / zeros and negatives / random doubles; default and reduced max_accumulated_cells; "
                "stored representations: directions held as int64/int32/int16/uint8/uint16/uint32 with zero and "
                "non-zero no-data values and cells holding that value (exhaustive on <= 3 cells with the invalid value "
                "= the no-data value, random beyond), field = default / float64 / float32 / int32 / int64 grids with "
                "NaN and numeric no-data values, the same grid objects taken through one or two successive calls "
                "(each call checked; cell values of both inputs compared with the generated values after every call); "
                "boustrophedon grids whose single flow path visits every cell (longest walk under the default limit); "
                "non-trivial = distinct (shape class, field kind, acyclic, cap class, max upstream count class, "
                "direction storage, zero/non-zero no-data, no-data cells 0/1/2+, field storage, call number)")
    ctx.trusted = cm.STD_TRUST
    ctx.tested_not_proved = ["binary64 sums equal the real-number sums to 1e-9 relative (tested with exact rationals)",
                             "input grids' cell values unchanged (tested after every call against the generated values, for every "
                             "storage type / no-data value of the two grids; dtype conversion is Python glue)"]
    proved = cm.prove_with_kernels(ctx, ["c_accumulate", "c_downstream", "c_neighbours"])
    cm.use_impl()
    from hydrodiy.gis import grid as hygrid
    rng = ctx.rng
    terms, replays = [], []
    orc_fail = set()

    def fail(idx, key, what):
        orc_fail.add(idx)
        ctx.failure(key, replays[idx], what)

    def field_of(kind, n):
        if kind == "unit":
            return [1.0] * n
        if kind == "uniform":
            return [0.1] * n
        if kind == "dyadic":
            return [rng.randint(1, 64) / 8.0 for _ in range(n)]
        if kind == "signed":
            return [rng.choice([0.0, 0.0, -1.5, 2.0, -0.25, 3.0, 1e3]) for _ in range(n)]
        return [rng.uniform(0.0, 10.0) ** 3 for _ in range(n)]

    def do(nrows, ncols, fd, kind, field, maxcells=-1, nodata=float("nan"), fd_dtype=np.int64, fd_nodata=0,
           field_dtype=np.float64, default_field=None, calls=1):
        """One pair of grid objects (flow directions stored as fd_dtype with no-data value fd_nodata; field stored
        as field_dtype with no-data value nodata, or the default unit field) taken through `calls` successive
        calls of accumulate; every call is a case of its own (model correspondence + oracle)."""
        n = nrows * ncols
        fd = [int(v) for v in fd]
        g = hygrid.Grid("fd", ncols, nrows, dtype=fd_dtype, nodata=fd_nodata)
        g.data = np.array(fd, dtype=fd_dtype).reshape(nrows, ncols)
        assert [int(x) for x in g.data.ravel()] == fd, "generator: direction values do not fit the storage type"
        if default_field is None:
            default_field = kind == "unit" and nodata == float(fd_nodata)
        if default_field:
            # accumulate(flowdir): unit field, no-data value of the flow-direction grid
            ta, stored, nd = None, [1.0] * n, float(g.nodata)
        else:
            ta = hygrid.Grid("ta", ncols, nrows, dtype=field_dtype, nodata=nodata)
            ta.data = np.array(field, dtype=np.float64).reshape(nrows, ncols)
            # the accumulated field is what the grid holds (float32 / integer storage rounds what it is given)
            stored, nd = [float(x) for x in ta.data.ravel()], float(ta.nodata)
        fdt = np.dtype(fd_dtype).name
        tat = "default" if ta is None else np.dtype(field_dtype).name
        holes = sum(1 for v in fd if v == fd_nodata)
        capz = n if maxcells == -1 else maxcells
        chains = [chain(fd, nrows, ncols, c) for c in range(n)]
        acyclic = not any(cy for _, _, cy in chains)
        complete = acyclic and all(len(p) <= capz for p, _, _ in chains)
        nup = [0] * n
        for c in range(n):
            for d in chains[c][0]:
                nup[d] += 1

        def oracle(idx, res):
            # ---- oracle (independent of the model) ----
            fd_after = [int(x) for x in np.asarray(g.data).ravel()]
            if np.shape(g.data) != (nrows, ncols) or fd_after != fd:
                k = next((i for i in range(min(n, len(fd_after))) if fd_after[i] != fd[i]), None)
                fail(idx, "C11/accumulate/input-grid-altered",
                     f"accumulate changed the cell values of the flow-direction grid ({fdt}, no-data value {fd_nodata})"
                     + (f": cell {k} held {fd[k]}, holds {fd_after[k]} after the call" if k is not None else ""))
            if ta is not None:
                ta_after = np.asarray(ta.data, dtype=np.float64)
                if ta_after.shape != (nrows, ncols) or not np.array_equal(
                        ta_after.ravel(), np.array(stored, dtype=np.float64), equal_nan=True):
                    fail(idx, "C11/accumulate/input-grid-altered",
                         f"accumulate changed the cell values of the accumulated field grid ({tat})")
            if res is None:
                if maxcells == -1 or maxcells >= 1:
                    fail(idx, "C11/accumulate/spurious-error", "accumulate raised on a valid grid")
                return
            if len(res) != n:
                fail(idx, "C11/accumulate/not-upstream-sum", f"result has {len(res)} cells, grid has {n}")
                return
            if not complete:
                return      # cycles or a reduced cap: only termination without error is required
            F = [Fraction(x) for x in stored]
            total = list(F)
            for c in range(n):
                for d in chains[c][0]:
                    total[d] += F[c]
            for c in range(n):
                dn = o_down(fd, nrows, ncols, c)
                if dn < 0:
                    ok = (np.isnan(res[c]) and np.isnan(nd)) or res[c] == nd
                    if not ok:
                        fail(idx, "C11/accumulate/terminal-cell-not-nodata",
                             f"cell {c} drains nowhere but carries {res[c]} instead of the no-data value {nd}")
                        return
                    continue
                want = total[c]
                scale = sum(abs(F[u]) for u in range(n) if c in chains[u][0]) + abs(F[c])
                if np.isnan(res[c]) or np.isinf(res[c]) or \
                        abs(Fraction(res[c]) - want) > Fraction(1, 10 ** 9) * max(scale, 1):
                    fail(idx, "C11/accumulate/not-upstream-sum",
                         f"{nrows}x{ncols} grid: accumulation of cell {c} = {res[c]}, sum over the cell and everything "
                         f"upstream = {float(want)}")
                    return
                ups = [u for u in range(n) if o_down(fd, nrows, ncols, u) == c]
                if any(np.isnan(res[u]) or np.isinf(res[u]) for u in ups):
                    continue    # an upstream neighbour failed the previous clause already (reported at that cell)
                loc = F[c] + sum(Fraction(res[u]) for u in ups)
                if abs(Fraction(res[c]) - loc) > Fraction(1, 10 ** 9) * max(scale, 1):
                    fail(idx, "C11/accumulate/not-local-sum",
                         f"accumulation of cell {c} = {res[c]} differs from own value + direct upstream neighbours = {float(loc)}")
                    return

        for call in range(1, calls + 1):
            replay = {"nrows": nrows, "ncols": ncols, "flowdir": list(fd), "flowdir_dtype": fdt,
                      "flowdir_nodata": int(fd_nodata), "field": list(stored), "field_dtype": tat,
                      "max_accumulated_cells": maxcells, "nodata": repr(nd),
                      "call": f"{call} of {calls} on the same grid objects"}
            cm.mark(replay)
            try:
                with quiet_stdout():
                    acc = hygrid.accumulate(g, ta, nprint=10 ** 9, max_accumulated_cells=maxcells)
                res = [float(x) for x in acc.data.ravel()]
            except ValueError:
                res = None
            replay["impl"] = res
            terms.append("{| a_nrows := %s; a_ncols := %s; a_max := %s; a_nodata := %s; a_fd := %s; "
                         "a_field := %s; a_expect := %s |}" % (
                             cm.coq_z(nrows), cm.coq_z(ncols), cm.coq_z(capz), cm.coq_float(nd),
                             cm.coq_zlist(fd), cm.coq_flist(stored), cm.coq_option(res, cm.coq_flist)))
            replays.append(replay)
            idx = len(terms) - 1
            ctx.count(((min(nrows, 3), min(ncols, 3)), kind, acyclic, maxcells == -1, min(max(nup or [0]), 4),
                       res is None, fdt, fd_nodata == 0, min(holes, 2), tat, call))
            if idx % 500 == 0:
                ctx.sample({k: replay[k] for k in ("nrows", "ncols", "flowdir", "flowdir_dtype", "field", "impl")})
            oracle(idx, res)

    # ---- corpus: the replay of the fixed defect
    do(1, 3, [1, 1, 1], "dyadic", [1.0, 10.0, 100.0])
    # ---- exhaustive tiny grids
    for (nrows, ncols) in [(1, 1), (1, 2), (2, 1), (1, 3), (3, 1)]:
        n = nrows * ncols
        for fd in itertools.product(VALUES, repeat=n):
            do(nrows, ncols, list(fd), "unit", [1.0] * n, nodata=0.0)
            do(nrows, ncols, list(fd), "dyadic", [2.0 ** k for k in range(n)])
            do(nrows, ncols, list(fd), "signed", [(-1.5) ** (k + 1) for k in range(n)], maxcells=rng.choice([-1, 1, 2]))
    # ---- random grids
    S = ctx.scale(10, 24)
    for it in range(ctx.scale(700, 6000)):
        nrows = rng.choice([1, 2, 2, 3, rng.randint(1, S)])
        ncols = rng.choice([1, 2, 2, 3, rng.randint(1, S)])
        n = nrows * ncols
        if rng.random() < 0.8:
            fd = rand_acyclic(rng, nrows, ncols)
        else:
            fd = [rng.choice(VALUES if rng.random() < 0.3 else CODES) for _ in range(n)]
        kind = rng.choice(["unit", "uniform", "dyadic", "dyadic", "signed", "random"])
        maxcells = -1 if rng.random() < 0.8 else rng.choice([1, 2, 3, max(1, n // 2), n + 3])
        nodata = rng.choice([float("nan"), -9999.0, 0.0])
        do(nrows, ncols, fd, kind, field_of(kind, n), maxcells, nodata)
    # ---- stored representations, exhaustive tiny grids: the invalid cell value is the grid's no-data value, every
    #      storage type of the directions x each of its no-data values x default field / each field storage type
    #      (rotating), the same grid objects taken through two calls
    combos = [(dt, ndv, fs) for (dt, ndvs) in FD_STORAGE for ndv in ndvs for fs in [None] + FIELD_STORAGE]
    rng.shuffle(combos)
    k = 0
    for (nrows, ncols) in [(1, 1), (1, 2), (2, 1), (1, 3), (3, 1)]:
        n = nrows * ncols
        for fd in itertools.product(VALUES, repeat=n):
            if 3 not in fd:
                continue
            dt, ndv, fs = combos[k % len(combos)]
            k += 1
            fdh = [ndv if v == 3 else v for v in fd]
            if fs is None:
                do(nrows, ncols, fdh, "unit", [1.0] * n, nodata=float(ndv), fd_dtype=dt, fd_nodata=ndv,
                   default_field=True, calls=2)
            else:
                ft, fnds = fs
                do(nrows, ncols, fdh, "dyadic", [2.0 ** (j + 1) + 1 for j in range(n)], nodata=fnds[k % len(fnds)],
                   fd_dtype=dt, fd_nodata=ndv, field_dtype=ft, default_field=False, calls=2)
    # ---- stored representations, random grids: storage type and no-data value of the directions, cells holding
    #      that no-data value, default field or a field of each storage type, one or two calls on the same objects
    for it in range(ctx.scale(450, 4000)):
        nrows = rng.choice([1, 2, 3, rng.randint(1, S), rng.randint(2, S)])
        ncols = rng.choice([1, 2, 3, rng.randint(1, S), rng.randint(2, S)])
        n = nrows * ncols
        dt, ndvs = rng.choice(FD_STORAGE)
        ndv = rng.choice(ndvs)
        if rng.random() < 0.85:
            fd = rand_acyclic(rng, nrows, ncols)
        else:
            fd = [rng.choice(VALUES if rng.random() < 0.3 else CODES) for _ in range(n)]
        if rng.random() < 0.85:
            ph = rng.choice([0.05, 0.2, 0.5])
            fd = [ndv if rng.random() < ph else v for v in fd]
            fd[rng.randrange(n)] = ndv
        maxcells = -1 if rng.random() < 0.9 else rng.choice([1, 2, max(1, n // 2), n + 3])
        calls = rng.choice([1, 2])
        if rng.random() < 0.3:
            do(nrows, ncols, fd, "unit", [1.0] * n, maxcells, float(ndv), fd_dtype=dt, fd_nodata=ndv,
               default_field=True, calls=calls)
            continue
        ft, fnds = rng.choice(FIELD_STORAGE)
        if np.issubdtype(ft, np.integer):
            kind = rng.choice(["unit", "count", "signed"])
            field = [float(rng.randint(0, 1000)) for _ in range(n)] if kind == "count" else field_of(kind, n)
        else:
            kind = rng.choice(["unit", "uniform", "dyadic", "signed", "random"])
            field = field_of(kind, n)
        do(nrows, ncols, fd, kind, field, maxcells, rng.choice(fnds), fd_dtype=dt, fd_nodata=ndv, field_dtype=ft,
           default_field=False, calls=calls)

    # ---- longest possible flow path: every cell of the grid on one meandering path (row-wise or column-wise
    #      boustrophedon, either end as the outlet), so that the walk from the head takes nrows*ncols - 1 steps -
    #      the most an acyclic grid can ask of the default cell limit
    step = {v: k for k, v in ESRI.items()}
    for it in range(ctx.scale(24, 120)):
        nrows, ncols = rng.randint(1, S), rng.randint(1, S)
        n = nrows * ncols
        if rng.random() < 0.5:
            order = [(r, k if r % 2 == 0 else ncols - 1 - k) for r in range(nrows) for k in range(ncols)]
        else:
            order = [(r if k % 2 == 0 else nrows - 1 - r, k) for k in range(ncols) for r in range(nrows)]
        if rng.random() < 0.5:
            order.reverse()
        dt, ndvs = rng.choice(FD_STORAGE)
        ndv = rng.choice(ndvs)
        fd = [0] * n
        for (r, k), (r2, k2) in zip(order, order[1:]):
            fd[r * ncols + k] = step[(r2 - r, k2 - k)]
        r, k = order[-1]
        fd[r * ncols + k] = rng.choice([0, 3, ndv] + [c for c in CODES if not (
            0 <= r + ESRI[c][0] < nrows and 0 <= k + ESRI[c][1] < ncols)])
        if rng.random() < 0.4:
            do(nrows, ncols, fd, "unit", [1.0] * n, -1, float(ndv), fd_dtype=dt, fd_nodata=ndv, default_field=True)
        else:
            ft, fnds = rng.choice(FIELD_STORAGE[:2])
            kind = rng.choice(["uniform", "dyadic", "signed", "random"])
            do(nrows, ncols, fd, kind, field_of(kind, n), -1, rng.choice(fnds), fd_dtype=dt, fd_nodata=ndv,
               field_dtype=ft, default_field=False)

    bad, nshards, failed = cm.run_case_files(PID, HEADER, "acase", "a_ok", terms, shard=600, max_bytes=300000)
    ctx.notes["correspondence_cases"] = len(terms)
    ctx.notes["correspondence_mismatches"] = len(bad)
    for k in range(nshards):
        ctx.obligation(f"Cases_{PID}_{k}.agree (model = implementation on the shard)", True)
    cm.settle(ctx, proved, bad, failed, orc_fail, lambda i: replays[i],
              "Model/Accumulate.v vs c_grid.c:c_accumulate + grid.py:accumulate")
    return ctx.finish()
