"""Fail-closed translator: closed-form Python (stdlib `ast`) -> Coq definitions.

Second tie between the hand-written Gallina models and the Python source (see
notes/PYTRANS.md).  Given a source file of the tree under test, a class name and
a method name (or a module-level function name) the translator produces a Coq
definition over `R` (or `option R` where the code produces NaN through
`np.where(c, v, np.nan)` / masked assignment / `raise`), following the
conventions of coq/Model/Transform.v:

    np.where(c, a, b)          if c then a else b
    np.nan                     None          (the definition becomes `option R`)
    raise ...                  None
    a > b, a >= b, a < b ...   Rltb b a, Rleb b a, Rltb a b ...
    np.isclose(a, b)           isclose a b   (Model/Transform.v)
    abs / np.abs               Rabs
    np.sign                    Rsign         (Model/Transform.v)
    x ** n, np.power(x, n)     x ^ n   for a literal integral n >= 0
                               1 / x ^ n for a literal integral n < 0
    x ** y, np.power(x, y)     Rpower x y  otherwise
    y[mask] = e                y := if mask then e else y   (element-wise)

Everything outside the supported subset raises BrokenTie - nothing is
approximated and no unknown call is skipped silently.  Array-level glue that is
recognised and skipped is recorded in `Translator.skipped`.

The module has no dependency on the rest of the harness apart from
`BrokenTie` / `_read`, so it can be run on its own:
    python -m harness.pytrans <file.py> <Class> <method>
    python -m harness.pytrans <file.py> - <function>
"""
import ast
import math
from fractions import Fraction

from harness.extract_consts import BrokenTie, _read

# ----------------------------------------------------------------------------
# abstract values manipulated by the translator


class Sc:
    """Coq expression `e` of type t in {'R', 'oR', 'Z', 'row', 'orow'}:
    real, NaN-able real (option R), integer, one row of a 2-D array (list R), failing row"""
    __slots__ = ("e", "t", "ilit")

    def __init__(self, e, t="R", ilit=None):
        self.e, self.t, self.ilit = e, t, ilit      # ilit: value of a Python int literal


class Bo:
    """boolean Coq expression"""
    __slots__ = ("e",)

    def __init__(self, e):
        self.e = e


class Li:
    """Python list / tuple / Vector.values : a list of abstract values"""
    __slots__ = ("items",)

    def __init__(self, items):
        self.items = list(items)


class RowTest:
    """element-wise test on a row: (fun v_ => body) over the row expression `src`"""
    __slots__ = ("body", "src")

    def __init__(self, body, src):
        self.body, self.src = body, src


ROWVAR = "v_"
PAIRVAR = "p_"


def subst_var(e, name, repl):
    """replace the variable `name` in an IR expression"""
    if isinstance(e, tuple):
        if e == ("var", name):
            return repl
        return tuple(subst_var(x, name, repl) for x in e)
    if isinstance(e, list):
        return [subst_var(x, name, repl) for x in e]
    return e


def free_in(name, e):
    if isinstance(e, tuple):
        if e == ("var", name):
            return True
        return any(free_in(name, x) for x in e)
    if isinstance(e, list):
        return any(free_in(name, x) for x in e)
    return False


def prune_lets(e):
    """drop `let x := v in body` when x does not occur in body"""
    if isinstance(e, tuple):
        if e and e[0] == "let":
            body = prune_lets(e[3])
            if not free_in(e[1], body):
                return body
            return ("let", e[1], prune_lets(e[2]), body)
        return tuple(prune_lets(x) for x in e)
    if isinstance(e, list):
        return [prune_lets(x) for x in e]
    return e


class Obj:
    """an instance of a class of the translated module"""

    def __init__(self, cls, ctor, params=None, constants=None, top=False):
        self.cls = cls              # class name
        self.ctor = ctor            # {ctor arg name: abstract value}
        self.params = params        # list of Sc or None (unknown)
        self.constants = constants
        self.top = top
        self.attrs = {}             # other attributes set in __init__ (lazily)


class Vec:
    """obj.params / obj.constants (a hydrodiy Vector)"""
    __slots__ = ("obj", "role")

    def __init__(self, obj, role):
        self.obj, self.role = obj, role


class OptArg:
    """an argument whose default is None (e.g. Log(base=None)): Coq type `option R`"""
    __slots__ = ("name",)

    def __init__(self, name):
        self.name = name


class PyNone:
    pass


class Fwd:
    """an abstract transform object (`trans`): trans.forward is the real function `name`"""
    __slots__ = ("name",)

    def __init__(self, name):
        self.name = name


class Dict:
    """dict literal with string keys"""
    __slots__ = ("keys", "vals")

    def __init__(self, keys, vals):
        self.keys, self.vals = list(keys), list(vals)


class Str:
    __slots__ = ("s",)

    def __init__(self, s):
        self.s = s


class Mod:
    """imported module alias (np, math, ...)"""
    __slots__ = ("name",)

    def __init__(self, name):
        self.name = name


PYNONE = PyNone()
TRUE = ("true",)
FALSE = ("false",)
NONE_E = ("none",)

COQ_RESERVED = {
    "as", "at", "cofix", "else", "end", "exists", "exists2", "fix", "for", "forall", "fun",
    "if", "IF", "in", "let", "match", "mod", "Prop", "return", "Set", "then", "Type", "using",
    "where", "with", "by",
    # functions / constants the generated text refers to
    "exp", "ln", "sqrt", "sinh", "cosh", "tanh", "arcsinh", "Rabs", "Rsign", "Rpower", "Rmax",
    "Rmin", "isclose", "vclip", "Some", "None", "pow", "R", "Z", "IZR", "PI", "EPS", "true",
    "false", "negb", "andb", "orb", "Rltb", "Rleb", "Reqb", "olift1", "olift2", "ocmp", "map",
    "rsum", "rprod", "existsb", "forallb", "list", "option", "bool", "nat", "O", "S", "I", "N",
    "fst", "snd", "length", "e",
}


def coq_ident(name):
    if not name.isidentifier():
        raise BrokenTie(f"not an identifier: {name!r}")
    if name in COQ_RESERVED or name.startswith("gen_") or name.startswith("TR_"):
        return name + "_"
    return name


# ----------------------------------------------------------------------------
# rendering

def q(fr):
    fr = Fraction(fr)
    if fr.denominator == 1:
        return f"({fr.numerator})" if fr.numerator < 0 else f"{fr.numerator}"
    if fr.numerator < 0:
        return f"(({fr.numerator}) / {fr.denominator})"
    return f"({fr.numerator} / {fr.denominator})"


def _is_atom(e):
    return e[0] in ("var", "true", "false", "none") or (e[0] == "num" and e[1] >= 0
                                                        and e[1].denominator == 1)


def render(e, ind=2):
    """Coq text of an IR expression (fully parenthesised below the top level)."""
    k = e[0]
    if k == "num":
        return q(e[1])
    if k == "znum":
        return f"({e[1]})%Z" if e[1] < 0 else f"{e[1]}%Z"
    if k == "var":
        return e[1]
    if k == "bin":
        return f"({render(e[2])} {e[1]} {render(e[3])})"
    if k == "zbin":
        return f"({render(e[2])} {e[1]} {render(e[3])})%Z"
    if k == "neg":
        return f"(- {render(e[1])})"
    if k == "pow":
        return f"({render(e[1])} ^ {e[2]})"
    if k == "app":
        return "(" + e[1] + "".join(" " + render(a) for a in e[2]) + ")"
    if k == "some":
        return f"(Some {render(e[1])})"
    if k == "none":
        return "None"
    if k == "olift2":
        return f"(olift2 {e[1]} {render(e[2])} {render(e[3])})"
    if k == "olift1":
        return f"(olift1 {e[1]} {render(e[2])})"
    if k == "if":
        return f"(if {render(e[1])} then {render(e[2])} else {render(e[3])})"
    if k == "let":
        pad = " " * ind
        return f"(let {e[1]} := {render(e[2])} in\n{pad}{render(e[3], ind)})"
    if k == "matchopt":
        return (f"(match {e[1]} with None => {render(e[2])} | Some {e[3]} => {render(e[4])} end)")
    if k == "isnone":
        return f"(match {render(e[1])} with None => true | Some _ => false end)"
    if k == "true":
        return "true"
    if k == "false":
        return "false"
    if k == "cmp":
        f = {"lt": "Rltb", "le": "Rleb", "eq": "Reqb"}[e[1]]
        return f"({f} {render(e[2])} {render(e[3])})"
    if k == "zcmp":
        f = {"lt": "Z.ltb", "le": "Z.leb", "eq": "Z.eqb"}[e[1]]
        return f"({f} {render(e[2])} {render(e[3])})"
    if k == "ocmp":
        f = {"lt": "Rltb", "le": "Rleb", "eq": "Reqb"}[e[1]]
        return f"(ocmp {f} {render(e[2])} {render(e[3])})"
    if k == "and":
        return f"({render(e[1])} && {render(e[2])})"
    if k == "or":
        return f"({render(e[1])} || {render(e[2])})"
    if k == "not":
        return f"(negb {render(e[1])})"
    if k == "isclose":
        return f"(isclose {render(e[1])} {render(e[2])})"
    if k == "lam":       # fun v => body
        return f"(fun {e[1]} => {render(e[2])})"
    if k == "pair":
        return f"({render(e[1])}, {render(e[2])})"
    raise BrokenTie(f"internal: cannot render {k}")


def strip_outer(s):
    """drop one pair of outer parentheses when they enclose the whole text"""
    if not (s.startswith("(") and s.endswith(")")):
        return s
    depth = 0
    for i, ch in enumerate(s):
        if ch == "(":
            depth += 1
        elif ch == ")":
            depth -= 1
            if depth == 0 and i != len(s) - 1:
                return s
    return s[1:-1]


COQ_TYPE = {"R": "R", "oR": "option R", "B": "bool", "Z": "Z", "optarg": "option R",
            "row": "list R", "orow": "option (list R)", "oZ": "option Z", "vec": "list R",
            "pairR": "R * R", "fun1": "list R -> R", "fun2": "list R -> list R -> R",
            "fwd": "R -> R"}


class Def:
    """one generated Coq definition"""

    def __init__(self, name, params, rtype, body, origin, skipped):
        self.name, self.params, self.rtype, self.body = name, params, rtype, body
        self.origin, self.skipped = origin, skipped

    def text(self):
        groups = []
        for nm, ty in self.params:
            if groups and groups[-1][1] == ty:
                groups[-1][0].append(nm)
            else:
                groups.append(([nm], ty))
        binders = "".join(f" ({' '.join(ns)} : {COQ_TYPE[ty]})" for ns, ty in groups)
        body = strip_outer(render(prune_lets(self.body)))
        out = [f"(* {self.origin} *)"]
        for s in self.skipped:
            out.append(f"(*   skipped as glue: {s} *)")
        out.append(f"Definition {self.name}{binders} : {COQ_TYPE[self.rtype]} :=\n  {body}.")
        return "\n".join(out)


# ----------------------------------------------------------------------------
# tables of recognised library functions (module alias, attribute)

NUMPY = ("np", "numpy")
MATHS = ("math",)

# unary real functions -> Coq function name
UNARY = {
    "log": "ln", "exp": "exp", "sqrt": "sqrt", "sinh": "sinh", "cosh": "cosh",
    "tanh": "tanh", "arcsinh": "arcsinh", "asinh": "arcsinh",
    "abs": "Rabs", "absolute": "Rabs", "fabs": "Rabs", "sign": "Rsign",
}
# glue: calls that are the identity on an element of the array (argument index)
GLUE_ID = {
    ("np", "atleast_1d"): 0, ("np", "atleast_2d"): 0, ("np", "asarray"): 0, ("np", "array"): 0,
    ("np", "float64"): 0, ("np", "ascontiguousarray"): 0, ("np", "squeeze"): 0,
    ("dutils", "cast"): 1,
}
GLUE_METHODS = ("copy", "astype", "flatten", "ravel", "squeeze", "item")
# statement-level glue: bare calls with no effect on the value
GLUE_STMT_CALLS = {("warnings", "warn"), ("warnings", "simplefilter"), ("LOGGER", None),
                   ("logger", None), ("logging", None)}
GLUE_WITH = {("np", "errstate"), ("warnings", "catch_warnings")}


def _dump(node, n=90):
    try:
        return ast.unparse(node)[:n]
    except Exception:
        return ast.dump(node)[:n]


class Env:
    """name -> abstract value; immutable-style (copied on branch)"""

    def __init__(self, d=None, maskctx=None, inline=False):
        self.d = dict(d or {})
        self.maskctx = maskctx
        self.inline = inline

    def copy(self, **kw):
        e = Env(self.d, self.maskctx, self.inline)
        for k, v in kw.items():
            setattr(e, k, v)
        return e

    def bind(self, name, val):
        e = self.copy()
        e.d[name] = val
        return e


class Unbound:
    """a name that may be unbound on some path (assigned in one branch only)"""

    def __init__(self, why):
        self.why = why


class Module:
    """parsed source file + what the translator needs to know about it"""

    def __init__(self, repo, rel):
        self.repo, self.rel = repo, rel
        self.tree = ast.parse(_read(repo, rel))
        self.classes = {}
        self.functions = {}
        self.assigns = {}
        self.aliases = {}      # local alias -> canonical module name
        for node in self.tree.body:
            if isinstance(node, ast.ClassDef):
                self.classes[node.name] = node
            elif isinstance(node, ast.FunctionDef):
                self.functions[node.name] = node
            elif isinstance(node, ast.Assign) and len(node.targets) == 1 \
                    and isinstance(node.targets[0], ast.Name):
                self.assigns.setdefault(node.targets[0].id, []).append(node.value)
            elif isinstance(node, ast.Import):
                for a in node.names:
                    self.aliases[a.asname or a.name.split(".")[0]] = a.name
            elif isinstance(node, ast.ImportFrom):
                for a in node.names:
                    self.aliases[a.asname or a.name] = f"{node.module}.{a.name}"

    def canon(self, alias):
        """canonical short name of an imported module alias: 'np', 'math', 'dutils', ..."""
        full = self.aliases.get(alias)
        if full is None:
            return None
        if full == "numpy":
            return "np"
        if full == "math":
            return "math"
        if full == "warnings":
            return "warnings"
        if full == "logging":
            return "logging"
        if full.endswith(".dutils") or full == "dutils":
            return "dutils"
        return full

    def method(self, cls, name):
        """(defining class, FunctionDef) following single inheritance inside the module"""
        seen = set()
        c = cls
        while c is not None and c not in seen:
            seen.add(c)
            node = self.classes.get(c)
            if node is None:
                return None
            for s in node.body:
                if isinstance(s, ast.FunctionDef) and s.name == name:
                    if s.decorator_list:
                        raise BrokenTie(f"{self.rel}: {c}.{name} is decorated")
                    return c, s
            c = None
            for b in node.bases:
                if isinstance(b, ast.Name) and b.id in self.classes:
                    c = b.id
                    break
        return None


class Translator:
    """Translates methods of the transform classes (and plain functions) of one module.

    `tables` : harness.extractors.c01.tables(repo)["classes"] (constructor arguments,
    parameter / constant names of every class) or None for modules without classes.
    `constname(name)` : Coq name for a module-level numeric constant."""

    CORE = {"_forward": "fwd", "_backward": "bwd", "_jacobian": "jac"}

    def __init__(self, module, tables=None, prefix="gen_", const_suffix=""):
        self.m = module
        self.tables = tables or {}
        self.prefix = prefix
        self.const_suffix = const_suffix
        self.defs = {}           # key -> Def   (insertion order = dependency order)
        self.consts = {}         # python name -> (coq name, Fraction)
        self.skipped = []        # glue skipped while translating the current definition
        self.rules = set()       # rewriting rules actually used (for the notes)
        self.used = set()        # Coq names bound in the current definition
        self.libparams = {}      # library functions used by the current definition
        self.checks_only = False # argument-check mode (see translate_function)
        self.extra_params = []   # element variables introduced by np.arange
        self._stack = []

    # ---------------- helpers ----------------
    def fail(self, msg, node=None):
        where = f"{self.m.rel}"
        if node is not None and hasattr(node, "lineno"):
            where += f":{node.lineno}"
        ctx = "/".join(self._stack)
        raise BrokenTie(f"{where} [{ctx}]: {msg}" + (f" in `{_dump(node)}`" if node is not None else ""))

    def skip(self, what):
        if what not in self.skipped:
            self.skipped.append(what)

    def rule(self, r):
        self.rules.add(r)

    def modconst(self, name, node):
        vals = self.m.assigns.get(name)
        if not vals:
            return None
        if len(vals) != 1:
            self.fail(f"module constant {name} assigned {len(vals)} times", node)
        v = vals[0]
        if isinstance(v, ast.UnaryOp) and isinstance(v.op, ast.USub) \
                and isinstance(v.operand, ast.Constant):
            val = v.operand.value
            sign = -1
        elif isinstance(v, ast.Constant):
            val, sign = v.value, 1
        else:
            self.fail(f"module constant {name} is not a numeric literal", node)
        if isinstance(val, bool) or not isinstance(val, (int, float)) \
                or (isinstance(val, float) and not math.isfinite(val)):
            self.fail(f"module constant {name} is not a finite numeric literal", node)
        coqname = f"{self.prefix}{name}{self.const_suffix}"
        self.consts[name] = (coqname, sign * Fraction(val))   # exact binary64 value
        return Sc(("var", coqname), "R")

    # ---------------- typing helpers ----------------
    @staticmethod
    def opt(v):
        """Sc as an option-R expression"""
        if v.t == "oR":
            return v.e
        if v.t == "R":
            return ("some", v.e)
        raise BrokenTie(f"internal: cannot lift type {v.t}")

    def scalar(self, v, node, what="a real scalar"):
        if isinstance(v, Sc):
            return v
        self.fail(f"expected {what}, got {type(v).__name__}", node)

    def arith(self, op, a, b, node):
        a, b = self.scalar(a, node), self.scalar(b, node)
        if "Z" in (a.t, b.t):
            # an int literal next to an integer stays an integer
            if a.t == "Z" and b.ilit is not None and op != "/":
                b = Sc(("znum", b.ilit), "Z")
            elif b.t == "Z" and a.ilit is not None and op != "/":
                a = Sc(("znum", a.ilit), "Z")
            if a.t == "Z" and b.t == "Z" and op != "/":
                return Sc(("zbin", op, a.e, b.e), "Z")
            self.rule("integer operand of `/`, or integer next to a real: IZR (int / int is true "
                      "division; + - * between integers stay in Z)")
            a, b = self.to_real(a), self.to_real(b)
        if a.t == "R" and b.t == "R":
            return Sc(("bin", op, a.e, b.e), "R")
        self.rule("arithmetic on a NaN-able value: olift2 (NaN propagates)")
        f = {"+": "Rplus", "-": "Rminus", "*": "Rmult", "/": "Rdiv"}[op]
        return Sc(("olift2", f, self.opt(a), self.opt(b)), "oR")

    @staticmethod
    def to_real(v):
        if v.t == "Z":
            return Sc(("app", "IZR", [v.e]), "R")
        return v

    def unary(self, f, a, node):
        a = self.to_real(self.scalar(a, node))
        if a.t == "R":
            return Sc(("app", f, [a.e]), "R")
        if a.t == "oR":
            return Sc(("olift1", f, a.e), "oR")
        self.fail(f"{f} of a non-real value", node)

    def power(self, a, b, node):
        a, b = self.to_real(self.scalar(a, node)), self.to_real(self.scalar(b, node))
        if a.t != "R" or b.t != "R":
            if a.t in ("R", "oR") and b.t in ("R", "oR"):
                self.rule("x ** y on a NaN-able value: olift2 Rpower")
                return Sc(("olift2", "Rpower", self.opt(a), self.opt(b)), "oR")
            self.fail("power of non-real values", node)
        if b.e[0] == "num" and b.e[1].denominator == 1 and abs(b.e[1]) <= 64:
            n = int(b.e[1])
            if n >= 0:
                self.rule("x ** n, np.power(x, n) with a literal integral n >= 0: x ^ n")
                return Sc(("pow", a.e, n), "R")
            self.rule("x ** n with a literal integral n < 0: 1 / x ^ (-n)")
            return Sc(("bin", "/", ("num", Fraction(1)), ("pow", a.e, -n)), "R")
        self.rule("x ** y, np.power(x, y): Rpower x y (= exp (y * ln x); meaningful for x > 0 only, "
                  "as in Model/Transform.v)")
        return Sc(("app", "Rpower", [a.e, b.e]), "R")

    def unify(self, a, b, node):
        """two scalar values of a conditional -> same type"""
        a, b = self.scalar(a, node), self.scalar(b, node)
        if a.t == b.t:
            return a, b, a.t
        base = {"R": "R", "oR": "R", "row": "row", "orow": "row"}
        if a.t in base and b.t in base:
            # a bare None (np.nan / raise) adopts the other side's type
            ba = base[b.t] if a.e == NONE_E else base[a.t]
            bb = base[a.t] if b.e == NONE_E else base[b.t]
            if ba == bb:
                ot = "oR" if ba == "R" else "orow"

                def up(v):
                    if v.e == NONE_E or v.t in ("oR", "orow"):
                        return Sc(v.e, ot)
                    return Sc(("some", v.e), ot)
                return up(a), up(b), ot
        self.fail(f"branches of different types {a.t} / {b.t}", node)

    def cond_if(self, c, a, b, node):
        """if c then a else b with constant folding of c"""
        if c.e == TRUE:
            return a
        if c.e == FALSE:
            return b
        if isinstance(a, Bo) and isinstance(b, Bo):
            return Bo(("if", c.e, a.e, b.e))
        a, b, t = self.unify(a, b, node)
        return Sc(("if", c.e, a.e, b.e), t)

    # ---------------- conditions ----------------
    def compare(self, op, a, b, node):
        if isinstance(op, (ast.Is, ast.IsNot)):
            neg = isinstance(op, ast.IsNot)
            for x, y in ((a, b), (b, a)):
                if isinstance(y, PyNone):
                    if isinstance(x, PyNone):
                        return Bo(FALSE if neg else TRUE)
                    if isinstance(x, OptArg):
                        e = ("isnone", ("var", x.name))
                        return Bo(("not", e) if neg else e)
                    if isinstance(x, Sc):
                        return Bo(TRUE if neg else FALSE)
            self.fail("`is` comparison not understood", node)
        if isinstance(a, Str) and isinstance(b, Str) and isinstance(op, (ast.Eq, ast.NotEq)):
            r = (a.s == b.s) == isinstance(op, ast.Eq)
            return Bo(TRUE if r else FALSE)
        a, b = self.scalar(a, node), self.scalar(b, node)
        if self.is_row(a) or self.is_row(b):
            if self.is_row(a) and self.is_row(b):
                self.fail("comparison between two rows", node)
            row = a if self.is_row(a) else b
            body, src = self.row_body(row)
            el = Sc(body, "R")
            c = self.compare(op, el if self.is_row(a) else a, b if self.is_row(a) else el, node)
            return RowTest(c.e, src)
        if isinstance(op, ast.Gt):
            k, x, y = "lt", b, a
        elif isinstance(op, ast.GtE):
            k, x, y = "le", b, a
        elif isinstance(op, ast.Lt):
            k, x, y = "lt", a, b
        elif isinstance(op, ast.LtE):
            k, x, y = "le", a, b
        elif isinstance(op, ast.Eq):
            k, x, y = "eq", a, b
        elif isinstance(op, ast.NotEq):
            k, x, y = "eq", a, b
        else:
            self.fail("comparison operator not supported", node)
        self.rule("a > b: Rltb b a; a >= b: Rleb b a; a < b: Rltb a b; a <= b: Rleb a b; "
                  "a == b: Reqb a b; a != b: negb (Reqb a b)")
        if x.t == "Z" and y.ilit is not None:
            y = Sc(("znum", y.ilit), "Z")
        elif y.t == "Z" and x.ilit is not None:
            x = Sc(("znum", x.ilit), "Z")
        elif "Z" in (x.t, y.t) and x.t != y.t:
            x, y = self.to_real(x), self.to_real(y)
        if x.t == "Z" and y.t == "Z":
            self.rule("comparison of integers: Z.ltb / Z.leb / Z.eqb")
            e = ("zcmp", k, x.e, y.e)
        elif x.t == "R" and y.t == "R":
            e = ("cmp", k, x.e, y.e)
        elif x.t in ("R", "oR") and y.t in ("R", "oR"):
            self.rule("comparison with a NaN-able value: ocmp (false when either side is NaN); "
                      "`!=` is then negb of it (true on NaN, as in IEEE)")
            e = ("ocmp", k, self.opt(x), self.opt(y))
        else:
            self.fail(f"comparison between {x.t} and {y.t}", node)
        if isinstance(op, ast.NotEq):
            e = ("not", e)
        return Bo(e)

    def boolean(self, v, node):
        if isinstance(v, Bo):
            return v
        self.fail(f"expected a boolean test, got {type(v).__name__}", node)

    @staticmethod
    def b_and(a, b):
        if a.e == TRUE:
            return b
        if b.e == TRUE:
            return a
        if a.e == FALSE or b.e == FALSE:
            return Bo(FALSE)
        return Bo(("and", a.e, b.e))

    @staticmethod
    def b_or(a, b):
        if a.e == FALSE:
            return b
        if b.e == FALSE:
            return a
        if a.e == TRUE or b.e == TRUE:
            return Bo(TRUE)
        return Bo(("or", a.e, b.e))

    @staticmethod
    def b_not(a):
        if a.e == TRUE:
            return Bo(FALSE)
        if a.e == FALSE:
            return Bo(TRUE)
        return Bo(("not", a.e))

    # ---------------- expressions ----------------
    def expr(self, node, env):
        meth = getattr(self, "e_" + type(node).__name__, None)
        if meth is None:
            self.fail(f"expression form {type(node).__name__} not supported", node)
        return meth(node, env)

    def e_Constant(self, node, env):
        v = node.value
        if v is None:
            return PYNONE
        if isinstance(v, bool):
            return Bo(TRUE if v else FALSE)
        if isinstance(v, int):
            if env.d.get("__mode__") == "Z":
                return Sc(("znum", v), "Z")
            return Sc(("num", Fraction(v)), "R", ilit=v)
        if isinstance(v, float):
            if math.isnan(v):
                return Sc(NONE_E, "oR")
            if math.isinf(v):
                self.fail("infinite literal", node)
            return Sc(("num", Fraction(v)), "R")       # exact binary64 value
        if isinstance(v, str):
            return Str(v)
        self.fail("literal not supported", node)

    def e_Name(self, node, env):
        if node.id in env.d:
            v = env.d[node.id]
            if isinstance(v, Unbound):
                self.fail(f"`{node.id}` may be unbound here ({v.why})", node)
            return v
        c = self.m.canon(node.id)
        if c is not None:
            return Mod(c)
        v = self.modconst(node.id, node)
        if v is not None:
            return v
        self.fail(f"unknown name `{node.id}`", node)

    def e_Attribute(self, node, env):
        base = self.expr(node.value, env)
        a = node.attr
        if isinstance(base, Mod):
            if base.name in ("np", "math"):
                if a == "nan":
                    self.rule("np.nan: None (the definition becomes option R)")
                    return Sc(NONE_E, "oR")
                if a == "pi":
                    return Sc(("var", "PI"), "R")
                if a == "e":
                    return Sc(("app", "exp", [("num", Fraction(1))]), "R")
            self.fail(f"attribute {base.name}.{a} is not a value the translator knows", node)
        if isinstance(base, Obj):
            return self.obj_attr(base, a, node)
        if isinstance(base, Vec):
            if a == "values":
                vals = base.obj.params if base.role == "params" else base.obj.constants
                if vals is None:
                    self.fail(f"values of {base.obj.cls}.{base.role} are not known here", node)
                return Li(vals)
            self.fail(f"Vector attribute .{a} not supported", node)
        self.fail(f"attribute .{a} of {type(base).__name__}", node)

    def e_Subscript(self, node, env):
        base = self.expr(node.value, env)
        sl = node.slice
        if isinstance(base, tuple) and base and base[0] == "corrcoef":
            if isinstance(sl, ast.Tuple) and [getattr(x, "value", None) for x in sl.elts] == [0, 1]:
                self.rule("np.sum / np.mean / np.std / np.corrcoef(a, b)[0, 1] of 1-D arrays: library "
                          "functions np_sum, np_mean, np_std, np_corrcoef01 : PARAMETERS of the generated "
                          "definition (instantiated with the model's own functions in the theorems)")
                return Sc(("app", self.libfun("np_corrcoef01", "fun2"), [base[1].e, base[2].e]), "R")
            self.fail("only np.corrcoef(a, b)[0, 1] is supported", node)
        if isinstance(base, Li):
            if isinstance(sl, ast.Constant) and isinstance(sl.value, int) \
                    and not isinstance(sl.value, bool) and 0 <= sl.value < len(base.items):
                return base.items[sl.value]
            self.fail("list subscript must be a literal index in range", node)
        if isinstance(base, Sc):
            # sx[:, None] : broadcasting of a per-row scalar against the row
            if isinstance(sl, ast.Tuple) and len(sl.elts) == 2 \
                    and isinstance(sl.elts[0], ast.Slice) and sl.elts[0].lower is None \
                    and sl.elts[0].upper is None and sl.elts[0].step is None \
                    and isinstance(sl.elts[1], ast.Constant) and sl.elts[1].value is None \
                    and base.t == "R":
                self.skip("s[:, None] (broadcast of a per-row scalar along its row)")
                return base
            # x[mask] inside `y[mask] = ...` : the element itself
            idx = self.expr(sl, env)
            if isinstance(idx, Bo):
                if env.maskctx is None or env.maskctx != idx.e:
                    self.fail("masked read outside an assignment under the same mask", node)
                return base
            # sx[:, None] : broadcasting of a per-row scalar
            self.fail("subscript of a scalar", node)
        self.fail(f"subscript of {type(base).__name__}", node)

    def e_Slice(self, node, env):
        self.fail("slices are not supported", node)

    def e_Tuple(self, node, env):
        return Li([self.expr(x, env) for x in node.elts])

    e_List = e_Tuple

    def e_Dict(self, node, env):
        keys = []
        for k in node.keys:
            if not (isinstance(k, ast.Constant) and isinstance(k.value, str)):
                self.fail("dict key that is not a string literal", node)
            keys.append(k.value)
        return Dict(keys, [self.expr(v, env) for v in node.values])

    def e_UnaryOp(self, node, env):
        v = self.expr(node.operand, env)
        if isinstance(node.op, ast.USub):
            v = self.scalar(v, node)
            if v.t == "Z":
                if v.e[0] == "znum":
                    return Sc(("znum", -v.e[1]), "Z")
                return Sc(("zbin", "-", ("znum", 0), v.e), "Z")
            if v.t == "R":
                return Sc(("neg", v.e), "R")      # -2. stays `- 2` (Ropp 2), as written
            if v.t == "oR":
                return Sc(("olift1", "Ropp", v.e), "oR")
            if self.is_row(v):
                body, srcs = self.row_parts(v)
                return self.mk_row(("neg", body), srcs, v.t)
            self.fail("negation of a non-real value", node)
        if isinstance(node.op, ast.UAdd):
            return self.scalar(v, node)
        if isinstance(node.op, (ast.Not, ast.Invert)):
            return self.b_not(self.boolean(v, node))
        self.fail("unary operator not supported", node)

    def e_BinOp(self, node, env):
        a = self.expr(node.left, env)
        b = self.expr(node.right, env)
        op = node.op
        if isinstance(op, (ast.BitAnd, ast.BitOr)):
            a, b = self.boolean(a, node), self.boolean(b, node)
            return self.b_and(a, b) if isinstance(op, ast.BitAnd) else self.b_or(a, b)
        if self.is_row(a) or self.is_row(b):
            return self.row_arith(op, a, b, node)
        if isinstance(op, ast.Add):
            return self.arith("+", a, b, node)
        if isinstance(op, ast.Sub):
            return self.arith("-", a, b, node)
        if isinstance(op, ast.Mult):
            return self.arith("*", a, b, node)
        if isinstance(op, ast.Div):
            return self.arith("/", a, b, node)
        if isinstance(op, ast.Pow):
            return self.power(a, b, node)
        self.fail("binary operator not supported", node)

    def e_BoolOp(self, node, env):
        vals = [self.boolean(self.expr(v, env), node) for v in node.values]
        r = vals[0]
        for v in vals[1:]:
            r = self.b_and(r, v) if isinstance(node.op, ast.And) else self.b_or(r, v)
        return r

    def e_Compare(self, node, env):
        left = self.expr(node.left, env)
        r = None
        for op, cn in zip(node.ops, node.comparators):
            right = self.expr(cn, env)
            c = self.compare(op, left, right, node)
            r = c if r is None else self.b_and(r, c)
            left = right
        return r

    def e_IfExp(self, node, env):
        c = self.boolean(self.expr(node.test, env), node)
        if c.e == TRUE:
            return self.expr(node.body, env)
        if c.e == FALSE:
            return self.expr(node.orelse, env)
        return self.cond_if(c, self.expr(node.body, env), self.expr(node.orelse, env), node)

    def e_JoinedStr(self, node, env):
        return Str("<f-string>")

    # ---------------- calls ----------------
    def e_Call(self, node, env):
        f = node.func
        if isinstance(f, ast.Name):
            return self.call_name(f.id, node, env)
        if isinstance(f, ast.Attribute):
            base = self.expr(f.value, env)
            if isinstance(base, Mod):
                return self.call_module(base.name, f.attr, node, env)
            if isinstance(base, Obj):
                args = self.plain_args(node, env)
                return self.call_method(base, f.attr, args, node)
            if isinstance(base, Fwd):
                if f.attr != "forward":
                    self.fail(f"method .{f.attr} of an abstract transform", node)
                (a,) = self.plain_args(node, env, 1)
                self.rule("trans.forward(x) for the transform ARGUMENT of a score: the real function "
                          "fwd (a parameter of the generated definition), mapped over arrays")
                if self.is_row(a):
                    return self.row_map(base.name, a)
                return self.unary(base.name, a, node)
            if isinstance(base, Sc) and f.attr in GLUE_METHODS:
                self.skip(f".{f.attr}(...) (identity on the elements)")
                return base
            self.fail(f"method .{f.attr} of {type(base).__name__}", node)
        self.fail("call form not supported", node)

    def plain_args(self, node, env, nmin=None, nmax=None, kw=()):
        for k in node.keywords:
            if k.arg not in kw:
                self.fail(f"keyword argument {k.arg} not supported here", node)
        if any(isinstance(a, ast.Starred) for a in node.args):
            self.fail("starred arguments", node)
        args = [self.expr(a, env) for a in node.args]
        if nmin is not None and not (nmin <= len(args) <= (nmax or nmin)):
            self.fail("wrong number of arguments", node)
        return args

    def call_name(self, name, node, env):
        if name in env.d:
            self.fail(f"call of the local `{name}`", node)
        if name == "abs":
            (a,) = self.plain_args(node, env, 1)
            self.rule("abs, np.abs, math.fabs: Rabs")
            return self.unary("Rabs", a, node)
        if name == "float":
            (a,) = self.plain_args(node, env, 1)
            a = self.scalar(a, node)
            if a.t == "Z":
                self.rule("float(n) for an integer n: IZR n")
                return self.to_real(a)
            self.skip("float(...) (identity on a real)")
            return a
        if name in ("max", "min"):
            a, b = self.plain_args(node, env, 2)
            return self.maxmin("Rmax" if name == "max" else "Rmin", a, b, node)
        if name in self.m.functions:
            args = self.plain_args(node, env)
            return self.inline_function(self.m.functions[name], args, node)
        self.fail(f"unknown function `{name}`", node)

    def maxmin(self, f, a, b, node):
        a, b = self.scalar(a, node), self.scalar(b, node)
        if a.t == "R" and b.t == "R":
            self.rule("np.maximum / max: Rmax; np.minimum / min: Rmin")
            return Sc(("app", f, [a.e, b.e]), "R")
        if a.t in ("R", "oR") and b.t in ("R", "oR"):
            self.rule("np.maximum / np.minimum with a NaN-able value: olift2 (NaN propagates)")
            return Sc(("olift2", f, self.opt(a), self.opt(b)), "oR")
        self.fail("max/min of non-real values", node)

    def call_module(self, mod, fn, node, env):
        if (mod, fn) in GLUE_ID:
            args = self.plain_args(node, env, 1, 3, kw=("dtype", "copy"))
            k = GLUE_ID[(mod, fn)]
            if k >= len(args):
                self.fail("glue call with too few arguments", node)
            self.skip(f"{mod}.{fn}(...) (identity on the elements)")
            return args[k]
        if mod in ("np", "math"):
            if fn in UNARY and not (mod == "math" and fn in ("sign", "absolute", "arcsinh")):
                args = self.plain_args(node, env, 1, 2)
                if len(args) != 1:
                    self.fail(f"{mod}.{fn} with {len(args)} arguments", node)
                if fn in ("abs", "absolute", "fabs"):
                    self.rule("abs, np.abs, math.fabs: Rabs")
                elif fn == "sign":
                    self.rule("np.sign: Rsign (1 / -1 / 0)")
                else:
                    self.rule(f"{fn}: {UNARY[fn]}")
                if self.is_row(args[0]):
                    return self.row_map(UNARY[fn], args[0])
                return self.unary(UNARY[fn], args[0], node)
            if fn == "log1p":
                (a,) = self.plain_args(node, env, 1)
                self.rule("np.log1p(x): ln (1 + x)")
                one = Sc(("num", Fraction(1)), "R")
                return self.unary("ln", self.arith("+", one, a, node), node)
            if fn == "expm1":
                (a,) = self.plain_args(node, env, 1)
                self.rule("np.expm1(x): exp x - 1")
                one = Sc(("num", Fraction(1)), "R")
                return self.arith("-", self.unary("exp", a, node), one, node)
            if fn in ("power", "pow"):
                a, b = self.plain_args(node, env, 2)
                return self.power(a, b, node)
            if fn in ("maximum", "fmax") and fn == "maximum" or fn == "minimum":
                a, b = self.plain_args(node, env, 2)
                return self.maxmin("Rmax" if fn == "maximum" else "Rmin", a, b, node)
            if mod == "np" and fn == "clip":
                v, lo, hi = self.plain_args(node, env, 3)
                self.rule("np.clip(v, lo, hi): Rmin (Rmax v lo) hi")
                return self.maxmin("Rmin", self.maxmin("Rmax", v, lo, node), hi, node)
            if mod == "np" and fn == "where":
                c, a, b = self.plain_args(node, env, 3)
                c = self.boolean(c, node)
                self.rule("np.where(c, a, b): if c then a else b")
                return self.cond_if(c, a, b, node)
            if mod == "np" and fn == "isclose":
                a, b = self.plain_args(node, env, 2)   # rtol / atol keywords: BrokenTie
                a, b = self.scalar(a, node), self.scalar(b, node)
                if a.t != "R" or b.t != "R":
                    self.fail("np.isclose of a NaN-able value", node)
                self.rule("np.isclose(a, b): isclose a b = Rleb |a-b| (atol + rtol*|b|) "
                          "(default tolerances of the installed numpy, Gen/ConstsC01.v)")
                return Bo(("isclose", a.e, b.e))
            if fn == "isnan":
                (a,) = self.plain_args(node, env, 1)
                a = self.scalar(a, node)
                if a.t in ("R", "Z"):
                    self.rule("np.isnan(e) for e without a NaN source (parameter, constant, "
                              "real expression): false")
                    return Bo(FALSE)
                self.rule("np.isnan(e) for a NaN-able e: match e with None => true | _ => false")
                return Bo(("isnone", a.e))
            if mod == "np" and fn in ("ones_like", "zeros_like"):
                (a,) = self.plain_args(node, env, 1)
                if not isinstance(a, Sc) or a.t not in ("R", "oR"):
                    self.fail(f"np.{fn} of something that is not an element", node)
                self.rule("np.ones_like(x): 1, np.zeros_like(x): 0 (element-wise)")
                return Sc(("num", Fraction(1 if fn == "ones_like" else 0)), "R")
            if mod == "np" and fn in ("sum", "prod", "any", "all", "mean", "std"):
                return self.row_reduce(fn, node, env)
            if mod == "np" and fn == "arange":
                args = self.plain_args(node, env, 1, 2)
                for a in args:
                    if self.scalar(a, node).t not in ("R", "Z"):
                        self.fail("np.arange bounds", node)
                if self.extra_params:
                    self.fail("more than one np.arange", node)
                nm = "i_"
                self.extra_params.append((nm, "R"))
                self.rule("np.arange(a, b): the generated definition gives the ELEMENT of the result "
                          "at an index value i_ (an extra real argument standing for an integer "
                          "a <= i_ < b); the range itself is not translated")
                return Sc(("var", nm), "R")
            if mod == "np" and fn == "corrcoef":
                a, b = self.plain_args(node, env, 2)
                if not (self.is_row(a) and self.is_row(b) and a.t == "vec" and b.t == "vec"):
                    self.fail("np.corrcoef of something else than two 1-D arrays", node)
                return ("corrcoef", a, b)
        self.fail(f"call {mod}.{fn} is outside the supported subset", node)

    # ---------------- rows / vectors ----------------
    # type 'row' : one row of a 2-D array (reductions: np.sum(x, axis=1) = rsum ...)
    # type 'vec' : a 1-D array (reductions np.sum / np.mean / np.std / np.corrcoef are library
    #              functions, taken as PARAMETERS of the generated definition)
    # An element-wise expression on them is  map (fun v_ => body) src   or, with two
    # different sources,  map (fun p_ => body) (combine src1 src2)  (v_ = fst p_ / snd p_).
    @staticmethod
    def is_row(v):
        return isinstance(v, Sc) and v.t in ("row", "vec")

    @staticmethod
    def row_parts(row):
        """(body, [sources]) ; body in terms of v_ (one source) or fst p_ / snd p_ (two)"""
        e = row.e
        if e[0] == "app" and e[1] == "map" and e[2][0][0] == "lam":
            src = e[2][1]
            if e[2][0][1] == PAIRVAR:
                return e[2][0][2], list(src[2])
            return e[2][0][2], [src]
        return ("var", ROWVAR), [e]

    def row_body(self, row):
        body, srcs = self.row_parts(row)
        if len(srcs) != 1:
            raise BrokenTie("internal: two-source row where one source is expected")
        return body, srcs[0]

    @staticmethod
    def mk_row(body, src, t="row"):
        if isinstance(src, list):
            if len(src) == 1:
                src = src[0]
            else:
                return Sc(("app", "map", [("lam", PAIRVAR, body), ("app", "combine", src)]), t)
        if body == ("var", ROWVAR):
            return Sc(src, t)
        return Sc(("app", "map", [("lam", ROWVAR, body), src]), t)

    def row_map(self, f, row):
        body, srcs = self.row_parts(row)
        self.rule("element-wise function / arithmetic on an array x: map (fun v_ => ...) x; on two "
                  "arrays: map (fun p_ => ... fst p_ ... snd p_ ...) (combine x y)")
        return self.mk_row(("app", f, [body]), srcs, row.t)

    def row_arith(self, op, a, b, node):
        opc = {ast.Add: "+", ast.Sub: "-", ast.Mult: "*", ast.Div: "/"}.get(type(op))
        self.rule("element-wise function / arithmetic on an array x: map (fun v_ => ...) x; on two "
                  "arrays: map (fun p_ => ... fst p_ ... snd p_ ...) (combine x y)")
        if opc is None:
            if isinstance(op, ast.Pow) and self.is_row(a) and not self.is_row(b):
                body, srcs = self.row_parts(a)
                p = self.power(Sc(body, "R"), b, node)
                if p.t != "R":
                    self.fail("array power with a NaN-able exponent", node)
                return self.mk_row(p.e, srcs, a.t)
            self.fail("array operator not supported", node)
        if self.is_row(a) and self.is_row(b):
            if a.t != b.t:
                self.fail("arithmetic between a row and a vector", node)
            ba, sa = self.row_parts(a)
            bb, sb = self.row_parts(b)
            if sa == sb:
                return self.mk_row(("bin", opc, ba, bb), sa, a.t)
            if len(sa) == 1 and len(sb) == 1:
                ba = subst_var(ba, ROWVAR, ("app", "fst", [("var", PAIRVAR)]))
                bb = subst_var(bb, ROWVAR, ("app", "snd", [("var", PAIRVAR)]))
                return self.mk_row(("bin", opc, ba, bb), [sa[0], sb[0]], a.t)
            self.fail("element-wise arithmetic over more than two different arrays", node)
        if self.is_row(a):
            body, srcs = self.row_parts(a)
            b = self.to_real(self.scalar(b, node))
            if b.t != "R":
                self.fail("array arithmetic with a non-real scalar", node)
            return self.mk_row(("bin", opc, body, b.e), srcs, a.t)
        body, srcs = self.row_parts(b)
        a = self.to_real(self.scalar(a, node))
        if a.t != "R":
            self.fail("array arithmetic with a non-real scalar", node)
        return self.mk_row(("bin", opc, a.e, body), srcs, b.t)

    def libfun(self, name, ty):
        """a library function taken as a parameter of the generated definition"""
        self.libparams.setdefault(name, ty)
        return name

    def row_reduce(self, fn, node, env):
        axis = None
        for k in node.keywords:
            if k.arg != "axis" or not (isinstance(k.value, ast.Constant) and k.value.value == 1):
                self.fail(f"np.{fn}: only axis=1 (along the row) is supported", node)
            axis = 1
        if len(node.args) != 1:
            self.fail(f"np.{fn} with {len(node.args)} positional arguments", node)
        a = self.expr(node.args[0], env)
        if fn in ("any", "all"):
            if axis is not None:
                self.fail(f"np.{fn} with an axis", node)
            if isinstance(a, Bo):
                self.rule("np.any(c) / np.all(c) of a per-row scalar test c: c (each row on its own; "
                          "the 2-D call fails when some row fails)")
                return a
            if isinstance(a, RowTest):
                self.rule("np.any(x < c) over a row: existsb (fun v_ => ...) x; np.all: forallb")
                return Bo(("app", "existsb" if fn == "any" else "forallb",
                           [("lam", ROWVAR, a.body), a.src]))
            self.fail(f"np.{fn} of something that is not an element-wise test", node)
        if not self.is_row(a):
            self.fail(f"np.{fn} of a non-array", node)
        if a.t == "vec":
            if axis is not None or fn not in ("sum", "mean", "std"):
                self.fail(f"np.{fn} of a 1-D array with these arguments", node)
            self.rule("np.sum / np.mean / np.std / np.corrcoef(a, b)[0, 1] of 1-D arrays: library "
                      "functions np_sum, np_mean, np_std, np_corrcoef01 : PARAMETERS of the generated "
                      "definition (instantiated with the model's own functions in the theorems)")
            return Sc(("app", self.libfun(f"np_{fn}", "fun1"), [a.e]), "R")
        if axis is None:
            self.fail(f"np.{fn} without axis=1 on a 2-D array", node)
        if fn not in ("sum", "prod"):
            self.fail(f"np.{fn} along a row", node)
        f = {"sum": "rsum", "prod": "rprod"}[fn]
        self.rule("np.sum(x, axis=1): rsum row; np.prod(x, axis=1): rprod row")
        return Sc(("app", f, [a.e]), "R")

    # ---------------- objects ----------------
    def class_info(self, cls, node=None):
        info = self.tables.get(cls)
        if info is None:
            self.fail(f"class {cls} has no constructor / Vector table", node)
        return info

    def new_object(self, cls, ctor_vals, node, top=False):
        info = self.class_info(cls, node)
        ctor = {}
        for nm, dflt in info["ctor"]:
            if nm in ctor_vals:
                ctor[nm] = ctor_vals[nm]
            elif top:
                ctor[nm] = OptArg(coq_ident(nm)) if dflt[0] == "none" \
                    else Sc(("var", coq_ident(nm)), "R")
            else:
                self.fail(f"{cls}(...) built without an explicit `{nm}` "
                          "(constructor defaults are not expanded)", node)
        for nm in ctor_vals:
            if nm not in ctor:
                self.fail(f"{cls}(...) has no argument `{nm}`", node)
        o = Obj(cls, ctor, top=top)
        if top:
            for role in ("params", "constants"):
                vec = info[role]
                vals = [Sc(("var", coq_ident(n)), "R") for n in vec["names"]] if vec else []
                setattr(o, role, vals)
        return o

    def signature(self, cls):
        """[(coq name, type)] of the generated definitions of a class: constructor
        arguments, parameters, constants"""
        info = self.class_info(cls)
        sig = []
        for nm, dflt in info["ctor"]:
            sig.append((coq_ident(nm), "optarg" if dflt[0] == "none" else "R"))
        for role in ("params", "constants"):
            vec = info[role]
            for n in (vec["names"] if vec else []):
                sig.append((coq_ident(n), "R"))
        names = [s[0] for s in sig]
        if len(set(names)) != len(names):
            self.fail(f"class {cls}: name clash among constructor arguments / parameters")
        return sig

    def obj_attr(self, obj, a, node):
        info = self.class_info(obj.cls, node)
        if a in ("params", "_params"):
            return Vec(obj, "params")
        if a in ("constants", "_constants"):
            return Vec(obj, "constants")
        for role in ("params", "constants"):
            vec = info[role]
            if vec and a in vec["names"]:
                vals = getattr(obj, role)
                if vals is None:
                    self.fail(f"value of {obj.cls}.{a} is not known here", node)
                self.rule("self.<name> for a parameter / constant name: the stored value "
                          "(Transform.__getattribute__)")
                return vals[vec["names"].index(a)]
        if a in obj.attrs:
            return obj.attrs[a]
        v = self.init_attr(obj, a, node)
        obj.attrs[a] = v
        return v

    def init_attr(self, obj, a, node):
        """value of `self.<a>` as assigned by the class's own __init__"""
        cnode = self.m.classes.get(obj.cls)
        init = None
        for s in (cnode.body if cnode else []):
            if isinstance(s, ast.FunctionDef) and s.name == "__init__":
                init = s
        if init is None:
            self.fail(f"{obj.cls}.__init__ not found (attribute {a})", node)
        env = Env({"self": obj})
        for nm, v in obj.ctor.items():
            env = env.bind(nm, v)

        def is_target(t):
            return isinstance(t, ast.Attribute) and isinstance(t.value, ast.Name) \
                and t.value.id == "self" and t.attr == a

        def mentions(stmts):
            for s in stmts:
                for n in ast.walk(s):
                    if isinstance(n, (ast.Assign, ast.AugAssign, ast.AnnAssign)):
                        ts = n.targets if isinstance(n, ast.Assign) else [n.target]
                        if any(is_target(t) for t in ts):
                            return True
            return False

        found = []
        self._stack.append(f"{obj.cls}.__init__")
        try:
            for s in init.body:
                if isinstance(s, ast.Assign) and len(s.targets) == 1 and is_target(s.targets[0]):
                    found.append(self.init_value(s.value, env, node))
                elif isinstance(s, ast.If) and mentions([s]):
                    found.append(self.init_if(s, env, is_target, mentions, node))
                elif mentions([s]):
                    self.fail(f"assignment of self.{a} in a form that is not understood", s)
        finally:
            self._stack.pop()
        if len(found) != 1:
            self.fail(f"{obj.cls}.__init__ assigns self.{a} {len(found)} times", node)
        return found[0]

    def init_value(self, vnode, env, node):
        if isinstance(vnode, ast.Call) and isinstance(vnode.func, ast.Name) \
                and vnode.func.id in self.m.classes and vnode.func.id in self.tables:
            if vnode.args:
                self.fail("inner object built with positional arguments", vnode)
            vals = {k.arg: self.expr(k.value, env) for k in vnode.keywords}
            self.rule("self.X = Class(arg=...) in __init__: an inner object whose constructor "
                      "arguments are those expressions")
            return self.new_object(vnode.func.id, vals, vnode)
        return self.expr(vnode, env)

    def init_if(self, s, env, is_target, mentions, node):
        def branch(stmts):
            vals = []
            for t in stmts:
                if isinstance(t, ast.Assign) and len(t.targets) == 1 and is_target(t.targets[0]):
                    vals.append(t)
                elif mentions([t]):
                    self.fail("nested assignment of the attribute", t)
            if len(vals) != 1:
                self.fail("attribute not assigned exactly once in each branch", s)
            return vals[0].value
        bnode, onode = branch(s.body), branch(s.orelse)
        # `if base is None` on an option-typed constructor argument
        t = s.test
        if isinstance(t, ast.Compare) and len(t.ops) == 1 and isinstance(t.ops[0], (ast.Is, ast.IsNot)) \
                and isinstance(t.left, ast.Name) and isinstance(env.d.get(t.left.id), OptArg) \
                and isinstance(t.comparators[0], ast.Constant) and t.comparators[0].value is None:
            arg = env.d[t.left.id]
            none_node, some_node = (bnode, onode) if isinstance(t.ops[0], ast.Is) else (onode, bnode)
            vn = self.scalar(self.init_value(none_node, env.bind(t.left.id, PYNONE), node), node)
            bound = arg.name
            vs = self.scalar(self.init_value(some_node,
                                             env.bind(t.left.id, Sc(("var", bound), "R")), node), node)
            vn, vs, ty = self.unify(vn, vs, node)
            self.rule("if arg is None: A else: B (arg=None by default): "
                      "match arg with None => A | Some arg => B end")
            return Sc(("matchopt", arg.name, vn.e, bound, vs.e), ty)
        c = self.boolean(self.expr(t, env), s)
        return self.cond_if(c, self.init_value(bnode, env, node), self.init_value(onode, env, node), s)

    def call_method(self, obj, name, args, node):
        r = self.m.method(obj.cls, name)
        if r is None:
            self.fail(f"method {obj.cls}.{name} not found", node)
        defcls, fn = r
        if name in self.CORE and not (obj.top and self._stack and
                                      self._stack[0].startswith(obj.cls + ".")):
            # core method of another object: call of its generated definition
            d = self.translate_method(obj.cls, name)
            if d is None:
                self.fail(f"{obj.cls}.{name} could not be translated", node)
            call_args = []
            for nm, ty in self.signature(obj.cls):
                pass
            info = self.class_info(obj.cls)
            for nm, dflt in info["ctor"]:
                v = obj.ctor[nm]
                if isinstance(v, OptArg):
                    call_args.append(("var", v.name))
                elif isinstance(v, PyNone):
                    call_args.append(NONE_E)
                else:
                    v = self.scalar(v, node)
                    call_args.append(("some", v.e) if dflt[0] == "none" else v.e)
            for role in ("params", "constants"):
                vec = info[role]
                vals = getattr(obj, role)
                if vec and vec["names"]:
                    if vals is None:
                        self.fail(f"{obj.cls}.{role} values are not known at this call", node)
                    for v in vals:
                        v = self.scalar(v, node)
                        if v.t != "R":
                            self.fail("NaN-able value stored as a parameter", node)
                        call_args.append(v.e)
            if len(args) != 1:
                self.fail("core method called with several arguments", node)
            x = self.scalar(args[0], node)
            self.rule("obj._forward(e) / obj.forward(e) on an inner object: call of the generated "
                      "definition of that class with the object's constructor arguments and "
                      "current parameter values")
            if x.t == "R":
                return Sc(("app", d.name, call_args + [x.e]), d.rtype)
            self.fail("core method applied to a NaN-able value", node)
        return self.inline_function(fn, args, node, selfobj=obj, label=f"{defcls}.{name}")

    def inline_function(self, fn, args, node, selfobj=None, label=None):
        a = fn.args
        if a.posonlyargs or a.kwonlyargs or a.vararg or a.kwarg:
            self.fail(f"signature of {fn.name} not supported", node)
        names = [x.arg for x in a.args]
        env = Env()
        if selfobj is not None:
            if names[:1] != ["self"]:
                self.fail(f"{fn.name} is not an instance method", node)
            env = env.bind("self", selfobj)
            names = names[1:]
        ndef = len(a.defaults)
        if len(args) > len(names) or len(args) < len(names) - ndef:
            self.fail(f"call of {fn.name} with {len(args)} argument(s)", node)
        for nm, v in zip(names, args):
            env = env.bind(nm, v)
        for nm, d in zip(names[len(names) - ndef:], a.defaults):
            if nm not in env.d:
                env = env.bind(nm, self.expr(d, Env()))
        self._stack.append(label or fn.name)
        if len(self._stack) > 12:
            self.fail("call depth exceeded (recursion?)", node)
        try:
            return self.stmts(fn.body, env, fn)
        finally:
            self._stack.pop()

    # ---------------- statements ----------------
    @staticmethod
    def has_return(stmts):
        for s in stmts:
            for n in ast.walk(s):
                if isinstance(n, (ast.Return, ast.Raise)):
                    return True
        return False

    def is_glue_stmt(self, s, env):
        """statements without effect on the value; returns a description or None"""
        if isinstance(s, ast.Pass):
            return "pass"
        if isinstance(s, ast.Expr):
            v = s.value
            if isinstance(v, ast.Constant) and isinstance(v.value, str):
                return "docstring"
            if isinstance(v, ast.Call):
                f = v.func
                if isinstance(f, ast.Name) and f.id == "print":
                    return "print(...)"
                if isinstance(f, ast.Attribute) and isinstance(f.value, ast.Name):
                    base = f.value.id
                    c = self.m.canon(base) or base
                    if (c, f.attr) in GLUE_STMT_CALLS or (c, None) in GLUE_STMT_CALLS \
                            or (base, None) in GLUE_STMT_CALLS:
                        return f"{base}.{f.attr}(...) (logging / warning)"
        if isinstance(s, ast.Assign) and len(s.targets) == 1 and isinstance(s.targets[0], ast.Name) \
                and s.targets[0].id in ("errmess", "errmsg", "error_msg", "msg", "txt") \
                and isinstance(s.value, (ast.JoinedStr, ast.Constant, ast.BinOp)):
            try:
                if isinstance(self.expr(s.value, env), Str):
                    return f"{s.targets[0].id} = <message string>"
            except BrokenTie:
                return None
        return None

    def is_shape_check(self, s):
        """`if x.ndim > 2: raise ...` / `if a.shape != b.shape: raise ...`"""
        if not isinstance(s, ast.If) or s.orelse:
            return False
        uses_shape = any(isinstance(n, ast.Attribute) and n.attr in ("ndim", "shape", "size")
                         for n in ast.walk(s.test))
        only_shape = all(not isinstance(n, ast.Call) for n in ast.walk(s.test))
        body_raises = all(isinstance(b, ast.Raise) or self.is_glue_stmt(b, Env()) for b in s.body) \
            and any(isinstance(b, ast.Raise) for b in s.body)
        return uses_shape and only_shape and body_raises

    def stmts(self, stmts, env, where):
        """value returned by executing `stmts` (then falling off the end is an error)"""
        if not stmts:
            self.fail("control reaches the end of the function without `return`", where)
        s, rest = stmts[0], list(stmts[1:])
        g = self.is_glue_stmt(s, env)
        if g is not None:
            self.skip(g)
            return self.stmts(rest, env, where)
        if isinstance(s, ast.Return):
            if self.checks_only and len(self._stack) == 1:
                self.rule("argument-check mode: every `raise` is false, the final `return <e>` is true; "
                          "<e> itself is NOT translated")
                return Bo(TRUE)
            if s.value is None:
                self.fail("bare return", s)
            v = self.expr(s.value, env)
            return v
        if isinstance(s, ast.Raise):
            if self.checks_only:
                return Bo(FALSE)
            self.rule("raise ...: None (the call fails; same convention as NaN)")
            return Sc(NONE_E, "oR")
        if self.is_shape_check(s):
            self.skip(f"shape check `if {_dump(s.test, 40)}: raise`")
            return self.stmts(rest, env, where)
        if isinstance(s, ast.With):
            for it in s.items:
                c = it.context_expr
                ok = isinstance(c, ast.Call) and isinstance(c.func, ast.Attribute) \
                    and isinstance(c.func.value, ast.Name) \
                    and ((self.m.canon(c.func.value.id) or c.func.value.id), c.func.attr) in GLUE_WITH
                if not ok or it.optional_vars is not None:
                    self.fail("`with` statement other than np.errstate / warnings.catch_warnings", s)
                self.skip(f"with {_dump(c, 40)}: (context manager, body translated)")
            return self.stmts(list(s.body) + rest, env, where)
        if isinstance(s, ast.If):
            c = self.boolean(self.expr(s.test, env), s)
            if c.e == TRUE:
                return self.stmts(list(s.body) + rest, env, where)
            if c.e == FALSE:
                return self.stmts(list(s.orelse) + rest, env, where)
            if not self.has_return(s.body) and not self.has_return(s.orelse):
                env2, lets = self.phi(s, c, env)
                body = self.stmts(rest, env2, where)
                return self.wrap_lets(lets, body)
            self.rule("if c: A [else: B] followed by S, with a return inside: "
                      "if c then [A; S] else [B; S]")
            a = self.stmts(list(s.body) + rest, env, where)
            b = self.stmts(list(s.orelse) + rest, env, where)
            return self.cond_if(c, a, b, s)
        if isinstance(s, (ast.Assign, ast.AugAssign)):
            env2, lets = self.assign(s, env)
            body = self.stmts(rest, env2, where)
            return self.wrap_lets(lets, body)
        self.fail(f"statement {type(s).__name__} not supported", s)

    def wrap_lets(self, lets, body):
        """let-bindings around every leaf of the returned value"""
        if not lets:
            return body

        def wrap(e):
            for name, v in reversed(lets):
                e = ("let", name, v, e)
            return e
        if isinstance(body, Sc):
            return Sc(wrap(body.e), body.t)
        if isinstance(body, Bo):
            return Bo(wrap(body.e))
        if isinstance(body, Li):
            return Li([self.wrap_lets(lets, x) for x in body.items])
        if isinstance(body, Dict):
            return Dict(body.keys, [self.wrap_lets(lets, x) for x in body.vals])
        self.fail(f"function returns {type(body).__name__}")

    def assign(self, s, env):
        """-> (new env, [(coq name, expr)] let-bindings to wrap around the rest)"""
        if isinstance(s, ast.AugAssign):
            op = s.op
            cur = self.expr(s.target, env) if isinstance(s.target, ast.Name) else None
            if cur is None:
                self.fail("augmented assignment to a non-name", s)
            val = self.e_BinOp(ast.BinOp(left=s.target, op=op, right=s.value), env)
            return self.bind_name(s.target.id, val, env, s)
        if len(s.targets) != 1:
            self.fail("chained assignment", s)
        t = s.targets[0]
        if isinstance(t, ast.Name):
            val = self.expr(s.value, env)
            return self.bind_name(t.id, val, env, s)
        if isinstance(t, (ast.Tuple, ast.List)):
            val = self.expr(s.value, env)
            lets = []

            def unpack(tnode, v, env):
                if isinstance(tnode, ast.Name):
                    env, l2 = self.bind_name(tnode.id, v, env, s)
                    lets.extend(l2)
                    return env
                if isinstance(tnode, (ast.Tuple, ast.List)) and isinstance(v, Li) \
                        and len(v.items) == len(tnode.elts):
                    for e2, v2 in zip(tnode.elts, v.items):
                        env = unpack(e2, v2, env)
                    return env
                self.fail("tuple unpacking of something that is not a list of the same length", s)
            env = unpack(t, val, env)
            self.rule("a, b = self.params.values: the stored parameter values, in the order of "
                      "the Vector's names")
            return env, lets
        if isinstance(t, ast.Subscript) and isinstance(t.value, ast.Name):
            # y[mask] = e
            name = t.value.id
            cur = self.expr(t.value, env)
            mask = self.expr(t.slice, env)
            if not isinstance(mask, Bo) or not isinstance(cur, Sc):
                self.fail("subscript assignment that is not `array[mask] = value`", s)
            val = self.expr(s.value, env.copy(maskctx=mask.e))
            new = self.cond_if(mask, val, cur, s)
            self.rule("y[mask] = e: y := if mask then e else y (on the element; x[mask] inside e "
                      "is the element x)")
            return self.bind_name(name, new, env, s)
        if isinstance(t, ast.Attribute):
            return self.assign_attr(t, s, env)
        self.fail("assignment target not supported", s)

    def fresh(self, name):
        """a Coq name not used yet in the current definition (no shadowing, hence no capture
        when atoms are substituted)"""
        base = coq_ident(name)
        cn, k = base, 0
        while cn in self.used:
            k += 1
            cn = f"{base}{k}"
        self.used.add(cn)
        return cn

    def bind_name(self, name, val, env, node):
        if isinstance(val, (Li, Obj, Vec, OptArg, PyNone, Str, Mod, Dict, Fwd)):
            return env.bind(name, val), []
        if isinstance(val, Sc):
            atom = val.e[0] in ("num", "znum", "var", "none")
            if env.inline or atom:
                return env.bind(name, val), []       # substituted
            cn = self.fresh(name)
            return env.bind(name, Sc(("var", cn), val.t)), [(cn, val.e)]
        if isinstance(val, Bo):
            if env.inline or val.e in (TRUE, FALSE) or val.e[0] == "var":
                return env.bind(name, val), []
            cn = self.fresh(name)
            return env.bind(name, Bo(("var", cn))), [(cn, val.e)]
        self.fail(f"cannot bind {type(val).__name__}", node)

    def assign_attr(self, t, s, env):
        # self.BC.params.values = [...]
        if t.attr == "values":
            vec = self.expr(t.value, env)
            if isinstance(vec, Vec) and not vec.obj.top:
                if env.inline:
                    self.fail("inner object's parameters set inside a conditional", s)
                val = self.expr(s.value, env)
                info = self.class_info(vec.obj.cls, s)
                names = info[vec.role]["names"] if info[vec.role] else []
                if not isinstance(val, Li) or len(val.items) != len(names):
                    self.fail("Vector.values set to something that is not a list of its length", s)
                ctor_args = []
                for nm, dflt in info["ctor"]:
                    if dflt[0] == "none":
                        continue           # bounds are functions of the numeric arguments only
                    ctor_args.append(self.scalar(vec.obj.ctor[nm], s).e)
                clipped = []
                for nm, v in zip(names, val.items):
                    v = self.scalar(v, s)
                    if v.t != "R":
                        self.fail("NaN-able value stored in a Vector", s)
                    lo = ("app", f"TR_{vec.obj.cls}_{nm}_min", ctor_args) if ctor_args \
                        else ("var", f"TR_{vec.obj.cls}_{nm}_min")
                    hi = ("app", f"TR_{vec.obj.cls}_{nm}_max", ctor_args) if ctor_args \
                        else ("var", f"TR_{vec.obj.cls}_{nm}_max")
                    clipped.append(Sc(("app", "vclip", [lo, hi, v.e]), "R"))
                self.rule("obj.params.values = [e1, ...] on an inner object: its k-th parameter "
                          "becomes vclip min_k max_k e_k, the bounds being those extracted from "
                          "the class's Vector(...) call (Gen/ConstsC01.v) - Vector.values clips")
                # state update (objects are shared by reference inside one translation)
                setattr(vec.obj, vec.role, clipped)
                return env, []
        self.fail("attribute assignment not supported", s)

    def phi(self, s, c, env):
        """`if c: A else: B` without return/raise: every name assigned in a branch becomes
        `if c then <value after A> else <value after B>`"""
        self.rule("if c: A [else: B] without return: every name assigned in A or B becomes "
                  "if c then (value after A) else (value after B)")
        ea = self.exec_inline(s.body, env.copy(inline=True))
        eb = self.exec_inline(s.orelse, env.copy(inline=True))
        names = []
        for k in list(ea.d) + list(eb.d):
            if k not in names and (ea.d.get(k) is not env.d.get(k) or eb.d.get(k) is not env.d.get(k)):
                names.append(k)
        env2, lets = env, []
        for k in names:
            va, vb = ea.d.get(k), eb.d.get(k)
            if va is None or vb is None or isinstance(va, Unbound) or isinstance(vb, Unbound):
                env2 = env2.bind(k, Unbound("assigned in one branch of an `if` only"))
                continue
            if not isinstance(va, (Sc, Bo)) or not isinstance(vb, (Sc, Bo)):
                self.fail(f"`{k}` assigned a non-scalar inside a conditional", s)
            new = self.cond_if(c, va, vb, s)
            env2, l2 = self.bind_name(k, new, env2, s)
            lets += l2
        return env2, lets

    def exec_inline(self, stmts, env):
        for s in stmts:
            g = self.is_glue_stmt(s, env)
            if g is not None:
                self.skip(g)
                continue
            if isinstance(s, (ast.Assign, ast.AugAssign)):
                env, lets = self.assign(s, env)
                if lets:
                    self.fail("internal: let in inline mode", s)
                continue
            if isinstance(s, ast.If):
                c = self.boolean(self.expr(s.test, env), s)
                if c.e == TRUE:
                    env = self.exec_inline(s.body, env)
                elif c.e == FALSE:
                    env = self.exec_inline(s.orelse, env)
                else:
                    env, lets = self.phi(s, c, env)
                    if lets:
                        self.fail("internal: let in inline mode", s)
                continue
            self.fail(f"statement {type(s).__name__} inside a conditional block", s)
        return env

    # ---------------- entry points ----------------
    def translate_method(self, cls, method):
        key = (cls, method)
        if key in self.defs:
            return self.defs[key]
        r = self.m.method(cls, method)
        if r is None:
            raise BrokenTie(f"{self.m.rel}: {cls}.{method} not found")
        defcls, fn = r
        a = fn.args
        if a.posonlyargs or a.kwonlyargs or a.vararg or a.kwarg or a.defaults:
            raise BrokenTie(f"{self.m.rel}: signature of {cls}.{method} not supported")
        argn = [x.arg for x in a.args]
        if len(argn) != 2 or argn[0] != "self":
            raise BrokenTie(f"{self.m.rel}: {cls}.{method} must take (self, x)")
        saved = (self.skipped, self._stack)
        self.skipped, self._stack = [], [f"{cls}.{method}"]
        self.libparams, self.checks_only, self.extra_params = {}, False, []
        try:
            obj = self.new_object(cls, {}, fn, top=True)
            x = coq_ident(argn[1])
            sig = self.signature(cls)
            if x in [s[0] for s in sig]:
                self.fail(f"argument name {x} clashes with a parameter name", fn)
            self.used = {s[0] for s in sig} | {x, ROWVAR}
            # np.atleast_2d(<argument>) in the body: the method works on a 2-D array and
            # is translated for ONE ROW of it
            row = any(isinstance(n, ast.Call) and isinstance(n.func, ast.Attribute)
                      and n.func.attr == "atleast_2d" and len(n.args) == 1
                      and isinstance(n.args[0], ast.Name) and n.args[0].id == argn[1]
                      for n in ast.walk(fn))
            if row:
                self.rule("np.atleast_2d(<argument>) in the method: the argument is a 2-D array and "
                          "the definition is generated for ONE ROW of it (list R)")
            xval = Sc(("var", x), "row" if row else "R")
            env = Env({"self": obj, argn[1]: xval})
            val = self.stmts(fn.body, env, fn)
            if isinstance(val, Sc) and val.t in ("R", "oR", "row", "orow"):
                body, rtype = val.e, val.t
            else:
                self.fail(f"the method returns {type(val).__name__}", fn)
            suffix = self.CORE.get(method, method.strip("_"))
            d = Def(f"{self.prefix}{cls}_{suffix}", sig + [(x, "row" if row else "R")], rtype, body,
                    f"{self.m.rel}: {defcls}.{method} (line {fn.lineno})", list(self.skipped))
            self.defs[key] = d
            return d
        finally:
            self.skipped, self._stack = saved

    def translate_function(self, name, argspec, coqname, mode="R", checks_only=False,
                           select=0):
        """Module-level function -> list of Def.

        argspec: [(python name, kind)] in the order of the function's arguments; kind is
          'R' | 'Z' | 'vec' | 'optarg'      an argument of that Coq type
          'fwd'                            a transform object (only .forward is used)
          ('fixed', value)                 the definition is generated for this value of the
                                           argument (a Python constant: bool / str / number)
          ('mat', [[names]], 'Z'|'R')      a nested list bound by tuple unpacking
        A returned tuple of scalars gives one definition per component (<coqname>_<k>), a
        returned dict one per key (<coqname>_<key>); of a returned tuple of dicts only the
        dict number `select` is generated.  checks_only: see the rule text."""
        fn = self.m.functions.get(name)
        if fn is None:
            raise BrokenTie(f"{self.m.rel}: function {name} not found")
        a = fn.args
        if a.posonlyargs or a.kwonlyargs or a.vararg or a.kwarg:
            raise BrokenTie(f"{self.m.rel}: signature of {name} not supported")
        argn = [x.arg for x in a.args]
        if argn != [n for n, _ in argspec]:
            raise BrokenTie(f"{self.m.rel}: {name}{tuple(argn)}: expected arguments "
                            f"{tuple(n for n, _ in argspec)}")
        saved = (self.skipped, self._stack, self.libparams, self.checks_only, self.extra_params)
        self.skipped, self._stack, self.libparams = [], [name], {}
        self.checks_only, self.extra_params = checks_only, []
        try:
            env = Env({"__mode__": mode})
            self.used = {ROWVAR, PAIRVAR, "i_"}
            sig, fixed = [], []
            for n, kind in argspec:
                cn = coq_ident(n)
                if isinstance(kind, tuple) and kind[0] == "fixed":
                    v = kind[1]
                    fixed.append(f"{n}={v!r}")
                    if isinstance(v, bool):
                        env = env.bind(n, Bo(TRUE if v else FALSE))
                    elif isinstance(v, str):
                        env = env.bind(n, Str(v))
                    elif v is None:
                        env = env.bind(n, PYNONE)
                    else:
                        env = env.bind(n, Sc(("num", Fraction(v)), "R",
                                             ilit=v if isinstance(v, int) else None))
                    continue
                if isinstance(kind, tuple) and kind[0] == "mat":
                    rows = []
                    for r in kind[1]:
                        items = []
                        for nm in r:
                            c2 = coq_ident(nm)
                            self.used.add(c2)
                            sig.append((c2, kind[2]))
                            items.append(Sc(("var", c2), kind[2]))
                        rows.append(Li(items))
                    env = env.bind(n, Li(rows))
                    continue
                self.used.add(cn)
                sig.append((cn, kind))
                if kind == "optarg":
                    env = env.bind(n, OptArg(cn))
                elif kind == "fwd":
                    env = env.bind(n, Fwd(cn))
                else:
                    env = env.bind(n, Sc(("var", cn), kind))
            val = self.stmts(fn.body, env, fn)
            lib = [(k, v) for k, v in self.libparams.items()]
            params = lib + sig + list(self.extra_params)
            origin = f"{self.m.rel}: {name} (line {fn.lineno})" + \
                (f" with {', '.join(fixed)}" if fixed else "")
            if checks_only:
                origin += " - argument checks only"
            outs = []

            def one(cname, v):
                if isinstance(v, Bo):
                    outs.append(Def(cname, params, "B", v.e, origin, list(self.skipped)))
                elif isinstance(v, Sc) and v.t in COQ_TYPE:
                    outs.append(Def(cname, params, v.t, v.e, origin, list(self.skipped)))
                else:
                    self.fail(f"{cname}: value of kind {type(v).__name__} cannot be emitted", fn)
            if isinstance(val, Li) and val.items and all(isinstance(x, Dict) for x in val.items):
                val = val.items[select]
            if isinstance(val, Dict):
                for k, v in zip(val.keys, val.vals):
                    one(f"{coqname}_{coq_ident(k)}", v)
            elif isinstance(val, Li):
                for k, v in enumerate(val.items):
                    one(f"{coqname}_{k}", v)
            else:
                one(coqname, val)
            for d in outs:
                self.defs[(name, d.name)] = d
            return outs
        finally:
            self.skipped, self._stack, self.libparams, self.checks_only, self.extra_params = saved


if __name__ == "__main__":
    import sys
    from harness import common as cm
    from harness.extractors import c01
    rel, cls, meth = sys.argv[1:4]
    mod = Module(cm.REPO, rel)
    tabs = c01.tables(cm.REPO)["classes"] if rel.endswith("transform.py") else None
    tr = Translator(mod, tabs)
    if cls == "-":
        raise SystemExit("use harness.extractors.pygen for module-level functions")
    d = tr.translate_method(cls, meth)
    for dd in tr.defs.values():
        print(dd.text())
        print()
