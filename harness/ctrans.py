"""C kernels -> MiniC (coq/Base/MiniC.v) translator.

Runs `clang -fsyntax-only -Xclang -ast-dump=json` on every kernel source of the
tree under test, walks the JSON AST and emits Coq text: one `fundef` per C
function with a body.  FAIL-CLOSED PER FUNCTION: a function that uses a
construct outside the supported subset is emitted as `Untranslated "<reason>"`
and never approximated.  See notes/MINIC.md for the subset and the semantics.

    PYTHONPATH=/verif /venv/bin/python -m harness.ctrans            # report
    PYTHONPATH=/verif /venv/bin/python -m harness.ctrans --coq      # the Coq text
"""
import hashlib
import json
import os
import re
import subprocess
import sys
from fractions import Fraction
from pathlib import Path

# (package, file stem) in a fixed order; the order fixes the order of `program`
KERNEL_FILES = [
    ("gis", "c_grid"), ("gis", "c_catchment"), ("gis", "c_points_inside_polygon"),
    ("data", "c_dutils"), ("data", "c_dateutils"), ("data", "c_qualitycontrol"),
    ("data", "c_var2h"), ("data", "c_baseflow"),
    ("stat", "c_armodels"), ("stat", "c_paretofront"), ("stat", "c_olsleverage"),
    ("stat", "c_crps"), ("stat", "c_dscore"), ("stat", "c_andersondarling"),
    ("stat", "AnDarl"), ("stat", "ADinf"),
]

DROPPED_CALLS = {"fprintf", "printf", "free", "fflush"}
LIBM1 = {"exp", "log", "floor", "ceil", "log10", "sin", "cos", "tan", "tanh", "erf", "erfc"}
LIBM2 = {"pow", "fmod", "atan2"}


class Unsupported(Exception):
    pass


# Overflow-checked mode (Gen/KernelsAstChk.v, `program_chk`): every signed integer +, -, *, /,
# unary -, ++, --, op= is wrapped in `IChk <width of its C type>`: the MiniC interpreter then
# stops with `Err (Overflow ..)` where the C program has undefined behaviour.  `%`, `&`, `|`
# cannot overflow (INT_MIN % -1 aside, which is flagged through `/` only when written so).
CHK = False


def chk(w, text):
    return f"(IChk {w} {text})" if CHK else text


class TranslatorError(Exception):
    """clang failed / the AST has an unexpected shape at file level (fail-closed for the file)."""


# ----------------------------------------------------------------------------
# types

def _norm_type(qt):
    t = qt.replace("const ", "").replace("volatile ", "").strip()
    t = re.sub(r"\s+", " ", t)
    return t


SCALAR_INT = {"int": "W32", "long long": "W64", "long": "W64"}


def classify(tnode):
    """-> ('i', width) | ('f',) | ('p', elem) | ('a', elem, n) | ('pv',) | ('p2', elem, k) | ('a2', elem, n, k)"""
    qt = tnode.get("desugaredQualType", tnode.get("qualType"))
    t = _norm_type(qt)
    if t in SCALAR_INT:
        return ("i", SCALAR_INT[t])
    if t == "double":
        return ("f",)
    m = re.fullmatch(r"(int|long long|long|double) \*", t)
    if m:
        return ("p", "f" if m.group(1) == "double" else "i")
    m = re.fullmatch(r"(int|long long|long|double)\[(\d+)\]", t)
    if m:
        return ("a", "f" if m.group(1) == "double" else "i", int(m.group(2)))
    if t == "void *":
        return ("pv",)
    m = re.fullmatch(r"double \(\*\)\[(\d+)\]", t)
    if m:
        return ("p2", "f", int(m.group(1)))
    raise Unsupported(f"type `{qt}`")


def is_ulong(tnode):
    return _norm_type(tnode.get("desugaredQualType", tnode.get("qualType", ""))) == "unsigned long"


def cq(s):
    return '"' + s.replace('"', '""') + '"'


def zlit(n):
    n = int(n)
    return f"({n})" if n < 0 else str(n)


def iconst(n):
    return f"(IConst {zlit(n)})"


def coq_float_lit(x):
    if x != x or x in (float("inf"), float("-inf")):
        raise Unsupported("non-finite literal")
    if x == 0.0:
        return "0%float"
    h = x.hex()
    return f"({h})%float"


IBIN = {"+": "IAdd", "-": "ISub", "*": "IMul", "/": "IDiv", "%": "IRem", "|": "IBitOr", "&": "IBitAnd"}
FBIN = {"+": "FAdd", "-": "FSub", "*": "FMul", "/": "FDiv"}
CMP = {"<": "CLt", "<=": "CLe", ">": "CGt", ">=": "CGe", "==": "CEq", "!=": "CNe"}


def strip_parens(n):
    while n.get("kind") == "ParenExpr":
        n = n["inner"][0]
    return n


def strip_casts(n, kinds=("ParenExpr", "ImplicitCastExpr", "CStyleCastExpr")):
    while n.get("kind") in kinds:
        n = n["inner"][0]
    return n


# ----------------------------------------------------------------------------
# one function

class Fn:
    def __init__(self, unit, node):
        self.unit = unit
        self.node = node
        self.name = node["name"]
        self.vars = {}      # name -> dict(kind= i|f|ai|af|ptr|pv , ...)
        self.alias = {}     # pointer alias -> target array name
        self.ntmp = 0
        self.pre = []       # hoisted call statements of the expression being translated
        self.cond_depth = 0
        self.static_zero = set()
        self.assigned = self._assigned_names(node)

    # -- helpers ---------------------------------------------------------
    def _assigned_names(self, node):
        """names of variables that are assigned / incremented / address-taken anywhere"""
        out = set()

        def target(n):
            n = strip_parens(n)
            if n.get("kind") == "DeclRefExpr":
                out.add(n["referencedDecl"]["name"])

        def walk(n):
            if not isinstance(n, dict):
                return
            k = n.get("kind")
            if k in ("BinaryOperator", "CompoundAssignOperator") and \
                    (n.get("opcode") == "=" or k == "CompoundAssignOperator"):
                target(n["inner"][0])
            if k == "UnaryOperator" and n.get("opcode") in ("++", "--", "&"):
                target(n["inner"][0])
            for c in n.get("inner", []):
                walk(c)
        walk(node)
        return out

    def tmp(self, kind):
        self.ntmp += 1
        name = f"_t{self.ntmp}"
        self.vars[name] = {"kind": kind}
        return name

    def resolve(self, name):
        seen = set()
        while name in self.alias:
            if name in seen:
                raise Unsupported("pointer alias cycle")
            seen.add(name)
            name = self.alias[name]
        return name

    def var(self, name):
        if name not in self.vars:
            raise Unsupported(f"reference to `{name}` (not a local or parameter)")
        return self.vars[name]

    # -- literals ----------------------------------------------------------
    def float_literal(self, n):
        if classify(n["type"]) != ("f",):
            raise Unsupported("floating literal that is not a double")
        b = n["range"]["begin"]
        if "offset" not in b or "tokLen" not in b:
            raise Unsupported("floating literal from a macro expansion")
        tok = self.unit.src[b["offset"]: b["offset"] + b["tokLen"]].decode("ascii", "replace")
        if not re.fullmatch(r"(\d+\.?\d*|\.\d+)([eE][-+]?\d+)?", tok):
            raise Unsupported(f"floating literal token `{tok}`")
        x = float(tok)
        if x != float(n["value"]):
            raise Unsupported(f"floating literal `{tok}` does not match clang's value {n['value']}")
        q = Fraction(tok)
        return f"(FLit {coq_float_lit(x)} {zlit(q.numerator)} {q.denominator})"

    # -- pointers ----------------------------------------------------------
    def tr_ptr(self, n):
        """pointer-valued expression -> (array name, elem kind, offset iexp text or None)"""
        n = strip_parens(n)
        k = n.get("kind")
        if k in ("ImplicitCastExpr", "CStyleCastExpr"):
            ck = n.get("castKind")
            inner = n["inner"][0]
            if ck == "ArrayToPointerDecay":
                base = strip_parens(inner)
                if base.get("kind") == "DeclRefExpr":
                    name = base["referencedDecl"]["name"]
                    v = self.var(name)
                    if v["kind"] not in ("ai", "af"):
                        raise Unsupported(f"array decay of `{name}`")
                    return (name, v["kind"][1], None)
                if base.get("kind") == "ArraySubscriptExpr":
                    # row of a 2-D array: a[j] with a : T(*)[k]
                    t = classify(base["type"])
                    if t[0] != "a":
                        raise Unsupported("array decay of a non-array element")
                    name, ek, idx = self.tr_row(base)
                    return (name, ek, idx)
                raise Unsupported("array decay of a complex expression")
            if ck == "LValueToRValue":
                base = strip_parens(inner)
                if base.get("kind") != "DeclRefExpr":
                    raise Unsupported("pointer read from a non-variable")
                name = self.resolve(base["referencedDecl"]["name"])
                v = self.var(name)
                if v["kind"] in ("ai", "af"):
                    return (name, v["kind"][1], None)
                if v["kind"] == "pv":
                    # element kind fixed by the enclosing cast (or by an earlier one)
                    return (name, v["elem"][1] if v.get("elem") else None, None)
                if v["kind"] == "a2":
                    return (name, "2", None)
                raise Unsupported(f"pointer variable `{name}` is not bound to an array")
            if ck in ("BitCast", "NoOp"):
                name, ek, off = self.tr_ptr(inner)
                tk = classify(n["type"])
                if ek is None:
                    if tk[0] != "p":
                        raise Unsupported("cast of void* to an unsupported pointer type")
                    v = self.var(name)
                    want = "a" + tk[1]
                    if v.get("elem") not in (None, want):
                        raise Unsupported(f"`{name}` used with two element types")
                    v["elem"] = want
                    return (name, tk[1], off)
                if tk[0] == "p" and tk[1] != ek:
                    raise Unsupported("pointer cast changing the element type")
                return (name, ek, off)
            raise Unsupported(f"pointer cast {ck}")
        if k == "UnaryOperator" and n.get("opcode") == "&":
            inner = strip_parens(n["inner"][0])
            if inner.get("kind") == "ArraySubscriptExpr":
                name, ek, idx = self.tr_elem(inner)
                return (name, ek, idx)
            raise Unsupported("address of a non-array-element")
        if k == "BinaryOperator" and n.get("opcode") == "+":
            name, ek, off = self.tr_ptr(n["inner"][0])
            idx = self.tr_int(n["inner"][1])
            return (name, ek, self.add_off(off, idx))
        raise Unsupported(f"pointer expression {k}")

    @staticmethod
    def add_off(off, idx):
        if off is None:
            return idx
        return f"(IBin IAdd {off} {idx})"

    def tr_row(self, n):
        """a[j] where a is a pointer to rows of k elements -> (name, elem, flat offset j*k)"""
        base, idx = n["inner"]
        bn = strip_parens(base)
        if bn.get("kind") == "ImplicitCastExpr" and bn.get("castKind") == "LValueToRValue":
            d = strip_parens(bn["inner"][0])
            if d.get("kind") == "DeclRefExpr":
                name = self.resolve(d["referencedDecl"]["name"])
                v = self.var(name)
                if v["kind"] == "a2":
                    j = self.tr_int(idx)
                    return (name, "f", f"(IBin IMul {j} {iconst(v['k'])})")
        raise Unsupported("2-D array access of an unsupported form")

    def tr_elem(self, n):
        """ArraySubscriptExpr -> (array name, elem kind, index iexp text)"""
        base, idx = n["inner"]
        name, ek, off = self.tr_ptr(base)
        if ek not in ("i", "f"):
            raise Unsupported("subscript of a pointer with unknown element type")
        i = self.tr_int(idx)
        return (name, ek, self.add_off(off, i))

    # -- lvalues -------------------------------------------------------------
    def tr_lvalue(self, n):
        """-> ('var', kind, name) | ('elem', kind, name, idx)"""
        n = strip_parens(n)
        k = n.get("kind")
        if k == "DeclRefExpr":
            name = n["referencedDecl"]["name"]
            v = self.var(name)
            if v["kind"] in ("i", "f"):
                return ("var", v["kind"], name)
            return ("ptrvar", v["kind"], name)
        if k == "ArraySubscriptExpr":
            name, ek, idx = self.tr_elem(n)
            return ("elem", ek, name, idx)
        if k == "UnaryOperator" and n.get("opcode") == "*":
            name, ek, off = self.tr_ptr(n["inner"][0])
            if ek not in ("i", "f"):
                raise Unsupported("dereference of a pointer with unknown element type")
            return ("elem", ek, name, off if off is not None else iconst(0))
        raise Unsupported(f"lvalue {k}")

    def read_lvalue(self, lv):
        if lv[0] == "var":
            return (lv[1], f"({'IVar' if lv[1] == 'i' else 'FVar'} {cq(lv[2])})")
        if lv[0] == "elem":
            return (lv[1], f"({'IArr' if lv[1] == 'i' else 'FArr'} {cq(lv[2])} {lv[3]})")
        raise Unsupported("read of a pointer variable as a value")

    def write_lvalue(self, lv, kind, text):
        if lv[0] == "var":
            if lv[1] != kind:
                raise Unsupported("assignment kind mismatch")
            return f"({'SSetI' if kind == 'i' else 'SSetF'} {cq(lv[2])} {text})"
        if lv[0] == "elem":
            if lv[1] != kind:
                raise Unsupported("store kind mismatch")
            return f"({'SStoreI' if kind == 'i' else 'SStoreF'} {cq(lv[2])} {lv[3]} {text})"
        raise Unsupported("assignment to a pointer variable")

    # -- expressions -----------------------------------------------------------
    def tr_int(self, n):
        k, t = self.tr_expr(n)
        if k != "i":
            raise Unsupported("integer expression expected")
        return t

    def tr_float(self, n):
        k, t = self.tr_expr(n)
        if k != "f":
            raise Unsupported("double expression expected")
        return t

    def is_static_zero(self, n):
        n = strip_casts(n, ("ParenExpr",))
        if n.get("kind") == "ImplicitCastExpr" and n.get("castKind") == "LValueToRValue":
            d = strip_parens(n["inner"][0])
            return d.get("kind") == "DeclRefExpr" and d["referencedDecl"]["name"] in self.static_zero
        return False

    def is_line_macro(self, n):
        """an IntegerLiteral produced by the builtin macro __LINE__ (spelled in clang's scratch
        space, expanded from the 8 characters `__LINE__` of the source file)"""
        b = n.get("range", {}).get("begin", {})
        sp, ex = b.get("spellingLoc"), b.get("expansionLoc")
        if not sp or not ex:
            return False
        # clang prints `file` only when it changes, so the scratch-space spelling cannot be relied
        # on: the source text at the expansion offset decides
        off, ln = ex.get("offset"), ex.get("tokLen")
        if ln != 8 or off is None:
            return False
        try:
            return self.unit.src[off:off + 8] == b"__LINE__"
        except Exception:
            return False

    def is_literal_value(self, n, val):
        n = strip_casts(n)
        if n.get("kind") == "IntegerLiteral":
            return int(n["value"]) == val
        if n.get("kind") == "FloatingLiteral":
            return float(n["value"]) == float(val)
        return False

    def nan_idiom(self, n):
        """`1./zero*zero` or `zero/zero` with `static double zero = 0.0` never assigned"""
        if n.get("kind") != "BinaryOperator":
            return False
        a, b = n["inner"]
        if n["opcode"] == "/" and self.is_static_zero(a) and self.is_static_zero(b):
            return True
        if n["opcode"] == "*" and self.is_static_zero(b):
            a = strip_parens(a)
            if a.get("kind") == "BinaryOperator" and a["opcode"] == "/":
                x, y = a["inner"]
                return self.is_static_zero(y) and self.is_literal_value(x, 1)
        return False

    def callee_name(self, n):
        f = strip_casts(n["inner"][0])
        if f.get("kind") != "DeclRefExpr" or f["referencedDecl"].get("kind") != "FunctionDecl":
            raise Unsupported("indirect call")
        return f["referencedDecl"]["name"]

    def tr_expr(self, n):
        """-> ('i'|'f', coq text)"""
        k = n.get("kind")
        if k == "ParenExpr":
            return self.tr_expr(n["inner"][0])
        if k == "IntegerLiteral":
            classify(n["type"])
            if self.is_line_macro(n):
                # __LINE__ (only ever used in `return ERROR + __LINE__`): abstracted to 1, so that the
                # translation does not change when lines are inserted above (error codes are
                # compared by class - positive - everywhere: wrappers, tie, theorems)
                return ("i", "(IConst 1 (* __LINE__ *))")
            return ("i", iconst(n["value"]))
        if k == "FloatingLiteral":
            return ("f", self.float_literal(n))
        if k in ("ImplicitCastExpr", "CStyleCastExpr"):
            return self.tr_cast(n)
        if k == "UnaryOperator":
            op = n["opcode"]
            if op in ("++", "--"):
                raise Unsupported("++/-- used as a value")
            if op == "*":
                raise Unsupported("dereference as an lvalue outside a load")
            a = n["inner"][0]
            if op == "+":
                return self.tr_expr(a)
            ka, ta = self.tr_expr(a)
            if op == "-":
                if ka == "i":
                    return ("i", chk(classify(n["type"])[1], f"(IUn INeg {ta})"))
                return ("f", f"(FUn FNeg {ta})")
            if op == "!":
                if ka != "i":
                    raise Unsupported("! of a double")
                return ("i", f"(IUn ILNot {ta})")
            if op == "~":
                if ka != "i":
                    raise Unsupported("~ of a double")
                return ("i", f"(IUn IBitNot {ta})")
            raise Unsupported(f"unary operator {op}")
        if k == "BinaryOperator":
            return self.tr_binop(n)
        if k == "ConditionalOperator":
            c, a, b = n["inner"]
            tc = self.tr_int(c)
            self.cond_depth += 1
            try:
                ka, ta = self.tr_expr(a)
                kb, tb = self.tr_expr(b)
            finally:
                self.cond_depth -= 1
            if ka != kb:
                raise Unsupported("?: with branches of different kinds")
            return (ka, f"({'ICond' if ka == 'i' else 'FCond'} {tc} {ta} {tb})")
        if k == "CallExpr":
            return self.tr_call_expr(n)
        if k == "ArraySubscriptExpr" or k == "DeclRefExpr":
            raise Unsupported(f"{k} used without a load")
        raise Unsupported(f"expression {k}")

    def tr_cast(self, n):
        ck = n.get("castKind")
        inner = n["inner"][0]
        if ck == "LValueToRValue":
            return self.read_lvalue(self.tr_lvalue(inner))
        if ck == "NoOp":
            return self.tr_expr(inner)
        if ck == "IntegralCast":
            tt = classify(n["type"])
            ts = classify(inner["type"])
            if tt[0] != "i" or ts[0] != "i":
                raise Unsupported("integral cast between unsupported types")
            if tt[1] == "W32" and ts[1] == "W64":
                raise Unsupported("narrowing integer cast (long long -> int)")
            return self.tr_expr(inner)
        if ck == "IntegralToFloating":
            if classify(n["type"]) != ("f",):
                raise Unsupported("conversion to a non-double floating type")
            return ("f", f"(FOfInt {self.tr_int(inner)})")
        if ck == "FloatingToIntegral":
            tt = classify(n["type"])
            if tt[0] != "i":
                raise Unsupported("conversion double -> unsupported integer type")
            c = strip_parens(inner)
            if c.get("kind") == "CallExpr" and self.callee_name(c) == "floor":
                return ("i", f"(IFloor {tt[1]} {self.tr_float(c['inner'][1])})")
            return ("i", f"(ITrunc {tt[1]} {self.tr_float(inner)})")
        if ck == "FloatingCast":
            if classify(n["type"]) == ("f",) and classify(inner["type"]) == ("f",):
                return self.tr_expr(inner)
            raise Unsupported("cast between floating types")
        raise Unsupported(f"cast {ck}")

    def tr_binop(self, n):
        op = n["opcode"]
        a, b = n["inner"]
        if op in ("=", ","):
            raise Unsupported(f"`{op}` used as a value")
        if op in ("&&", "||"):
            ta = self.tr_int(a)
            self.cond_depth += 1
            try:
                tb = self.tr_int(b)
            finally:
                self.cond_depth -= 1
            return ("i", f"({'IAnd' if op == '&&' else 'IOr'} {ta} {tb})")
        if op in CMP:
            # comparison of a malloc'ed pointer with NULL: allocation never fails in the model
            if "*" in a["type"]["qualType"] or "*" in b["type"]["qualType"]:
                return ("i", self.null_test(op, a, b))
            ka, ta = self.tr_expr(a)
            kb, tb = self.tr_expr(b)
            if ka != kb:
                raise Unsupported("comparison of mixed kinds")
            return ("i", f"({'ICmp' if ka == 'i' else 'IFCmp'} {CMP[op]} {ta} {tb})")
        if self.nan_idiom(n):
            return ("f", "FNan")
        ka, ta = self.tr_expr(a)
        kb, tb = self.tr_expr(b)
        if ka != kb:
            raise Unsupported("arithmetic on mixed kinds")
        rk = classify(n["type"])
        if rk[0] != ka:
            raise Unsupported("arithmetic result kind mismatch")
        if ka == "i":
            if op not in IBIN:
                raise Unsupported(f"integer operator {op}")
            tx = f"(IBin {IBIN[op]} {ta} {tb})"
            return ("i", chk(rk[1], tx) if op in ("+", "-", "*", "/") else tx)
        if op not in FBIN:
            raise Unsupported(f"double operator {op}")
        return ("f", f"(FBin {FBIN[op]} {ta} {tb})")

    def null_test(self, op, a, b):
        def is_null(x):
            x = strip_casts(x)
            return x.get("kind") == "IntegerLiteral" and int(x["value"]) == 0

        def is_heap(x):
            x = strip_casts(x, ("ParenExpr",))
            if x.get("kind") == "ImplicitCastExpr" and x.get("castKind") == "LValueToRValue":
                d = strip_parens(x["inner"][0])
                if d.get("kind") == "DeclRefExpr":
                    v = self.vars.get(d["referencedDecl"]["name"])
                    return v is not None and v.get("heap")
            return False
        if op in ("==", "!=") and ((is_null(a) and is_heap(b)) or (is_null(b) and is_heap(a))):
            return iconst(0 if op == "==" else 1)
        raise Unsupported("pointer comparison")

    def tr_call_expr(self, n):
        name = self.callee_name(n)
        args = n["inner"][1:]
        if name in ("__builtin_isnan", "isnan", "__isnan"):
            return ("i", f"(IIsnan {self.tr_float(args[0])})")
        if name in ("sqrt", "fabs"):
            return ("f", f"(FUn {'FSqrt' if name == 'sqrt' else 'FAbs'} {self.tr_float(args[0])})")
        if name in ("fmin", "fmax"):
            return ("f", f"(FBin {'FMin' if name == 'fmin' else 'FMax'} "
                         f"{self.tr_float(args[0])} {self.tr_float(args[1])})")
        if name == "pow" and self.is_literal_value(args[1], 2):
            x = self.tr_float(args[0])      # gcc -O2 expands pow(x, 2) to x*x
            return ("f", f"(FBin FMul {x} {x})")
        if name in LIBM1:
            return ("f", f"(FExt1 {cq(name)} {self.tr_float(args[0])})")
        if name in LIBM2:
            return ("f", f"(FExt2 {cq(name)} {self.tr_float(args[0])} {self.tr_float(args[1])})")
        if name in self.unit.tu.functions:
            # user function inside an expression: hoisted in front of the statement
            if self.cond_depth > 0:
                raise Unsupported(f"call of `{name}` under &&, || or ?:")
            rk = classify(n["type"])
            if rk[0] not in ("i", "f"):
                raise Unsupported("call returning a non-scalar")
            targs = self.tr_args(name, args)
            if any(t.startswith("(AArr") for t in targs):
                raise Unsupported(f"call of `{name}` with array arguments inside an expression")
            t = self.tmp(rk[0])
            self.pre.append(f"(SCall ({'DI' if rk[0] == 'i' else 'DF'} {cq(t)}) "
                            f"{cq(self.unit.tu.key(self.unit, name))} [{'; '.join(targs)}])")
            return (rk[0], f"({'IVar' if rk[0] == 'i' else 'FVar'} {cq(t)})")
        raise Unsupported(f"call of `{name}`")

    def tr_args(self, fname, args):
        out = []
        for a in args:
            qt = a["type"].get("desugaredQualType", a["type"]["qualType"])
            if qt.rstrip().endswith("*"):
                name, ek, off = self.tr_ptr(a)
                if ek not in ("i", "f"):
                    raise Unsupported("array argument with unknown element type")
                out.append(f"({'AArrI' if ek == 'i' else 'AArrF'} {cq(name)} "
                           f"{off if off is not None else iconst(0)})")
            else:
                k, t = self.tr_expr(a)
                out.append(f"({'AI' if k == 'i' else 'AF'} {t})")
        return out

    # -- statements ----------------------------------------------------------------
    def with_pre(self, f):
        """run f() (which translates expressions) and return hoisted statements + its result list"""
        saved = self.pre
        self.pre = []
        try:
            res = f()
            return self.pre + res
        finally:
            self.pre = saved

    def pure(self, f, what):
        saved = self.pre
        self.pre = []
        try:
            res = f()
            if self.pre:
                raise Unsupported(f"function call inside {what}")
            return res
        finally:
            self.pre = saved

    def block(self, stmts):
        if len(stmts) == 0:
            return "SSkip"
        if len(stmts) == 1:
            return stmts[0]
        return "(seq [" + ";\n".join(stmts) + "])"

    def tr_stmt(self, n):
        """-> list of statement texts"""
        k = n.get("kind")
        if k == "CompoundStmt":
            out = []
            for c in n.get("inner", []):
                out += self.tr_stmt(c)
            return out
        if k == "NullStmt":
            return []
        if k == "DeclStmt":
            out = []
            for d in n["inner"]:
                out += self.tr_decl(d)
            return out
        if k == "IfStmt":
            inner = n["inner"]
            cond = self.with_pre(lambda: [self.tr_int(inner[0])])
            pre, c = cond[:-1], cond[-1]
            a = self.block(self.tr_stmt(inner[1]))
            b = self.block(self.tr_stmt(inner[2])) if len(inner) > 2 else "SSkip"
            return pre + [f"(SIf {c}\n{a}\n{b})"]
        if k == "WhileStmt":
            cond, body = n["inner"]
            c = self.pure(lambda: self.tr_int(cond), "a loop condition")
            return [f"(SWhile {c}\n{self.block(self.tr_stmt(body))})"]
        if k == "ForStmt":
            init, condvar, cond, inc, body = n["inner"]
            if condvar:
                raise Unsupported("for with a condition variable")
            out = self.tr_stmt(init) if init else []
            c = self.pure(lambda: self.tr_int(cond), "a loop condition") if cond else iconst(1)
            step = self.pure(lambda: self.block(self.tr_stmt(inc)), "a loop step") if inc else "SSkip"
            return out + [f"(SFor {c}\n{step}\n{self.block(self.tr_stmt(body))})"]
        if k == "BreakStmt":
            return ["SBreak"]
        if k == "ContinueStmt":
            return ["SContinue"]
        if k == "ReturnStmt":
            if not n.get("inner"):
                raise Unsupported("return without a value")
            e = n["inner"][0]

            def f():
                c = strip_parens(e)
                if c.get("kind") == "CallExpr" and self.callee_name(c) in self.unit.tu.functions \
                        and classify(c["type"])[0] == self.retkind:
                    t = self.tmp(self.retkind)
                    return [self.user_call(c, ("var", self.retkind, t)),
                            f"({'SRetI' if self.retkind == 'i' else 'SRetF'} "
                            f"{self.read_lvalue(('var', self.retkind, t))[1]})"]
                kk, t = self.tr_expr(e)
                if kk != self.retkind:
                    raise Unsupported("return kind mismatch")
                return [f"({'SRetI' if kk == 'i' else 'SRetF'} {t})"]
            return self.with_pre(f)
        if k in ("BinaryOperator", "CompoundAssignOperator", "UnaryOperator", "CallExpr",
                 "ParenExpr", "ImplicitCastExpr", "CStyleCastExpr"):
            return self.with_pre(lambda: self.tr_expr_stmt(n))
        raise Unsupported(f"statement {k}")

    def tr_decl(self, d):
        if d.get("kind") != "VarDecl":
            raise Unsupported(f"declaration {d.get('kind')}")
        name = d["name"]
        if name in self.vars:
            raise Unsupported(f"`{name}` declared twice (shadowing)")
        t = classify(d["type"])
        init = d["inner"][0] if d.get("inner") else None
        static = d.get("storageClass") == "static"
        if static:
            if name in self.assigned or t != ("f",) or init is None or not self.is_literal_value(init, 0):
                raise Unsupported(f"static local `{name}` other than a never-assigned `double = 0.0`")
        if t[0] in ("i", "f"):
            self.vars[name] = {"kind": t[0]}
            if init is None:
                zero = iconst(0) if t[0] == "i" else f"(FOfInt {iconst(0)})"
                return [f"({'SSetI' if t[0] == 'i' else 'SSetF'} {cq(name)} {zero})"]

            def f():
                # direct call: the callee's result is assigned
                c = strip_parens(init)
                if c.get("kind") == "CallExpr" and self.callee_name(c) in self.unit.tu.functions:
                    return [self.user_call(c, ("var", t[0], name))]
                kk, tx = self.tr_expr(init)
                if kk != t[0]:
                    raise Unsupported("initialiser kind mismatch")
                return [f"({'SSetI' if kk == 'i' else 'SSetF'} {cq(name)} {tx})"]
            res = self.with_pre(f)
            if static:
                self.static_zero.add(name)
            return res
        if t[0] == "a":
            self.vars[name] = {"kind": "a" + t[1]}
            items = []
            if init is not None:
                if init.get("kind") != "InitListExpr":
                    raise Unsupported("array initialiser that is not a list")
                if "array_filler" in init:
                    elems = [e for e in init["array_filler"] if e.get("kind") != "ImplicitValueInitExpr"]
                else:
                    elems = init.get("inner", [])
                items = self.pure(lambda: [self.tr_int(e) if t[1] == "i" else self.tr_float(e)
                                           for e in elems], "an array initialiser")
            return [f"({'SNewI' if t[1] == 'i' else 'SNewF'} {cq(name)} {iconst(t[2])} [{'; '.join(items)}])"]
        if t[0] == "p":
            if init is None:
                self.vars[name] = {"kind": "ptr", "elem": t[1]}
                return []
            if name in self.assigned:
                raise Unsupported(f"pointer `{name}` initialised and re-assigned")
            tgt, ek, off = self.tr_ptr(init)
            if off is not None:
                raise Unsupported("pointer alias with an offset")
            if ek is None:
                v = self.var(tgt)
                want = "a" + t[1]
                if v.get("elem") not in (None, want):
                    raise Unsupported(f"`{tgt}` used with two element types")
                v["elem"] = want
            elif ek != t[1]:
                raise Unsupported("pointer alias changing the element type")
            self.alias[name] = tgt
            return []
        if t[0] == "p2":
            if init is not None:
                raise Unsupported("initialised pointer to rows")
            self.vars[name] = {"kind": "ptr2", "k": t[2]}
            return []
        raise Unsupported(f"declaration of `{name}` with type {d['type']['qualType']}")

    def user_call(self, c, dest_lv):
        """statement for `dest = f(args)` / `f(args)`; dest_lv None | ('var', kind, name)"""
        name = self.callee_name(c)
        targs = self.tr_args(name, c["inner"][1:])
        if dest_lv is None:
            d = "DNone"
        else:
            d = f"({'DI' if dest_lv[1] == 'i' else 'DF'} {cq(dest_lv[2])})"
            rk = classify(c["type"])
            if rk[0] not in ("i", "f") or (rk[0] == "f" and dest_lv[1] == "i"):
                raise Unsupported("call result kind mismatch")
        return f"(SCall {d} {cq(self.unit.tu.key(self.unit, name))} [{'; '.join(targs)}])"

    def sizeof_elems(self, n, elemkind):
        """sizeof(T) / sizeof expr -> number of array elements it spans"""
        n = strip_casts(n)
        if n.get("kind") != "UnaryExprOrTypeTraitExpr" or n.get("name") != "sizeof":
            return None
        if "argType" in n:
            t = classify(n["argType"])
        else:
            t = classify(strip_parens(n["inner"][0])["type"])
        if t == ("f",) and elemkind == "f":
            return 1
        if t[0] == "i" and elemkind == "i":
            return 1           # element width of int arrays is that of their declaration
        if t[0] == "a" and t[1] == elemkind:
            return t[2]
        raise Unsupported("sizeof of an unexpected type")

    def malloc_size(self, call, elemkind, rowk):
        """malloc(E * sizeof(T)) -> iexp text for the number of elements"""
        arg = strip_casts(call["inner"][1], ("ParenExpr",))
        if arg.get("kind") != "BinaryOperator" or arg["opcode"] != "*":
            raise Unsupported("malloc size that is not `count * sizeof`")
        # flatten the product: exactly one factor is a sizeof
        factors = []

        def flat(x):
            x = strip_casts(x, ("ParenExpr",))
            if x.get("kind") == "BinaryOperator" and x["opcode"] == "*" and \
                    is_ulong(x["type"]):
                flat(x["inner"][0])
                flat(x["inner"][1])
            else:
                factors.append(x)
        flat(arg)
        count, nsize = None, 0
        for f in factors:
            fs = strip_casts(f)
            if fs.get("kind") == "UnaryExprOrTypeTraitExpr":
                k = self.sizeof_elems(fs, elemkind)
                nsize += 1
                mult = k
            else:
                g = f
                while g.get("kind") in ("ParenExpr",) or \
                        (g.get("kind") == "ImplicitCastExpr" and g.get("castKind") == "IntegralCast"
                         and is_ulong(g["type"])):
                    g = g["inner"][0]
                t = self.tr_int(g)
                count = t if count is None else f"(IBin IMul {count} {t})"
        if nsize != 1 or count is None:
            raise Unsupported("malloc size that is not `count * sizeof`")
        if mult != 1:
            count = f"(IBin IMul {count} {iconst(mult)})"
        return count

    def tr_expr_stmt(self, n):
        n = strip_parens(n)
        k = n.get("kind")
        if k in ("ImplicitCastExpr", "CStyleCastExpr"):      # (void)expr
            return self.tr_expr_stmt(n["inner"][0])
        if k == "CallExpr":
            name = self.callee_name(n)
            if name in DROPPED_CALLS:
                return []
            if name == "qsort":
                return [self.tr_qsort(n)]
            if name in self.unit.tu.functions:
                return [self.user_call(n, None)]
            raise Unsupported(f"call of `{name}` as a statement")
        if k == "UnaryOperator" and n["opcode"] in ("++", "--"):
            lv = self.tr_lvalue(n["inner"][0])
            kk, rd = self.read_lvalue(lv)
            if kk != "i":
                raise Unsupported("++/-- on a double")
            op = "IAdd" if n["opcode"] == "++" else "ISub"
            return [self.write_lvalue(lv, "i", chk(classify(n["type"])[1], f"(IBin {op} {rd} {iconst(1)})"))]
        if k == "BinaryOperator" and n["opcode"] == ",":
            return self.tr_expr_stmt(n["inner"][0]) + self.tr_expr_stmt(n["inner"][1])
        if k == "BinaryOperator" and n["opcode"] == "=":
            lhs, rhs = n["inner"]
            lv = self.tr_lvalue(lhs)
            if lv[0] == "ptrvar":
                return self.tr_ptr_assign(lv, rhs)
            c = strip_parens(rhs)
            if c.get("kind") == "CallExpr" and self.callee_name(c) in self.unit.tu.functions:
                if lv[0] == "var":
                    return [self.user_call(c, lv)]
                t = self.tmp(lv[1])
                return [self.user_call(c, ("var", lv[1], t)),
                        self.write_lvalue(lv, lv[1], self.read_lvalue(("var", lv[1], t))[1])]
            kk, tx = self.tr_expr(rhs)
            return [self.write_lvalue(lv, kk, tx)]
        if k == "CompoundAssignOperator":
            lhs, rhs = n["inner"]
            lv = self.tr_lvalue(lhs)
            lk, rd = self.read_lvalue(lv)
            op = n["opcode"][:-1]
            ck = classify(n["computeResultType"])[0]
            if classify(n["computeLHSType"])[0] != ck:
                raise Unsupported("compound assignment with differing compute types")
            kk, tx = self.tr_expr(rhs)
            if kk != ck:
                raise Unsupported("compound assignment operand kind mismatch")
            if ck == "i":
                if lk != "i" or op not in IBIN:
                    raise Unsupported(f"compound assignment {n['opcode']}")
                tx2 = f"(IBin {IBIN[op]} {rd} {tx})"
                if op in ("+", "-", "*", "/"):
                    tx2 = chk(classify(n["computeResultType"])[1], tx2)
                return [self.write_lvalue(lv, "i", tx2)]
            if op not in FBIN:
                raise Unsupported(f"compound assignment {n['opcode']}")
            if lk == "f":
                return [self.write_lvalue(lv, "f", f"(FBin {FBIN[op]} {rd} {tx})")]
            w = classify(lhs["type"])[1]
            return [self.write_lvalue(lv, "i", f"(ITrunc {w} (FBin {FBIN[op]} (FOfInt {rd}) {tx}))")]
        raise Unsupported(f"expression statement {k}")

    def tr_ptr_assign(self, lv, rhs):
        name = lv[2]
        v = self.var(name)
        c = strip_casts(rhs)
        if c.get("kind") == "CallExpr" and self.callee_name(c) == "malloc":
            if v["kind"] == "ptr":
                if v.get("heap"):
                    raise Unsupported(f"`{name}` allocated twice")
                size = self.malloc_size(c, v["elem"], 1)
                self.vars[name] = {"kind": "a" + v["elem"], "heap": True}
                return [f"({'SNewI' if v['elem'] == 'i' else 'SNewF'} {cq(name)} {size} [])"]
            if v["kind"] == "ptr2":
                size = self.malloc_size(c, "f", v["k"])
                self.vars[name] = {"kind": "a2", "k": v["k"], "heap": True}
                return [f"(SNewF {cq(name)} {size} [])"]
        raise Unsupported(f"assignment to pointer `{name}`")

    def tr_qsort(self, n):
        base, cnt, size, cmpf = n["inner"][1:]
        name, ek, off = self.tr_ptr(base)
        if off is not None:
            raise Unsupported("qsort of a sub-array")
        if ek == "2":
            ek = "f"
        k = self.sizeof_elems(size, ek)
        if k is None:
            raise Unsupported("qsort element size that is not a sizeof")
        c = cnt
        while c.get("kind") == "ParenExpr" or \
                (c.get("kind") == "ImplicitCastExpr" and c.get("castKind") == "IntegralCast"
                 and is_ulong(c["type"])):
            c = c["inner"][0]
        tn = self.tr_int(c)
        f = strip_casts(cmpf)
        if f.get("kind") != "DeclRefExpr" or f["referencedDecl"].get("kind") != "FunctionDecl":
            raise Unsupported("qsort comparator that is not a function name")
        cname = f["referencedDecl"]["name"]
        if cname not in self.unit.tu.functions:
            raise Unsupported(f"qsort comparator `{cname}` has no body")
        key = self.unit.tu.key(self.unit, cname)
        return f"({'SQsortI' if ek == 'i' else 'SQsortF'} {cq(name)} {tn} {zlit(k)} {cq(key)})"

    # -- the function ------------------------------------------------------------------
    def translate(self):
        node = self.node
        m = re.match(r"(.*?)\s*\(", node["type"]["qualType"])
        rt = classify({"qualType": m.group(1)})
        if rt[0] not in ("i", "f"):
            raise Unsupported("return type " + m.group(1))
        self.retkind = rt[0]
        params, body = [], None
        for c in node.get("inner", []):
            if c["kind"] == "ParmVarDecl":
                t = classify(c["type"])
                pname = c.get("name")
                if pname is None:
                    raise Unsupported("unnamed parameter")
                if t[0] in ("i", "f"):
                    if pname in self.assigned:
                        pass     # parameters are ordinary locals
                    self.vars[pname] = {"kind": t[0]}
                    params.append((t[0], pname))
                elif t[0] == "p":
                    if pname in self.assigned:
                        raise Unsupported(f"pointer parameter `{pname}` is re-assigned")
                    self.vars[pname] = {"kind": "a" + t[1]}
                    params.append(("a" + t[1], pname))
                elif t[0] == "pv":
                    if pname in self.assigned:
                        raise Unsupported(f"pointer parameter `{pname}` is re-assigned")
                    self.vars[pname] = {"kind": "pv", "elem": None}
                    params.append(("pv", pname))
                else:
                    raise Unsupported(f"parameter type {c['type']['qualType']}")
            elif c["kind"] == "CompoundStmt":
                body = c
        if body is None:
            raise Unsupported("no body")
        stmts = self.tr_stmt(body)
        ptxt = []
        for k, pname in params:
            if k == "pv":
                k = self.vars[pname].get("elem")
                if k is None:
                    raise Unsupported(f"void* parameter `{pname}` never cast to a typed pointer")
            ptxt.append({"i": "PI", "f": "PF", "ai": "PArrI", "af": "PArrF"}[k] + " " + cq(pname))
        return f"Fun [{'; '.join(ptxt)}]\n{self.block(stmts)}"


# ----------------------------------------------------------------------------
# translation unit set

class Unit:
    def __init__(self, tu, pkg, stem, path):
        self.tu, self.pkg, self.stem, self.path = tu, pkg, stem, path
        self.src = path.read_bytes()
        self.funcs = []       # (name, static?, node)

    def load(self):
        r = subprocess.run(["clang", "-fsyntax-only", "-w", "-Xclang", "-ast-dump=json",
                            f"-I{self.path.parent}", str(self.path)],
                           capture_output=True, text=True)
        if r.returncode != 0:
            raise TranslatorError(f"clang failed on {self.path}: {r.stderr[-500:]}")
        ast = json.loads(r.stdout)
        cur = [None]
        main = str(self.path)

        def track(loc):
            # clang prints "file" only when it changes (sticky across all locations)
            if not isinstance(loc, dict):
                return
            for key, v in loc.items():
                if key == "includedFrom":
                    continue
                if key == "file":
                    cur[0] = v
                elif isinstance(v, dict):
                    track(v)

        def walk(n, top):
            if not isinstance(n, dict):
                return
            if "loc" in n:
                track(n["loc"])
            here = cur[0]
            if "range" in n:
                track(n["range"])
            if top and n.get("kind") == "FunctionDecl" and here == main and \
                    any(c.get("kind") == "CompoundStmt" for c in n.get("inner", [])):
                self.funcs.append((n["name"], n.get("storageClass") == "static", n))
            for c in n.get("inner", []):
                walk(c, False)
            for key in ("array_filler",):
                for c in n.get(key, []) if isinstance(n.get(key), list) else []:
                    walk(c, False)
        for d in ast.get("inner", []):
            walk(d, True)


class TU:
    def __init__(self, repo):
        self.repo = Path(repo)
        self.units = []
        self.functions = {}     # C name -> list of (unit, static)
        for pkg, stem in KERNEL_FILES:
            p = self.repo / "src" / "hydrodiy" / pkg / f"{stem}.c"
            if not p.exists():
                continue       # a missing optional file: its functions are simply absent
            u = Unit(self, pkg, stem, p)
            u.load()
            self.units.append(u)
            for name, static, _ in u.funcs:
                self.functions.setdefault(name, []).append((u, static))

    def key(self, unit, name):
        """program key of function `name` as seen from `unit`"""
        cands = self.functions.get(name, [])
        for u, static in cands:
            if u is unit:
                return f"{u.stem}.{name}" if static else name
        glob = [u for u, static in cands if not static]
        if len(glob) == 1:
            return name
        raise Unsupported(f"function `{name}` is not uniquely defined")

    def translate(self):
        """-> list of (key, coq ident, text, reason or None)"""
        out = []
        seen = set()
        for u in self.units:
            for name, static, node in u.funcs:
                key = f"{u.stem}.{name}" if static else name
                ident = (f"{u.stem}__{name}" if static else name) + "_def"
                if key in seen:
                    out.append((key + "#dup", ident + "_dup", 'Untranslated "defined twice"', "defined twice"))
                    continue
                seen.add(key)
                try:
                    text = Fn(u, node).translate()
                    reason = None
                except Unsupported as e:
                    reason = str(e)
                    text = f"Untranslated {cq(reason)}"
                except (KeyError, IndexError, ValueError, TypeError) as e:
                    reason = f"unexpected AST shape ({type(e).__name__}: {e})"
                    text = f"Untranslated {cq(reason)}"
                out.append((key, ident, text, reason))
        return out


HEADER = """(* GENERATED by harness/ctrans.py (extractor harness/extractors/minic.py) from the
   C sources of the tree under test: clang -ast-dump=json -> MiniC.  Do not edit. *)
From Coq Require Import ZArith List String PrimFloat.
From Hy Require Import Base.Num Base.MiniC.
Import ListNotations.
Open Scope string_scope.
Open Scope Z_scope.

"""


def render(repo, checked=False):
    """checked=True: the overflow-checked program (`<fn>_chk : fundef`, `program_chk`)"""
    global CHK
    old, CHK = CHK, bool(checked)
    try:
        tu = TU(repo)
        funs = tu.translate()
    finally:
        CHK = old
    sfx = "_chk" if checked else ""
    head = HEADER
    if checked:
        head = head.replace("-> MiniC.  Do not edit. *)",
                            "-> MiniC, OVERFLOW-CHECKED variant:\n   every signed integer +, -, *, /, unary -, ++, --, op= carries [IChk <width>].  "
                            "Do not edit. *)")
    parts = [head]
    for key, ident, text, reason in funs:
        ident = ident[:-4] + sfx + "_def" if checked else ident
        parts.append(f"(* {key} *)\nDefinition {ident} : fundef :=\n{text}.\n\n")
    parts.append(f"Definition program{sfx} : program := [\n" +
                 ";\n".join(f"  ({cq(key)}, {(ident[:-4] + sfx + '_def') if checked else ident})"
                             for key, ident, _, _ in funs) + "].\n")
    return "".join(parts)


def report(repo):
    tu = TU(repo)
    return [(key, reason) for key, _, _, reason in tu.translate()]


def sources_hash(repo):
    h = hashlib.sha256()
    h.update(Path(__file__).read_bytes())
    for pkg, stem in KERNEL_FILES:
        d = Path(repo) / "src" / "hydrodiy" / pkg
        for p in [d / f"{stem}.c"] + sorted(d.glob("*.h")):
            if p.exists():
                h.update(str(p.relative_to(repo)).encode())
                h.update(p.read_bytes())
    return h.hexdigest()[:24]


def render_cached(repo, checked=False):
    """render(repo, checked), cached by the hash of the sources and of this translator"""
    verif = Path(__file__).resolve().parent.parent
    cache = verif / ".cache" / "ctrans"
    tag = sources_hash(repo) + ("_chk" if checked else "")
    f = cache / f"{tag}.v"
    if f.exists():
        return f.read_text()
    text = render(repo, checked)
    try:
        cache.mkdir(parents=True, exist_ok=True)
        tmp = cache / f"{tag}.{os.getpid()}"
        tmp.write_text(text)
        os.rename(tmp, f)
        for old in sorted(cache.glob("*.v"), key=lambda p: p.stat().st_mtime)[:-16]:
            old.unlink()
    except OSError:
        pass
    return text


if __name__ == "__main__":
    repo = os.environ.get("HYDRODIY_REPO", "/repo")
    if "--coq" in sys.argv:
        sys.stdout.write(render(repo))
    else:
        rep = report(repo)
        for key, reason in rep:
            print(f"{key:45s} {'translated' if reason is None else 'UNTRANSLATED: ' + reason}")
        print(f"{sum(1 for _, r in rep if r is None)} of {len(rep)} functions translated")
