"""C08 - constants and tables the model coq/Model/Dutils.v depends on, re-extracted
from the working tree into coq/Gen/ConstsC08.v (fail-closed).

  * c_dateutils.c : the days_in_month[13] table; the three moduli of the
    leap-year rule (in the order they occur in c_dateutils_isleapyear)
  * dutils.py, monthly2daily : the 3x3 matrix `Mi` mapping the constraints
    (f(1), f'(0), f'(1)) of one month to the polynomial coefficients; the
    three weights of the derivative adjustment `d1 = (6*(F1+F2)-2*(d0+d2))/8`;
    the length of the evaluation grid `np.arange(32)`.
Only values are extracted; no text of the source is compared."""
import ast
import re
from fractions import Fraction

from harness.extract_consts import BrokenTie, _read

TARGET = "ConstsC08"

C_DATE = "src/hydrodiy/data/c_dateutils.c"
PY_DUTILS = "src/hydrodiy/data/dutils.py"


def _c_function_body(txt, name, rel):
    m = re.search(rf"\bint\s+{name}\s*\([^)]*\)\s*\{{", txt)
    if not m:
        raise BrokenTie(f"{rel}: function {name} not found")
    i, depth = m.end(), 1
    while i < len(txt) and depth:
        depth += {"{": 1, "}": -1}.get(txt[i], 0)
        i += 1
    if depth:
        raise BrokenTie(f"{rel}: unbalanced braces in {name}")
    return txt[m.end():i - 1]


def days_table(repo):
    body = _c_function_body(_read(repo, C_DATE), "c_dateutils_daysinmonth", C_DATE)
    m = re.search(r"int\s+days_in_month\s*\[\s*13\s*\]\s*=\s*\{([^}]*)\}", body)
    if not m:
        raise BrokenTie(f"{C_DATE}: days_in_month[13] initialiser not found")
    items = [s.strip() for s in m.group(1).split(",")]
    if len(items) != 13 or not all(re.fullmatch(r"\d+", s) for s in items):
        raise BrokenTie(f"{C_DATE}: days_in_month[13] is not a list of 13 integer literals")
    return [int(s) for s in items]


def leap_moduli(repo):
    body = _c_function_body(_read(repo, C_DATE), "c_dateutils_isleapyear", C_DATE)
    mods = re.findall(r"%\s*(\d+)", body)
    if len(mods) != 3:
        raise BrokenTie(f"{C_DATE}: expected three `% <int>` in c_dateutils_isleapyear, found {len(mods)}")
    return [int(x) for x in mods]


def _m2d_function(repo):
    tree = ast.parse(_read(repo, PY_DUTILS))
    for node in tree.body:
        if isinstance(node, ast.FunctionDef) and node.name == "monthly2daily":
            return node
    raise BrokenTie(f"{PY_DUTILS}: function monthly2daily not found")


def _assign_value(fn, name):
    hits = [n.value for n in ast.walk(fn) if isinstance(n, ast.Assign) and len(n.targets) == 1
            and isinstance(n.targets[0], ast.Name) and n.targets[0].id == name]
    if len(hits) != 1:
        raise BrokenTie(f"{PY_DUTILS}: expected one assignment to {name} in monthly2daily, found {len(hits)}")
    return hits[0]


def _int_of(v, what):
    fr = Fraction(repr(v)) if isinstance(v, float) else Fraction(v)
    if fr.denominator != 1:
        raise BrokenTie(f"{PY_DUTILS}: {what} = {v!r} is not an integer value")
    return int(fr)


def cubic_matrix(repo):
    node = _assign_value(_m2d_function(repo), "Mi")
    lists = [n for n in ast.walk(node) if isinstance(n, ast.List)]
    for l in lists:
        try:
            v = ast.literal_eval(l)
        except Exception:
            continue
        if isinstance(v, list) and len(v) == 3 and all(isinstance(r, list) and len(r) == 3 for r in v):
            return [[_int_of(x, "entry of Mi") for x in r] for r in v]
    raise BrokenTie(f"{PY_DUTILS}: 3x3 literal of Mi not found")


def smoothing_weights(repo):
    """d1 = (W1*(F1+F2) - W2*(d0+d2)) / W3"""
    node = _assign_value(_m2d_function(repo), "d1")

    def num(n):
        if isinstance(n, ast.Constant) and isinstance(n.value, (int, float)) and not isinstance(n.value, bool):
            return _int_of(n.value, "weight in d1")
        raise BrokenTie(f"{PY_DUTILS}: d1 is not of the form (W1*(..)-W2*(..))/W3")
    ok = (isinstance(node, ast.BinOp) and isinstance(node.op, ast.Div)
          and isinstance(node.left, ast.BinOp) and isinstance(node.left.op, ast.Sub)
          and isinstance(node.left.left, ast.BinOp) and isinstance(node.left.left.op, ast.Mult)
          and isinstance(node.left.right, ast.BinOp) and isinstance(node.left.right.op, ast.Mult))
    if not ok:
        raise BrokenTie(f"{PY_DUTILS}: d1 is not of the form (W1*(..)-W2*(..))/W3")
    return num(node.left.left.left), num(node.left.right.left), num(node.right)


def grid_length(repo):
    """K of the only `np.arange(<int literal>)` of monthly2daily (evaluation grid)."""
    fn = _m2d_function(repo)
    ks = []
    for n in ast.walk(fn):
        if isinstance(n, ast.Call) and isinstance(n.func, ast.Attribute) and n.func.attr == "arange" \
                and len(n.args) == 1 and isinstance(n.args[0], ast.Constant) \
                and isinstance(n.args[0].value, int):
            ks.append(n.args[0].value)
    if len(ks) != 1:
        raise BrokenTie(f"{PY_DUTILS}: expected one np.arange(<int literal>) in monthly2daily, found {len(ks)}")
    return ks[0]


def zl(xs):
    return "[" + "; ".join(f"({x})%Z" if x < 0 else f"{x}%Z" for x in xs) + "]"


def render(repo):
    tab = days_table(repo)
    mods = leap_moduli(repo)
    mi = cubic_matrix(repo)
    w1, w2, w3 = smoothing_weights(repo)
    k = grid_length(repo)
    out = [
        "(* GENERATED by harness/extractors/c08.py from the working tree. DO NOT EDIT. *)",
        "From Coq Require Import ZArith List.",
        "Import ListNotations.",
        "",
        "(* c_dateutils.c: int days_in_month[13] *)",
        f"Definition DAYS_IN_MONTH : list Z := {zl(tab)}.",
        "(* c_dateutils_isleapyear: year % A == 0 && (year % B != 0 || year % C == 0) *)",
        f"Definition LEAP_A : Z := {mods[0]}%Z.",
        f"Definition LEAP_B : Z := {mods[1]}%Z.",
        f"Definition LEAP_C : Z := {mods[2]}%Z.",
        "(* dutils.monthly2daily (cubic): coefficient matrix Mi, rows = c1 c2 c3, columns = y d0*n d1*n *)",
        "Definition M2D_MI : list (list Z) := [" + "; ".join(zl(r) for r in mi) + "].",
        "(* d1 = (W1*(F1+F2) - W2*(d0+d2)) / W3 *)",
        f"Definition M2D_W1 : Z := {w1}%Z.",
        f"Definition M2D_W2 : Z := {w2}%Z.",
        f"Definition M2D_W3 : Z := {w3}%Z.",
        "(* np.arange(K): evaluation grid of the cumulative polynomial, k/ndays for k < K *)",
        f"Definition M2D_NGRID : Z := {k}%Z.",
        "",
    ]
    return "\n".join(out)


if __name__ == "__main__":
    import sys
    sys.stdout.write(render(sys.argv[1] if len(sys.argv) > 1 else "/repo"))
