"""Constants of the CSV header writer/parser (C09) -> coq/Gen/ConstsC09.v.

Extracted from the working tree of src/hydrodiy/io/csv.py (fail-closed):
  * KEY_LENGTH_MAX (the window in which the first colon of a header line is
    looked for);
  * the regular expression by which `_header2comment` recognises a dashed rule:
    `-{N}` (pinned code: N dashes anywhere in the line) or `^-{N}` (repaired
    code: the line starts with N dashes) -> RULE_DASHES.  Whether the expression
    is anchored is NOT extracted: the model follows the repaired code (anchored)
    and keeps the pinned variant as a separate definition; the correspondence
    check decides which one the tree implements;
  * the other regular expressions and the key format of `_header2comment`, and
    the stripping expression of `read_csv`: the model transcribes them by hand,
    so they are only compared with the transcribed values (a different value is
    a broken tie);
  * the dashed rule line written by `_csvhead` (first and last line) -> HEAD_RULE;
  * the extensions tried by `_check_name`, in order -> CHECK_EXTENSIONS.
"""
import ast
import re

from harness.extract_consts import BrokenTie, _read, py_literal

TARGET = "ConstsC09"
REL = "src/hydrodiy/io/csv.py"


def _func(tree, name):
    for node in tree.body:
        if isinstance(node, ast.FunctionDef) and node.name == name:
            return node
    raise BrokenTie(f"{REL}: def {name} not found")


def _re_calls(fn, attr):
    """(pattern, [other constant args]) of every call re.<attr>(<str literal>, ...) in source order."""
    out = []
    for n in ast.walk(fn):
        if isinstance(n, ast.Call) and isinstance(n.func, ast.Attribute) and n.func.attr == attr \
                and isinstance(n.func.value, ast.Name) and n.func.value.id == "re" and n.args \
                and isinstance(n.args[0], ast.Constant) and isinstance(n.args[0].value, str):
            rest = [a.value for a in n.args[1:] if isinstance(a, ast.Constant)]
            out.append((n.lineno, n.col_offset, n.args[0].value, rest))
    out.sort()
    return [(p, r) for _, _, p, r in out]


def coq_str(s):
    if any(ord(c) < 32 or ord(c) > 126 for c in s):
        raise BrokenTie(f"{REL}: non-printable character in an extracted string {s!r}")
    return '"' + s.replace('"', '""') + '"'


def render(repo):
    tree = ast.parse(_read(repo, REL))
    klm = py_literal(repo, REL, "KEY_LENGTH_MAX")
    if not isinstance(klm, int) or isinstance(klm, bool) or not (0 <= klm <= 10000):
        raise BrokenTie(f"{REL}: KEY_LENGTH_MAX is not a small non-negative integer")

    h2c = _func(tree, "_header2comment")
    searches = _re_calls(h2c, "search")
    rules = [(p, re.fullmatch(r"(\^?)-\{(\d+)\}", p)) for p, _ in searches]
    rules = [(p, m) for p, m in rules if m]
    if len(rules) != 1:
        raise BrokenTie(f"{REL}: _header2comment: expected one dashed-rule test re.search('-{{N}}'|'^-{{N}}', ...),"
                        f" found {[p for p, _ in searches]}")
    ndash = int(rules[0][1].group(2))
    if not (1 <= ndash <= 1000):
        raise BrokenTie(f"{REL}: dashed-rule length {ndash} out of range")
    others = [p for p, _ in searches if p != rules[0][0]]
    if others != [":"]:
        raise BrokenTie(f"{REL}: _header2comment: expected the colon-window test re.search(':', ...), found {others}")
    subs = _re_calls(h2c, "sub")
    if subs != [(":.*$", [""]), (" +", ["_"])]:
        raise BrokenTie(f"{REL}: _header2comment: the substitutions are no longer "
                        f"re.sub(':.*$','',.) and re.sub(' +','_',.): {subs}")
    fmts = [n.value for n in ast.walk(h2c) if isinstance(n, ast.Constant) and isinstance(n.value, str)
            and "comment" in n.value and "{" in n.value]
    if fmts != ["comment_{0:02d}"]:
        raise BrokenTie(f"{REL}: _header2comment: key format of colon-less lines is no longer 'comment_{{0:02d}}': {fmts}")

    rd = _func(tree, "read_csv")
    strips = [p for p, r in _re_calls(rd, "sub") if r[:1] == [""] and "#" in p]
    if strips != ["^# *|\n$"]:
        raise BrokenTie(f"{REL}: read_csv: header lines are no longer stripped with re.sub('^# *|\\n$', '', line): {strips}")

    ch = _func(tree, "_csvhead")
    appended = []
    for n in ast.walk(ch):
        if isinstance(n, ast.Call) and isinstance(n.func, ast.Attribute) and n.func.attr == "append" \
                and isinstance(n.func.value, ast.Name) and n.func.value.id == "head" and len(n.args) == 1:
            appended.append((n.lineno, n.args[0]))
    appended.sort(key=lambda t: t[0])
    if len(appended) < 2:
        raise BrokenTie(f"{REL}: _csvhead: head.append calls not found")
    first, last = appended[0][1], appended[-1][1]
    if not (isinstance(first, ast.Constant) and isinstance(last, ast.Constant)
            and isinstance(first.value, str) and first.value == last.value):
        raise BrokenTie(f"{REL}: _csvhead: first and last header lines are not the same string literal")
    rule = first.value

    cn = _func(tree, "_check_name")
    exts = None
    for n in ast.walk(cn):
        if isinstance(n, ast.For) and isinstance(n.iter, ast.List):
            try:
                v = ast.literal_eval(n.iter)
            except Exception:
                continue
            if all(isinstance(x, str) for x in v):
                exts = v
                break
    if not exts:
        raise BrokenTie(f"{REL}: _check_name: list of extensions not found")

    out = []
    w = out.append
    w("(* GENERATED by harness/extractors/c09.py from the working tree. DO NOT EDIT. *)")
    w("From Coq Require Import List String.")
    w("Import ListNotations.")
    w("Open Scope string_scope.")
    w("")
    w("(* window (in characters) in which the first colon of a header line must lie *)")
    w(f"Definition KEY_LENGTH_MAX : nat := {klm}.")
    w("(* _header2comment skips a line as a dashed rule when it starts with (repaired code,")
    w("   expression anchored with ^) / contains (pinned code) that many dashes *)")
    w(f"Definition RULE_DASHES : nat := {ndash}.")
    w("(* first and last line of the header written by _csvhead *)")
    w(f"Definition HEAD_RULE : string := {coq_str(rule)}.")
    w("(* extensions tried in turn by _check_name when the given name does not exist *)")
    w(f"Definition CHECK_EXTENSIONS : list string := [{'; '.join(coq_str(e) for e in exts)}].")
    w("")
    return "\n".join(out) + "\n"


if __name__ == "__main__":
    import sys
    sys.stdout.write(render(sys.argv[1] if len(sys.argv) > 1 else "/repo"))
