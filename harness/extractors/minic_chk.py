"""Regenerates coq/Gen/KernelsAstChk.v: the OVERFLOW-CHECKED MiniC abstract syntax of every C
kernel of the tree under test (harness/ctrans.py, checked mode): `<fn>_chk_def : fundef`,
`program_chk`.  Same translation as Gen/KernelsAst.v with every signed integer +, -, *, /,
unary -, ++, --, op= wrapped in `IChk <width of its C type>`; Proofs/MiniCErase.v proves that
erasing the checks gives `program` (by computation, on every run) and that a successful
checked execution is a successful unchecked execution with the same result.  Fail-closed like
the extractor `minic`."""
from harness.extract_consts import BrokenTie
from harness import ctrans

TARGET = "KernelsAstChk"


def render(repo):
    try:
        return ctrans.render_cached(repo, checked=True)
    except ctrans.TranslatorError as e:
        raise BrokenTie(f"minic_chk: {e}")
