"""C05 - sizes, thresholds and wrapper contracts the index-level models
(coq/Model/Safety*.v) depend on, re-extracted from the working tree into
coq/Gen/ConstsC05.v (fail-closed).

  * sizes of the fixed local arrays the kernels index (prev_centered, neighbours,
    idxup, shift, days_in_month, day_of_year, the seven columns of the reliability
    table, the five of the river table, the three of the flow path table);
  * the two admissible periods of c_var2h, percmax of c_delineate_boundary (as an
    exact fraction), the exponent of the `distmin = 1e30` start of c_voronoi, the
    9-slot stride of c_upstream;
  * per Cython wrapper of the three .pyx files, the shape relations it asserts
    (`assert a == b`, both sides normalised, unordered) -- the models' preconditions
    cite them; a relation that disappears breaks the `pyx_contract` obligations.
Only values are extracted; no other text of the source is compared."""
import ast
import re
from fractions import Fraction

from harness.extract_consts import BrokenTie, _read, c_define

TARGET = "ConstsC05"

C_AR = "src/hydrodiy/stat/c_armodels.c"
H_AR = "src/hydrodiy/stat/c_armodels.h"
C_GRID = "src/hydrodiy/gis/c_grid.c"
C_CATCH = "src/hydrodiy/gis/c_catchment.c"
C_DATE = "src/hydrodiy/data/c_dateutils.c"
C_VAR2H = "src/hydrodiy/data/c_var2h.c"
C_CRPS = "src/hydrodiy/stat/c_crps.c"
PYX = {"data": "src/hydrodiy/data/c_hydrodiy_data.pyx",
       "stat": "src/hydrodiy/stat/c_hydrodiy_stat.pyx",
       "gis": "src/hydrodiy/gis/c_hydrodiy_gis.pyx"}


def _c_function_body(txt, name, rel):
    m = re.search(rf"\b{name}\s*\([^)]*\)\s*\{{", txt)
    if not m:
        raise BrokenTie(f"{rel}: function {name} not found")
    i, depth = m.end(), 1
    while i < len(txt) and depth:
        depth += {"{": 1, "}": -1}.get(txt[i], 0)
        i += 1
    if depth:
        raise BrokenTie(f"{rel}: unbalanced braces in {name}")
    return txt[m.end():i - 1]


def _array_size(repo, rel, func, var, defines=None):
    body = _c_function_body(_read(repo, rel), func, rel)
    m = re.search(rf"\b{var}\s*\[\s*([A-Za-z_0-9]+)\s*\]", body)
    if not m:
        raise BrokenTie(f"{rel}: declaration of {var}[...] not found in {func}")
    tok = m.group(1)
    if re.fullmatch(r"\d+", tok):
        return int(tok)
    if defines and tok in defines:
        return defines[tok]
    raise BrokenTie(f"{rel}: size `{tok}` of {var} in {func} is not a known constant")


def _assign_number(repo, rel, func, var):
    body = _c_function_body(_read(repo, rel), func, rel)
    m = re.search(rf"\b{var}\s*=\s*([0-9.eE+-]+)\s*;", body)
    if not m:
        raise BrokenTie(f"{rel}: `{var} = <number>;` not found in {func}")
    return m.group(1)


def pyx_contracts(repo):
    """{(pkg, function): sorted list of 'lhs==rhs' with lhs <= rhs lexicographically}"""
    out = {}
    for pkg, rel in PYX.items():
        txt = _read(repo, rel)
        parts = re.split(r"^def\s+([A-Za-z_0-9]+)\s*\(", txt, flags=re.M)
        # parts = [preamble, name1, body1, name2, body2, ...]
        if len(parts) < 3:
            raise BrokenTie(f"{rel}: no wrapper function found")
        for name, body in zip(parts[1::2], parts[2::2]):
            rels = set()
            nvaldef = dict(re.findall(r"^\s+(\w+)\s*=\s*(\w+\.shape\[\d\])\s*$", body, re.M))
            for a, b in re.findall(r"^\s*assert\s+(.+?)\s*==\s*(.+?)\s*$", body, re.M):
                a, b = (re.sub(r"\s+", "", x) for x in (a, b))
                a, b = nvaldef.get(a, a), nvaldef.get(b, b)
                rels.add("==".join(sorted((a, b))))
            key = (pkg, name)
            if key in out:      # a wrapper defined twice (cell2rowcol): keep the union
                rels |= set(out[key])
            out[key] = sorted(rels)
    return out


def coord2cell_checks_columns(repo):
    """Does Grid.coord2cell raise unless xycoords has two columns (`.shape[1] != 2`)?"""
    rel = "src/hydrodiy/gis/grid.py"
    tree = ast.parse(_read(repo, rel))
    for cls in tree.body:
        if isinstance(cls, ast.ClassDef) and cls.name == "Grid":
            for fn in cls.body:
                if isinstance(fn, ast.FunctionDef) and fn.name == "coord2cell":
                    for node in ast.walk(fn):
                        if isinstance(node, ast.If) and any(isinstance(x, ast.Raise) for x in ast.walk(node)):
                            for cmp_ in ast.walk(node.test):
                                if isinstance(cmp_, ast.Compare) and len(cmp_.ops) == 1 \
                                        and isinstance(cmp_.ops[0], ast.NotEq):
                                    l, r = cmp_.left, cmp_.comparators[0]
                                    for a, b in ((l, r), (r, l)):
                                        if isinstance(b, ast.Constant) and b.value == 2 \
                                                and isinstance(a, ast.Subscript) \
                                                and isinstance(a.value, ast.Attribute) and a.value.attr == "shape" \
                                                and isinstance(a.slice, ast.Constant) and a.slice.value == 1:
                                            return True
                    return False
    raise BrokenTie(f"{rel}: Grid.coord2cell not found")


def render(repo):
    nmax = c_define(repo, H_AR, "ARMODEL_NPARAMSMAX")
    if not re.fullmatch(r"\d+", nmax):
        raise BrokenTie(f"{H_AR}: ARMODEL_NPARAMSMAX is not an integer literal")
    defs = {"ARMODEL_NPARAMSMAX": int(nmax)}
    prev = {_array_size(repo, C_AR, f, "prev_centered", defs)
            for f in ("c_armodel_sim", "c_armodel_residual")}
    if len(prev) != 1:
        raise BrokenTie(f"{C_AR}: the two kernels declare prev_centered with different sizes")
    nb = {_array_size(repo, C_GRID, f, "neighbours") for f in ("c_upstream", "c_downstream")}
    if len(nb) != 1:
        raise BrokenTie(f"{C_GRID}: c_upstream/c_downstream declare neighbours with different sizes")
    idxup = _array_size(repo, C_CATCH, "c_delineate_area", "idxup")
    shift = _array_size(repo, C_CATCH, "c_delineate_boundary", "shift")
    dim = _array_size(repo, C_DATE, "c_dateutils_daysinmonth", "days_in_month")
    doy = _array_size(repo, C_DATE, "c_dateutils_dayofyear", "day_of_year")
    # stride of idxup in c_upstream: idxup[9*i+k]
    body = _c_function_body(_read(repo, C_GRID), "c_upstream", C_GRID)
    strides = set(re.findall(r"idxup\s*\[\s*(\d+)\s*\*\s*i\s*\+", body))
    if len(strides) != 1:
        raise BrokenTie(f"{C_GRID}: stride of idxup in c_upstream not found")
    stride = int(strides.pop())
    # periods of c_var2h
    body = _c_function_body(_read(repo, C_VAR2H), "c_var2h", C_VAR2H)
    periods = [int(x) for x in re.findall(r"nbsec_per_period\s*!=\s*(\d+)", body)]
    if len(periods) != 2:
        raise BrokenTie(f"{C_VAR2H}: expected two `nbsec_per_period != <int>` tests")
    perc = Fraction(_assign_number(repo, C_CATCH, "c_delineate_boundary", "percmax"))
    dm = _assign_number(repo, C_GRID, "c_voronoi", "distmin")
    mm = re.fullmatch(r"1[eE]\+?(\d+)", dm)
    if not mm:
        raise BrokenTie(f"{C_GRID}: distmin of c_voronoi is not of the form 1e<n>: {dm}")
    ncol_rt = int(_assign_number(repo, C_CRPS, "c_crps", "ncol_rt"))
    ncolsdata = int(_assign_number(repo, C_CATCH, "c_delineate_river", "ncolsdata"))

    L = ["(* GENERATED by harness/extractors/c05.py from the working tree. DO NOT EDIT. *)",
         "From Coq Require Import ZArith List String Bool.",
         "Import ListNotations.",
         "Open Scope Z_scope.",
         "Open Scope string_scope.",
         "",
         "(* sizes of the fixed local arrays the kernels index *)",
         f"Definition ARMODEL_PREV_SIZE : Z := {prev.pop()}.",
         f"Definition NEIGHBOURS_SIZE : Z := {nb.pop()}.",
         f"Definition IDXUP_SIZE : Z := {idxup}.",
         f"Definition UPSTREAM_STRIDE : Z := {stride}.",
         f"Definition SHIFT_SIZE : Z := {shift}.",
         f"Definition DAYS_IN_MONTH_SIZE : Z := {dim}.",
         f"Definition DAY_OF_YEAR_SIZE : Z := {doy}.",
         f"Definition CRPS_TABLE_NCOLS : Z := {ncol_rt}.",
         f"Definition RIVER_NCOLS : Z := {ncolsdata}.",
         "",
         "(* thresholds *)",
         f"Definition VAR2H_PERIOD_A : Z := {periods[0]}.",
         f"Definition VAR2H_PERIOD_B : Z := {periods[1]}.",
         f"Definition PERCMAX_NUM : Z := {perc.numerator}.",
         f"Definition PERCMAX_DEN : Z := {perc.denominator}.",
         f"Definition VORONOI_DISTMIN_EXP : Z := {int(mm.group(1))}.",
         "",
         "(* Grid.coord2cell (grid.py) raises unless the coordinate array has two columns *)",
         f"Definition GRID_COORD2CELL_CHECKS_TWO_COLUMNS : bool := {'true' if coord2cell_checks_columns(repo) else 'false'}.",
         "",
         "(* shape relations asserted by the Cython wrappers: (package, wrapper, relations) *)",
         "Definition PYX_CONTRACTS : list (string * string * list string) := ["]
    items = []
    for (pkg, name), rels in sorted(pyx_contracts(repo).items()):
        rl = "; ".join('"' + r + '"' for r in rels)
        items.append(f'  ("{pkg}", "{name}", [{rl}])')
    L.append(";\n".join(items))
    L += ["].", "",
          "Definition pyx_asserts (pkg name : string) : list string :=",
          "  match find (fun e => String.eqb (fst (fst e)) pkg && String.eqb (snd (fst e)) name) PYX_CONTRACTS with",
          "  | Some e => snd e | None => [] end.",
          "Definition pyx_has (pkg name : string) (rels : list string) : bool :=",
          "  forallb (fun r => existsb (String.eqb r) (pyx_asserts pkg name)) rels.",
          ""]
    return "\n".join(L)
