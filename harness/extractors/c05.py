"""C05 - sizes, thresholds and wrapper contracts the index-level models
(coq/Model/Safety*.v) depend on, re-extracted from the working tree into
coq/Gen/ConstsC05.v (fail-closed).

  * sizes of the fixed local arrays the kernels index (prev_centered, neighbours,
    idxup, shift, days_in_month, day_of_year, the seven columns of the reliability
    table, the five of the river table, the three of the flow path table);
  * the two admissible periods of c_var2h, percmax of c_delineate_boundary (as an
    exact fraction), the exponent of the `distmin = 1e30` start of c_voronoi, the
    9-slot stride of c_upstream;
  * per Cython wrapper of the three .pyx files, the shape relations it asserts
    (`assert a == b`, both sides normalised, unordered) -- the models' preconditions
    cite them; a relation that disappears breaks the `pyx_contract` obligations;
  * per Python call site of a compiled wrapper (`c_hydrodiy_<pkg>.<wrapper>(...)` in the
    data, stat and gis packages), the buffers the Python side allocates for the kernel
    (np.zeros / ones / empty / full / *_like, `k * array`, `.clone()`), as the normalised
    allocation expression followed by the definitions of every local name it depends on
    (`py_alloc_contracts`).  The kernels' theorems assume buffer sizes (`Zlen idxcells =
    nrows * ncols` for c_intersect ...) that only these allocations establish wherever the
    Cython wrapper asserts no relation; Props/C05.v states the expected contract of every
    call site, so an edit of an allocation (or a new / removed call site) breaks the
    `py_alloc` obligations until the theorem's hypothesis is re-established against it.
Only values / expressions are extracted; no other text of the source is compared."""
import ast
import copy
import re
from fractions import Fraction
from pathlib import Path

from harness.extract_consts import BrokenTie, _read, c_define

TARGET = "ConstsC05"

C_AR = "src/hydrodiy/stat/c_armodels.c"
H_AR = "src/hydrodiy/stat/c_armodels.h"
C_GRID = "src/hydrodiy/gis/c_grid.c"
C_CATCH = "src/hydrodiy/gis/c_catchment.c"
C_DATE = "src/hydrodiy/data/c_dateutils.c"
C_VAR2H = "src/hydrodiy/data/c_var2h.c"
C_CRPS = "src/hydrodiy/stat/c_crps.c"
PYX = {"data": "src/hydrodiy/data/c_hydrodiy_data.pyx",
       "stat": "src/hydrodiy/stat/c_hydrodiy_stat.pyx",
       "gis": "src/hydrodiy/gis/c_hydrodiy_gis.pyx"}


def _c_function_body(txt, name, rel):
    m = re.search(rf"\b{name}\s*\([^)]*\)\s*\{{", txt)
    if not m:
        raise BrokenTie(f"{rel}: function {name} not found")
    i, depth = m.end(), 1
    while i < len(txt) and depth:
        depth += {"{": 1, "}": -1}.get(txt[i], 0)
        i += 1
    if depth:
        raise BrokenTie(f"{rel}: unbalanced braces in {name}")
    return txt[m.end():i - 1]


def _array_size(repo, rel, func, var, defines=None):
    body = _c_function_body(_read(repo, rel), func, rel)
    m = re.search(rf"\b{var}\s*\[\s*([A-Za-z_0-9]+)\s*\]", body)
    if not m:
        raise BrokenTie(f"{rel}: declaration of {var}[...] not found in {func}")
    tok = m.group(1)
    if re.fullmatch(r"\d+", tok):
        return int(tok)
    if defines and tok in defines:
        return defines[tok]
    raise BrokenTie(f"{rel}: size `{tok}` of {var} in {func} is not a known constant")


def _assign_number(repo, rel, func, var):
    body = _c_function_body(_read(repo, rel), func, rel)
    m = re.search(rf"\b{var}\s*=\s*([0-9.eE+-]+)\s*;", body)
    if not m:
        raise BrokenTie(f"{rel}: `{var} = <number>;` not found in {func}")
    return m.group(1)


def pyx_contracts(repo):
    """{(pkg, function): sorted list of 'lhs==rhs' with lhs <= rhs lexicographically}"""
    out = {}
    for pkg, rel in PYX.items():
        txt = _read(repo, rel)
        parts = re.split(r"^def\s+([A-Za-z_0-9]+)\s*\(", txt, flags=re.M)
        # parts = [preamble, name1, body1, name2, body2, ...]
        if len(parts) < 3:
            raise BrokenTie(f"{rel}: no wrapper function found")
        for name, body in zip(parts[1::2], parts[2::2]):
            rels = set()
            nvaldef = dict(re.findall(r"^\s+(\w+)\s*=\s*(\w+\.shape\[\d\])\s*$", body, re.M))
            for a, b in re.findall(r"^\s*assert\s+(.+?)\s*==\s*(.+?)\s*$", body, re.M):
                a, b = (re.sub(r"\s+", "", x) for x in (a, b))
                a, b = nvaldef.get(a, a), nvaldef.get(b, b)
                rels.add("==".join(sorted((a, b))))
            key = (pkg, name)
            if key in out:      # a wrapper defined twice (cell2rowcol): keep the union
                rels |= set(out[key])
            out[key] = sorted(rels)
    return out


def coord2cell_checks_columns(repo):
    """Does Grid.coord2cell raise unless xycoords has two columns (`.shape[1] != 2`)?"""
    rel = "src/hydrodiy/gis/grid.py"
    tree = ast.parse(_read(repo, rel))
    for cls in tree.body:
        if isinstance(cls, ast.ClassDef) and cls.name == "Grid":
            for fn in cls.body:
                if isinstance(fn, ast.FunctionDef) and fn.name == "coord2cell":
                    for node in ast.walk(fn):
                        if isinstance(node, ast.If) and any(isinstance(x, ast.Raise) for x in ast.walk(node)):
                            for cmp_ in ast.walk(node.test):
                                if isinstance(cmp_, ast.Compare) and len(cmp_.ops) == 1 \
                                        and isinstance(cmp_.ops[0], ast.NotEq):
                                    l, r = cmp_.left, cmp_.comparators[0]
                                    for a, b in ((l, r), (r, l)):
                                        if isinstance(b, ast.Constant) and b.value == 2 \
                                                and isinstance(a, ast.Subscript) \
                                                and isinstance(a.value, ast.Attribute) and a.value.attr == "shape" \
                                                and isinstance(a.slice, ast.Constant) and a.slice.value == 1:
                                            return True
                    return False
    raise BrokenTie(f"{rel}: Grid.coord2cell not found")


# ----------------------------------------------------------------------------
# buffers allocated by the Python call sites of the compiled wrappers

PY_PKGS = ("data", "stat", "gis")
_ALLOC_FUNCS = {"zeros", "ones", "empty", "full", "zeros_like", "ones_like", "empty_like", "full_like"}
_NOT_LOCAL = {"np", "pd", "self", "math"}


def _strip_dtype(node):
    """Drop what does not concern sizes: dtype arguments of the allocators and `.astype(...)`
    conversions (a wrong dtype is refused by the wrapper's buffer type check)."""
    class T(ast.NodeTransformer):
        def visit_Call(self, n):
            self.generic_visit(n)
            if isinstance(n.func, ast.Attribute) and n.func.attr == "astype":
                return n.func.value
            n.keywords = [k for k in n.keywords if k.arg != "dtype"]
            if isinstance(n.func, ast.Attribute) and n.func.attr in ("zeros", "ones", "empty") \
                    and isinstance(n.func.value, ast.Name) and n.func.value.id == "np" and len(n.args) == 2:
                n.args = n.args[:1]
            return n
    return T().visit(copy.deepcopy(node))


def _norm(node):
    return re.sub(r"\s+", "", ast.unparse(_strip_dtype(node)))


def _is_number(x):
    if isinstance(x, ast.UnaryOp) and isinstance(x.op, (ast.USub, ast.UAdd)):
        x = x.operand
    return (isinstance(x, ast.Constant) and isinstance(x.value, (int, float)) and not isinstance(x.value, bool)) \
        or (isinstance(x, ast.Attribute) and isinstance(x.value, ast.Name) and x.value.id == "np"
            and x.attr in ("nan", "inf"))


def _is_alloc(node):
    """Does the expression create the array: an allocator call, `.clone()` of a grid, or
    `<number> * <array name>` (a fresh array of the size of the named one)?"""
    for n in ast.walk(node):
        if isinstance(n, ast.Call) and isinstance(n.func, ast.Attribute) \
                and (n.func.attr in _ALLOC_FUNCS or n.func.attr == "clone"):
            return True
    n = node
    if isinstance(n, ast.BinOp) and isinstance(n.op, ast.Mult):
        for a, b in ((n.left, n.right), (n.right, n.left)):
            if _is_number(a) and isinstance(b, ast.Name):
                return True
    return False


def _functions(tree):
    out = []

    def collect(body, prefix):
        for n in body:
            if isinstance(n, (ast.FunctionDef, ast.AsyncFunctionDef)):
                out.append((prefix + n.name, n))
                collect(n.body, prefix + n.name + ".")
            elif isinstance(n, ast.ClassDef):
                collect(n.body, prefix + n.name + ".")
    collect(tree.body, "")
    return out


def py_alloc_contracts(repo):
    """[(pkg, 'Class.function', wrapper, [(argument text, contract), ...])] in source order, one
    entry per call of a compiled wrapper; only the arguments the function allocates itself are
    listed.  contract = 'name:=definition ; ...' (every assignment, before the call, of every
    local name the argument depends on, transitively; dtype arguments / conversions left out)."""
    out = []
    for pkg in PY_PKGS:
        d = Path(repo) / "src" / "hydrodiy" / pkg
        if not d.is_dir():
            raise BrokenTie(f"src/hydrodiy/{pkg}: directory missing")
        for f in sorted(d.glob("*.py")):
            txt = f.read_text()
            if "c_hydrodiy_" not in txt:
                continue
            try:
                tree = ast.parse(txt)
            except SyntaxError as e:
                raise BrokenTie(f"{f}: {e}")
            funcs = _functions(tree)
            inner = {id(sub) for _, fn in funcs for sub in ast.walk(fn)
                     if sub is not fn and isinstance(sub, (ast.FunctionDef, ast.AsyncFunctionDef))}
            for qn, fn in funcs:
                assigns = []          # (line, name, value node, text of a tuple target)
                for n in ast.walk(fn):
                    if isinstance(n, ast.Assign):
                        for t in n.targets:
                            if isinstance(t, ast.Name):
                                assigns.append((n.lineno, t.id, n.value, None))
                            elif isinstance(t, (ast.Tuple, ast.List)):
                                for e in t.elts:
                                    if isinstance(e, ast.Name):
                                        assigns.append((n.lineno, e.id, n.value, _norm(t)))
                            elif isinstance(t, ast.Subscript) and isinstance(t.value, ast.Name):
                                pass          # writes into an array do not change its size
                    elif isinstance(n, ast.AugAssign) and isinstance(n.target, ast.Name):
                        assigns.append((n.lineno, n.target.id, n, None))
                    elif isinstance(n, (ast.For, ast.comprehension)) :
                        for e in ast.walk(n.target):
                            if isinstance(e, ast.Name):
                                assigns.append((getattr(n, "lineno", getattr(n.iter, "lineno", 0)), e.id, n.iter, "for:" + _norm(n.target)))
                assigns.sort(key=lambda a: a[0])
                alias = {}
                for _, name, val, _t in assigns:
                    if isinstance(val, ast.Attribute) and isinstance(val.value, ast.Name) \
                            and val.value.id.startswith("c_hydrodiy_"):
                        alias[name] = val.attr

                def where_of(node, before, seen, depth=0):
                    """definitions (before the call) of every local name `node` depends on"""
                    where = []
                    for nm in sorted({x.id for x in ast.walk(node) if isinstance(x, ast.Name)}):
                        if nm in _NOT_LOCAL or nm in seen:
                            continue
                        ds = [(v, tt) for ln, name, v, tt in assigns if name == nm and ln < before]
                        if not ds:
                            continue
                        seen.add(nm)
                        for v, tt in ds:
                            if isinstance(v, ast.AugAssign):
                                where.append(_norm(v))
                                v = v.value
                            else:
                                where.append(f"{tt or nm}:={_norm(v)}")
                            if depth < 8:
                                where += where_of(v, before, seen, depth + 1)
                    return where

                def allocated_here(a, before):
                    """the argument is an allocation, or a name (or `.data` of a name) one of
                    whose definitions is an allocation"""
                    if _is_alloc(a):
                        return True
                    if isinstance(a, ast.Attribute) and a.attr == "data" and isinstance(a.value, ast.Name):
                        a = a.value
                    if isinstance(a, ast.Name):
                        return any(name == a.id and ln < before and not isinstance(v, ast.AugAssign) and _is_alloc(v)
                                   for ln, name, v, _t in assigns)
                    return False

                calls = []
                for n in ast.walk(fn):
                    if id(n) in inner or not isinstance(n, ast.Call):
                        continue
                    wr = None
                    if isinstance(n.func, ast.Attribute) and isinstance(n.func.value, ast.Name) \
                            and n.func.value.id.startswith("c_hydrodiy_"):
                        wr = n.func.attr
                    elif isinstance(n.func, ast.Name) and n.func.id in alias:
                        wr = alias[n.func.id]
                    if wr is None:
                        continue
                    if any(isinstance(a, ast.Starred) for a in n.args) or any(k.arg is None for k in n.keywords):
                        raise BrokenTie(f"{f.name}:{qn}: call of {wr} with starred arguments")
                    args = []
                    for a in list(n.args) + [k.value for k in n.keywords]:
                        if not allocated_here(a, n.lineno):
                            continue
                        where = where_of(a, n.lineno, set())
                        uniq = []
                        for w in where:
                            if w not in uniq:
                                uniq.append(w)
                        args.append((_norm(a), " ; ".join(uniq)))
                    calls.append((n.lineno, n.col_offset, wr, args))
                for _ln, _c, wr, args in sorted(calls, key=lambda c: c[:2]):
                    out.append((pkg, qn, wr, args))
    if not out:
        raise BrokenTie("no Python call site of a compiled wrapper found")
    return out


def _coq_str(s):
    return '"' + s.replace('"', '""') + '"'


def render(repo):
    nmax = c_define(repo, H_AR, "ARMODEL_NPARAMSMAX")
    if not re.fullmatch(r"\d+", nmax):
        raise BrokenTie(f"{H_AR}: ARMODEL_NPARAMSMAX is not an integer literal")
    defs = {"ARMODEL_NPARAMSMAX": int(nmax)}
    prev = {_array_size(repo, C_AR, f, "prev_centered", defs)
            for f in ("c_armodel_sim", "c_armodel_residual")}
    if len(prev) != 1:
        raise BrokenTie(f"{C_AR}: the two kernels declare prev_centered with different sizes")
    nb = {_array_size(repo, C_GRID, f, "neighbours") for f in ("c_upstream", "c_downstream")}
    if len(nb) != 1:
        raise BrokenTie(f"{C_GRID}: c_upstream/c_downstream declare neighbours with different sizes")
    idxup = _array_size(repo, C_CATCH, "c_delineate_area", "idxup")
    shift = _array_size(repo, C_CATCH, "c_delineate_boundary", "shift")
    dim = _array_size(repo, C_DATE, "c_dateutils_daysinmonth", "days_in_month")
    doy = _array_size(repo, C_DATE, "c_dateutils_dayofyear", "day_of_year")
    # stride of idxup in c_upstream: idxup[9*i+k]
    body = _c_function_body(_read(repo, C_GRID), "c_upstream", C_GRID)
    strides = set(re.findall(r"idxup\s*\[\s*(\d+)\s*\*\s*i\s*\+", body))
    if len(strides) != 1:
        raise BrokenTie(f"{C_GRID}: stride of idxup in c_upstream not found")
    stride = int(strides.pop())
    # periods of c_var2h
    body = _c_function_body(_read(repo, C_VAR2H), "c_var2h", C_VAR2H)
    periods = [int(x) for x in re.findall(r"nbsec_per_period\s*!=\s*(\d+)", body)]
    if len(periods) != 2:
        raise BrokenTie(f"{C_VAR2H}: expected two `nbsec_per_period != <int>` tests")
    perc = Fraction(_assign_number(repo, C_CATCH, "c_delineate_boundary", "percmax"))
    dm = _assign_number(repo, C_GRID, "c_voronoi", "distmin")
    mm = re.fullmatch(r"1[eE]\+?(\d+)", dm)
    if not mm:
        raise BrokenTie(f"{C_GRID}: distmin of c_voronoi is not of the form 1e<n>: {dm}")
    ncol_rt = int(_assign_number(repo, C_CRPS, "c_crps", "ncol_rt"))
    ncolsdata = int(_assign_number(repo, C_CATCH, "c_delineate_river", "ncolsdata"))

    L = ["(* GENERATED by harness/extractors/c05.py from the working tree. DO NOT EDIT. *)",
         "From Coq Require Import ZArith List String Bool.",
         "Import ListNotations.",
         "Open Scope Z_scope.",
         "Open Scope string_scope.",
         "",
         "(* sizes of the fixed local arrays the kernels index *)",
         f"Definition ARMODEL_PREV_SIZE : Z := {prev.pop()}.",
         f"Definition NEIGHBOURS_SIZE : Z := {nb.pop()}.",
         f"Definition IDXUP_SIZE : Z := {idxup}.",
         f"Definition UPSTREAM_STRIDE : Z := {stride}.",
         f"Definition SHIFT_SIZE : Z := {shift}.",
         f"Definition DAYS_IN_MONTH_SIZE : Z := {dim}.",
         f"Definition DAY_OF_YEAR_SIZE : Z := {doy}.",
         f"Definition CRPS_TABLE_NCOLS : Z := {ncol_rt}.",
         f"Definition RIVER_NCOLS : Z := {ncolsdata}.",
         "",
         "(* thresholds *)",
         f"Definition VAR2H_PERIOD_A : Z := {periods[0]}.",
         f"Definition VAR2H_PERIOD_B : Z := {periods[1]}.",
         f"Definition PERCMAX_NUM : Z := {perc.numerator}.",
         f"Definition PERCMAX_DEN : Z := {perc.denominator}.",
         f"Definition VORONOI_DISTMIN_EXP : Z := {int(mm.group(1))}.",
         "",
         "(* Grid.coord2cell (grid.py) raises unless the coordinate array has two columns *)",
         f"Definition GRID_COORD2CELL_CHECKS_TWO_COLUMNS : bool := {'true' if coord2cell_checks_columns(repo) else 'false'}.",
         "",
         "(* shape relations asserted by the Cython wrappers: (package, wrapper, relations) *)",
         "Definition PYX_CONTRACTS : list (string * string * list string) := ["]
    items = []
    for (pkg, name), rels in sorted(pyx_contracts(repo).items()):
        rl = "; ".join('"' + r + '"' for r in rels)
        items.append(f'  ("{pkg}", "{name}", [{rl}])')
    L.append(";\n".join(items))
    L += ["].", "",
          "Definition pyx_asserts (pkg name : string) : list string :=",
          "  match find (fun e => String.eqb (fst (fst e)) pkg && String.eqb (snd (fst e)) name) PYX_CONTRACTS with",
          "  | Some e => snd e | None => [] end.",
          "Definition pyx_has (pkg name : string) (rels : list string) : bool :=",
          "  forallb (fun r => existsb (String.eqb r) (pyx_asserts pkg name)) rels.",
          "",
          "(* buffers allocated by the Python call sites of the compiled wrappers:",
          "   (package, function, wrapper, [(argument, allocation contract)]), in source order *)",
          "Definition PY_KERNEL_CALLS : list (string * string * string * list (string * string)) := ["]
    items = []
    for pkg, qn, wr, args in py_alloc_contracts(repo):
        al = "; ".join(f"({_coq_str(a)}, {_coq_str(c)})" for a, c in args)
        items.append(f"  ({_coq_str(pkg)}, {_coq_str(qn)}, {_coq_str(wr)},\n    [{al}])")
    L.append(";\n".join(items))
    L += ["].", "",
          "Definition py_call_sites : list (string * string * string) := map (fun e => fst e) PY_KERNEL_CALLS.",
          "Definition py_allocs (pkg fn wrapper : string) : list (list (string * string)) :=",
          "  map (fun e => snd e) (filter (fun e => match fst e with (p, f, w) =>",
          "    String.eqb p pkg && String.eqb f fn && String.eqb w wrapper end) PY_KERNEL_CALLS).",
          ""]
    return "\n".join(L)
