"""Regenerates coq/Gen/KernelsAst.v: the MiniC abstract syntax of every C kernel of
the tree under test, produced by harness/ctrans.py from clang's JSON AST
(one `Definition <fn>_def : fundef` per function and `Definition program`).

Fail-closed: a function outside the supported subset becomes
`Untranslated "<reason>"`; if clang itself fails on a file the extractor raises
BrokenTie (the refinement proofs then do not build)."""
from harness.extract_consts import BrokenTie
from harness import ctrans

TARGET = "KernelsAst"


def render(repo):
    try:
        return ctrans.render_cached(repo)
    except ctrans.TranslatorError as e:
        raise BrokenTie(f"minic: {e}")
