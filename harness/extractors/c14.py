"""C14 - constants the model coq/Model/Var2h.v depends on, re-extracted from the
working tree into coq/Gen/ConstsC14.v (fail-closed).

  * c_var2h.c : the validity threshold of the end values (`val1<-1e-8 ||
    val2<-1e-8`, both literals must agree), the overlap threshold
    (`it2-it1>1e-8`), the two admissible periods of the head test;
  * dutils.py, var2h : the admissible periods of the wrapper
    (`nbsec_per_period not in [1800, 3600]`), the lower bound of maxgapsec
    (`maxgapsec < 3600`), the defaults of nbsec_per_period and maxgapsec, the
    shift of the origin (`delta(hours=1)`).
Only values are extracted; no text of the source is compared, and the
extraction is the same for the pinned and for the repaired tree."""
import ast
import re
from fractions import Fraction

from harness.extract_consts import BrokenTie, _read, dec_to_R, f_hex

TARGET = "ConstsC14"

C_VAR2H = "src/hydrodiy/data/c_var2h.c"
PY_DUTILS = "src/hydrodiy/data/dutils.py"

NUM = r"([-+]?(?:\d+\.?\d*|\.\d+)(?:[eE][-+]?\d+)?)"


def _float_literal(s, what):
    try:
        return float(s)
    except ValueError:
        raise BrokenTie(f"{C_VAR2H}: {what}: {s!r} is not a numeric literal")


def c_thresholds(repo):
    txt = _read(repo, C_VAR2H)
    m = re.search(r"val1\s*<\s*" + NUM + r"\s*\|\|\s*val2\s*<\s*" + NUM +
                  r"\s*\|\|\s*t2\s*-\s*t1\s*>\s*maxgapsec", txt)
    if not m:
        raise BrokenTie(f"{C_VAR2H}: validity test `val1<c || val2<c || t2-t1>maxgapsec` not found")
    a, b = _float_literal(m.group(1), "validity"), _float_literal(m.group(2), "validity")
    if a != b:
        raise BrokenTie(f"{C_VAR2H}: the two validity thresholds differ ({a!r}, {b!r})")
    ms = re.findall(r"it2\s*-\s*it1\s*>\s*" + NUM, txt)
    if len(ms) != 1:
        raise BrokenTie(f"{C_VAR2H}: expected one overlap test `it2-it1>c`, found {len(ms)}")
    ov = _float_literal(ms[0], "overlap")
    mp = re.search(r"nbsec_per_period\s*!=\s*(\d+)\s*\)\s*&&\s*\(\s*nbsec_per_period\s*!=\s*(\d+)", txt)
    if not mp:
        raise BrokenTie(f"{C_VAR2H}: head test on nbsec_per_period not found")
    return a, ov, [int(mp.group(1)), int(mp.group(2))]


def _var2h_def(repo):
    tree = ast.parse(_read(repo, PY_DUTILS))
    for node in tree.body:
        if isinstance(node, ast.FunctionDef) and node.name == "var2h":
            return node
    raise BrokenTie(f"{PY_DUTILS}: function var2h not found")


def _int_value(node, what):
    try:
        v = eval(compile(ast.Expression(node), "<c14>", "eval"), {"__builtins__": {}})
    except Exception:
        raise BrokenTie(f"{PY_DUTILS}: {what} is not a constant expression")
    fr = Fraction(repr(v)) if isinstance(v, float) else Fraction(v)
    if fr.denominator != 1:
        raise BrokenTie(f"{PY_DUTILS}: {what} = {v!r} is not an integer")
    return int(fr)


def py_contract(repo):
    fn = _var2h_def(repo)
    names = [a.arg for a in fn.args.args]
    defaults = dict(zip(names[len(names) - len(fn.args.defaults):], fn.args.defaults))
    for k in ("nbsec_per_period", "maxgapsec"):
        if k not in defaults:
            raise BrokenTie(f"{PY_DUTILS}: var2h has no default for {k}")
    dperiod = _int_value(defaults["nbsec_per_period"], "default nbsec_per_period")
    dmaxgap = _int_value(defaults["maxgapsec"], "default maxgapsec")
    periods, gapmin, shift = None, None, None
    for n in ast.walk(fn):
        if isinstance(n, ast.Compare) and len(n.ops) == 1 and isinstance(n.left, ast.Name):
            if n.left.id == "nbsec_per_period" and isinstance(n.ops[0], ast.NotIn):
                try:
                    v = ast.literal_eval(n.comparators[0])
                except Exception:
                    raise BrokenTie(f"{PY_DUTILS}: admissible periods are not a literal list")
                if periods is not None:
                    raise BrokenTie(f"{PY_DUTILS}: two tests on nbsec_per_period")
                periods = [int(x) for x in v]
            if n.left.id == "maxgapsec" and isinstance(n.ops[0], ast.Lt):
                if gapmin is not None:
                    raise BrokenTie(f"{PY_DUTILS}: two lower-bound tests on maxgapsec")
                gapmin = _int_value(n.comparators[0], "lower bound of maxgapsec")
        if isinstance(n, ast.Assign) and len(n.targets) == 1 and isinstance(n.targets[0], ast.Name) \
                and n.targets[0].id == "hstart":
            calls = [c for c in ast.walk(n.value) if isinstance(c, ast.Call)
                     and isinstance(c.func, ast.Name) and c.func.id in ("delta", "timedelta")]
            if len(calls) != 1 or calls[0].args or len(calls[0].keywords) != 1:
                raise BrokenTie(f"{PY_DUTILS}: hstart is not `datetime(...) + delta(<unit>=k)`")
            kw = calls[0].keywords[0]
            mult = {"hours": 3600, "minutes": 60, "seconds": 1, "days": 86400}.get(kw.arg)
            if mult is None:
                raise BrokenTie(f"{PY_DUTILS}: unit {kw.arg} of the origin shift not understood")
            shift = mult * _int_value(kw.value, "origin shift")
            # the origin is truncated to the hour: datetime(year, month, day, hour)
            dts = [c for c in ast.walk(n.value) if isinstance(c, ast.Call)
                   and isinstance(c.func, ast.Name) and c.func.id == "datetime"]
            if len(dts) != 1 or len(dts[0].args) != 4 or dts[0].keywords or \
                    [getattr(a, "attr", None) for a in dts[0].args] != ["year", "month", "day", "hour"]:
                raise BrokenTie(f"{PY_DUTILS}: hstart is not truncated to the hour")
    if periods is None or gapmin is None or shift is None:
        raise BrokenTie(f"{PY_DUTILS}: var2h contract (periods / maxgapsec bound / origin) not found")
    return periods, gapmin, dperiod, dmaxgap, shift


def _zlist(xs):
    return "[" + "; ".join(f"{int(x)}%Z" if x >= 0 else f"({int(x)})%Z" for x in xs) + "]"


def render(repo):
    inv, ov, cper = c_thresholds(repo)
    periods, gapmin, dperiod, dmaxgap, shift = py_contract(repo)
    out = ["(* GENERATED by harness/extractors/c14.py from the working tree. DO NOT EDIT. *)",
           "From Coq Require Import ZArith List Reals PrimFloat.",
           "Import ListNotations.",
           "",
           "(* c_var2h.c *)",
           f"Definition VAR2H_INVALID_EPS_R : R := {dec_to_R(inv)}.",
           f"Definition VAR2H_INVALID_EPS_F : float := {f_hex(inv)}.",
           f"Definition VAR2H_OVERLAP_EPS_R : R := {dec_to_R(ov)}.",
           f"Definition VAR2H_OVERLAP_EPS_F : float := {f_hex(ov)}.",
           f"Definition VAR2H_C_PERIODS : list Z := {_zlist(cper)}.",
           "",
           "(* dutils.py, var2h *)",
           f"Definition VAR2H_PY_PERIODS : list Z := {_zlist(periods)}.",
           f"Definition VAR2H_PY_MAXGAP_MIN : Z := {gapmin}%Z.",
           f"Definition VAR2H_PY_DEFAULT_PERIOD : Z := {dperiod}%Z.",
           f"Definition VAR2H_PY_DEFAULT_MAXGAP : Z := {dmaxgap}%Z.",
           f"Definition VAR2H_PY_ORIGIN_SHIFT : Z := {shift}%Z.",
           ""]
    return "\n".join(out) + "\n"


if __name__ == "__main__":
    import sys
    sys.stdout.write(render(sys.argv[1] if len(sys.argv) > 1 else "/repo"))
