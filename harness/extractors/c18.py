"""C18 - what the aliasing model coq/Model/Alias.v takes from the working tree,
re-extracted (fail-closed) into coq/Gen/ConstsC18.v:

  * KERNEL_WRITES : for every C kernel reachable from a Cython entry point, the
    list of its pointer parameters with a flag "the kernel stores through this
    pointer" (an indexed assignment `p[..] = / += / ++ ...`, `*p = ...`,
    `qsort(p, ...)`, or the pointer handed to a callee that stores through the
    corresponding parameter - computed as a fixpoint over the call graph of
    the kernel sources).  This is the write-set the DESIGN asks to "read off
    the C code": it is computed from the code, not typed in.
  * ENTRIES : for every `def` of the three .pyx wrappers, its array parameters
    with the buffer contract (element type, ndim; all are mode='c') and the
    written flag of the kernel parameter each one is handed to.
  * CALLSITES : every call `c_hydrodiy_<pkg>.<entry>(...)` in the Python
    files the property is anchored in, as (enclosing function, entry).  The
    model must have a transcribed pipeline for each of them.

Only these facts are extracted; no source text is compared."""
import ast
import re

from harness.extract_consts import BrokenTie, _read

TARGET = "ConstsC18"

KERNEL_FILES = {
    "data": ["c_dateutils", "c_qualitycontrol", "c_dutils", "c_var2h", "c_baseflow"],
    "stat": ["c_crps", "c_dscore", "c_olsleverage", "c_armodels", "ADinf", "AnDarl",
             "c_andersondarling", "c_paretofront"],
    "gis": ["c_grid", "c_catchment", "c_points_inside_polygon"],
}

PY_FILES = [
    "stat/metrics.py", "stat/sutils.py", "stat/armodels.py", "stat/transform.py",
    "data/dutils.py", "data/qualitycontrol.py", "data/signatures.py",
    "gis/grid.py", "gis/gutils.py",
    "plot/putils.py", "plot/boxplot.py", "plot/violinplot.py",
]

# libc functions a kernel may hand a pointer to: index of the arguments written
LIBC_WRITES = {"qsort": {0}, "memset": {0}, "memcpy": {0}, "memmove": {0},
               "free": set(), "fprintf": set(), "printf": set(), "sizeof": set(),
               "isnan": set(), "isinf": set(), "fabs": set(), "sqrt": set(), "exp": set(),
               "log": set(), "pow": set(), "floor": set(), "ceil": set(), "fmax": set(),
               "fmin": set(), "abs": set(), "malloc": set(), "calloc": set()}

CKEYWORDS = {"if", "for", "while", "switch", "return", "sizeof", "else", "do"}


def _strip_comments(txt):
    txt = txt.replace("\r", "")
    txt = re.sub(r"/\*.*?\*/", lambda m: " " * 1 + "\n" * m.group(0).count("\n"), txt, flags=re.S)
    txt = re.sub(r"//[^\n]*", "", txt)
    txt = re.sub(r'"(?:\\.|[^"\\])*"', '""', txt)      # string literals
    txt = re.sub(r"\\\n", " ", txt)                    # line continuations
    return txt


def _match(txt, i, op, cl):
    """index just after the bracket closing the one at txt[i]"""
    depth = 0
    while i < len(txt):
        if txt[i] == op:
            depth += 1
        elif txt[i] == cl:
            depth -= 1
            if depth == 0:
                return i + 1
        i += 1
    return -1


def _split_args(s):
    out, depth, cur = [], 0, ""
    for ch in s:
        if ch in "([{":
            depth += 1
        elif ch in ")]}":
            depth -= 1
        if ch == "," and depth == 0:
            out.append(cur.strip())
            cur = ""
        else:
            cur += ch
    if cur.strip():
        out.append(cur.strip())
    return out


FUNC_RE = re.compile(r"(?m)^[ \t]*((?:static\s+)?(?:unsigned\s+)?(?:long\s+long|int|double|void|long))\s+"
                     r"([A-Za-z_][A-Za-z0-9_]*)\s*\(")


def parse_c_functions(txt, rel):
    """name -> (params [(name, is_pointer)], body)"""
    funs = {}
    for m in FUNC_RE.finditer(txt):
        name = m.group(2)
        po = m.end() - 1
        pc = _match(txt, po, "(", ")")
        if pc < 0:
            raise BrokenTie(f"{rel}: unbalanced parameter list of {name}")
        j = pc
        while j < len(txt) and txt[j] in " \t\n":
            j += 1
        if j >= len(txt) or txt[j] != "{":
            continue                    # a prototype
        bc = _match(txt, j, "{", "}")
        if bc < 0:
            raise BrokenTie(f"{rel}: unbalanced braces in {name}")
        params = []
        for p in _split_args(txt[po + 1:pc - 1]):
            p = p.strip()
            if p in ("", "void"):
                continue
            mm = re.fullmatch(r"(?:const\s+)?[A-Za-z_][A-Za-z0-9_ ]*?\s*(\**)\s*([A-Za-z_][A-Za-z0-9_]*)\s*(\[[^\]]*\])?", p)
            if not mm:
                raise BrokenTie(f"{rel}: cannot parse parameter `{p}` of {name}")
            params.append((mm.group(2), bool(mm.group(1)) or bool(mm.group(3))))
        funs[name] = (params, txt[j + 1:bc - 1])
    return funs


ASSIGN_RE = re.compile(r"\s*(=(?!=)|\+=|-=|\*=|/=|%=|\|=|&=|\^=|<<=|>>=|\+\+|--)")


def direct_writes(params, body):
    """pointer parameters the body stores through, syntactically"""
    w = set()
    for p, isptr in params:
        if not isptr:
            continue
        for m in re.finditer(rf"(?<![A-Za-z0-9_.>]){re.escape(p)}\s*\[", body):
            end = _match(body, m.end() - 1, "[", "]")
            if end < 0:
                raise BrokenTie(f"unbalanced [] after {p}")
            while end < len(body) and body[end] == "[":        # p[i][j]
                end = _match(body, end, "[", "]")
            if ASSIGN_RE.match(body, end):
                w.add(p)
            k = m.start() - 1
            while k >= 0 and body[k] in " \t":
                k -= 1
            if k >= 1 and body[k - 1:k + 1] in ("++", "--"):
                w.add(p)
        if re.search(rf"\*\s*\(?\s*{re.escape(p)}\b[^;\[]*?\)?\s*(=(?!=)|\+=|-=|\*=|/=|\+\+|--)", body) and \
                re.search(rf"(?m)(^|[;{{}}])\s*\*\s*\(?\s*{re.escape(p)}\b", body):
            w.add(p)
        # the pointer itself re-assigned / advanced: give up (fail-closed)
        if re.search(rf"(?<![A-Za-z0-9_.>\]]){re.escape(p)}\s*(=(?!=)|\+=|-=|\+\+|--)", body):
            raise BrokenTie(f"pointer parameter {p} is reassigned: write-set analysis does not apply")
    return w


def pointer_args(params, arg):
    """pointer parameters that the argument expression passes *as a pointer*"""
    out = set()
    for p, isptr in params:
        if not isptr:
            continue
        for m in re.finditer(rf"(?<![A-Za-z0-9_.>]){re.escape(p)}(?![A-Za-z0-9_])", arg):
            rest = arg[m.end():].lstrip()
            before = arg[:m.start()].rstrip()
            if rest.startswith("["):
                # p[...] is a value unless its address is taken
                if before.endswith("&") or before.endswith("&("):
                    out.add(p)
            else:
                out.add(p)
    return out


def kernel_writes(repo):
    funs = {}
    for pkg, names in KERNEL_FILES.items():
        for n in names:
            rel = f"src/hydrodiy/{pkg}/{n}.c"
            for k, v in parse_c_functions(_strip_comments(_read(repo, rel)), rel).items():
                funs[k] = v
    writes = {k: direct_writes(ps, body) for k, (ps, body) in funs.items()}
    # calls
    calls = {}
    for k, (ps, body) in funs.items():
        lst = []
        for m in re.finditer(r"(?<![A-Za-z0-9_.>])([A-Za-z_][A-Za-z0-9_]*)\s*\(", body):
            g = m.group(1)
            if g in CKEYWORDS:
                continue
            end = _match(body, m.end() - 1, "(", ")")
            if end < 0:
                raise BrokenTie(f"{k}: unbalanced call of {g}")
            args = _split_args(body[m.end():end - 1])
            lst.append((g, args))
        calls[k] = lst
    changed = True
    while changed:
        changed = False
        for k, (ps, body) in funs.items():
            for g, args in calls[k]:
                for i, a in enumerate(args):
                    pa = pointer_args(ps, a)
                    if not pa:
                        continue
                    if g in funs:
                        gps = funs[g][0]
                        if i >= len(gps):
                            raise BrokenTie(f"{k}: call of {g} with too many arguments")
                        if gps[i][0] in writes[g]:
                            new = pa - writes[k]
                            if new:
                                writes[k] |= new
                                changed = True
                    elif g in LIBC_WRITES:
                        if i in LIBC_WRITES[g]:
                            new = pa - writes[k]
                            if new:
                                writes[k] |= new
                                changed = True
                    else:
                        # a cast like (double*)p parses as no call; anything else is unknown
                        raise BrokenTie(f"{k}: pointer parameter {sorted(pa)} handed to unknown function {g}")
    return funs, writes


CT = {"double": "TF64", "int": "TI32", "long long": "TI64"}


def pyx_entries(repo, pkg, funs, writes):
    rel = f"src/hydrodiy/{pkg}/c_hydrodiy_{pkg}.pyx"
    txt = re.sub(r"#[^\n]*", "", _read(repo, rel).replace("\r", "").replace("\t", "    "))
    out = {}
    defs = list(re.finditer(r"(?m)^def\s+([A-Za-z_][A-Za-z0-9_]*)\s*\(", txt))
    for di, m in enumerate(defs):
        name = m.group(1)
        pc = _match(txt, m.end() - 1, "(", ")")
        if pc < 0:
            raise BrokenTie(f"{rel}: unbalanced def {name}")
        body = txt[pc:defs[di + 1].start() if di + 1 < len(defs) else len(txt)]
        arrs = []
        for p in _split_args(txt[m.end():pc - 1]):
            mm = re.fullmatch(r"np\.ndarray\[\s*([a-z ]+?)\s*,\s*ndim\s*=\s*(\d)\s*,\s*mode\s*=\s*'c'\s*\]\s*"
                              r"([A-Za-z_][A-Za-z0-9_]*)(\s+not\s+None)?", p.strip())
            if mm:
                if mm.group(1) not in CT:
                    raise BrokenTie(f"{rel}: {name}: unknown buffer type {mm.group(1)}")
                arrs.append((mm.group(3), CT[mm.group(1)], int(mm.group(2))))
            elif "ndarray" in p:
                raise BrokenTie(f"{rel}: {name}: cannot parse array parameter `{p.strip()}`")
        if not arrs:
            continue
        cm = [c for c in re.finditer(r"(?<![A-Za-z0-9_])(c_[A-Za-z0-9_]+)\s*\(", body)]
        if len(cm) != 1:
            raise BrokenTie(f"{rel}: {name}: expected exactly one kernel call, found {len(cm)}")
        kern = cm[0].group(1)
        if kern not in funs:
            raise BrokenTie(f"{rel}: {name}: kernel {kern} not found in the C sources")
        end = _match(body, cm[0].end() - 1, "(", ")")
        args = _split_args(body[cm[0].end():end - 1])
        kps = funs[kern][0]
        if len(args) != len(kps):
            raise BrokenTie(f"{rel}: {name}: {kern} called with {len(args)} arguments, defined with {len(kps)}")
        amap = {}
        for i, a in enumerate(args):
            mm = re.fullmatch(r"<\s*[a-z ]+\*\s*>\s*np\.PyArray_DATA\(\s*([A-Za-z_][A-Za-z0-9_]*)\s*\)", a)
            if mm:
                amap.setdefault(mm.group(1), []).append(i)
            elif "PyArray_DATA" in a:
                raise BrokenTie(f"{rel}: {name}: cannot parse kernel argument `{a}`")
        plist = []
        for an, ct, nd in arrs:
            if an not in amap:
                raise BrokenTie(f"{rel}: {name}: array parameter {an} is not handed to {kern}")
            wr = any(kps[i][0] in writes[kern] for i in amap[an])
            if not all(kps[i][1] for i in amap[an]):
                raise BrokenTie(f"{rel}: {name}: {an} handed to a non-pointer parameter of {kern}")
            plist.append((an, ct, nd, wr))
        # `def` given twice (cell2rowcol): the last definition is the one Python sees
        out[name] = (kern, plist)
    return out


def callsites(repo):
    out = []
    for f in PY_FILES:
        rel = f"src/hydrodiy/{f}"
        tree = ast.parse(_read(repo, rel))
        mod = f[:-3].split("/")[-1]

        def visit(node, prefix):
            for ch in ast.iter_child_nodes(node):
                if isinstance(ch, (ast.FunctionDef, ast.ClassDef)):
                    visit(ch, prefix + [ch.name])
                else:
                    for sub in ast.walk(ch):
                        found = None
                        if isinstance(sub, ast.Attribute) and isinstance(sub.value, ast.Name) \
                                and sub.value.id.startswith("c_hydrodiy_"):
                            found = sub.attr
                        if found is not None:
                            out.append((".".join([mod] + prefix), f"{sub.value.id[len('c_hydrodiy_'):]}.{found}"))
                    # nested defs inside statements (rare) are reached through ast.walk above
        visit(tree, [])
    return sorted(set(out))


def facts(repo):
    funs, writes = kernel_writes(repo)
    entries = {}
    for pkg in KERNEL_FILES:
        for k, v in pyx_entries(repo, pkg, funs, writes).items():
            entries[f"{pkg}.{k}"] = v
    return funs, writes, entries, callsites(repo)


def render(repo):
    funs, writes, entries, sites = facts(repo)
    L = ["(* GENERATED by harness/extractors/c18.py from the working tree - do not edit. *)",
         "From Coq Require Import ZArith List String.",
         "Import ListNotations.",
         "Open Scope string_scope.",
         "",
         "(* element types of the Cython buffer contracts *)",
         "Inductive cty := TF64 | TI32 | TI64.",
         "",
         "(* C kernel -> pointer parameters with `the kernel stores through it` *)",
         "Definition KERNEL_WRITES : list (string * list (string * bool)) := ["]
    used = sorted({v[0] for v in entries.values()})
    rows = []
    for k in used:
        ps = [(p, p in writes[k]) for p, isptr in funs[k][0] if isptr]
        rows.append(f'  ("{k}", [' + "; ".join(f'("{p}", {"true" if w else "false"})' for p, w in ps) + "])")
    L.append(";\n".join(rows))
    L.append("].")
    L.append("")
    L.append("(* Cython entry -> (kernel, array parameters (name, element type, ndim, written by the kernel)) *)")
    L.append("Definition ENTRIES : list (string * (string * list (string * cty * Z * bool))) := [")
    rows = []
    for e in sorted(entries):
        kern, pl = entries[e]
        rows.append(f'  ("{e}", ("{kern}", [' +
                    "; ".join(f'("{a}", {ct}, {nd}%Z, {"true" if w else "false"})' for a, ct, nd, w in pl) + "]))")
    L.append(";\n".join(rows))
    L.append("].")
    L.append("")
    L.append("(* call sites in the anchored Python files: (enclosing function, entry) *)")
    L.append("Definition CALLSITES : list (string * string) := [")
    L.append(";\n".join(f'  ("{a}", "{b}")' for a, b in sites))
    L.append("].")
    return "\n".join(L) + "\n"
