"""Constants of the sampling / ranking / summary helpers (C20) -> coq/Gen/ConstsC20.v.

Extracted from the working tree (fail-closed, stdlib `ast` only):
  sutils.py     ppos: admissible range of the plotting constant (the two literals of
                `cst < 0. or cst > 0.5`) and its default; default constant of
                standard_normal;
  boxplot.py    compute_percentiles: the literals of `float(100-coverage)/2` and
                `100.-qq1`; boxplot_stats: the threshold of `nok > 3` and the median
                level 50 of the level list; Boxplot.__init__: the minimum box coverage
                (`box_coverage < 40.`) and the two default coverages;
  violinplot.py COVERAGE_CENTER, COVERAGE_EXTREMES, the threshold of
                `notnull.sum() <= 2`, the bounds of the default number of profile points
                `max(100, min(500, len(data)))`, the scale of the jitter added to the
                quantile abscissae (`err = 1e-6 * np.random.uniform(-1, 1, ...)`).
Every numeric constant is emitted three times: as an exact rational pair of integers
(`X_NUM`, `X_DEN`), as a real number (`X_R`) and as a binary64 literal (`X_F`).
"""
import ast
from fractions import Fraction

from harness.extract_consts import BrokenTie, _read, dec_to_R, f_hex

TARGET = "ConstsC20"

SUTILS = "src/hydrodiy/stat/sutils.py"
BOXPLOT = "src/hydrodiy/plot/boxplot.py"
VIOLIN = "src/hydrodiy/plot/violinplot.py"


def _func(tree, name, rel, cls=None):
    body = tree.body
    if cls is not None:
        for node in body:
            if isinstance(node, ast.ClassDef) and node.name == cls:
                body = node.body
                break
        else:
            raise BrokenTie(f"{rel}: class {cls} not found")
    for node in body:
        if isinstance(node, ast.FunctionDef) and node.name == name:
            return node
    raise BrokenTie(f"{rel}: def {name} not found")


def _num(node, rel, what):
    """numeric literal (possibly signed)"""
    try:
        v = ast.literal_eval(node)
    except Exception:
        raise BrokenTie(f"{rel}: {what} is not a literal")
    if isinstance(v, bool) or not isinstance(v, (int, float)):
        raise BrokenTie(f"{rel}: {what} is not a number")
    return v


def _default(fn, arg, rel):
    pos = fn.args.posonlyargs + fn.args.args
    defaults = [None] * (len(pos) - len(fn.args.defaults)) + list(fn.args.defaults)
    for a, d in zip(pos, defaults):
        if a.arg == arg:
            if d is None:
                raise BrokenTie(f"{rel}: {fn.name}({arg}) has no default")
            return _num(d, rel, f"default of {fn.name}({arg})")
    raise BrokenTie(f"{rel}: {fn.name} has no argument {arg}")


def _is_name(node, name):
    return isinstance(node, ast.Name) and node.id == name


def _cmp(node, name, op, rel, what):
    """`name <op> literal` -> literal"""
    if not (isinstance(node, ast.Compare) and len(node.ops) == 1 and isinstance(node.ops[0], op)
            and len(node.comparators) == 1):
        raise BrokenTie(f"{rel}: {what}: comparison not found")
    if name is not None and not _is_name(node.left, name):
        raise BrokenTie(f"{rel}: {what}: left operand is not {name}")
    return _num(node.comparators[0], rel, what)


def _ppos_range(fn):
    for node in fn.body:
        if isinstance(node, ast.If) and isinstance(node.test, ast.BoolOp) \
                and isinstance(node.test.op, ast.Or) and len(node.test.values) == 2 \
                and any(isinstance(s, ast.Raise) for s in node.body):
            lo = _cmp(node.test.values[0], "cst", ast.Lt, SUTILS, "ppos lower test")
            hi = _cmp(node.test.values[1], "cst", ast.Gt, SUTILS, "ppos upper test")
            return lo, hi
    raise BrokenTie(f"{SUTILS}: ppos: `if cst < a or cst > b: raise` not found")


def _compute_percentiles(fn):
    """qq1 = float(A-coverage)/B ; qq2 = C-qq1 ; return qq1, qq2"""
    assigns = {}
    for node in fn.body:
        if isinstance(node, ast.Assign) and len(node.targets) == 1 and isinstance(node.targets[0], ast.Name):
            assigns[node.targets[0].id] = node.value
    try:
        e1, e2 = assigns["qq1"], assigns["qq2"]
        assert isinstance(e1, ast.BinOp) and isinstance(e1.op, ast.Div)
        call = e1.left
        assert isinstance(call, ast.Call) and _is_name(call.func, "float") and len(call.args) == 1
        sub = call.args[0]
        assert isinstance(sub, ast.BinOp) and isinstance(sub.op, ast.Sub) and _is_name(sub.right, "coverage")
        a = _num(sub.left, BOXPLOT, "compute_percentiles minuend")
        b = _num(e1.right, BOXPLOT, "compute_percentiles divisor")
        assert isinstance(e2, ast.BinOp) and isinstance(e2.op, ast.Sub) and _is_name(e2.right, "qq1")
        c = _num(e2.left, BOXPLOT, "compute_percentiles complement")
        ret = [n for n in fn.body if isinstance(n, ast.Return)]
        assert len(ret) == 1 and isinstance(ret[0].value, ast.Tuple)
        assert [getattr(x, "id", None) for x in ret[0].value.elts] == ["qq1", "qq2"]
    except (KeyError, AssertionError):
        raise BrokenTie(f"{BOXPLOT}: compute_percentiles no longer has the form "
                        "qq1 = float(A-coverage)/B; qq2 = C-qq1; return qq1, qq2")
    return a, b, c


def _boxplot_stats(fn):
    """threshold of `if nok > K` and the literal level of `qq = [wqq1, bqq1, M, bqq2, wqq2]`"""
    thr = med = None
    for node in ast.walk(fn):
        if isinstance(node, ast.If) and isinstance(node.test, ast.Compare) and _is_name(node.test.left, "nok"):
            thr = _cmp(node.test, "nok", ast.Gt, BOXPLOT, "boxplot_stats count test")
        if isinstance(node, ast.Assign) and len(node.targets) == 1 and _is_name(node.targets[0], "qq") \
                and isinstance(node.value, ast.List):
            el = node.value.elts
            names = [getattr(x, "id", None) for x in el]
            if len(el) != 5 or names[:2] != ["wqq1", "bqq1"] or names[3:] != ["bqq2", "wqq2"]:
                raise BrokenTie(f"{BOXPLOT}: boxplot_stats level list is not [wqq1, bqq1, M, bqq2, wqq2]")
            med = _num(el[2], BOXPLOT, "boxplot_stats median level")
    if thr is None or med is None:
        raise BrokenTie(f"{BOXPLOT}: boxplot_stats: `nok > K` test or level list not found")
    if not isinstance(thr, int):
        raise BrokenTie(f"{BOXPLOT}: boxplot_stats: count threshold is not an integer")
    return thr, med


def _box_min(fn):
    for node in ast.walk(fn):
        if isinstance(node, ast.If) and isinstance(node.test, ast.Compare) \
                and _is_name(node.test.left, "box_coverage") and isinstance(node.test.ops[0], ast.Lt):
            v = _cmp(node.test, "box_coverage", ast.Lt, BOXPLOT, "minimum box coverage")
            # the whiskers test must be `whiskers_coverage <= box_coverage`
            break
    else:
        raise BrokenTie(f"{BOXPLOT}: Boxplot.__init__: `box_coverage < K` test not found")
    ok = False
    for node in ast.walk(fn):
        if isinstance(node, ast.If) and isinstance(node.test, ast.Compare) \
                and _is_name(node.test.left, "whiskers_coverage") and len(node.test.ops) == 1 \
                and isinstance(node.test.ops[0], ast.LtE) and _is_name(node.test.comparators[0], "box_coverage"):
            ok = True
    if not ok:
        raise BrokenTie(f"{BOXPLOT}: Boxplot.__init__: `whiskers_coverage <= box_coverage` test not found")
    return v


def _module_const(tree, name, rel):
    for node in tree.body:
        if isinstance(node, ast.Assign) and len(node.targets) == 1 and _is_name(node.targets[0], name):
            return _num(node.value, rel, name)
    raise BrokenTie(f"{rel}: module constant {name} not found")


def _violin(tree):
    comp = _func(tree, "_compute", VIOLIN, cls="Violin")
    thr = None
    for node in ast.walk(comp):
        if isinstance(node, ast.If) and isinstance(node.test, ast.Compare) \
                and isinstance(node.test.left, ast.Call) and isinstance(node.test.left.func, ast.Attribute) \
                and node.test.left.func.attr == "sum" and _is_name(node.test.left.func.value, "notnull"):
            thr = _cmp(node.test, None, ast.LtE, VIOLIN, "violin minimum sample test")
    if thr is None or not isinstance(thr, int):
        raise BrokenTie(f"{VIOLIN}: Violin._compute: `notnull.sum() <= K` not found")
    err = None
    for node in ast.walk(comp):
        if isinstance(node, ast.Assign) and len(node.targets) == 1 and _is_name(node.targets[0], "err") \
                and isinstance(node.value, ast.BinOp) and isinstance(node.value.op, ast.Mult) \
                and isinstance(node.value.right, ast.Call) \
                and getattr(node.value.right.func, "attr", None) == "uniform":
            args = node.value.right.args
            if len(args) < 2 or _num(args[0], VIOLIN, "jitter low") != -1 \
                    or _num(args[1], VIOLIN, "jitter high") != 1:
                raise BrokenTie(f"{VIOLIN}: Violin._compute: jitter is not uniform(-1, 1, ...)")
            err = _num(node.value.left, VIOLIN, "jitter scale")
    if err is None:
        raise BrokenTie(f"{VIOLIN}: Violin._compute: `err = S * np.random.uniform(-1, 1, ...)` not found")
    init = _func(tree, "__init__", VIOLIN, cls="Violin")
    lo = hi = None
    for node in ast.walk(init):
        if isinstance(node, ast.Call) and _is_name(node.func, "max") and len(node.args) == 2 \
                and isinstance(node.args[1], ast.Call) and _is_name(node.args[1].func, "min") \
                and len(node.args[1].args) == 2:
            lo = _num(node.args[0], VIOLIN, "npoints_kde lower bound")
            hi = _num(node.args[1].args[0], VIOLIN, "npoints_kde upper bound")
    if lo is None or not isinstance(lo, int) or not isinstance(hi, int):
        raise BrokenTie(f"{VIOLIN}: Violin.__init__: `max(A, min(B, len(data)))` not found")
    return thr, lo, hi, err


def _emit(w, name, v, comment):
    fr = Fraction(repr(v)) if isinstance(v, float) else Fraction(v)
    if fr.numerator.bit_length() > 53 or fr.denominator.bit_length() > 53:
        raise BrokenTie(f"constant {name}={v!r} is not an exact quotient of two binary64 integers")
    w(f"(* {comment} *)")
    w(f"Definition {name}_NUM : Z := ({fr.numerator})%Z.")
    w(f"Definition {name}_DEN : Z := ({fr.denominator})%Z.")
    w(f"Definition {name}_R : R := {dec_to_R(v)}.")
    w(f"Definition {name}_F : float := {f_hex(v)}.")


def render(repo):
    st = ast.parse(_read(repo, SUTILS))
    ppos = _func(st, "ppos", SUTILS)
    lo, hi = _ppos_range(ppos)
    ppos_default = _default(ppos, "cst", SUTILS)
    sn_default = _default(_func(st, "standard_normal", SUTILS), "cst", SUTILS)

    bt = ast.parse(_read(repo, BOXPLOT))
    a, b, c = _compute_percentiles(_func(bt, "compute_percentiles", BOXPLOT))
    thr, med = _boxplot_stats(_func(bt, "boxplot_stats", BOXPLOT))
    init = _func(bt, "__init__", BOXPLOT, cls="Boxplot")
    bmin = _box_min(init)
    bdef = _default(init, "box_coverage", BOXPLOT)
    wdef = _default(init, "whiskers_coverage", BOXPLOT)

    vt = ast.parse(_read(repo, VIOLIN))
    vcenter = _module_const(vt, "COVERAGE_CENTER", VIOLIN)
    vextr = _module_const(vt, "COVERAGE_EXTREMES", VIOLIN)
    vthr, vlo, vhi, verr = _violin(vt)

    out = []
    w = out.append
    w("(* GENERATED by harness/extractors/c20.py from the working tree. DO NOT EDIT. *)")
    w("From Coq Require Import ZArith Reals PrimFloat.")
    w("")
    _emit(w, "PPOS_CST_MIN", lo, "sutils.ppos: cst < MIN is rejected")
    _emit(w, "PPOS_CST_MAX", hi, "sutils.ppos: cst > MAX is rejected")
    _emit(w, "PPOS_CST_DEFAULT", ppos_default, "sutils.ppos: default plotting constant")
    _emit(w, "SNORM_CST_DEFAULT", sn_default, "sutils.standard_normal: default plotting constant")
    _emit(w, "PCT_TOTAL", a, "boxplot.compute_percentiles: qq1 = float(TOTAL-coverage)/HALVE")
    _emit(w, "PCT_HALVE", b, "boxplot.compute_percentiles: divisor")
    _emit(w, "PCT_COMPL", c, "boxplot.compute_percentiles: qq2 = COMPL-qq1")
    _emit(w, "PCT_MEDIAN", med, "boxplot.boxplot_stats: middle level of the level list")
    w("(* boxplot.boxplot_stats: statistics are computed when count > NOK_MIN *)")
    w(f"Definition BOX_NOK_MIN : Z := ({thr})%Z.")
    _emit(w, "BOX_COVERAGE_MIN", bmin, "boxplot.Boxplot: box_coverage < MIN is rejected")
    _emit(w, "BOX_COVERAGE_DEFAULT", bdef, "boxplot.Boxplot: default box coverage")
    _emit(w, "WHISKERS_COVERAGE_DEFAULT", wdef, "boxplot.Boxplot: default whiskers coverage")
    _emit(w, "VIOLIN_COVERAGE_CENTER", vcenter, "violinplot.COVERAGE_CENTER")
    _emit(w, "VIOLIN_COVERAGE_EXTREMES", vextr, "violinplot.COVERAGE_EXTREMES")
    w("(* violinplot.Violin._compute: no density profile when count <= KDE_NOK_MAX *)")
    w(f"Definition VIOLIN_KDE_NOK_MAX : Z := ({vthr})%Z.")
    _emit(w, "VIOLIN_ERR_SCALE", verr, "violinplot.Violin._compute: err = SCALE * uniform(-1, 1)")
    w("(* violinplot.Violin.__init__: npoints_kde = max(LO, min(HI, len(data))) *)")
    w(f"Definition VIOLIN_NPOINTS_LO : Z := ({vlo})%Z.")
    w(f"Definition VIOLIN_NPOINTS_HI : Z := ({vhi})%Z.")
    w("")
    return "\n".join(out) + "\n"


if __name__ == "__main__":
    import sys
    sys.stdout.write(render(sys.argv[1] if len(sys.argv) > 1 else "/repo"))
