"""C13 - constants of the grid header writer / parser, dictionary export and
constructor defaults (gis/grid.py), re-extracted from the working tree into
coq/Gen/ConstsC13.v (fail-closed).  Model/GridIO.v is written over these
definitions; Proofs/GridIOProofs.v re-checks what it needs of their values
(key classes, key order, pixel-type expression) on every run.

* Grid.save: the attributes printed first (getattr loop), the constant keys of
  the other `fh.write("{0:<w} {1}\\n".format(KEY, ...))` calls in order, the two
  field widths, the parent attribute list, the replacement of an empty comment;
* Grid.from_stream: the default configuration, the default name, the list of
  text keys, the pixel-type regular expression, the xdim/ydim tolerance, the
  list of keys passed to the constructor;
* Grid.from_dict / Grid.to_dict: optional keys, parent attributes;
* Grid.__init__: keyword defaults.
"""
import ast

from harness.extract_consts import BrokenTie, _read, dec_to_R, f_hex

TARGET = "ConstsC13"
GRID_PY = "src/hydrodiy/gis/grid.py"


def _cls(tree, name):
    for node in tree.body:
        if isinstance(node, ast.ClassDef) and node.name == name:
            return node
    raise BrokenTie(f"{GRID_PY}: class {name} not found")


def _fn(cls, name):
    for node in cls.body:
        if isinstance(node, ast.FunctionDef) and node.name == name:
            return node
    raise BrokenTie(f"{GRID_PY}: {cls.name}.{name} not found")


def _lit(node, what):
    try:
        return ast.literal_eval(node)
    except Exception:
        raise BrokenTie(f"{GRID_PY}: {what} is not a literal")


def _strlist(v, what):
    if not isinstance(v, list) or not all(isinstance(x, str) for x in v):
        raise BrokenTie(f"{GRID_PY}: {what} is not a list of strings")
    if not all(x.isascii() and x.isprintable() for x in v):
        raise BrokenTie(f"{GRID_PY}: {what} has a non-printable entry")
    return v


def _fmt_width(s, what):
    """'{0:<14} {1}\\n' -> 14"""
    import re
    m = re.fullmatch(r"\{0:<(\d+)\} \{1\}\n", s)
    if not m:
        raise BrokenTie(f"{GRID_PY}: format string {s!r} of {what} not recognised")
    return int(m.group(1))


def save_consts(save):
    """(attribute loop list, width, constant keys in order, parent list, parent width, empty-comment text)"""
    loops = [n for n in ast.walk(save) if isinstance(n, ast.For)]
    attr_loop = parent_loop = None
    for lp in loops:
        if isinstance(lp.target, ast.Name) and lp.target.id == "attname":
            attr_loop = lp
        elif isinstance(lp.target, ast.Name) and lp.target.id == "attr":
            parent_loop = lp
    if attr_loop is None or parent_loop is None:
        raise BrokenTie(f"{GRID_PY}: Grid.save: attribute loops not found")
    attrs = _strlist(_lit(attr_loop.iter, "Grid.save attribute list"), "Grid.save attribute list")
    pattrs = _strlist(_lit(parent_loop.iter, "Grid.save parent attribute list"), "Grid.save parent list")

    def writes(node):
        out = []
        for n in ast.walk(node):
            if isinstance(n, ast.Call) and isinstance(n.func, ast.Attribute) and n.func.attr == "write" \
                    and len(n.args) == 1 and isinstance(n.args[0], ast.Call) \
                    and isinstance(n.args[0].func, ast.Attribute) and n.args[0].func.attr == "format" \
                    and isinstance(n.args[0].func.value, ast.Constant):
                out.append((n.lineno, n.args[0].func.value.value, n.args[0].args))
        return sorted(out, key=lambda t: t[0])

    w_attr = {_fmt_width(f, "the attribute loop") for _, f, _ in writes(attr_loop)}
    w_par = {_fmt_width(f, "the parent loop") for _, f, _ in writes(parent_loop)}
    inner = {id(x) for lp in (attr_loop, parent_loop) for x in ast.walk(lp)}
    keys, w_keys = [], set()
    for n in ast.walk(save):
        pass
    allw = writes(save)
    loop_lines = {ln for lp in (attr_loop, parent_loop) for ln, _, _ in writes(lp)}
    for ln, f, args in allw:
        if ln in loop_lines:
            continue
        if not args or not isinstance(args[0], ast.Constant) or not isinstance(args[0].value, str):
            raise BrokenTie(f"{GRID_PY}: Grid.save line {ln}: key is not a string literal")
        keys.append(args[0].value)
        w_keys.add(_fmt_width(f, f"key {args[0].value}"))
    if len(w_attr | w_keys) != 1 or len(w_par) != 1:
        raise BrokenTie(f"{GRID_PY}: Grid.save: field widths {w_attr | w_keys} / {w_par}")
    empty = None
    for n in ast.walk(save):
        if isinstance(n, ast.If) and isinstance(n.test, ast.Compare) and isinstance(n.test.left, ast.Name) \
                and n.test.left.id == "comment" and len(n.test.comparators) == 1 \
                and isinstance(n.test.comparators[0], ast.Constant) and n.test.comparators[0].value == "":
            st = n.body[0]
            if isinstance(st, ast.Assign) and isinstance(st.value, ast.Constant):
                empty = st.value.value
    if not isinstance(empty, str):
        raise BrokenTie(f"{GRID_PY}: Grid.save: replacement of an empty comment not found")
    return attrs, (w_attr | w_keys).pop(), _strlist(keys, "Grid.save keys"), pattrs, w_par.pop(), empty


def stream_consts(fs):
    cfg = name_default = text_keys = regex = tol = keys = None
    for n in ast.walk(fs):
        if isinstance(n, ast.Assign) and len(n.targets) == 1:
            t = n.targets[0]
            if isinstance(t, ast.Name) and t.id == "config" and isinstance(n.value, ast.Dict):
                cfg = _lit(n.value, "from_stream default config")
            elif isinstance(t, ast.Name) and t.id == "keys" and isinstance(n.value, ast.List):
                keys = _strlist(_lit(n.value, "from_stream constructor keys"), "from_stream keys")
            elif isinstance(t, ast.Subscript) and isinstance(t.value, ast.Name) and t.value.id == "config" \
                    and isinstance(t.slice, ast.Constant) and t.slice.value == "name" \
                    and isinstance(n.value, ast.Constant):
                name_default = n.value.value
            elif isinstance(t, ast.Name) and t.id == "pixeltype" and isinstance(n.value, ast.Call) \
                    and isinstance(n.value.func, ast.Attribute) and n.value.func.attr == "sub":
                a = n.value.args
                if len(a) != 3 or not all(isinstance(x, ast.Constant) for x in a[:2]):
                    raise BrokenTie(f"{GRID_PY}: from_stream: pixel type re.sub call not recognised")
                regex = (a[0].value, a[1].value)
        if isinstance(n, ast.Compare) and isinstance(n.left, ast.Name) and n.left.id == "pname" \
                and len(n.ops) == 1 and isinstance(n.ops[0], ast.In) and isinstance(n.comparators[0], ast.List):
            text_keys = _strlist(_lit(n.comparators[0], "from_stream text keys"), "from_stream text keys")
        if isinstance(n, ast.Compare) and isinstance(n.left, ast.Call) and isinstance(n.left.func, ast.Name) \
                and n.left.func.id == "abs" and len(n.ops) == 1 and isinstance(n.ops[0], ast.Gt) \
                and isinstance(n.comparators[0], ast.Constant):
            tol = n.comparators[0].value
    want = {"xllcorner", "yllcorner", "cellsize", "nodata", "nbits", "pixeltype", "byteorder", "comment"}
    if not isinstance(cfg, dict) or set(cfg) != want:
        raise BrokenTie(f"{GRID_PY}: from_stream: default config keys {sorted(cfg or [])}")
    if not isinstance(name_default, str) or text_keys is None or regex is None \
            or not isinstance(tol, float) or keys is None:
        raise BrokenTie(f"{GRID_PY}: from_stream: a constant was not found "
                        f"(name={name_default!r}, text={text_keys!r}, regex={regex!r}, tol={tol!r}, keys={keys!r})")
    if regex[1] != "":
        raise BrokenTie(f"{GRID_PY}: from_stream: pixel type replacement is {regex[1]!r}")
    for k in ("xllcorner", "yllcorner", "cellsize"):
        if not isinstance(cfg[k], float):
            raise BrokenTie(f"{GRID_PY}: from_stream: default {k} is not a float literal")
    for k in ("nodata", "nbits"):
        if not isinstance(cfg[k], int) or isinstance(cfg[k], bool):
            raise BrokenTie(f"{GRID_PY}: from_stream: default {k} is not an integer literal")
    for k in ("pixeltype", "byteorder", "comment"):
        if not isinstance(cfg[k], str):
            raise BrokenTie(f"{GRID_PY}: from_stream: default {k} is not a string")
    return cfg, name_default, text_keys, regex[0], tol, keys


def dict_consts(cls):
    fd, td = _fn(cls, "from_dict"), _fn(cls, "to_dict")
    opt = par = None
    for n in ast.walk(fd):
        if isinstance(n, ast.For) and isinstance(n.target, ast.Name) and n.target.id == "opt":
            opt = _strlist(_lit(n.iter, "from_dict optional keys"), "from_dict optional keys")
    for n in ast.walk(td):
        if isinstance(n, ast.For) and isinstance(n.target, ast.Name) and n.target.id == "attr":
            par = _strlist(_lit(n.iter, "to_dict parent attributes"), "to_dict parent attributes")
    keys = None
    for n in ast.walk(td):
        if isinstance(n, ast.Assign) and isinstance(n.value, ast.Dict) \
                and all(isinstance(k, ast.Constant) for k in n.value.keys):
            keys = _strlist([k.value for k in n.value.keys], "to_dict keys")
    if opt is None or par is None or keys is None:
        raise BrokenTie(f"{GRID_PY}: to_dict/from_dict: lists not found")
    return opt, par, keys


def init_defaults(cls):
    init = _fn(cls, "__init__")
    names = [a.arg for a in init.args.args]
    want = ["self", "name", "ncols", "nrows", "cellsize", "xllcorner", "yllcorner", "dtype", "nodata", "comment"]
    if names != want:
        raise BrokenTie(f"{GRID_PY}: Grid.__init__ parameters are {names}")
    d = dict(zip(names[len(names) - len(init.args.defaults):], init.args.defaults))
    out = {}
    for k in ("cellsize", "xllcorner", "yllcorner", "nodata"):
        v = _lit(d[k], f"default of {k}")
        if isinstance(v, bool) or not isinstance(v, (int, float)):
            raise BrokenTie(f"{GRID_PY}: default of Grid.__init__({k}) is not a number")
        out[k] = v
    if _lit(d["nrows"], "default of nrows") is not None:
        raise BrokenTie(f"{GRID_PY}: default of Grid.__init__(nrows) is not None")
    out["comment"] = _lit(d["comment"], "default of comment")
    dt = d["dtype"]
    if not (isinstance(dt, ast.Attribute) and isinstance(dt.value, ast.Name) and dt.value.id == "np"):
        raise BrokenTie(f"{GRID_PY}: default dtype of Grid.__init__ not recognised")
    out["dtype"] = dt.attr
    return out


def coq_str(s):
    return '"' + s.replace('"', '""') + '"%string'


def coq_strlist(l):
    return "[" + "; ".join(coq_str(x) for x in l) + "]"


def render(repo):
    tree = ast.parse(_read(repo, GRID_PY))
    grid = _cls(tree, "Grid")
    attrs, w, keys, pattrs, pw, empty = save_consts(_fn(grid, "save"))
    cfg, name_default, text_keys, regex, tol, ckeys = stream_consts(_fn(grid, "from_stream"))
    opt, dpar, dkeys = dict_consts(grid)
    ini = init_defaults(grid)
    dtypes = {"int8": ("KInt", 1), "int16": ("KInt", 2), "int32": ("KInt", 4), "int64": ("KInt", 8),
              "uint8": ("KUInt", 1), "uint16": ("KUInt", 2), "uint32": ("KUInt", 4), "uint64": ("KUInt", 8),
              "float16": ("KFloat", 2), "float32": ("KFloat", 4), "float64": ("KFloat", 8)}
    if ini["dtype"] not in dtypes:
        raise BrokenTie(f"{GRID_PY}: default dtype np.{ini['dtype']} of Grid.__init__ is not one of the eleven types")

    def num(name, v):
        # a numeric default; the model writes it as `nofZ <integer>`: it has to be integer-valued
        from fractions import Fraction
        import math
        if isinstance(v, bool) or not (isinstance(v, int) or (math.isfinite(v) and Fraction(v).denominator == 1)):
            raise BrokenTie(f"{GRID_PY}: default {name} = {v!r} is not integer-valued (the model needs an update)")
        return [f"Definition {name}_IS_INT : bool := {'true' if isinstance(v, int) else 'false'}.",
                f"Definition {name}_Z : Z := ({int(v)})%Z."]

    out = ["(* GENERATED by harness/extractors/c13.py from the working tree. DO NOT EDIT. *)",
           "From Coq Require Import ZArith Reals PrimFloat String List.",
           "Import ListNotations.",
           "",
           "(* Grid.save *)",
           f"Definition SAVE_ATTRS : list string := {coq_strlist(attrs)}.",
           f"Definition SAVE_KEYS : list string := {coq_strlist(keys)}.",
           f"Definition SAVE_WIDTH : Z := {w}%Z.",
           f"Definition SAVE_PARENT_ATTRS : list string := {coq_strlist(pattrs)}.",
           f"Definition SAVE_PARENT_WIDTH : Z := {pw}%Z.",
           f"Definition SAVE_EMPTY_COMMENT : string := {coq_str(empty)}.",
           "",
           "(* Grid.from_stream *)",
           f"Definition STREAM_TEXT_KEYS : list string := {coq_strlist(text_keys)}.",
           f"Definition STREAM_PIXELTYPE_REGEX : string := {coq_str(regex)}.",
           f"Definition STREAM_CTOR_KEYS : list string := {coq_strlist(ckeys)}.",
           f"Definition STREAM_DEF_NAME : string := {coq_str(name_default)}.",
           f"Definition STREAM_DEF_PIXELTYPE : string := {coq_str(cfg['pixeltype'])}.",
           f"Definition STREAM_DEF_BYTEORDER : string := {coq_str(cfg['byteorder'])}.",
           f"Definition STREAM_DEF_COMMENT : string := {coq_str(cfg['comment'])}.",
           f"Definition STREAM_DEF_NBITS : Z := ({cfg['nbits']})%Z.",
           f"Definition STREAM_DEF_NODATA : Z := ({cfg['nodata']})%Z.",
           *num("STREAM_DEF_XLL", cfg["xllcorner"]),
           *num("STREAM_DEF_YLL", cfg["yllcorner"]),
           *num("STREAM_DEF_CSZ", cfg["cellsize"]),
           f"Definition STREAM_YDIM_TOL_F : float := {f_hex(tol)}.",
           f"Definition STREAM_YDIM_TOL_R : R := {dec_to_R(tol)}.",
           "",
           "(* Grid.to_dict / Grid.from_dict *)",
           f"Definition DICT_KEYS : list string := {coq_strlist(dkeys)}.",
           f"Definition DICT_PARENT_ATTRS : list string := {coq_strlist(dpar)}.",
           f"Definition DICT_OPTIONAL : list string := {coq_strlist(opt)}.",
           "",
           "(* Grid.__init__ keyword defaults *)"]
    for k, nm in (("cellsize", "CTOR_CSZ"), ("xllcorner", "CTOR_XLL"), ("yllcorner", "CTOR_YLL"),
                  ("nodata", "CTOR_NODATA")):
        out += num(nm, ini[k])
    out += [f"Definition CTOR_COMMENT : string := {coq_str(ini['comment'])}.",
            f"Definition CTOR_DTYPE_NAME : string := {coq_str(ini['dtype'])}.",
            f"Definition CTOR_DTYPE_BYTES : Z := {dtypes[ini['dtype']][1]}%Z.",
            f"Definition CTOR_DTYPE_KIND : Z := {['KInt', 'KUInt', 'KFloat'].index(dtypes[ini['dtype']][0])}%Z.",
            ""]
    return "\n".join(out) + "\n"


if __name__ == "__main__":
    import sys
    sys.stdout.write(render(sys.argv[1] if len(sys.argv) > 1 else "/repo"))
