"""C01/C02 - constants of stat/transform.py the Coq model Model/Transform.v and
its theorems depend on -> coq/Gen/ConstsC01.v   (fail-closed, stdlib `ast`)

* `EPS` of transform.py: the exact value of the binary64 literal (a rational),
  because the code compares doubles with it;
* for every class of `__all__`: the constructor's keyword arguments with their
  defaults (`mininu=EPS`, `minilam=0.`, `base=None`) and the `Vector(...)` calls
  that build its parameter / constant vectors: names, defaults, mins, maxs.
  Entries that mention a constructor argument (`[mininu, minilam]`) are rendered
  as Coq functions of the numeric constructor arguments, so that the theorems
  quantify over the constructor options as well;
* rtol/atol defaults of the *installed* `numpy.isclose` (Yeo-Johnson's branch
  tests `np.isclose(lam, 0.0)`, `np.isclose(lam, 2.0)`).

The same tables (`tables(repo)`) drive the parameter generators of
harness/props/transform_common.py, so generated parameters stay inside the
extracted bounds.  Anything the small evaluator does not understand raises
BrokenTie."""
import ast
import inspect
import math
from fractions import Fraction

from harness.extract_consts import BrokenTie, _read

TARGET = "ConstsC01"
TRANS = "src/hydrodiy/stat/transform.py"

EXPECTED_CLASSES = ["Identity", "Logit", "Log", "BoxCox2", "BoxCox1lam", "BoxCox1nu",
                    "BoxCox2sym", "YeoJohnson", "Reciprocal", "Softmax", "Sinh",
                    "LogSinh", "Manly"]


# ----------------------------------------------------------------------------
# symbolic numbers: ('num', Fraction) | ('inf', +1/-1) | ('nan',) | ('arg', name)
# | ('eps',) | ('none',) ; unary minus is pushed inside

def _frac_of(v):
    """exact value of a Python numeric literal *as the interpreter sees it*"""
    if isinstance(v, bool):
        raise BrokenTie("boolean where a number was expected")
    if isinstance(v, int):
        return Fraction(v)
    if isinstance(v, float):
        if math.isnan(v) or math.isinf(v):
            raise BrokenTie("non-finite literal")
        return Fraction(v)          # exact binary value
    raise BrokenTie(f"not a number: {v!r}")


def _neg(s):
    if s[0] == "num":
        return ("num", -s[1])
    if s[0] == "inf":
        return ("inf", -s[1])
    if s[0] == "nan":
        return s
    if s[0] == "eps":
        return ("negeps",)
    raise BrokenTie(f"cannot negate {s}")


def _ev(node, args, where):
    if isinstance(node, ast.Constant):
        if node.value is None:
            return ("none",)
        if isinstance(node.value, (int, float)) and not isinstance(node.value, bool):
            v = node.value
            if isinstance(v, float) and math.isnan(v):
                return ("nan",)
            if isinstance(v, float) and math.isinf(v):
                return ("inf", 1 if v > 0 else -1)
            return ("num", _frac_of(v))
    if isinstance(node, ast.Name):
        if node.id == "EPS":
            return ("eps",)
        if node.id in args:
            return ("arg", node.id)
    if isinstance(node, ast.Attribute) and isinstance(node.value, ast.Name) \
            and node.value.id in ("np", "numpy", "math"):
        if node.attr == "inf":
            return ("inf", 1)
        if node.attr == "nan":
            return ("nan",)
    if isinstance(node, ast.UnaryOp) and isinstance(node.op, ast.USub):
        return _neg(_ev(node.operand, args, where))
    if isinstance(node, ast.UnaryOp) and isinstance(node.op, ast.UAdd):
        return _ev(node.operand, args, where)
    raise BrokenTie(f"{where}: expression not understood: {ast.dump(node)[:100]}")


def _classdef(tree, name):
    for node in tree.body:
        if isinstance(node, ast.ClassDef) and node.name == name:
            return node
    raise BrokenTie(f"{TRANS}: class {name} not found")


def _method(cls, name):
    for node in cls.body:
        if isinstance(node, ast.FunctionDef) and node.name == name:
            return node
    raise BrokenTie(f"{TRANS}: {cls.name}.{name} not found")


def _vector_call(call, args, where):
    if not (isinstance(call, ast.Call) and isinstance(call.func, ast.Name)
            and call.func.id == "Vector"):
        raise BrokenTie(f"{where}: not a Vector(...) call")
    slots = ["names", "defaults", "mins", "maxs", "check_bounds", "check_hitbounds",
             "accept_nan"]
    raw = {}
    if len(call.args) > len(slots):
        raise BrokenTie(f"{where}: too many positional arguments")
    for k, a in zip(slots, call.args):
        raw[k] = a
    for kw in call.keywords:
        if kw.arg not in slots or kw.arg in raw:
            raise BrokenTie(f"{where}: keyword {kw.arg}")
        raw[kw.arg] = kw.value
    if "names" not in raw:
        raise BrokenTie(f"{where}: no names")
    try:
        names = ast.literal_eval(raw["names"])
    except Exception:
        raise BrokenTie(f"{where}: names is not a literal")
    if not isinstance(names, list) or not all(isinstance(n, str) for n in names):
        raise BrokenTie(f"{where}: names is not a list of strings")
    out = {"names": names}
    n = len(names)
    for k, dflt in (("defaults", None), ("mins", ("inf", -1)), ("maxs", ("inf", 1))):
        if k in raw and not (isinstance(raw[k], ast.Constant) and raw[k].value is None):
            if not isinstance(raw[k], (ast.List, ast.Tuple)):
                raise BrokenTie(f"{where}: {k} is not a list")
            vals = [_ev(e, args, f"{where}.{k}") for e in raw[k].elts]
            if len(vals) != n:
                raise BrokenTie(f"{where}: {k} has {len(vals)} entries for {n} names")
        elif dflt is None:
            # Vector: defaults = clip(0, mins, maxs); not used by the pinned code
            raise BrokenTie(f"{where}: no explicit defaults")
        else:
            vals = [dflt] * n
        out[k] = vals
    for v in out["mins"] + out["maxs"]:
        if v[0] in ("nan", "none"):
            raise BrokenTie(f"{where}: NaN/None bound")
    for v in out["defaults"]:
        if v[0] in ("inf", "none"):
            raise BrokenTie(f"{where}: infinite default")
    return out


def tables(repo):
    """{"eps": Fraction, "classes": {cls: {"ctor": [(arg, sym default)],
        "params": vec|None, "constants": vec|None}}} ; vec = {names, defaults, mins, maxs}
    with symbolic entries (see top of file)."""
    src = _read(repo, TRANS)
    tree = ast.parse(src)
    eps = None
    allnames = None
    for node in tree.body:
        if isinstance(node, ast.Assign) and len(node.targets) == 1 \
                and isinstance(node.targets[0], ast.Name):
            if node.targets[0].id == "EPS":
                if not (isinstance(node.value, ast.Constant)
                        and isinstance(node.value.value, float)):
                    raise BrokenTie(f"{TRANS}: EPS is not a float literal")
                eps = _frac_of(node.value.value)
            if node.targets[0].id == "__all__":
                try:
                    allnames = list(ast.literal_eval(node.value))
                except Exception:
                    raise BrokenTie(f"{TRANS}: __all__ is not a literal")
    if eps is None:
        raise BrokenTie(f"{TRANS}: module-level EPS not found")
    if allnames is None or sorted(allnames) != sorted(EXPECTED_CLASSES):
        raise BrokenTie(f"{TRANS}: __all__ = {allnames}; the model covers {EXPECTED_CLASSES}")
    classes = {}
    for cname in EXPECTED_CLASSES:
        cls = _classdef(tree, cname)
        init = _method(cls, "__init__")
        a = init.args
        if a.posonlyargs or a.kwonlyargs or a.vararg or a.kwarg:
            raise BrokenTie(f"{TRANS}: {cname}.__init__ signature not understood")
        argnames = [x.arg for x in a.args]
        if argnames[:1] != ["self"] or len(a.defaults) != len(argnames) - 1:
            raise BrokenTie(f"{TRANS}: {cname}.__init__ has arguments without defaults")
        ctor = []
        for nm, d in zip(argnames[1:], a.defaults):
            ctor.append((nm, _ev(d, (), f"{TRANS}: {cname}.__init__ default {nm}")))
        numeric_args = [nm for nm, d in ctor if d[0] != "none"]
        found = {}
        for node in ast.walk(init):
            if isinstance(node, ast.Assign) and len(node.targets) == 1 \
                    and isinstance(node.targets[0], ast.Name) \
                    and node.targets[0].id in ("params", "constants"):
                role = node.targets[0].id
                if role in found:
                    raise BrokenTie(f"{TRANS}: {cname}.__init__ assigns {role} twice")
                found[role] = _vector_call(node.value, numeric_args,
                                           f"{TRANS}: {cname}.{role}")
        classes[cname] = {"ctor": ctor, "params": found.get("params"),
                          "constants": found.get("constants")}
    return {"eps": eps, "classes": classes}


def isclose_defaults():
    try:
        import numpy as np
        sig = inspect.signature(np.isclose)
        rtol = sig.parameters["rtol"].default
        atol = sig.parameters["atol"].default
        if not (isinstance(rtol, float) and isinstance(atol, float)):
            raise TypeError("rtol/atol defaults are not floats")
    except BrokenTie:
        raise
    except Exception as e:
        raise BrokenTie(f"numpy.isclose defaults: {e}")
    return Fraction(rtol), Fraction(atol)


# ----------------------------------------------------------------------------
# rendering

def _q(fr):
    if fr.denominator == 1:
        return f"({fr.numerator})" if fr.numerator < 0 else f"{fr.numerator}"
    return f"({fr.numerator} / {fr.denominator})"


def _sym_R(s):
    """finite symbolic value -> Coq term of type R"""
    if s[0] == "num":
        return _q(s[1])
    if s[0] == "eps":
        return "TR_EPS"
    if s[0] == "negeps":
        return "(- TR_EPS)"
    if s[0] == "arg":
        return s[1]
    raise BrokenTie(f"not a finite value: {s}")


def _sym_Rbar(s):
    if s[0] == "inf":
        return "p_infty" if s[1] > 0 else "m_infty"
    return f"(Finite {_sym_R(s)})"


def _sym_optR(s):
    if s[0] == "nan":
        return "None"
    return f"(Some {_sym_R(s)})"


def sym_value(s, eps, argvals):
    """float value of a symbolic entry given the constructor arguments (harness use)"""
    if s[0] == "num":
        return float(s[1])
    if s[0] == "eps":
        return float(eps)
    if s[0] == "negeps":
        return -float(eps)
    if s[0] == "inf":
        return math.inf * s[1]
    if s[0] == "nan":
        return math.nan
    if s[0] == "none":
        return None
    if s[0] == "arg":
        return argvals[s[1]]
    raise BrokenTie(f"symbol {s}")


def render(repo):
    t = tables(repo)
    rtol, atol = isclose_defaults()
    w = []
    w.append("(* GENERATED by harness/extractors/c01.py from the working tree. DO NOT EDIT. *)")
    w.append("From Coq Require Import Reals List String.")
    w.append("From Coquelicot Require Import Rbar.")
    w.append("Import ListNotations.")
    w.append("Open Scope R_scope.")
    w.append("")
    w.append("(* EPS of stat/transform.py: exact value of the binary64 literal *)")
    w.append(f"Definition TR_EPS : R := {_q(t['eps'])}.")
    w.append("(* defaults of the installed numpy.isclose(a, b, rtol, atol) *)")
    w.append(f"Definition TR_ISCLOSE_RTOL : R := {_q(rtol)}.")
    w.append(f"Definition TR_ISCLOSE_ATOL : R := {_q(atol)}.")
    w.append("")
    w.append("Definition TR_CLASSES : list string := ["
             + "; ".join(f'"{c}"%string' for c in EXPECTED_CLASSES) + "].")
    w.append("")
    for cname in EXPECTED_CLASSES:
        c = t["classes"][cname]
        w.append(f"(* ---- {cname} *)")
        numargs = [nm for nm, d in c["ctor"] if d[0] != "none"]
        w.append(f"Definition TR_{cname}_ctor_args : list string := ["
                 + "; ".join(f'"{nm}"%string' for nm, _ in c["ctor"]) + "].")
        for nm, d in c["ctor"]:
            if d[0] == "none":
                w.append(f"Definition TR_{cname}_ctor_{nm}_default : option R := None.")
            else:
                w.append(f"Definition TR_{cname}_ctor_{nm}_default : R := {_sym_R(d)}.")
        binder = (" (" + " ".join(numargs) + " : R)") if numargs else ""
        for role in ("params", "constants"):
            vec = c[role]
            names = vec["names"] if vec else []
            w.append(f"Definition TR_{cname}_{role} : list string := ["
                     + "; ".join(f'"{n}"%string' for n in names) + "].")
            if not vec:
                continue
            for i, n in enumerate(names):
                w.append(f"Definition TR_{cname}_{n}_default{binder} : option R := "
                         f"{_sym_optR(vec['defaults'][i])}.")
                w.append(f"Definition TR_{cname}_{n}_min{binder} : Rbar := "
                         f"{_sym_Rbar(vec['mins'][i])}.")
                w.append(f"Definition TR_{cname}_{n}_max{binder} : Rbar := "
                         f"{_sym_Rbar(vec['maxs'][i])}.")
        w.append("")
    return "\n".join(w) + "\n"


if __name__ == "__main__":
    import sys
    sys.stdout.write(render(sys.argv[1] if len(sys.argv) > 1 else "/repo"))
