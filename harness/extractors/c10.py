"""Constants, thresholds, closed forms and tables of the rank / PIT / uniformity
diagnostics (C10) -> coq/Gen/ConstsC10.v.

Extracted from the working tree (fail-closed, values only):
  * c_dscore.c : tolerance of the qsort comparator, smallest accepted `eps`,
    the numerator of the size-scaled tolerance, the two centres and the three
    values of the mapping F -> u;
  * metrics.py : the cap of `cst`, the constants of the PIT count formula, the
    divisor applied to scipy's percentileofscore, the constants of the
    Cramer-von Mises statistic and of D = (r+1)/2, the default tie tolerance
    of dscore (EPS is already in Gen/Consts.v);
  * AnDarl.c   : the start value of `prev`, the bounds of the range test, and
    the closed forms of adinf(z) and AD(n,z) - the C expressions are translated
    token by token into real-number Coq terms (numbers become exact decimals);
  * data/cramer_von_mises_test_pvalues.zip : sample sizes, abscissae and the
    whole table of p-values (binary64 literals).
"""
import ast
import io
import re
import zipfile
from fractions import Fraction
from pathlib import Path

from harness.extract_consts import BrokenTie, _read, c_define, dec_to_R, f_hex

TARGET = "ConstsC10"

DSCORE_C = "src/hydrodiy/stat/c_dscore.c"
DSCORE_H = "src/hydrodiy/stat/c_dscore.h"
ANDARL_C = "src/hydrodiy/stat/AnDarl.c"
METRICS = "src/hydrodiy/stat/metrics.py"
CVMZIP = "src/hydrodiy/stat/data/cramer_von_mises_test_pvalues.zip"

NUM = r"(?:\d+\.?\d*(?:[eE][-+]?\d+)?|\.\d+(?:[eE][-+]?\d+)?)"


# ---------------------------------------------------------------------------
# C helpers

def _strip_c(txt):
    txt = txt.replace("\r", "")
    txt = re.sub(r"/\*.*?\*/", " ", txt, flags=re.S)
    txt = re.sub(r"//[^\n]*", " ", txt)
    txt = txt.replace("\\\n", " ")
    return txt


def _c_function(txt, name, rel):
    """body (between the outer braces) of the C function `name`."""
    m = re.search(rf"\b{name}\s*\([^)]*\)\s*\{{", txt)
    if not m:
        raise BrokenTie(f"{rel}: function {name} not found")
    i = m.end()
    depth = 1
    while i < len(txt) and depth:
        if txt[i] == "{":
            depth += 1
        elif txt[i] == "}":
            depth -= 1
        i += 1
    if depth:
        raise BrokenTie(f"{rel}: unbalanced braces in {name}")
    return txt[m.end():i - 1]


def _num(tok, rel):
    try:
        return float(tok)
    except ValueError:
        raise BrokenTie(f"{rel}: {tok!r} is not a number")


_TOK = re.compile(rf"\s*(?:(?P<num>{NUM})|(?P<id>[A-Za-z_]\w*)|(?P<op>[-+*/()]))")


def c_expr_to_R(expr, allowed, rel):
    """Translate a C arithmetic expression over doubles into a Coq term over R.
    Only numbers, the identifiers in `allowed`, exp/sqrt/log, + - * / and
    parentheses are accepted.  Every division in the translated expressions
    has a double operand in the C text (checked by the caller's choice of
    expressions), so that no integer division is hidden."""
    out = []
    pos = 0
    # a conversion `(double)` is the identity in the real-number reading of the expression
    expr = re.sub(r"\(\s*double\s*\)", "", expr.strip())
    while pos < len(expr):
        m = _TOK.match(expr, pos)
        if not m:
            raise BrokenTie(f"{rel}: cannot translate expression near {expr[pos:pos + 20]!r}")
        pos = m.end()
        if m.group("num"):
            fr = Fraction(m.group("num"))
            out.append(f"({fr.numerator})" if fr.denominator == 1
                       else f"({fr.numerator} / {fr.denominator})")
        elif m.group("id"):
            name = m.group("id")
            if name == "exp":
                out.append("Rtrigo_def.exp")
            elif name == "sqrt":
                out.append("R_sqrt.sqrt")
            elif name == "log":
                out.append("Rpower.ln")
            elif name in allowed:
                out.append(name)
            else:
                raise BrokenTie(f"{rel}: unexpected identifier {name!r} in {expr!r}")
        else:
            out.append(m.group("op"))
    if out.count("(") != out.count(")"):
        raise BrokenTie(f"{rel}: unbalanced parentheses in {expr!r}")
    return " ".join(out)


# ---------------------------------------------------------------------------
# Python (ast) helpers

def _find_func(tree, name, rel):
    for node in tree.body:
        if isinstance(node, ast.FunctionDef) and node.name == name:
            return node
    raise BrokenTie(f"{rel}: def {name} not found")


def _const(node, rel, what):
    if isinstance(node, ast.Constant) and isinstance(node.value, (int, float)) \
            and not isinstance(node.value, bool):
        return node.value
    raise BrokenTie(f"{rel}: {what}: expected a numeric literal")


def _has_name(node, name):
    return any(isinstance(n, ast.Name) and n.id == name for n in ast.walk(node))


def _default_of(fn, argname, rel):
    pos = fn.args.posonlyargs + fn.args.args
    defaults = [None] * (len(pos) - len(fn.args.defaults)) + list(fn.args.defaults)
    for a, d in zip(pos, defaults):
        if a.arg == argname and d is not None:
            return _const(d, rel, f"default of {fn.name}({argname})")
    raise BrokenTie(f"{rel}: {fn.name} has no default for {argname}")


def _metrics(repo):
    tree = ast.parse(_read(repo, METRICS))
    res = {}
    # ---- pit
    pit = _find_func(tree, "pit", METRICS)
    caps = [n for n in ast.walk(pit) if isinstance(n, ast.Call) and isinstance(n.func, ast.Name)
            and n.func.id == "min" and len(n.args) == 2
            and any(isinstance(a, ast.Name) and a.id == "cst" for a in n.args)]
    if len(caps) != 1:
        raise BrokenTie(f"{METRICS}: pit: expected one `min(<number>, cst)`")
    other = [a for a in caps[0].args if not (isinstance(a, ast.Name) and a.id == "cst")]
    res["PIT_CST_MAX"] = _const(other[0], METRICS, "pit: cap of cst")
    # (count + a - cst) / (b - cst + nens)
    divs = [n for n in ast.walk(pit) if isinstance(n, ast.BinOp) and isinstance(n.op, ast.Div)
            and _has_name(n.left, "cst") and _has_name(n.right, "cst")]
    if len(divs) != 1:
        raise BrokenTie(f"{METRICS}: pit: expected one plotting-position quotient in cst")
    num, den = divs[0].left, divs[0].right
    ok = (isinstance(num, ast.BinOp) and isinstance(num.op, ast.Sub)
          and isinstance(num.right, ast.Name) and num.right.id == "cst"
          and isinstance(num.left, ast.BinOp) and isinstance(num.left.op, ast.Add)
          and isinstance(den, ast.BinOp) and isinstance(den.op, ast.Add)
          and isinstance(den.right, ast.Name) and den.right.id == "nens"
          and isinstance(den.left, ast.BinOp) and isinstance(den.left.op, ast.Sub)
          and isinstance(den.left.right, ast.Name) and den.left.right.id == "cst")
    if not ok:
        raise BrokenTie(f"{METRICS}: pit: plotting position is not (count+a-cst)/(b-cst+nens)")
    res["PIT_NUM_ADD"] = _const(num.left.right, METRICS, "pit: numerator constant")
    res["PIT_DEN_ONE"] = _const(den.left.left, METRICS, "pit: denominator constant")
    pct = [n for n in ast.walk(pit) if isinstance(n, ast.BinOp) and isinstance(n.op, ast.Div)
           and isinstance(n.left, ast.Call) and isinstance(n.left.func, ast.Name)
           and n.left.func.id == "percentileofscore"]
    if len(pct) != 1:
        raise BrokenTie(f"{METRICS}: pit: expected percentileofscore(...)/<number>")
    res["PIT_PCT_DIV"] = _const(pct[0].right, METRICS, "pit: percent divisor")
    # ---- cramer_von_mises_test
    cvm = _find_func(tree, "cramer_von_mises_test", METRICS)
    unif = stat = None
    for n in ast.walk(cvm):
        if isinstance(n, ast.Assign) and len(n.targets) == 1 and isinstance(n.targets[0], ast.Name):
            if n.targets[0].id == "unif":
                unif = n.value
            elif n.targets[0].id == "cvstat":
                stat = n.value
    if unif is None or stat is None:
        raise BrokenTie(f"{METRICS}: cramer_von_mises_test: unif / cvstat assignments not found")
    # unif = (2*arange(1, n+1)-1).astype(float)/2/nsample
    ok = (isinstance(unif, ast.BinOp) and isinstance(unif.op, ast.Div)
          and isinstance(unif.right, ast.Name) and unif.right.id == "nsample"
          and isinstance(unif.left, ast.BinOp) and isinstance(unif.left.op, ast.Div))
    if not ok:
        raise BrokenTie(f"{METRICS}: cramer_von_mises_test: unif is not (...)/a/nsample")
    res["CVM_UNIF_DIV"] = _const(unif.left.right, METRICS, "cvm: divisor of unif")
    inner = [n for n in ast.walk(unif.left.left) if isinstance(n, ast.BinOp) and isinstance(n.op, ast.Sub)
             and isinstance(n.left, ast.BinOp) and isinstance(n.left.op, ast.Mult)]
    if len(inner) != 1:
        raise BrokenTie(f"{METRICS}: cramer_von_mises_test: unif is not (a*arange-b)")
    res["CVM_UNIF_MUL"] = _const(inner[0].left.left, METRICS, "cvm: multiplier of arange")
    res["CVM_UNIF_SUB"] = _const(inner[0].right, METRICS, "cvm: offset of arange")
    # cvstat = 1./12/nsample + np.sum((unif-np.sort(data))**2)
    ok = (isinstance(stat, ast.BinOp) and isinstance(stat.op, ast.Add)
          and isinstance(stat.left, ast.BinOp) and isinstance(stat.left.op, ast.Div)
          and isinstance(stat.left.right, ast.Name) and stat.left.right.id == "nsample"
          and isinstance(stat.left.left, ast.BinOp) and isinstance(stat.left.left.op, ast.Div))
    if not ok:
        raise BrokenTie(f"{METRICS}: cramer_von_mises_test: cvstat is not a/b/nsample + sum")
    res["CVM_NUM"] = _const(stat.left.left.left, METRICS, "cvm: numerator")
    res["CVM_DEN"] = _const(stat.left.left.right, METRICS, "cvm: denominator")
    pw = [n for n in ast.walk(stat.right) if isinstance(n, ast.BinOp) and isinstance(n.op, ast.Pow)]
    if len(pw) != 1 or _const(pw[0].right, METRICS, "cvm: exponent") != 2:
        raise BrokenTie(f"{METRICS}: cramer_von_mises_test: the summand is not a square")
    # ---- dscore
    ds = _find_func(tree, "dscore", METRICS)
    res["DSCORE_EPS_DEFAULT"] = _default_of(ds, "eps", METRICS)
    dd = None
    for n in ast.walk(ds):
        if isinstance(n, ast.Assign) and len(n.targets) == 1 and isinstance(n.targets[0], ast.Name) \
                and n.targets[0].id == "D":
            dd = n.value
    ok = (dd is not None and isinstance(dd, ast.BinOp) and isinstance(dd.op, ast.Div)
          and isinstance(dd.left, ast.BinOp) and isinstance(dd.left.op, ast.Add))
    if not ok:
        raise BrokenTie(f"{METRICS}: dscore: D is not (r+a)/b")
    res["DSCORE_ADD"] = _const(dd.left.right, METRICS, "dscore: shift")
    res["DSCORE_DIV"] = _const(dd.right, METRICS, "dscore: divisor")
    return res


def _cvm_table(repo):
    p = Path(repo) / CVMZIP
    if not p.exists():
        raise BrokenTie(f"{CVMZIP}: file missing")
    try:
        with zipfile.ZipFile(p) as z:
            names = z.namelist()
            if len(names) != 1:
                raise BrokenTie(f"{CVMZIP}: expected one member")
            text = io.TextIOWrapper(z.open(names[0]), encoding="utf-8").read()
    except zipfile.BadZipFile:
        raise BrokenTie(f"{CVMZIP}: not a zip file")
    lines = [l for l in text.splitlines() if l.strip() and not l.startswith("#")]
    head = lines[0].split(",")
    try:
        nsample = [int(h) for h in head[1:]]
        rows = [[float(v) for v in l.split(",")] for l in lines[1:]]
    except ValueError:
        raise BrokenTie(f"{CVMZIP}: non-numeric entry")
    if not rows or any(len(r) != len(head) for r in rows) or not nsample:
        raise BrokenTie(f"{CVMZIP}: ragged table")
    qq = [r[0] for r in rows]
    cols = [[r[1 + k] for r in rows] for k in range(len(nsample))]
    return nsample, qq, cols


# ---------------------------------------------------------------------------

def render(repo):
    out = []
    w = out.append
    w("(* GENERATED by harness/extractors/c10.py from the working tree. DO NOT EDIT. *)")
    w("From Coq Require Import ZArith List Reals PrimFloat.")
    w("Import ListNotations.")
    w("")

    def both(name, v, comment=None):
        if comment:
            w(f"(* {comment} *)")
        w(f"Definition {name}_R : R := {dec_to_R(v)}.")
        w(f"Definition {name}_F : float := {f_hex(v)}.")

    # ---- c_dscore.c
    txt = _strip_c(_read(repo, DSCORE_C))
    cmpb = _c_function(txt, "compare", DSCORE_C)
    m = re.search(rf"double\s+eps\s*=\s*({NUM})\s*;", cmpb)
    if not m:
        raise BrokenTie(f"{DSCORE_C}: compare: `double eps = <number>;` not found")
    both("DS_CMP_TOL", _num(m.group(1), DSCORE_C), "tolerance of the qsort comparator of c_dscore.c")
    body = _c_function(txt, "c_ensrank", DSCORE_C)
    m = re.search(rf"if\s*\(\s*eps\s*<\s*({NUM})\s*\)", body)
    if not m:
        raise BrokenTie(f"{DSCORE_C}: c_ensrank: `if(eps<number)` not found")
    both("DS_EPS_MIN", _num(m.group(1), DSCORE_C), "smallest accepted tie tolerance")
    # tol = <number>/ncold/ncold;  u = F<a-tol ? c : F>d+tol ? f : g;
    m = re.search(rf"\btol\s*=\s*({NUM})\s*/\s*ncold\s*/\s*ncold\s*;", body)
    if not m:
        raise BrokenTie(f"{DSCORE_C}: c_ensrank: the tolerance of the mapping F -> u is not "
                        "`tol = <number>/ncold/ncold;` (scaled to the ensemble size)")
    tolnum = _num(m.group(1), DSCORE_C)
    m = re.search(rf"u\s*=\s*F\s*<\s*({NUM})\s*-\s*tol\s*\?\s*({NUM})\s*:\s*F\s*>\s*({NUM})\s*\+\s*tol"
                  rf"\s*\?\s*({NUM})\s*:\s*({NUM})\s*;", body)
    if not m:
        raise BrokenTie(f"{DSCORE_C}: c_ensrank: the mapping F -> u is not "
                        "`u = F<a-tol ? c : F>d+tol ? f : g;`")
    if not re.search(r"\bncold\s*=\s*\(\s*double\s*\)\s*ncol\s*;", body):
        raise BrokenTie(f"{DSCORE_C}: c_ensrank: `ncold = (double) ncol;` not found")
    g = [_num(x, DSCORE_C) for x in m.groups()]
    w("(* tol = U_TOL_NUM/ncold/ncold; u = F < LO_C - tol ? U_LOW : F > HI_C + tol ? U_HIGH : U_TIE *)")
    both("DS_U_TOL_NUM", tolnum)
    for nm, v in zip(["DS_U_LO_C", "DS_U_LOW", "DS_U_HI_C", "DS_U_HIGH", "DS_U_TIE"], g):
        both(nm, v)
    for nm in ("ESIZE", "EVALUE"):
        v = c_define(repo, DSCORE_H, nm)
        if not re.fullmatch(r"\d+", v):
            raise BrokenTie(f"{DSCORE_H}: {nm} is not an integer literal")
        w(f"Definition DS_{nm} : Z := {int(v)}%Z.")
    w("")

    # ---- metrics.py
    mt = _metrics(repo)
    w("(* metrics.py *)")
    for nm in ["PIT_CST_MAX", "PIT_NUM_ADD", "PIT_DEN_ONE", "PIT_PCT_DIV", "CVM_UNIF_MUL",
               "CVM_UNIF_SUB", "CVM_UNIF_DIV", "CVM_NUM", "CVM_DEN", "DSCORE_EPS_DEFAULT",
               "DSCORE_ADD", "DSCORE_DIV"]:
        both(nm, mt[nm])
    w("")

    # ---- AnDarl.c
    txt = _strip_c(_read(repo, ANDARL_C))
    tb = _c_function(txt, "ADtest", ANDARL_C)
    m = re.search(rf"\bprev\s*=\s*(-?\s*{NUM})", tb)
    if not m:
        raise BrokenTie(f"{ANDARL_C}: ADtest: initial value of prev not found")
    both("AD_PREV0", _num(m.group(1).replace(" ", ""), ANDARL_C), "ADtest: start value of prev")
    m = re.search(rf"if\s*\(\s*x\[i\]\s*<\s*({NUM})\s*\|\|\s*x\[i\]\s*>\s*({NUM})\s*\)", tb)
    if not m:
        raise BrokenTie(f"{ANDARL_C}: ADtest: range test `x[i]<a || x[i]>b` not found")
    both("AD_RANGE_LO", _num(m.group(1), ANDARL_C), "ADtest: accepted range")
    both("AD_RANGE_HI", _num(m.group(2), ANDARL_C))
    w("")
    w("Open Scope R_scope.")
    ab = re.sub(r"\s+", " ", _c_function(txt, "adinf", ANDARL_C))
    m = re.fullmatch(rf"\s*if\s*\(\s*z\s*<\s*({NUM})\s*\)\s*return\s+([^;]+);\s*return\s+([^;]+);\s*", ab)
    if not m:
        raise BrokenTie(f"{ANDARL_C}: adinf is not `if(z<a) return e1; return e2;`")
    w("(* adinf(z) = if z < ADINF_SPLIT then adinf_lo z else adinf_hi z *)")
    w(f"Definition ADINF_SPLIT : R := {dec_to_R(_num(m.group(1), ANDARL_C))}.")
    w(f"Definition adinf_lo (z : R) : R := {c_expr_to_R(m.group(2), {'z'}, ANDARL_C)}.")
    w(f"Definition adinf_hi (z : R) : R := {c_expr_to_R(m.group(3), {'z'}, ANDARL_C)}.")
    adb = re.sub(r"\s+", " ", _c_function(txt, "AD", ANDARL_C))
    m = re.fullmatch(
        rf"\s*double c,v,x;\s*x\s*=\s*adinf\(z\);\s*"
        rf"if\s*\(\s*x\s*>\s*({NUM})\s*\)\s*\{{\s*v\s*=([^;]+);\s*return x\+v;\s*\}}\s*"
        rf"c\s*=([^;]+);\s*"
        rf"if\s*\(\s*x\s*<\s*c\s*\)\s*\{{\s*v\s*=([^;]+);\s*v\s*=([^;]+);\s*return\s+([^;]+);\s*\}}\s*"
        rf"v\s*=([^;]+);\s*v\s*=([^;]+);\s*return\s+([^;]+);\s*", adb)
    if not m:
        raise BrokenTie(f"{ANDARL_C}: AD(n,z) does not have the expected three-branch shape")
    ids = {"n", "x", "c", "v"}
    w("(* AD(n,z): x = adinf z; if x > AD_SPLIT_HI then x + AD_v_hi;")
    w("   c = AD_c n; if x < c then v = AD_lo_v1; v = AD_lo_v2; AD_lo_ret")
    w("   else v = AD_mid_v1; v = AD_mid_v2; AD_mid_ret   (n is the sample size as a real) *)")
    w(f"Definition AD_SPLIT_HI : R := {dec_to_R(_num(m.group(1), ANDARL_C))}.")
    names = ["AD_v_hi", "AD_c", "AD_lo_v1", "AD_lo_v2", "AD_lo_ret", "AD_mid_v1", "AD_mid_v2", "AD_mid_ret"]
    for nm, e in zip(names, m.groups()[1:]):
        w(f"Definition {nm} (n x c v : R) : R := {c_expr_to_R(e, ids, ANDARL_C)}.")
    w("Close Scope R_scope.")
    w("")

    # ---- Cramer-von Mises table
    nsample, qq, cols = _cvm_table(repo)
    w("(* data/cramer_von_mises_test_pvalues.zip: sample sizes (columns), abscissae (index),")
    w("   p-values column by column *)")
    w("Definition CVM_NSAMPLE : list Z := [" + "; ".join(f"{n}%Z" for n in nsample) + "].")
    w("Definition CVM_QQ : list float := [" + "; ".join(f_hex(v) for v in qq) + "].")
    w("Definition CVM_COLS : list (list float) := [")
    w(";\n".join("  [" + "; ".join(f_hex(v) for v in c) + "]" for c in cols))
    w("].")
    w("")
    return "\n".join(out) + "\n"


if __name__ == "__main__":
    import sys
    sys.stdout.write(render(sys.argv[1] if len(sys.argv) > 1 else "/repo"))
