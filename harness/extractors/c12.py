"""C12: constants of data/containers.py (class Vector) and of stat/transform.py
the Coq model depends on -> coq/Gen/ConstsC12.v

* the keyword defaults of Vector.__init__ (check_bounds, check_hitbounds,
  accept_nan) - `Vector(names)` and the pinned `clone()` rely on them;
* for every transform class of transform.__all__: the `Vector(...)` calls that
  build its parameter and constant vectors (names, defaults, mins, maxs,
  accept_nan), with the constructor's own keyword defaults (mininu=EPS, ...)
  substituted.  The model's constructor is run on these tables (binary64:
  compared with the live objects; extended reals: theorem C12_transform_tables).

Fail-closed: anything the small evaluator does not understand raises BrokenTie.
(EPS of containers.py is extracted by the base extractor into Gen/Consts.v.)"""
import ast
import math
from fractions import Fraction

from harness.extract_consts import BrokenTie, _read, f_hex

TARGET = "ConstsC12"
CONT = "src/hydrodiy/data/containers.py"
TRANS = "src/hydrodiy/stat/transform.py"


def _classdef(tree, name, rel):
    for node in tree.body:
        if isinstance(node, ast.ClassDef) and node.name == name:
            return node
    raise BrokenTie(f"{rel}: class {name} not found")


def _method(cls, name, rel, required=True):
    for node in cls.body:
        if isinstance(node, ast.FunctionDef) and node.name == name:
            return node
    if required:
        raise BrokenTie(f"{rel}: {cls.name}.{name} not found")
    return None


def _kw_defaults(fn):
    """{argument name: default AST node} of a function definition."""
    a = fn.args
    pos = a.posonlyargs + a.args
    out = {}
    for arg, d in zip(pos[len(pos) - len(a.defaults):], a.defaults):
        out[arg.arg] = d
    for arg, d in zip(a.kwonlyargs, a.kw_defaults):
        if d is not None:
            out[arg.arg] = d
    return out


def vector_ctor_defaults(repo):
    tree = ast.parse(_read(repo, CONT))
    init = _method(_classdef(tree, "Vector", CONT), "__init__", CONT)
    order = [a.arg for a in init.args.args]
    if order[:8] != ["self", "names", "defaults", "mins", "maxs", "check_bounds",
                     "check_hitbounds", "accept_nan"]:
        raise BrokenTie(f"{CONT}: Vector.__init__ parameters are {order}")
    d = _kw_defaults(init)
    out = {}
    for k in ("check_bounds", "check_hitbounds", "accept_nan"):
        if k not in d or not isinstance(d[k], ast.Constant) or not isinstance(d[k].value, bool):
            raise BrokenTie(f"{CONT}: default of Vector.__init__({k}) is not a boolean literal")
        out[k] = d[k].value
    for k in ("defaults", "mins", "maxs"):
        if k not in d or not isinstance(d[k], ast.Constant) or d[k].value is not None:
            raise BrokenTie(f"{CONT}: default of Vector.__init__({k}) is not None")
    return out


class _Num:
    """a number of a table: exact decimal source of the literal + float value"""

    def __init__(self, val, frac):
        self.val = float(val)
        self.frac = frac     # Fraction for finite values (from the literal text), else None


def _ev(node, env, where):
    """tiny evaluator: numeric literals, names of env, np.inf/np.nan, unary +/-"""
    if isinstance(node, ast.Constant):
        v = node.value
        if isinstance(v, bool) or v is None:
            return v
        if isinstance(v, (int, float)):
            if isinstance(v, float) and (math.isnan(v) or math.isinf(v)):
                return _Num(v, None)
            return _Num(v, Fraction(repr(v)) if isinstance(v, float) else Fraction(v))
        if isinstance(v, str):
            return v
    if isinstance(node, ast.Name) and node.id in env:
        return env[node.id]
    if isinstance(node, ast.Attribute) and isinstance(node.value, ast.Name) \
            and node.value.id in ("np", "numpy", "math"):
        if node.attr == "inf":
            return _Num(math.inf, None)
        if node.attr == "nan":
            return _Num(math.nan, None)
    if isinstance(node, ast.UnaryOp) and isinstance(node.op, (ast.USub, ast.UAdd)):
        x = _ev(node.operand, env, where)
        if isinstance(x, _Num):
            if isinstance(node.op, ast.UAdd):
                return x
            return _Num(-x.val, None if x.frac is None else -x.frac)
    if isinstance(node, (ast.List, ast.Tuple)):
        return [_ev(e, env, where) for e in node.elts]
    raise BrokenTie(f"{where}: expression not understood: {ast.dump(node)[:120]}")


def _vector_call(call, env, where):
    """arguments of a `Vector(...)` call -> dict"""
    if not (isinstance(call, ast.Call) and isinstance(call.func, ast.Name) and call.func.id == "Vector"):
        raise BrokenTie(f"{where}: not a Vector(...) call")
    slots = ["names", "defaults", "mins", "maxs", "check_bounds", "check_hitbounds", "accept_nan"]
    got = {}
    if len(call.args) > len(slots):
        raise BrokenTie(f"{where}: too many positional arguments")
    for k, a in zip(slots, call.args):
        got[k] = _ev(a, env, where)
    for kw in call.keywords:
        if kw.arg not in slots or kw.arg in got:
            raise BrokenTie(f"{where}: keyword {kw.arg}")
        got[kw.arg] = _ev(kw.value, env, where)
    names = got.get("names")
    if not isinstance(names, list) or not all(isinstance(n, str) for n in names):
        raise BrokenTie(f"{where}: names is not a list of string literals")
    for k in ("defaults", "mins", "maxs"):
        v = got.get(k)
        if v is not None and not (isinstance(v, list) and all(isinstance(x, _Num) for x in v)):
            raise BrokenTie(f"{where}: {k} is not a list of numbers")
    for k in ("check_bounds", "check_hitbounds", "accept_nan"):
        if k in got and not isinstance(got[k], bool):
            raise BrokenTie(f"{where}: {k} is not a boolean literal")
    return got


def transform_tables(repo):
    """[(class, role, vector-call dict)] for every class of __all__ x (params, constants)."""
    tree = ast.parse(_read(repo, TRANS))
    modenv = {}
    allnames = None
    for node in tree.body:
        if isinstance(node, ast.Assign) and len(node.targets) == 1 and isinstance(node.targets[0], ast.Name):
            nm = node.targets[0].id
            if nm == "__all__":
                allnames = ast.literal_eval(node.value)
            elif isinstance(node.value, ast.Constant) and isinstance(node.value.value, (int, float)) \
                    and not isinstance(node.value.value, bool):
                modenv[nm] = _ev(node.value, {}, TRANS)
    if not allnames:
        raise BrokenTie(f"{TRANS}: __all__ not found")
    base = _classdef(tree, "Transform", TRANS)
    binit = _method(base, "__init__", TRANS)
    bdef = _kw_defaults(binit)
    if [a.arg for a in binit.args.args] != ["self", "name", "params", "constants"]:
        raise BrokenTie(f"{TRANS}: Transform.__init__ signature changed")
    base_tables = {r: _vector_call(bdef[r], modenv, f"{TRANS}: Transform.__init__ default {r}")
                   for r in ("params", "constants")}
    out = []
    for cname in allnames:
        cls = _classdef(tree, cname, TRANS)
        init = _method(cls, "__init__", TRANS)
        env = dict(modenv)
        for k, d in _kw_defaults(init).items():
            env[k] = _ev(d, modenv, f"{TRANS}: {cname}.__init__ default {k}")
        found = {}
        supercall = None
        for node in ast.walk(init):
            if isinstance(node, ast.Assign) and len(node.targets) == 1 \
                    and isinstance(node.targets[0], ast.Name) \
                    and node.targets[0].id in ("params", "constants"):
                role = node.targets[0].id
                if role in found:
                    raise BrokenTie(f"{TRANS}: {cname}.__init__ assigns {role} twice")
                found[role] = _vector_call(node.value, env, f"{TRANS}: {cname}.{role}")
            if isinstance(node, ast.Call) and isinstance(node.func, ast.Attribute) \
                    and node.func.attr == "__init__" and isinstance(node.func.value, ast.Call) \
                    and isinstance(node.func.value.func, ast.Name) and node.func.value.func.id == "super":
                supercall = node
        if supercall is None:
            raise BrokenTie(f"{TRANS}: {cname}.__init__ does not call super().__init__")
        # super().__init__(name[, params[, constants]]) must pass exactly the vectors found
        passed = []
        for a in supercall.args[1:]:
            if not isinstance(a, ast.Name) or a.id not in ("params", "constants"):
                raise BrokenTie(f"{TRANS}: {cname}: super().__init__ argument not understood")
            passed.append(a.id)
        for kw in supercall.keywords:
            if kw.arg not in ("params", "constants") or not isinstance(kw.value, ast.Name) \
                    or kw.value.id != kw.arg:
                raise BrokenTie(f"{TRANS}: {cname}: super().__init__ keyword not understood")
            passed.append(kw.arg)
        if passed != ["params", "constants"][:len(passed)] or set(passed) != set(found):
            raise BrokenTie(f"{TRANS}: {cname}: vectors built {sorted(found)} but passed {passed}")
        for role in ("params", "constants"):
            out.append((cname, role, found.get(role, base_tables[role])))
    return out


def _R(x):
    if math.isnan(x.val):
        return "LNan"
    if math.isinf(x.val):
        return "LPinf" if x.val > 0 else "LNinf"
    fr = x.frac
    if fr.denominator == 1:
        return f"(LFin ({fr.numerator})%R)"
    return f"(LFin ({fr.numerator} / {fr.denominator})%R)"


def _F(x):
    if math.isnan(x.val):
        return "nan"
    if math.isinf(x.val):
        return "infinity" if x.val > 0 else "neg_infinity"
    if x.val == 0:
        return "0%float"
    return f_hex(x.val)


def _olist(v, f):
    if v is None:
        return "None"
    return "(Some [" + "; ".join(f(x) for x in v) + "])"


def _b(x):
    return "true" if x else "false"


def render(repo):
    vd = vector_ctor_defaults(repo)
    tabs = transform_tables(repo)
    w = []
    w.append("(* GENERATED by harness/extractors/c12.py from the working tree. DO NOT EDIT. *)")
    w.append("From Coq Require Import ZArith List String Reals PrimFloat.")
    w.append("Import ListNotations.")
    w.append("Open Scope string_scope.")
    w.append("")
    w.append("(* keyword defaults of Vector.__init__ (containers.py) *)")
    w.append(f"Definition VEC_DEFAULT_CHECK_BOUNDS : bool := {_b(vd['check_bounds'])}.")
    w.append(f"Definition VEC_DEFAULT_CHECK_HITBOUNDS : bool := {_b(vd['check_hitbounds'])}.")
    w.append(f"Definition VEC_DEFAULT_ACCEPT_NAN : bool := {_b(vd['accept_nan'])}.")
    w.append("")
    w.append("(* number literals of the tables: NaN, -inf, +inf, exact decimal *)")
    w.append("Inductive xlit := LNan | LNinf | LPinf | LFin (r : R).")
    w.append("")
    w.append("(* one Vector(...) call of a transform constructor (transform.py) *)")
    w.append("Record vtable (T : Type) := mkVT {")
    w.append("  vt_class : string; vt_role : string; vt_names : list string;")
    w.append("  vt_defaults : option (list T); vt_mins : option (list T); vt_maxs : option (list T);")
    w.append("  vt_cb : bool; vt_chb : bool; vt_accept_nan : bool }.")
    for a in ("vt_class", "vt_role", "vt_names", "vt_defaults", "vt_mins", "vt_maxs", "vt_cb", "vt_chb",
              "vt_accept_nan", "mkVT"):
        w.append(f"Arguments {a} {{T}}.")
    w.append("")
    for suffix, typ, f in (("F", "float", _F), ("R", "xlit", _R)):
        w.append(f"Definition TRANSFORM_TABLES_{suffix} : list (vtable {typ}) := [")
        rows = []
        for cname, role, t in tabs:
            names = "[" + "; ".join('"' + n + '"' for n in t["names"]) + "]"
            rows.append(f'  mkVT "{cname}" "{role}" {names} {_olist(t.get("defaults"), f)} '
                        f'{_olist(t.get("mins"), f)} {_olist(t.get("maxs"), f)} '
                        f'{_b(t.get("check_bounds", vd["check_bounds"]))} '
                        f'{_b(t.get("check_hitbounds", vd["check_hitbounds"]))} '
                        f'{_b(t.get("accept_nan", vd["accept_nan"]))}')
        w.append(";\n".join(rows))
        w.append("].")
        w.append("")
    return "\n".join(w) + "\n"


if __name__ == "__main__":
    import sys
    sys.stdout.write(render(sys.argv[1] if len(sys.argv) > 1 else "/repo"))
