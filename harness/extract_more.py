"""Further extracted constants (per property); see extract_consts.py."""


def render(repo):
    out = []
    return out
