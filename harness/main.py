"""Entry point: python -m harness.main <ID> [--tier quick|thorough] [--replay file].

The real check runs in a child process so that an interpreter crash caused by
the code under test (SIGSEGV in a kernel...) is reported as a violation
instead of killing the checker."""
import argparse
import importlib
import json
import os
import subprocess
import sys
import time
from pathlib import Path

VERIF = Path(__file__).resolve().parent.parent


def child(pid, tier, seed, replay):
    from harness import common as cm
    mod = importlib.import_module(f"harness.props.{pid.lower()}")
    ctx = cm.Ctx(pid, tier, seed)
    if replay:
        ctx.replay = json.loads(Path(replay).read_text())
    else:
        ctx.replay = None
    try:
        rc = mod.run(ctx)
    except SystemExit:
        raise
    except BaseException:
        import traceback
        traceback.print_exc()
        sys.stdout.flush()
        sys.exit(3)   # checker failure: reported by the parent as an abnormal end
    sys.stdout.flush()
    sys.exit(rc)


def main():
    ap = argparse.ArgumentParser()
    ap.add_argument("pid")
    ap.add_argument("--tier", default=os.environ.get("VERIF_TIER", "quick"))
    ap.add_argument("--replay", default=None)
    ap.add_argument("--child", action="store_true")
    a = ap.parse_args()
    tier = a.tier if a.tier in ("quick", "thorough") else "quick"
    try:
        seed = int(os.environ.get("VERIF_SEED", "0"))
    except ValueError:
        seed = 0
    pid = a.pid.upper()
    if a.child:
        child(pid, tier, seed, a.replay)
        return
    env = dict(os.environ)
    env["PYTHONHASHSEED"] = "0"
    env["MPLBACKEND"] = "Agg"
    env["PYTHONPATH"] = str(VERIF)
    env["VERIF_SEED"] = str(seed)
    env.setdefault("OMP_NUM_THREADS", "1")
    env.setdefault("OPENBLAS_NUM_THREADS", "1")
    import shutil
    import tempfile
    sdir = tempfile.mkdtemp(prefix="hyverif.", dir="/var/tmp")
    env["HYVERIF_SCRATCH"] = sdir
    t0 = time.time()
    cmd = [sys.executable, "-m", "harness.main", pid, "--tier", tier, "--child"]
    if a.replay:
        cmd += ["--replay", a.replay]
    try:
        r = subprocess.run(cmd, env=env, cwd=str(VERIF))
        last = None
        lp = Path(sdir) / "last_call.json"
        if lp.exists():
            try:
                last = json.loads(lp.read_text())
            except Exception:
                last = lp.read_text()[:2000]
    finally:
        shutil.rmtree(sdir, ignore_errors=True)
    if r.returncode in (0, 1):
        sys.exit(r.returncode)
    # abnormal end of the checker process
    rdir = Path(os.environ.get("HYVERIF_REPLAY_DIR", str(VERIF / "out" / "replays")))
    rdir.mkdir(parents=True, exist_ok=True)
    path = rdir / f"{pid}_abnormal_exit.json"
    path.write_text(json.dumps({"property": pid, "what": "checker child ended abnormally",
                                "returncode": r.returncode, "tier": tier, "seed": seed,
                                "last_call_on_implementation": last}, indent=1))
    ev = {"property_id": pid, "tier": tier, "seed": seed, "level": "proof",
          "coverage": {"evaluations": 1, "distinct_nontrivial": 0,
                       "explanation": f"check process ended abnormally (rc={r.returncode})",
                       "samples": ["abnormal exit"]},
          "wall_s": round(time.time() - t0, 2), "violations": 1}
    edir = Path(os.environ.get("HYVERIF_EVIDENCE_DIR", str(VERIF / "evidence")))
    edir.mkdir(parents=True, exist_ok=True)
    (edir / f"{pid}.json").write_text(json.dumps(ev, indent=1))
    tail = "" if last is not None else " no-failing-input-found"
    print(f"VIOLATION property={pid} replay={path} check process ended abnormally "
          f"(rc={r.returncode}; the implementation crashed or the checker failed){tail}", flush=True)
    sys.exit(1)


if __name__ == "__main__":
    main()
