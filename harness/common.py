"""Shared machinery of the hydrodiy checks (see DESIGN.md section 3.4).

Everything here is deterministic given (tree, VERIF_SEED, tier).  The module is
imported by /verif/check (running under /venv/bin/python).
"""
import atexit
import fcntl
import hashlib
import json
import math
import os
import random
import re
import shutil
import subprocess
import sys
import tempfile
import time
from concurrent.futures import ThreadPoolExecutor
from pathlib import Path

VERIF = Path(__file__).resolve().parent.parent
REPO = Path(os.environ.get("HYDRODIY_REPO", "/repo"))
COQ = Path(os.environ.get("HYVERIF_COQ_DIR", str(VERIF / "coq")))
PY = "/venv/bin/python"
PYINC = "/root/.pyenv/versions/3.12.1/include/python3.12"
NPINC = "/venv/lib/python3.12/site-packages/numpy/_core/include"
NCPU = int(os.environ.get("VERIF_NCPU", "16"))
# evaluation runs against a scratch tree (seeded changes) write their evidence / replays elsewhere
EVIDENCE_DIR = Path(os.environ.get("HYVERIF_EVIDENCE_DIR", str(VERIF / "evidence")))
REPLAY_DIR = Path(os.environ.get("HYVERIF_REPLAY_DIR", str(VERIF / "out" / "replays")))

EXT_SOURCES = {
    "data": ["c_dateutils", "c_qualitycontrol", "c_dutils", "c_var2h", "c_baseflow"],
    "stat": ["c_crps", "c_dscore", "c_olsleverage", "c_armodels", "ADinf", "AnDarl",
             "c_andersondarling", "c_paretofront"],
    "gis": ["c_grid", "c_catchment", "c_points_inside_polygon"],
}


# ----------------------------------------------------------------------------
# scratch directory (outside /repo, /verif and /tmp; removed at exit)

_SCRATCH = None


def scratch():
    global _SCRATCH
    if _SCRATCH is None and os.environ.get("HYVERIF_SCRATCH"):
        _SCRATCH = Path(os.environ["HYVERIF_SCRATCH"])
        _SCRATCH.mkdir(parents=True, exist_ok=True)
    if _SCRATCH is None:
        base = Path("/var/tmp")
        base.mkdir(exist_ok=True)
        _SCRATCH = Path(tempfile.mkdtemp(prefix="hyverif.", dir=base))
        atexit.register(lambda: shutil.rmtree(_SCRATCH, ignore_errors=True))
    return _SCRATCH


def mark(obj):
    """Record what is about to be run on the implementation, so that an abnormal
    end of the process (SIGSEGV in a kernel...) can be reported with its input."""
    try:
        (scratch() / "last_call.json").write_text(json.dumps(obj, default=str))
    except Exception:
        pass


# ----------------------------------------------------------------------------
# rebuild of the three extensions from the working tree

def _tree_hash(files):
    h = hashlib.sha256()
    for f in sorted(files):
        h.update(str(f).encode())
        h.update(Path(f).read_bytes())
    return h.hexdigest()[:20]


def pyx_pinned(pkg):
    """True when the .pyx wrapper of the tree is the one the pre-generated wrapper C was made from."""
    rel = f"src/hydrodiy/{pkg}/c_hydrodiy_{pkg}.pyx"
    want = {}
    for line in (VERIF / "vendor" / "wrappers" / "PYX_SHA256").read_text().splitlines():
        h, f = line.split()
        want[f] = h
    p = REPO / rel
    return p.exists() and hashlib.sha256(p.read_bytes()).hexdigest() == want.get(rel)


def wrapper_c(pkg):
    """Cython-generated wrapper C of a package: the (git-ignored) file of the tree,
    else the copy vendored in /verif (generated from the pinned .pyx; Cython is not
    installed, so it cannot be regenerated) provided the tree's .pyx is unchanged."""
    p = REPO / "src" / "hydrodiy" / pkg / f"c_hydrodiy_{pkg}.c"
    if p.exists():
        return p
    if not pyx_pinned(pkg):
        raise BrokenTie(f"{p} is missing and c_hydrodiy_{pkg}.pyx differs from the pinned wrapper: "
                        "the extension cannot be rebuilt without Cython")
    import gzip
    out = VERIF / ".cache" / "wrappers" / f"c_hydrodiy_{pkg}.c"
    if not out.exists():
        out.parent.mkdir(parents=True, exist_ok=True)
        tmp = out.with_suffix(f".{os.getpid()}")
        tmp.write_bytes(gzip.decompress((VERIF / "vendor" / "wrappers" / f"c_hydrodiy_{pkg}.c.gz").read_bytes()))
        os.rename(tmp, out)
    return out


def ext_source_files(pkg):
    d = REPO / "src" / "hydrodiy" / pkg
    files = [wrapper_c(pkg)] + [d / f"{s}.c" for s in EXT_SOURCES[pkg]]
    files += sorted(d.glob("*.h"))
    return files


def build_ext(sanitize=False):
    """gcc rebuild of c_hydrodiy_{data,stat,gis} from /repo's working tree.

    Returns the directory holding the .so files.  Results are cached by the
    hash of the sources under /verif/.cache (rebuilt whenever absent)."""
    allfiles = []
    for pkg in EXT_SOURCES:
        allfiles += ext_source_files(pkg)
    for f in allfiles:
        if not f.exists():
            raise BrokenTie(f"source file missing: {f}")
    tag = _tree_hash(allfiles) + ("-asan" if sanitize else "")
    cache = VERIF / ".cache" / "ext"
    out = cache / tag
    if (out / "OK").exists():
        try:
            os.utime(out)          # mark as in use (pruning goes by age)
        except OSError:
            pass
        return out
    cache.mkdir(parents=True, exist_ok=True)
    tmp = Path(tempfile.mkdtemp(prefix="build.", dir=cache))
    procs = []
    for pkg, srcs in EXT_SOURCES.items():
        d = REPO / "src" / "hydrodiy" / pkg
        so = tmp / f"c_hydrodiy_{pkg}.cpython-312-x86_64-linux-gnu.so"
        cfiles = [str(wrapper_c(pkg))] + [str(d / f"{s}.c") for s in srcs]
        if sanitize:
            cmd = ["clang", "-shared", "-fPIC", "-O1", "-g",
                   "-fsanitize=address,undefined", "-fno-sanitize-recover=undefined",
                   "-Wno-everything"]
        else:
            cmd = ["gcc", "-shared", "-fPIC", "-O2", "-w"]
        cmd += [f"-I{PYINC}", f"-I{NPINC}", f"-I{d}"] + cfiles + ["-o", str(so), "-lm"]
        procs.append((pkg, subprocess.Popen(cmd, stdout=subprocess.PIPE,
                                            stderr=subprocess.STDOUT, text=True)))
    errs = []
    for pkg, p in procs:
        o, _ = p.communicate()
        if p.returncode != 0:
            errs.append(f"{pkg}: {o[-2000:]}")
    if errs:
        shutil.rmtree(tmp, ignore_errors=True)
        raise BrokenTie("extension rebuild failed:\n" + "\n".join(errs))
    (tmp / "OK").write_text("ok")
    try:
        os.rename(tmp, out)
    except OSError:
        shutil.rmtree(tmp, ignore_errors=True)
    # keep the cache small: only builds not used for 6 hours, beyond the 40 newest, are removed
    # (checks of several trees run concurrently; a directory in use must never disappear)
    import time
    entries = sorted((p for p in cache.iterdir() if p.is_dir() and (p / "OK").exists()),
                     key=lambda p: p.stat().st_mtime)
    for p in entries[:-40]:
        if time.time() - p.stat().st_mtime > 6 * 3600:
            shutil.rmtree(p, ignore_errors=True)
    return out


def build_kernel_lib(sanitize=False):
    """Plain shared library with the kernels only (for ctypes / C drivers)."""
    files = []
    for pkg, srcs in EXT_SOURCES.items():
        d = REPO / "src" / "hydrodiy" / pkg
        files += [d / f"{s}.c" for s in srcs] + sorted(d.glob("*.h"))
    tag = _tree_hash(files) + ("-asan" if sanitize else "")
    cache = VERIF / ".cache" / "klib"
    out = cache / tag / "libhykernels.so"
    if out.exists():
        return out
    (cache / tag).mkdir(parents=True, exist_ok=True)
    cfiles, incs = [], []
    for pkg, srcs in EXT_SOURCES.items():
        d = REPO / "src" / "hydrodiy" / pkg
        cfiles += [str(d / f"{s}.c") for s in srcs]
        incs.append(f"-I{d}")
    if sanitize:
        cmd = ["clang", "-shared", "-fPIC", "-O1", "-g", "-fsanitize=address,undefined",
               "-fno-sanitize-recover=undefined", "-Wno-everything"]
    else:
        cmd = ["gcc", "-shared", "-fPIC", "-O2", "-w"]
    tmpo = str(out) + f".{os.getpid()}"
    r = subprocess.run(cmd + incs + cfiles + ["-o", tmpo, "-lm"],
                       capture_output=True, text=True)
    if r.returncode != 0:
        raise BrokenTie("kernel library rebuild failed:\n" + (r.stdout + r.stderr)[-2000:])
    os.rename(tmpo, out)
    return out


def use_impl():
    """Make `import hydrodiy` in this process use the working tree + rebuilt kernels."""
    ext = build_ext()
    for p in (str(REPO / "src"), str(ext)):
        if p in sys.path:
            sys.path.remove(p)
    sys.path.insert(0, str(REPO / "src"))
    sys.path.insert(0, str(ext))
    os.environ.setdefault("MPLBACKEND", "Agg")
    for m in list(sys.modules):
        if m.startswith("hydrodiy") or m.startswith("c_hydrodiy"):
            del sys.modules[m]
    import warnings
    warnings.filterwarnings("ignore")
    # the git-ignored c_hydrodiy_*.so under /repo/src are old build output: never fall back to them
    import importlib
    for pkg in EXT_SOURCES:
        mod = importlib.import_module(f"c_hydrodiy_{pkg}")
        if Path(mod.__file__).resolve().parent != Path(ext).resolve():
            raise BrokenTie(f"c_hydrodiy_{pkg} was imported from {mod.__file__}, not from the rebuilt "
                            f"kernels in {ext}")
    return ext


def impl_env(sanitize=False):
    ext = build_ext(sanitize=sanitize)
    env = dict(os.environ)
    env["PYTHONPATH"] = f"{ext}:{REPO / 'src'}:{VERIF}"
    env["PYTHONHASHSEED"] = "0"
    env["MPLBACKEND"] = "Agg"
    if sanitize:
        lib = subprocess.run(["clang", "-print-file-name=libclang_rt.asan-x86_64.so"],
                             capture_output=True, text=True).stdout.strip()
        env["LD_PRELOAD"] = lib
        env["ASAN_OPTIONS"] = "detect_leaks=0:halt_on_error=1:abort_on_error=0:allocator_may_return_null=1"
        env["UBSAN_OPTIONS"] = "halt_on_error=1:print_stacktrace=1"
    return env


from harness.extract_consts import BrokenTie  # noqa: E402  (tie to the source broken)


# ----------------------------------------------------------------------------
# Coq literals

def coq_float(x):
    x = float(x)
    if math.isnan(x):
        return "nan"
    if math.isinf(x):
        return "infinity" if x > 0 else "neg_infinity"
    if x == 0.0:
        return "neg_zero" if math.copysign(1.0, x) < 0 else "0"
    h = x.hex()
    return f"({h})" if h.startswith("-") else h


def coq_flist(xs):
    return "[" + "; ".join(coq_float(x) for x in xs) + "]"


def coq_z(n):
    n = int(n)
    return f"({n})%Z" if n < 0 else f"{n}%Z"


def coq_zlist(xs):
    return "[" + "; ".join(coq_z(x) for x in xs) + "]"


def coq_bool(b):
    return "true" if b else "false"


def coq_string(s):
    return '"' + s.replace('"', '""') + '"'


def coq_option(x, f):
    return "None" if x is None else f"(Some {f(x)})"


# ----------------------------------------------------------------------------
# Coq build

class _ReLock:
    """Exclusive lock on the Coq development, re-entrant within the process (so that
    `prove` can hold it across regenerate -> make -> re-check of the Props file)."""
    depth = 0
    fh = None

    def close(self):
        _ReLock.depth -= 1
        if _ReLock.depth == 0 and _ReLock.fh is not None:
            _ReLock.fh.close()
            _ReLock.fh = None


def _lock():
    if _ReLock.depth == 0:
        f = open(COQ / ".lock", "w")
        fcntl.flock(f, fcntl.LOCK_EX)
        _ReLock.fh = f
    _ReLock.depth += 1
    return _ReLock()


def regenerate_consts(needed=None):
    """Re-extract constants/contracts from the working tree into coq/Gen/Consts.v
    and, for every module harness/extractors/<name>.py, into coq/Gen/<TARGET>.v
    (`TARGET` = file stem, `render(repo) -> str` = the complete text of the file).
    Fail-closed: raises BrokenTie when a pattern of the base extractor, or of an
    extractor named in `needed` (None = all), no longer matches.  A failing
    extractor that is not needed leaves its file untouched."""
    import importlib
    from harness import extract_consts
    texts = {"Consts": extract_consts.render(REPO)}
    exdir = VERIF / "harness" / "extractors"
    for f in sorted(exdir.glob("*.py")):
        if f.stem.startswith("_"):
            continue
        if needed is not None and f.stem not in needed:
            continue      # other properties' constants are left as they are
        try:
            mod = importlib.import_module(f"harness.extractors.{f.stem}")
            texts[mod.TARGET] = mod.render(REPO)
        except BaseException as e:   # fail-closed: anything unexpected is a broken tie
            if needed is None or f.stem in needed:
                if isinstance(e, BrokenTie):
                    raise
                raise BrokenTie(f"extractor {f.stem}: {type(e).__name__}: {e}")
    lk = _lock()
    try:
        for name, text in texts.items():
            p = COQ / "Gen" / f"{name}.v"
            if not p.exists() or p.read_text() != text:
                p.write_text(text)
    finally:
        lk.close()
    return texts["Consts"]


COQPROJECT_HEAD = """-R . Hy
-arg -w -arg -notation-overridden,-deprecated-syntactic-definition,-deprecated-hint-without-locality,-ambiguous-paths,-inexact-float
"""


def regenerate_coqproject():
    """_CoqProject lists every .v file under Base/ Gen/ Model/ Proofs/ Props/
    (dependency order is computed by coqdep)."""
    files = []
    for d in ("Base", "Gen", "Model", "Proofs", "Props"):
        files += sorted(str(p.relative_to(COQ)) for p in (COQ / d).glob("*.v"))
    text = COQPROJECT_HEAD + "\n".join(files) + "\n"
    p = COQ / "_CoqProject"
    if not p.exists() or p.read_text() != text:
        p.write_text(text)


def _big_stack():
    """coqc overflows the default 8 MB stack on long list literals (large case files): raise the
    soft limit of the child to the hard limit"""
    import resource
    try:
        soft, hard = resource.getrlimit(resource.RLIMIT_STACK)
        resource.setrlimit(resource.RLIMIT_STACK, (hard, hard))
    except (ValueError, OSError):
        pass


def coq_make(targets, timeout=1500):
    """Full .vo build of the given targets (relative to coq/). Returns (ok, log)."""
    lk = _lock()
    try:
        regenerate_coqproject()
        if not (COQ / "Makefile").exists() or \
                (COQ / "Makefile").stat().st_mtime < (COQ / "_CoqProject").stat().st_mtime:
            subprocess.run(["coq_makefile", "-f", "_CoqProject", "-o", "Makefile"],
                           cwd=COQ, capture_output=True, text=True, check=True)
        r = subprocess.run(["timeout", str(timeout), "make", f"-j{NCPU}"] + list(targets),
                           cwd=COQ, capture_output=True, text=True, preexec_fn=_big_stack)
    finally:
        lk.close()
    return r.returncode == 0, (r.stdout + r.stderr)


def coqc_file(path, timeout=600, outdir=None):
    """Compile one .v file outside the project (case files, Props re-check)."""
    cmd = ["timeout", str(timeout), "coqc", "-R", str(COQ), "Hy",
           "-w", "-inexact-float,-notation-overridden,-deprecated-syntactic-definition,-deprecated-hint-without-locality,-ambiguous-paths,-abstract-large-number"]
    if outdir is not None:
        cmd += ["-o", str(Path(outdir) / (Path(path).stem + ".vo"))]
    cmd.append(str(path))
    r = subprocess.run(cmd, capture_output=True, text=True, cwd=str(Path(path).parent),
                       preexec_fn=_big_stack)
    return r.returncode, r.stdout + r.stderr


_ASSUME_RE = re.compile(r"^(Closed under the global context|Axioms:)", re.M)


def check_props(pid):
    """Re-compile Props/<pid>.v (statements only: each theorem is `exact lemma`
    followed by Print Assumptions) and collect theorem names and axioms."""
    src = COQ / "Props" / f"{pid}.v"
    text = src.read_text()
    bad = re.findall(r"\b(Admitted|admit|Axiom|Parameter|Conjecture|Abort)\b", text)
    names = re.findall(r"^\s*(?:Theorem|Example|Lemma|Corollary)\s+([A-Za-z0-9_']+)", text, re.M)
    d = scratch() / f"props_{pid}"
    d.mkdir(exist_ok=True)
    dst = d / f"{pid}.v"
    dst.write_text(text)
    rc, out = coqc_file(dst, timeout=900, outdir=d)
    axioms = set()
    blocks = re.split(r"\n(?=Closed under the global context|Axioms:)", "\n" + out)
    nblocks = 0
    for b in blocks:
        if b.startswith("Closed under the global context"):
            nblocks += 1
        elif b.startswith("Axioms:"):
            nblocks += 1
            for m in re.finditer(r"^([A-Za-z_][A-Za-z0-9_.']*)\s*:", b[len("Axioms:"):], re.M):
                axioms.add(m.group(1))
    return {"ok": rc == 0 and not bad, "rc": rc, "log": out[-4000:], "theorems": names,
            "axioms": sorted(axioms), "assumption_blocks": nblocks, "forbidden": bad}


def coqchk_props(pid, timeout=2400):
    """Independent re-check of Props/<pid>.vo and everything it depends on."""
    t0 = time.time()
    r = subprocess.run(["timeout", str(timeout), "coqchk", "-silent", "-o", "-R", str(COQ), "Hy",
                        f"Hy.Props.{pid}"], capture_output=True, preexec_fn=_big_stack, text=True, cwd=str(COQ))
    out = r.stdout + r.stderr

    def section(title):
        m = re.search(re.escape(title) + r"\s*(.*?)(?:\n\s*\n|\Z)", out, re.S)
        if not m:
            return None
        items = [x.strip() for x in m.group(1).splitlines() if x.strip()]
        return [] if items == ["<none>"] else items
    ax = section("* Axioms:") or []
    tit = section("* Constants/Inductives relying on type-in-type:")
    unf = section("* Constants/Inductives relying on unsafe (co)fixpoints:")
    pos = section("* Inductives whose positivity is assumed:")
    ok = r.returncode == 0 and tit == [] and unf == [] and pos == []
    return {"ok": ok, "axioms": ax, "type_in_type": tit, "unsafe_fixpoints": unf,
            "assumed_positivity": pos, "wall_s": round(time.time() - t0, 1), "log": out[-3000:]}


def run_case_files(pid, header, case_type, ok_fun, case_terms, shard=400, timeout=900,
                   max_bytes=300000):
    """Evaluate the model on the cases inside Coq.

    Each shard file defines `cases`, computes `bad := mismatches ok cases` by
    vm_compute, prints it, and closes the kernel-checked obligation
    `mismatches ok cases = bad`.  Returns (list of mismatching case indices,
    number of shard obligations checked, logs of failed shards)."""
    d = scratch() / f"cases_{pid}_{len(list(scratch().glob('cases_*')))}"
    d.mkdir()
    files = []
    bounds, start, size = [], 0, 0
    for i, t in enumerate(case_terms):
        if i > start and (i - start >= shard or size + len(t) > max_bytes):
            bounds.append((start, i))
            start, size = i, 0
        size += len(t)
    if case_terms:
        bounds.append((start, len(case_terms)))
    for si, (k, kend) in enumerate(bounds):
        chunk = case_terms[k:kend]
        name = f"Cases_{pid}_{si}"
        body = [header, "Import ListNotations.", "Open Scope float_scope.",
                f"Definition cases : list ({case_type}) := ["]
        body.append(";\n".join(chunk))
        body.append("].")
        body.append(f"Definition bad := Eval vm_compute in (mismatches ({ok_fun}) cases).")
        body.append("Print bad.")
        body.append(f"Example agree : mismatches ({ok_fun}) cases = bad.")
        body.append("Proof. vm_cast_no_check (eq_refl bad). Qed.")
        p = d / f"{name}.v"
        p.write_text("\n".join(body) + "\n")
        files.append((k, p))

    def one(kp):
        k, p = kp
        rc, out = coqc_file(p, timeout=timeout)
        return k, rc, out

    bad, failed, nok = [], [], 0
    with ThreadPoolExecutor(max_workers=NCPU) as ex:
        for k, rc, out in ex.map(one, files):
            m = re.search(r"bad\s*=\s*(\[.*?\])\s*:\s*list Z", out, re.S)
            if rc != 0 or not m:
                failed.append((k, out[-3000:]))
                continue
            nok += 1
            for z in re.findall(r"\(?(-?\d+)\)?%Z", m.group(1)):
                bad.append(k + int(z))
            if re.search(r"\[\s*\]", m.group(1)) is None and not re.findall(r"%Z", m.group(1)):
                # a non-empty list printed without %Z annotations
                for z in re.findall(r"-?\d+", m.group(1)):
                    bad.append(k + int(z))
    return sorted(set(bad)), nok, failed


# ----------------------------------------------------------------------------
# known findings

def load_known():
    """known_findings.json plus known_findings.d/*.json (same format; one file per property)."""
    out = []
    p = VERIF / "known_findings.json"
    if p.exists():
        out += json.loads(p.read_text())["findings"]
    d = VERIF / "known_findings.d"
    if d.exists():
        for f in sorted(d.glob("*.json")):
            out += json.loads(f.read_text())["findings"]
    return out


# ----------------------------------------------------------------------------
# check context

class Ctx:
    def __init__(self, pid, tier, seed):
        self.pid, self.tier, self.seed = pid, tier, int(seed)
        self.t0 = time.time()
        self.rng = random.Random(f"{pid}:{seed}")
        self.thorough = tier == "thorough"
        self.obligations = []        # (name, ok)
        self.violation_count = 0
        self.known_hits = []
        self.evaluations = 0
        self.nontrivial = set()
        self.samples = []
        self.notes = {}
        self.trusted = []
        self.assumptions = []
        self.tested_not_proved = []
        self.rule = ""
        self.checker_cmd = ""
        self._known = [k for k in load_known()
                       if k["property"] == pid and k.get("kind", "known") == "known"]
        self._known_seen = set()
        self._viol_keys = set()

    def scale(self, quick, thorough):
        return thorough if self.thorough else quick

    def obligation(self, name, ok):
        self.obligations.append((name, bool(ok)))

    def count(self, key=None, n=1):
        self.evaluations += n
        if key is not None:
            self.nontrivial.add(key)

    def sample(self, s, limit=6):
        if len(self.samples) < limit:
            self.samples.append(s)

    def failure(self, key, replay, what, nofail=False):
        """Report a property failure with classifier key `key`.
        Known findings (known_findings.json) are printed as KNOWN-FINDING."""
        for k in self._known:
            if k["key"] == key:
                if key not in self._known_seen:
                    self._known_seen.add(key)
                    print(f"KNOWN-FINDING: property={self.pid} {k['what']}", flush=True)
                    self.known_hits.append(key)
                return False
        if key in self._viol_keys:
            self.violation_count += 1
            return True
        self._viol_keys.add(key)
        self.violation_count += 1
        rdir = REPLAY_DIR
        rdir.mkdir(parents=True, exist_ok=True)
        safe = re.sub(r"[^A-Za-z0-9_.-]+", "_", key)[:80]
        path = rdir / f"{self.pid}_{safe}.json"
        path.write_text(json.dumps({"property": self.pid, "key": key, "what": what,
                                    "replay": replay, "seed": self.seed, "tier": self.tier},
                                   indent=1, default=str))
        tail = " no-failing-input-found" if nofail else ""
        print(f"VIOLATION property={self.pid} replay={path} key={key} {what}{tail}", flush=True)
        return True

    def finish(self, extra=None):
        nob = len(self.obligations)
        ndis = sum(1 for _, ok in self.obligations if ok)
        cov = {
            "obligations": nob, "discharged": ndis,
            "checker_cmd": self.checker_cmd or
            f"cd /verif && ./check {self.pid} --tier {self.tier}  (make -C coq Props/{self.pid}.vo; coqc on generated Cases_*.v)",
            "trusted_base": self.trusted,
            "evaluations": self.evaluations,
            "distinct_nontrivial": len(self.nontrivial),
            "rule": self.rule,
            "samples": self.samples or ["(none)"],
            "obligation_names": [n for n, _ in self.obligations],
            "undischarged": [n for n, ok in self.obligations if not ok],
            "tested_not_proved": self.tested_not_proved,
            "known_findings_hit": self.known_hits,
        }
        cov.update(self.notes)
        if extra:
            cov.update(extra)
        ev = {"property_id": self.pid, "tier": self.tier, "seed": self.seed,
              "level": "proof", "coverage": cov, "assumptions": self.assumptions,
              "wall_s": round(time.time() - self.t0, 2),
              "violations": self.violation_count}
        EVIDENCE_DIR.mkdir(parents=True, exist_ok=True)
        (EVIDENCE_DIR / f"{self.pid}.json").write_text(
            json.dumps(ev, indent=1, default=str) + "\n")
        return 1 if self.violation_count else 0


STD_TRUST = [
    "Coq 8.16.1 kernel; vm_compute (bytecode VM) in correspondence obligations and finite sweeps; no native_compute",
    "hand-written Gallina model tied to the code only by the correspondence check (sampled) and by constants regenerated from the source (harness/extract_consts.py)",
    "gcc -O2 rebuild of the kernels from the working tree; pre-generated Cython wrapper C (cannot be regenerated: no Cython)",
    "PrimFloat = IEEE-754 binary64 as emitted by gcc (SSE2, no FMA)",
    "CPython 3.12, numpy, pandas, scipy; harness generators/comparators/oracles",
]

MINIC_TRUST = [
    "C kernels -> MiniC: clang 14 parser/JSON AST dump + harness/ctrans.py (fail-closed per function), regenerated on "
    "every run into coq/Gen/KernelsAst.v; MiniC semantics (coq/Base/MiniC.v: unbounded integers - overflow not modelled; "
    "bounds-checked arrays; lazy &&, ||, ?:; glibc merge sort for qsort) as a description of the gcc-compiled code, "
    "validated on every run by harness/kernels_tie.py (sampled, bit-exact in binary64 inside Coq)",
]


def prove(ctx, pid=None, extra_targets=(), extractors=None):
    """Regenerate constants, build the property's theorems, record obligations.
    Returns True when everything compiled.  `extractors`: names of the modules
    under harness/extractors/ this property depends on (default: [<pid lower>])."""
    pid = pid or ctx.pid
    lk = _lock()
    try:
        return _prove_locked(ctx, pid, extra_targets, extractors)
    finally:
        lk.close()


def _prove_locked(ctx, pid, extra_targets, extractors):
    try:
        regenerate_consts(needed=[pid.lower()] if extractors is None else list(extractors))
    except BrokenTie as e:
        ctx.obligation("Gen/Consts.v extraction", False)
        ctx.notes["broken_tie"] = str(e)
        return False
    ok, log = coq_make([f"Props/{pid}.vo"] + list(extra_targets))
    if not ok:
        ctx.obligation(f"make Props/{pid}.vo", False)
        ctx.notes["coq_build_log"] = log[-3000:]
        m = re.search(r'File "\./([^"]+)", line (\d+)', log)
        ctx.notes["broken_at"] = f"{m.group(1)}:{m.group(2)}" if m else "unknown"
        return False
    res = check_props(pid)
    ctx.notes["axioms"] = res["axioms"]
    ctx.notes["theorems"] = res["theorems"]
    if not res["ok"]:
        ctx.obligation(f"coqc Props/{pid}.v", False)
        ctx.notes["coq_props_log"] = res["log"]
        return False
    for n in res["theorems"]:
        ctx.obligation(f"Props/{pid}.v:{n}", True)
    if ctx.thorough and os.environ.get("HYVERIF_SKIP_COQCHK") != "1":
        ck = coqchk_props(pid)
        ctx.notes["coqchk"] = {k: ck[k] for k in ("ok", "axioms", "type_in_type", "unsafe_fixpoints",
                                                  "assumed_positivity", "wall_s")}
        ctx.obligation(f"coqchk -o Hy.Props.{pid} (independent re-check of the .vo closure)", ck["ok"])
        if not ck["ok"]:
            ctx.notes["coqchk_log"] = ck["log"]
            return False
    if res["assumption_blocks"] < len(res["theorems"]):
        ctx.notes["print_assumptions_missing"] = len(res["theorems"]) - res["assumption_blocks"]
    return True


def prove_with_kernels(ctx, kernels, extractors=None, **kw):
    """cm.prove for a property whose Props file contains theorems about the REGENERATED MiniC
    program (Gen/KernelsAst.v, extractor `minic`), followed by the tie of the translator and
    the interpreter with the compiled kernels `kernels` (harness/kernels_tie.py)."""
    ex = [ctx.pid.lower()] if extractors is None else list(extractors)
    if "minic" not in ex:
        ex.append("minic")
    proved = prove(ctx, extractors=ex, **kw)
    for t in MINIC_TRUST:
        if t not in ctx.trusted:
            ctx.trusted = list(ctx.trusted) + [t]
    from harness import kernels_tie
    try:
        kernels_tie.check(ctx, kernels)
    except Exception as e:      # fail-closed: the tie could not be run
        ctx.obligation("MiniC tie ran", False)
        ctx.failure(f"{ctx.pid}/minic-tie", {"broken": "kernels_tie", "error": f"{type(e).__name__}: {e}"},
                    f"the MiniC tie could not be run ({type(e).__name__})", nofail=True)
    return proved


# ----------------------------------------------------------------------------
# corpus and settlement of correspondence / proof results

def load_corpus(pid):
    d = VERIF / "corpus" / pid
    out = []
    if d.exists():
        for p in sorted(d.glob("*.json")):
            out.append(json.loads(p.read_text())["case"])
    return out


def settle(ctx, proved, bad, failed_shards, oracle_failed_idx, replay_fn, tie_name):
    """Turn correspondence mismatches / broken proofs into reports.

    A mismatching case on which the oracle found the property failing has been
    reported already (concrete failing input).  Other mismatches, failed shard
    compilations and broken proofs are reported as violations too, because the
    property is no longer shown to hold, with `no-failing-input-found`."""
    rest = [i for i in bad if i not in oracle_failed_idx]
    if bad:
        ctx.obligation(f"correspondence {tie_name}: all cases agree", False)
    if rest:
        i = rest[0]
        ctx.failure(f"{ctx.pid}/correspondence",
                    {"broken": f"correspondence {tie_name}", "n_mismatches": len(bad),
                     "first_mismatch_index": i, "first_mismatch": replay_fn(i)},
                    f"model and implementation disagree on {len(bad)} case(s) ({tie_name})",
                    nofail=not oracle_failed_idx)
    for k, log in failed_shards:
        ctx.obligation(f"case shard starting at {k} compiled", False)
        ctx.failure(f"{ctx.pid}/correspondence-shard",
                    {"broken": f"case file shard {k} did not compile", "log": log},
                    "a correspondence case file failed to compile", nofail=True)
    if not proved:
        ctx.failure(f"{ctx.pid}/proof",
                    {"broken": ctx.notes.get("broken_at", ctx.notes.get("broken_tie", "Props")),
                     "log": ctx.notes.get("coq_build_log", ctx.notes.get("coq_props_log", ""))[-1500:]},
                    f"proof obligation or source tie no longer checks "
                    f"({ctx.notes.get('broken_at', ctx.notes.get('broken_tie', 'see replay'))})",
                    nofail=not (oracle_failed_idx or ctx.violation_count))
