"""Validation of the C -> MiniC translator (harness/ctrans.py) and of the MiniC
interpreter (coq/Base/MiniC.v) against the compiled kernels.

For every translated, binary64-executable kernel: inputs are generated from a small
per-kernel specification, the gcc-compiled kernel (libhykernels.so, rebuilt from the
tree under test) is called through ctypes, and Coq case files assert by vm_compute
that  exec_fun F64 XF64 program fuel "<kernel>" <inputs>  yields exactly the return
value and the final contents of every array argument observed on the compiled code
(doubles: same NaN pattern / equal, the sign of zero ignored; integers: exact).

    PYTHONPATH=/verif /venv/bin/python -m harness.kernels_tie [--kernel NAME] [--n N] [--seed S]

prints one line per kernel  `NAME cases=.. mismatches=.. ub=..`  and exits 1 on any mismatch.
`ub` counts cases on which the interpreter stopped with an error (out-of-bounds
access, cast out of range ...) where this is expected: the kernel is flagged as
having reachable undefined behaviour for wrapper-admissible inputs, or the compiled
code was observed writing outside its buffers (guard zones around every array)."""
import argparse
import ctypes
import math
import os
import random
import re
import sys
import time
from concurrent.futures import ThreadPoolExecutor

from harness import common as cm
from harness import ctrans

NAN = float("nan")
GUARD = 16
FDC = [32, 64, 128, 16, 0, 1, 8, 4, 2]          # hydrodiy.gis.grid.FLOWDIRCODE, row-major


# ----------------------------------------------------------------------------
# value palettes

def fl(rng, nan=0.0, lo=-10.0, hi=10.0):
    if nan and rng.random() < nan:
        return NAN
    c = rng.randrange(8)
    if c == 0:
        return rng.uniform(lo, hi)
    if c == 1:
        return float(rng.randint(-5, 5))
    if c == 2:
        return round(rng.uniform(-3, 3), 1)
    if c == 3:
        return 0.0
    if c == 4:
        return rng.uniform(0, 1)
    if c == 5:
        return rng.choice([-0.0, 1e-9, -1e-9, 1e6, 0.5, 2.0, 1.0, -1.0])
    if c == 6:
        return rng.gauss(0, 1)
    return rng.uniform(100 * lo, 100 * hi)


def fls(rng, n, nan=0.0, ties=0.3):
    out = []
    for _ in range(n):
        if out and rng.random() < ties:
            out.append(rng.choice(out))
        else:
            out.append(fl(rng, nan))
    return out


def junk_f(n, base=7.25):
    return [base + i for i in range(n)]


def junk_i(n, base=900):
    return [base + i for i in range(n)]


def grid(rng, maxdim=6):
    nrows, ncols = rng.randint(1, maxdim), rng.randint(1, maxdim)
    return nrows, ncols, nrows * ncols


def flowdir(rng, n, bad=0.03):
    out = []
    for _ in range(n):
        if rng.random() < bad:
            out.append(rng.choice([3, 5, -1, 256]))
        else:
            out.append(rng.choice(FDC))
    return out


def codes(rng):
    if rng.random() < 0.85:
        return list(FDC)
    c = list(FDC)
    rng.shuffle(c)
    if rng.random() < 0.3:
        c[rng.randrange(9)] = c[rng.randrange(9)]
    return c


def cellnum(rng, n, bad=0.15):
    if rng.random() < bad:
        return rng.choice([-1, -7, n, n + 3])
    return rng.randrange(n)


def geom(rng):
    xll = rng.choice([0.0, -3.5, 10.0, rng.uniform(-100, 100)])
    yll = rng.choice([0.0, 2.25, -20.0, rng.uniform(-100, 100)])
    csz = rng.choice([1.0, 0.5, 2.0, 0.1, 0.25, rng.uniform(0.05, 5)])
    return xll, yll, csz


def coords_near(rng, nrows, ncols, xll, yll, csz, n):
    """n points (x, y), mostly inside or near the grid, some exactly on cell edges/centres"""
    out = []
    for _ in range(n):
        c = rng.randrange(5)
        if c == 0:
            x = xll + csz * rng.randint(-1, ncols + 1)
            y = yll + csz * rng.randint(-1, nrows + 1)
        elif c == 1:
            x = xll + csz * (rng.randint(0, ncols) + 0.5)
            y = yll + csz * (rng.randint(0, nrows) + 0.5)
        else:
            x = xll + csz * rng.uniform(-1.5, ncols + 1.5)
            y = yll + csz * rng.uniform(-1.5, nrows + 1.5)
        out += [x, y]
    return out


# ----------------------------------------------------------------------------
# per-kernel input specifications: gen(rng) -> list of argument values in C order
# (int, float, or list for a pointer parameter)

def g_getnxy(rng):
    ncols = rng.choice([1, 2, 3, 5, 7, -3])
    return [ncols, rng.randint(-20, 60), junk_i(2)]


def g_getcoord(rng):
    nrows, ncols, n = grid(rng)
    xll, yll, csz = geom(rng)
    return [nrows, ncols, xll, yll, csz, rng.randint(-5, n + 5), junk_f(2)]


def g_clipd(rng):
    return [fl(rng, 0.1), fl(rng, 0.05), fl(rng, 0.05)]


def g_clipi(rng):
    return [rng.randint(-9, 9), rng.randint(-9, 9), rng.randint(-9, 9)]


def g_coord2cell(rng):
    nrows, ncols, n = grid(rng)
    xll, yll, csz = geom(rng)
    nval = rng.randint(0, 6)
    return [nrows, ncols, xll, yll, csz, nval,
            coords_near(rng, nrows, ncols, xll, yll, csz, nval), junk_i(nval)]


def g_cell2rowcol(rng):
    nrows, ncols, n = grid(rng)
    nval = rng.randint(0, 7)
    return [nrows, ncols, nval, [cellnum(rng, n) for _ in range(nval)], junk_i(2 * nval)]


def g_cell2coord(rng):
    nrows, ncols, n = grid(rng)
    xll, yll, csz = geom(rng)
    nval = rng.randint(0, 7)
    return [nrows, ncols, xll, yll, csz, nval, [cellnum(rng, n) for _ in range(nval)],
            junk_f(2 * nval)]


def g_neighbours(rng):
    nrows, ncols, n = grid(rng)
    return [nrows, ncols, cellnum(rng, n), junk_i(9)]


def g_slice(rng):
    nrows, ncols, n = grid(rng)
    xll, yll, csz = geom(rng)
    nval = rng.randint(0, 6)
    return [nrows, ncols, xll, yll, csz, fls(rng, n, nan=0.05), nval,
            coords_near(rng, nrows, ncols, xll, yll, csz, nval), junk_f(nval)]


def g_upstream(rng):
    nrows, ncols, n = grid(rng)
    nval = rng.randint(0, 5)
    return [nrows, ncols, codes(rng), flowdir(rng, n), nval,
            [cellnum(rng, n, 0.08) for _ in range(nval)], junk_i(9 * nval)]


def g_downstream(rng):
    nrows, ncols, n = grid(rng)
    nval = rng.randint(0, 6)
    return [nrows, ncols, codes(rng), flowdir(rng, n), nval,
            [cellnum(rng, n, 0.08) for _ in range(nval)], junk_i(nval)]


def g_accumulate(rng):
    nrows, ncols, n = grid(rng, 5)
    if rng.random() < 0.06:
        nrows = rng.choice([0, -1])
        n = max(nrows * ncols, 0)
    maxacc = rng.choice([0, 1, 2, 3, 10, 100])
    field = fls(rng, n, nan=0.03)
    acc = list(field) if rng.random() < 0.8 else fls(rng, n)
    return [nrows, ncols, rng.choice([1, 3, 1000]), maxacc, rng.choice([-1.0, NAN, 0.0]),
            codes(rng), flowdir(rng, n, 0.02), field, acc]


def g_intersect(rng):
    nrows, ncols, n = grid(rng)
    xll, yll, csz = geom(rng)
    nval = rng.randint(0, 8)
    pts = coords_near(rng, nrows, ncols, xll, yll, csz, nval)
    return [nrows, ncols, xll, yll, csz, rng.choice([csz, csz / 2, 0.3, 1.0]), nval, pts,
            nval, junk_i(1), junk_i(nval), junk_f(nval)]


def g_voronoi(rng):
    nrows, ncols, n = grid(rng)
    xll, yll, csz = geom(rng)
    npoints = rng.randint(1, 6)
    ncells = rng.randint(0, npoints)
    return [nrows, ncols, xll, yll, csz, ncells, [rng.randrange(n) for _ in range(ncells)],
            npoints, coords_near(rng, nrows, ncols, xll, yll, csz, npoints), junk_f(npoints)]


def g_slope(rng):
    nrows, ncols, n = grid(rng, 5)
    if rng.random() < 0.05:
        nrows, n = 0, 0
    return [nrows, ncols, rng.choice([1, 4, 1000]), rng.choice([1.0, 0.5, 30.0, 0.0]),
            codes(rng), flowdir(rng, n, 0.02), fls(rng, n, nan=0.03), junk_f(n)]


def g_celldist(rng):
    nrows, ncols, n = grid(rng)
    return [nrows, ncols, cellnum(rng, n, 0.1), cellnum(rng, n, 0.1)]


def g_delineate_area(rng):
    nrows, ncols, n = grid(rng, 5)
    ninlets = rng.randint(0, 3)
    nval = rng.choice([0, 1, 2, 3, n, n + 1, 2 * n])
    return [nrows, ncols, codes(rng), flowdir(rng, n, 0.02), cellnum(rng, n, 0.08),
            ninlets, [cellnum(rng, n, 0.05) for _ in range(ninlets)],
            nval, junk_i(nval), junk_i(nval), junk_i(nval)]


def g_delineate_boundary(rng):
    nrows, ncols, n = grid(rng, 6)
    k = rng.randint(1, n)
    if rng.random() < 0.7:
        # a connected blob
        cells = {rng.randrange(n)}
        while len(cells) < k:
            c = rng.choice(sorted(cells))
            cand = [c - 1, c + 1, c - ncols, c + ncols]
            cand = [x for x in cand if 0 <= x < n and not (abs(x - c) == 1 and x // ncols != c // ncols)]
            if not cand:
                break
            cells.add(rng.choice(cand))
    else:
        cells = set(rng.sample(range(n), k))
    area = sorted(cells)
    rng.shuffle(area)
    mask = [1 if i in cells else 0 for i in range(n)]
    if rng.random() < 0.05 and area:
        mask[area[-1]] = 0
    nval = len(area) if rng.random() < 0.95 else 0
    return [nrows, ncols, nval, area, junk_i(len(area)), mask, junk_i(len(area))]


def g_exclude(rng):
    nval = rng.randint(0, 7)
    return [nval, rng.choice([1e-10, 0.5]), fls(rng, 2 * nval), junk_i(nval)]


def g_river(rng):
    nrows, ncols, n = grid(rng, 5)
    xll, yll, csz = geom(rng)
    nval = rng.randint(0, 2 * n)
    return [nrows, ncols, xll, yll, csz, codes(rng), flowdir(rng, n, 0.02), cellnum(rng, n, 0.08),
            nval, junk_i(1), junk_i(nval), junk_f(5 * nval)]


def g_flowpath(rng):
    nrows, ncols, n = grid(rng, 5)
    nval = rng.randint(0, n + 2)
    return [nrows, ncols, codes(rng), flowdir(rng, n, 0.02), nval,
            [cellnum(rng, n, 0.05) for _ in range(nval)], cellnum(rng, n, 0.05), junk_f(3 * nval)]


def g_inside(rng):
    nv = rng.randint(1, 7)
    npts = rng.randint(0, 8)
    c = rng.randrange(3)
    if c == 0:
        poly = [float(rng.randint(-3, 3)) for _ in range(2 * nv)]
    elif c == 1:
        poly = [round(rng.uniform(-3, 3), 1) for _ in range(2 * nv)]
    else:
        poly = fls(rng, 2 * nv)
    xs, ys = poly[0::2], poly[1::2]
    pts = []
    for _ in range(npts):
        if rng.random() < 0.4:
            pts += [rng.choice(xs), rng.choice(ys)]
        elif rng.random() < 0.5:
            pts += [float(rng.randint(-4, 4)), float(rng.randint(-4, 4))]
        else:
            pts += [rng.uniform(-4, 4), rng.uniform(-4, 4)]
    if rng.random() < 0.9:
        xlim, ylim = [min(xs), max(xs)], [min(ys), max(ys)]
    else:
        xlim, ylim = [-1.0, 1.0], [-1.0, 1.0]
    return [rng.choice([0, 0, 1, 3]), npts, pts, nv, poly, rng.choice([1e-8, 1e-3, 0.0, 1.5]),
            xlim, ylim, [rng.choice([0, 1, 5]) for _ in range(npts)]]


def incr_index(rng, n, bad=0.05):
    out, cur = [], rng.randint(-2, 3)
    for _ in range(n):
        r = rng.random()
        if r < 0.45:
            cur += rng.choice([1, 1, 2, 5])
        elif r < 0.45 + bad:
            cur -= 1
        out.append(cur)
    return out


def g_aggregate(rng):
    nval = rng.randint(1, 14)
    return [nval, rng.choice([0, 1, 2, 3, 3, 2, 1, 4, -1]), rng.choice([0, 0, 1, 2, 100]),
            incr_index(rng, nval), fls(rng, nval, nan=0.2), junk_f(nval), junk_i(1)]


def g_combi(rng):
    return [rng.randint(-3, 62), rng.randint(-3, 35)]


def g_flathomogen(rng):
    nval = rng.randint(1, 14)
    return [nval, rng.choice([0, 0, 1, 2, 100]), incr_index(rng, nval),
            fls(rng, nval, nan=0.2), junk_f(nval)]


def g_year(rng):
    return [rng.choice([1900, 2000, 2004, 2023, 2100, 1, 0, -4, -100, rng.randint(-500, 3000)])]


def g_daysinmonth(rng):
    return g_year(rng) + [rng.randint(-1, 14)]


def g_dayofyear(rng):
    return [rng.randint(-1, 14), rng.randint(-1, 33)]


def g_date(rng):
    return [g_year(rng)[0], rng.choice([1, 2, 2, 11, 12, 12, 0, 13, rng.randint(1, 12)]),
            rng.choice([1, 15, 27, 28, 29, 30, 31, 32, 0])]


def g_add1(rng):
    return [g_date(rng)]


def g_getdate(rng):
    y, m, d = g_date(rng)
    if rng.random() < 0.8:
        day = float(abs(y) * 10000 + m * 100 + d)
    else:
        day = rng.choice([0.0, 19000000.5, 20231301.0, -20200101.0, 123.0, rng.uniform(0, 3e7)])
    return [day, junk_i(3)]


def g_comparedates(rng):
    a = g_date(rng)
    b = list(a) if rng.random() < 0.3 else g_date(rng)
    if rng.random() < 0.3:
        b = list(a)
        b[rng.randrange(3)] += rng.choice([-1, 1])
    return [a, b]


def g_islin(rng):
    nval = rng.randint(2, 16)
    c = rng.randrange(3)
    if c == 0:
        data = fls(rng, nval, nan=0.1)
    else:
        # piecewise linear stretches
        data, v = [], rng.uniform(0, 5)
        slope = rng.choice([0.0, 0.5, 1.0])
        for i in range(nval):
            if rng.random() < 0.2:
                slope = rng.choice([0.0, 0.5, -0.25, 1.0, rng.uniform(-1, 1)])
            v = v + slope
            data.append(NAN if rng.random() < 0.05 else v)
    return [nval, rng.choice([0.0, 1.0, -1.0, 2.5]), rng.choice([1e-5, 1e-9, 0.1, 0.0]),
            rng.choice([1, 2, 3, 5]), data, junk_i(nval)]


def g_var2h(rng):
    per = rng.choice([3600, 3600, 1800, 1800, 600])
    rain = rng.choice([0, 1, 0, 1, 2, -1])
    nvalh = rng.randint(0, 6)
    hstart = rng.choice([0, 3600, 86400, 1000000 * 3600])
    nvar = rng.randint(2, 14)
    t = hstart - rng.randint(0, 4000)
    secs = []
    for _ in range(nvar):
        secs.append(t)
        t += rng.choice([0, 60, 600, 900, 1800, 3600, 3600, 7200, 10000, rng.randint(1, 5000)])
    if rng.random() < 0.05 and nvar > 3:
        i = rng.randrange(1, nvar - 1)
        secs[i], secs[i + 1] = secs[i + 1], secs[i]
    if secs[-1] <= hstart:
        secs[-1] = hstart + 1 + rng.randint(0, 5000)      # the initial search must stop inside the array
    if rng.random() < 0.04:
        secs = [s + (hstart - secs[0]) + 5 for s in secs]  # hstart before the first time stamp
    vals = [NAN if rng.random() < 0.06 else rng.choice([0.0, 1.0, 2.5, rng.uniform(0, 10), -1.0, -1e-9])
            for _ in range(nvar)]
    return [nvar, nvalh, per, rain, 0, rng.choice([3600, 7200, 100000, 10]), secs, vals, hstart,
            junk_f(nvalh)]


def g_armodel(rng):
    nparams = rng.choice([1, 1, 2, 2, 3, 5, 10, 0, -1, 11])
    npar = max(0, min(nparams, 12))
    params = [rng.choice([0.0, 0.5, -0.3, 0.9, rng.uniform(-1, 1)]) for _ in range(npar)]
    if params and rng.random() < 0.05:
        params[rng.randrange(npar)] = NAN
    nval = rng.randint(0, 12)
    mean = NAN if rng.random() < 0.03 else rng.choice([0.0, 1.5, -2.0, rng.uniform(-5, 5)])
    ini = NAN if rng.random() < 0.03 else rng.choice([0.0, mean if mean == mean else 0.0, rng.uniform(-5, 5)])
    return [nval, nparams, mean, ini, params, fls(rng, nval, nan=0.12), junk_f(nval)]


def g_pareto(rng):
    nval, ncol = rng.randint(0, 7), rng.randint(0, 4)
    c = rng.randrange(3)
    if c == 0:
        data = [float(rng.randint(0, 3)) for _ in range(nval * ncol)]
    else:
        data = fls(rng, nval * ncol, nan=0.08, ties=0.4)
    return [nval, ncol, rng.choice([1, -1, 1, -1, 0, 2]), data, junk_i(nval)]


def g_olsleverage(rng):
    nval, npreds = rng.randint(0, 6), rng.randint(0, 4)
    return [nval, npreds, fls(rng, nval * npreds, nan=0.03), fls(rng, npreds * npreds), junk_f(nval)]


def g_crps(rng):
    nval, ncol = rng.randint(0, 6), rng.randint(1, 6)
    sorted_in = rng.random() < 0.4
    sim = []
    for _ in range(nval):
        row = fls(rng, ncol, nan=0.02, ties=0.3)
        if sorted_in and not any(x != x for x in row) and rng.random() < 0.9:
            row = sorted(row)
        sim += row
    usew = rng.choice([0, 1])
    w = [rng.choice([1.0 / max(nval, 1), rng.uniform(0, 1), 0.0]) for _ in range(nval)]
    dec = [0.0] * 5 if rng.random() < 0.8 else fls(rng, 5)
    return [nval, ncol, usew, 1 if sorted_in else 0, fls(rng, nval, nan=0.03), sim, w,
            junk_f((ncol + 1) * 7), dec]


def g_ensrank(rng):
    nval, ncol = rng.randint(0, 5), rng.randint(0, 4)
    if rng.random() < 0.1:
        nval = rng.randint(5, 9)
    c = rng.randrange(3)
    if c == 0:
        sim = [float(rng.randint(0, 3)) for _ in range(nval * ncol)]
    elif c == 1:
        sim = [round(rng.uniform(0, 2), 1) + rng.choice([0, 1e-9, -1e-9, 5e-9]) for _ in range(nval * ncol)]
    else:
        sim = fls(rng, nval * ncol, nan=0.02, ties=0.4)
    return [rng.choice([1e-8, 1e-8, 1e-6, 0.1, 1e-21, 0.0]), nval, ncol, sim,
            junk_f(nval * nval), junk_f(nval)]


# name -> (generator, flags)   flags: "ub" = undefined behaviour reachable for admissible inputs
KERNELS = {
    "getnxy": (g_getnxy, ""),
    "getcoord": (g_getcoord, ""),
    "clipd": (g_clipd, ""),
    "clipi": (g_clipi, ""),
    "c_coord2cell": (g_coord2cell, ""),
    "c_cell2rowcol": (g_cell2rowcol, ""),
    "c_cell2coord": (g_cell2coord, ""),
    "c_neighbours": (g_neighbours, ""),
    "c_slice": (g_slice, ""),
    "c_upstream": (g_upstream, ""),
    "c_downstream": (g_downstream, ""),
    "c_accumulate": (g_accumulate, ""),
    "c_intersect": (g_intersect, ""),
    "c_voronoi": (g_voronoi, ""),
    "c_slope": (g_slope, ""),
    "celldist": (g_celldist, ""),
    "c_delineate_area": (g_delineate_area, ""),
    "c_delineate_boundary": (g_delineate_boundary, "ub"),
    "c_exclude_zero_area_boundary": (g_exclude, ""),
    "c_delineate_river": (g_river, ""),
    "c_delineate_flowpathlengths_in_catchment": (g_flowpath, ""),
    "c_inside": (g_inside, ""),
    "c_aggregate": (g_aggregate, ""),
    "c_combi": (g_combi, ""),
    "c_flathomogen": (g_flathomogen, ""),
    "c_dateutils_isleapyear": (g_year, ""),
    "c_dateutils_daysinmonth": (g_daysinmonth, ""),
    "c_dateutils_dayofyear": (g_dayofyear, ""),
    "c_dateutils_add1month": (g_add1, ""),
    "c_dateutils_add1day": (g_add1, ""),
    "c_dateutils_getdate": (g_getdate, ""),
    "c_dateutils_comparedates": (g_comparedates, ""),
    "c_islin": (g_islin, ""),
    "c_var2h": (g_var2h, ""),
    "c_armodel_sim": (g_armodel, ""),
    "c_armodel_residual": (g_armodel, ""),
    "c_paretofront": (g_pareto, ""),
    "c_olsleverage": (g_olsleverage, ""),
    "c_crps": (g_crps, ""),
    "c_ensrank": (g_ensrank, ""),
}

# translated but not executable in binary64 (they call exp / log, which NumOps does not have)
NOT_EXECUTABLE = ["c_eckhardt", "c_ad_test", "ADtest", "AD", "adinf", "errfix", "ADinf", "ADf",
                  "c_ad_probexactinf", "c_ad_probn", "c_ad_probapproxinf"]


# ----------------------------------------------------------------------------
# calling the compiled kernels

CT = {"int": ctypes.c_int, "long long": ctypes.c_longlong, "double": ctypes.c_double}


def signatures(repo):
    """name -> (return C type, [(param name, C type, is pointer)]) from clang's AST"""
    tu = ctrans.TU(repo)
    sigs = {}
    for u in tu.units:
        for name, static, node in u.funcs:
            if static:
                continue
            m = re.match(r"(.*?)\s*\(", node["type"]["qualType"])
            ps = []
            for c in node.get("inner", []):
                if c["kind"] == "ParmVarDecl":
                    t = c["type"]["qualType"].replace("const ", "").strip()
                    ptr = t.endswith("*")
                    ps.append((c.get("name"), t.rstrip("* ").strip(), ptr))
            sigs[name] = (m.group(1).strip(), ps)
            # error returns `BASE + __LINE__`: the translation abstracts __LINE__ to 1, so a return
            # value in (BASE, BASE + number of lines] of a function that uses __LINE__ is compared
            # by class (positive) only
            rng = node.get("range", {})
            b = (rng.get("begin", {}).get("offset"), rng.get("end", {}).get("offset"))
            body = u.src[b[0]:b[1]] if None not in b else b""
            bases = [int(x) for x in re.findall(rb"#define\s+\w*ERROR\w*\s+(\d+)", _unit_text(u))]
            LINE_RET[name] = (bases, u.src.count(b"\n") + 2) if b"__LINE__" in body else None
    return sigs


LINE_RET = {}


def _unit_text(u):
    """the C file and the headers beside it (where the *_ERROR bases are defined)"""
    txt = u.src
    for h in sorted(u.path.parent.glob("*.h")):
        try:
            txt += b"\n" + h.read_bytes()
        except OSError:
            pass
    return txt


def is_line_code(name, ret):
    spec = LINE_RET.get(name)
    if not spec or not isinstance(ret, int) or ret <= 0:
        return False
    bases, nlines = spec
    return any(b < ret <= b + nlines for b in bases)


class Guarded:
    """a C array with guard zones on both sides"""

    def __init__(self, ctype, values):
        self.ctype, self.n = ctype, len(values)
        self.buf = (ctype * (self.n + 2 * GUARD))()
        self.pat = 0x5A5A5A5A if ctype is not ctypes.c_double else -1.2345e300
        for i in range(GUARD):
            self.buf[i] = self.pat
            self.buf[GUARD + self.n + i] = self.pat
        for i, v in enumerate(values):
            self.buf[GUARD + i] = v
        self.ptr = ctypes.cast(ctypes.addressof(self.buf) + GUARD * ctypes.sizeof(ctype),
                               ctypes.POINTER(ctype))

    def values(self):
        return [self.buf[GUARD + i] for i in range(self.n)]

    def guards_intact(self):
        return all(self.buf[i] == self.pat and self.buf[GUARD + self.n + i] == self.pat
                   for i in range(GUARD))


def call_kernel(lib, name, sig, args):
    rt, ps = sig
    if len(ps) != len(args):
        raise RuntimeError(f"{name}: specification has {len(args)} arguments, the C function {len(ps)}")
    cargs, arrays = [], []
    for (pn, ct, ptr), v in zip(ps, args):
        if ct not in CT:
            raise RuntimeError(f"{name}: parameter type {ct}")
        if ptr:
            g = Guarded(CT[ct], v)
            arrays.append((ct, g))
            cargs.append(g.ptr)
        else:
            cargs.append(CT[ct](v))
    f = getattr(lib, name)
    f.restype = CT[rt]
    f.argtypes = None
    ret = f(*cargs)
    intact = all(g.guards_intact() for _, g in arrays)
    outs = [(ct, g.values()) for ct, g in arrays]
    return ret, outs, intact


# ----------------------------------------------------------------------------
# Coq terms

def cf(x):
    t = cm.coq_float(x)
    return t if t in ("nan", "infinity", "neg_infinity", "neg_zero") else f"{t}%float"


def cz(n):
    return cm.coq_z(n)


def case_term(name, sig, args, ret, outs):
    rt, ps = sig
    a = []
    for (pn, ct, ptr), v in zip(ps, args):
        if ptr:
            if ct == "double":
                a.append("AVArrF [" + "; ".join(cf(x) for x in v) + "]")
            else:
                a.append("AVArrI [" + "; ".join(cz(x) for x in v) + "]")
        elif ct == "double":
            a.append(f"AVF {cf(v)}")
        else:
            a.append(f"AVI {cz(v)}")
    o = []
    for ct, v in outs:
        if ct == "double":
            o.append("VArrF [" + "; ".join(cf(x) for x in v) + "]")
        else:
            o.append("VArrI [" + "; ".join(cz(x) for x in v) + "]")
    r = f"ExpF {cf(ret)}" if rt == "double" else ("ExpPos" if is_line_code(name, ret) else f"ExpI {cz(ret)}")
    return f'mkTcase "{name}" [{"; ".join(a)}] ({r}) [{"; ".join(o)}]'


HEADER = """From Coq Require Import ZArith List String PrimFloat.
From Hy Require Import Base.Num Base.MiniC Gen.KernelsAst.
Import ListNotations.
Open Scope string_scope.
Definition fuel : nat := Z.to_nat 50000%Z.
"""


PROGRAM = ["program"]      # "program_chk" while the overflow-checked translation is being tied


def run_shards(tag, terms, shard=120, timeout=900):
    """-> list of verdicts (0 agree, 1 differ, 2 interpreter error, None = shard failed), logs"""
    d = cm.scratch() / f"tie_{tag}_{len(list(cm.scratch().glob('tie_*')))}"
    d.mkdir()
    files = []
    for si in range(0, len(terms), shard):
        chunk = terms[si: si + shard]
        p = d / f"Tie_{re.sub(r'[^A-Za-z0-9]', '_', tag)}_{si // shard}.v"
        prog = PROGRAM[0]
        head = HEADER.replace("Gen.KernelsAst.", "Gen.KernelsAst Gen.KernelsAstChk.") if prog != "program" else HEADER
        p.write_text(head + "Definition cases : list tcase := [\n" + ";\n".join(chunk) + "].\n"
                     f"Definition verdicts := Eval vm_compute in (map (tie_verdict {prog} fuel) cases).\n"
                     "Print verdicts.\n"
                     f"Example agree : map (tie_verdict {prog} fuel) cases = verdicts.\n"
                     "Proof. vm_cast_no_check (eq_refl verdicts). Qed.\n")
        files.append((si, len(chunk), p))
    return files


def parse_verdicts(out, n):
    m = re.search(r"verdicts\s*=\s*\[(.*?)\]\s*:\s*list Z", out, re.S)
    if not m:
        return None
    vs = [int(x) for x in re.findall(r"-?\d+", re.sub(r"%Z", "", m.group(1)))]
    return vs if len(vs) == n else None


def ensure_ast():
    """Gen/KernelsAst.v and Gen/KernelsAstChk.v of the tree under test, compiled"""
    from harness.extractors import minic, minic_chk
    lk = cm._lock()
    try:
        for mod, name in ((minic, "KernelsAst"), (minic_chk, "KernelsAstChk")):
            text = mod.render(cm.REPO)
            p = cm.COQ / "Gen" / f"{name}.v"
            if not p.exists() or p.read_text() != text:
                p.write_text(text)
    finally:
        lk.close()
    ok, log = cm.coq_make(["Gen/KernelsAst.vo", "Gen/KernelsAstChk.vo"], timeout=900)
    if not ok:
        raise RuntimeError("Gen/KernelsAst(Chk).vo does not build:\n" + log[-2000:])


def run(names=None, n=200, seed="0", checked=False):
    """Run the tie for the kernels `names` (default: all).  -> dict
    {"kernels": {name: {"cases", "mismatches", "ub", "nonzero", "first": (index, what, term) | None,
                        "status": str (only when skipped)}},
     "failed_shards": [(name, shard, log)], "not_executable": {name: str}, "bad": int, "wall_s": float}"""
    t0 = time.time()
    PROGRAM[0] = "program_chk" if checked else "program"
    ensure_ast()
    rep = dict(ctrans.report(cm.REPO))
    lib = ctypes.CDLL(str(cm.build_kernel_lib()))
    sigs = signatures(cm.REPO)
    names = list(names) if names else list(KERNELS)
    # silence the kernels' progress messages
    sys.stdout.flush()
    devnull = os.open(os.devnull, os.O_WRONLY)
    saved = os.dup(1)
    jobs, info = [], {}
    try:
        os.dup2(devnull, 1)
        for name in names:
            if name not in KERNELS:
                raise SystemExit(f"unknown kernel {name}")
            if name not in sigs:
                info[name] = {"status": "absent from the tree"}
                continue
            if rep.get(name, "absent") is not None:
                info[name] = {"status": f"untranslated: {rep.get(name)}"}
                continue
            gen, flags = KERNELS[name]
            rng = random.Random(f"tie:{name}:{seed}")
            terms, intact_flags, nz = [], [], 0
            for _ in range(n):
                args = gen(rng)
                ret, outs, intact = call_kernel(lib, name, sigs[name], args)
                terms.append(case_term(name, sigs[name], args, ret, outs))
                intact_flags.append(intact)
                nz += 1 if ret != 0 else 0
            info[name] = {"flags": flags, "intact": intact_flags, "terms": terms, "nonzero": nz,
                          "verdicts": [None] * len(terms)}
            for si, k, p in run_shards(name, terms):
                jobs.append((name, si, k, p))
        libc = ctypes.CDLL(None)
        libc.fflush(None)
    finally:
        os.dup2(saved, 1)
        os.close(devnull)

    def one(job):
        name, si, k, p = job
        rc, out = cm.coqc_file(p, timeout=900)
        return job, rc, out

    failed = []
    with ThreadPoolExecutor(max_workers=cm.NCPU) as ex:
        for (name, si, k, p), rc, out in ex.map(one, jobs):
            vs = parse_verdicts(out, k) if rc == 0 else None
            if vs is None:
                failed.append((name, si, out[-1500:]))
                continue
            info[name]["verdicts"][si: si + k] = vs
    res = {"kernels": {}, "failed_shards": failed, "not_executable": {}, "bad": 0}
    for name in names:
        inf = info[name]
        if "status" in inf:
            res["kernels"][name] = {"cases": 0, "mismatches": 0, "ub": 0, "nonzero": 0, "first": None,
                                    "status": inf["status"]}
            res["bad"] += 1
            continue
        mism, ub, first = 0, 0, None
        for i, (v, intact) in enumerate(zip(inf["verdicts"], inf["intact"])):
            if v == 0 and intact:
                continue
            if v == 2 and (not intact or "ub" in inf["flags"]):
                ub += 1
                continue
            mism += 1
            if first is None:
                what = {None: "case file failed", 1: "different result", 2: "interpreter error",
                        0: "agree"}[v]
                if not intact:
                    what += ", compiled code wrote outside its buffers"
                first = (i, what, inf["terms"][i])
        res["bad"] += mism
        res["kernels"][name] = {"cases": len(inf["terms"]), "mismatches": mism, "ub": ub,
                                "nonzero": inf["nonzero"], "first": first}
    for name in NOT_EXECUTABLE:
        if name in rep:
            res["not_executable"][name] = "translated" if rep[name] is None else "untranslated: " + rep[name]
    res["wall_s"] = round(time.time() - t0, 1)
    return res


def check(ctx, kernels, n=None, checked=False):
    """Obligation of a property check: the MiniC translation of `kernels` (regenerated from the
    tree under test) executes, in binary64 inside Coq, exactly like the compiled kernels on
    `n` generated argument lists each.  A disagreement is reported (the translator, the
    interpreter or the refinement hypotheses no longer describe the code)."""
    n = n or (200 if ctx.thorough else 40)
    res = run(kernels, n=n, seed=str(ctx.seed), checked=checked)
    tag = "MiniC tie (overflow-checked program_chk)" if checked else "MiniC tie"
    summary = {}
    for name, k in res["kernels"].items():
        ok = k["mismatches"] == 0 and "status" not in k
        ctx.obligation(f"{tag} {name}: interpreter = compiled kernel on {k['cases']} cases", ok)
        summary[name] = {x: k[x] for x in ("cases", "mismatches", "ub", "nonzero")}
        if "status" in k:
            summary[name]["status"] = k["status"]
        if not ok:
            first = k["first"]
            ctx.failure(f"{ctx.pid}/minic-tie{'-chk' if checked else ''}/{name}",
                        {"broken": f"MiniC translation of {name} vs compiled kernel",
                         "status": k.get("status"), "mismatches": k["mismatches"],
                         "first": None if first is None else {"index": first[0], "what": first[1],
                                                              "case": first[2][:4000]}},
                        f"the MiniC translation of {name} and the compiled kernel disagree "
                        f"({k.get('status') or k['mismatches']})", nofail=True)
    for name, si, log in res["failed_shards"]:
        ctx.obligation(f"MiniC tie shard {name}/{si} compiled", False)
        ctx.failure(f"{ctx.pid}/minic-tie-shard", {"broken": f"tie shard {name}/{si}", "log": log},
                    "a MiniC tie case file failed to compile", nofail=True)
    ctx.notes["minic_tie_chk" if checked else "minic_tie"] = summary
    return res["bad"] == 0 and not res["failed_shards"]


def main(argv=None):
    ap = argparse.ArgumentParser()
    ap.add_argument("--kernel", action="append")
    ap.add_argument("--n", type=int, default=200)
    ap.add_argument("--seed", default=os.environ.get("VERIF_SEED", "0"))
    ap.add_argument("--keep", action="store_true", help="print the scratch directory and keep it")
    ap.add_argument("--checked", action="store_true", help="tie the overflow-checked translation program_chk")
    a = ap.parse_args(argv)
    res = run(a.kernel, n=a.n, seed=a.seed, checked=a.checked)
    total = 0
    for name, k in res["kernels"].items():
        if "status" in k:
            print(f"{name} cases=0 mismatches=0 SKIPPED ({k['status']})")
            continue
        total += k["cases"]
        line = (f"{name} cases={k['cases']} mismatches={k['mismatches']} ub={k['ub']} "
                f"nonzero_returns={k['nonzero']}")
        if k["first"] is not None:
            line += f"  first: #{k['first'][0]} ({k['first'][1]})"
        print(line)
        if k["first"] is not None:
            print("    " + k["first"][2][:1500])
    for name, si, log in res["failed_shards"][:3]:
        print(f"-- shard {name}/{si} failed:\n{log}")
    if a.kernel is None:
        for name, st in res["not_executable"].items():
            print(f"{name} cases=0 not-executable-in-F64 ({st})")
    print(f"total: {total} cases, {res['bad']} mismatches, {res['wall_s']} s")
    if a.keep:
        cm._SCRATCH = None
        print("scratch kept")
    return 1 if (res["bad"] or res["failed_shards"]) else 0


if __name__ == "__main__":
    sys.exit(main())
