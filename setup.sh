#!/bin/bash
# Build the framework from files on disk only (offline).
set -e
cd "$(dirname "$0")"
export PYTHONPATH=/verif PYTHONHASHSEED=0
# no forbidden declarations anywhere in the development
if grep -rnE '\b(Admitted|admit|Axiom|Parameter|Conjecture|Admit Obligations)\b|Unset Guard|bypass_check|type-in-type|impredicative-set' coq --include='*.v' | grep -v '^coq/Gen/'; then
  echo "forbidden declaration found" >&2; exit 2
fi
/venv/bin/python - <<'PY'
import json, sys
from harness import common as cm
cm.regenerate_consts(needed=[])          # base constants only (fail-closed)
import importlib
for f in sorted((cm.VERIF / "harness" / "extractors").glob("*.py")):
    if f.stem.startswith("_"):
        continue
    try:                                   # every extractor on its own: one that fails leaves
        cm.regenerate_consts(needed=[f.stem])   # its Gen file as it is and only breaks the checks needing it
    except Exception as e:
        print(f"setup: extractor {f.stem} failed: {e}")
cm.build_ext()
man = json.load(open(cm.VERIF / "MANIFEST.json"))
targets = [f"Props/{c['property_id']}.vo" for c in man["checks"]]
# everything (keep going), then insist on the targets of the claimed checks
ok, log = cm.coq_make(["-k"], timeout=3000)
if not ok:
    print(log[-3000:])
ok, log = cm.coq_make(targets, timeout=3000)
print(log[-2000:])
raise SystemExit(0 if ok else 1)
PY
