# Generates the "safe execution of the regenerated program" section of coq/Props/C05.v from the proof files:
# statements are printed by `Check` and re-checked in Props/C05.v (`exact @<lemma>`).  Output: /var/tmp/c05_section.v
import re, subprocess, sys
mods = {
 'SafeStat': ['safe_c_combi','safe_c_olsleverage','safe_ad_compare','safe_adinf','safe_errfix','safe_AD','safe_ADtest','safe_c_ad_test','safe_c_ad_probapproxinf','safe_c_ad_probn','safe_ADf_early','unsafe_ADf_cPhi','safe_ADinf_small','safe_c_ad_probexactinf_small'],
 'SafeData': ['safe_c_dateutils_isleapyear','safe_c_dateutils_daysinmonth','safe_c_dateutils_dayofyear','safe_c_dateutils_add1month','safe_c_dateutils_add1day','safe_c_dateutils_comparedates','safe_c_dateutils_getdate_reject','safe_c_dateutils_getdate','safe_c_dateutils_getdate_RN','safe_c_dateutils_getdate_RR','safe_c_islin','safe_c_eckhardt'],
 'SafeGis': ['safe_celldist','safe_stepsquaredist','safe_exclude_zero_area_boundary','safe_slope','safe_slice','safe_slice_reals_with_nan','safe_delineate_boundary','safe_delineate_boundary_reals'],
 'KernelSafety': ['safe_c_cell2rowcol','safe_c_cell2coord','safe_c_coord2cell','safe_c_neighbours','safe_c_aggregate','safe_c_flathomogen','safe_c_accumulate','safe_c_inside','safe_c_var2h_RN'],
 'KernelArmodel': ['kernel_armodel_memsafe'],
 'KernelFlow': ['kernel_flow_memsafe'],
}
HDR = '''From Coq Require Import ZArith Bool List String Lia Reals.
From Hy Require Import Base.Num Base.MiniC Gen.KernelsAst Gen.Consts Model.Grid.
From Hy Require Proofs.SafeStat Proofs.SafeData Proofs.SafeGis Proofs.KernelSafety Proofs.KernelArmodel Proofs.KernelFlow.
Import ListNotations.
Open Scope string_scope.
Open Scope list_scope.
Open Scope Z_scope.
'''
chk = HDR + "Set Printing Width 100.\nSet Printing Depth 1000.\n"
order = []
for m, names in mods.items():
    for n in names:
        chk += f'Check @{m}.{n}.\n'
        order.append((m, n))
open('/var/tmp/chk05.v','w').write(chk)
out = subprocess.run(['coqc','-Q','.','Hy','/var/tmp/chk05.v'],capture_output=True,text=True,cwd='/verif/coq')
if out.returncode: sys.exit(out.stdout+out.stderr)
txt = out.stdout
# split on lines starting with '@Mod.name' or 'Mod.name' followed by newline '     : '
blocks = re.split(r'\n(?=@?[A-Za-z]+\.[A-Za-z0-9_]+\n\s+:)', '\n'+txt)
res = {}
for b in blocks:
    b = b.strip('\n')
    if not b: continue
    head, rest = b.split('\n',1)
    name = head.lstrip('@').strip()
    ty = rest.strip()
    assert ty.startswith(':'), b[:200]
    res[name] = ty[1:].strip()
sys.stdout.write("(* GENERATED part: statements printed by `Check` from the proof files, re-checked here *)\n")
body = []
for m, n in order:
    ty = res[f'{m}.{n}']
    tn = 'C05_kernel_' + (n[5:] if n.startswith('safe_') else n)
    tn = tn.replace('C05_kernel_kernel_','C05_kernel_')
    body.append(f"Theorem {tn} :\n  {ty}.\nProof. exact @{m}.{n}. Qed.\nPrint Assumptions {tn}.\n")
open('/var/tmp/c05_section.v','w').write(HDR.replace('From Coq Require Import ZArith Bool List String Lia Reals.\n','From Coq Require Import String Lia.\n').replace('From Hy Require Import Base.Num Base.MiniC Gen.KernelsAst Gen.Consts Model.Grid.','From Hy Require Import Base.MiniC Gen.KernelsAst Gen.Consts Model.Grid.') + "\n" + "\n".join(body))
print(len(body), 'theorems')
