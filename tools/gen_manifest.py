#!/usr/bin/env python3
"""Writes /verif/MANIFEST.json from the per-property entries manifest.d/CXX.json
(keys: text, design, technique, note, optional prefix), so that the manifest
stays valid while checks are added.  Properties without an entry are listed
under not_applicable with the reason in NOT_YET (or manifest.d/CXX.na.txt)."""
import json
from pathlib import Path

VERIF = Path(__file__).resolve().parent.parent
ALL = [f"C{i:02d}" for i in range(1, 21)]

COMMON_NOTE = ("Trusted: Coq 8.16.1 kernel + vm_compute (no native_compute); stdlib axioms of the reals "
               "(ClassicalDedekindReals.sig_forall_dec, sig_not_dec, functional_extensionality_dep) where "
               "theorems are over R, as listed by Print Assumptions in the evidence; hand-written Gallina "
               "model tied to the code by (a) constants regenerated from the working tree into "
               "coq/Gen/*.v and (b) a sampled correspondence check evaluated inside Coq; gcc rebuild "
               "of the kernels with the pre-generated Cython wrapper C; harness generators and oracles. "
               "Floating-point accuracy clauses are tested, not proved. ")

REFINE_TEXT = ("Refinement to the code itself: the C source of {kernels} is translated on every run (clang AST -> "
               "MiniC deep embedding, Gen/KernelsAst.v) and theorems {theorems} prove, for all inputs (every length, "
               "every content, every initial buffer content{generic}), that the interpreter of the translated program "
               "returns exactly what the model returns{extra}; the property theorems are restated on the translated "
               "program. Translator + interpreter are compared bit-exactly with the compiled kernels on generated "
               "arguments inside Coq on every run.")
REFINE_TECH = (" + refinement proofs (symbolic execution of the MiniC interpreter with loop invariants) of the "
               "regenerated translation of the C kernels to the model + sampled binary64 tie interpreter = compiled kernel")

NOT_YET = "check not built yet; planned with the same technique (DESIGN.md section 5/8)"


def main():
    CHECKS = {}
    for pid in ALL:
        p = VERIF / "manifest.d" / f"{pid}.json"
        if p.exists():
            CHECKS[pid] = json.loads(p.read_text())
    checks = []
    for pid in ALL:
        if pid not in CHECKS:
            continue
        c = CHECKS[pid]
        checks.append({
            "property_id": pid,
            "quick_cmd": f"./check {pid} --tier quick",
            "thorough_cmd": f"./check {pid} --tier thorough",
            "evidence_file": f"/verif/evidence/{pid}.json",
            "replay_cmd_template": f"./check {pid} --replay {{path}}",
            "engine": "coq-model+correspondence",
            "level_claimed": {"category": "proof",
                              "text": c["text"] + ((" " + REFINE_TEXT.format(**c["refinement"])) if "refinement" in c else ""),
                              "design_ref": f"DESIGN.md section {c['design']}"},
            "level_note": c.get("prefix", "") + COMMON_NOTE + c["note"],
            "technique": c["technique"] + (REFINE_TECH if "refinement" in c else ""),
        })
    na = []
    for p in ALL:
        if p in CHECKS:
            continue
        r = VERIF / "manifest.d" / f"{p}.na.txt"
        na.append({"property_id": p, "reason": r.read_text().strip() if r.exists() else NOT_YET})
    man = {
        "version": 1,
        "setup_cmd": "./setup.sh",
        "hooks": {
            "guard": "HYDRODIY_VERIF",
            "enable": "no hook is needed: checks observe the kernels from outside (gcc/clang rebuild of the working tree into a scratch directory, PYTHONPATH override)",
            "baseline_off_cmd": "cd /repo && /venv/bin/python -m pytest -ra -q -p no:cacheprovider --timeout=900 --continue-on-collection-errors",
            "source_commits": [],
            "add_only": True,
        },
        "engines": [{
            "name": "coq-model+correspondence", "path": "/verif/check",
            "serves_properties": sorted(CHECKS),
            "kind_free_text": "Rocq/Coq 8.16.1 development under /verif/coq (Model/, Proofs/, Props/); "
                              "harness/ regenerates constants from the source, rebuilds the kernels, runs model "
                              "(vm_compute, PrimFloat) and implementation on the same cases, and searches for a "
                              "failing input with independent oracles",
        }],
        "checks": checks,
        "notes": "See DESIGN.md (section 9 = build log). known_findings.json / known_findings.d list recorded findings and fixed defects (all repaired by fix: commits in /repo; no open finding). seeded/ (244 changes written by independent sub-agents, with the outcome of the checks), seeded_hardening/, seeded_auto/ (classical one-token mutants) and seeded_harmless/ document what the checks detect and what leaves them silent; tools/try_mutant.sh <PID> <patch> runs a check against a changed scratch tree.",
        "not_applicable": na,
    }
    (VERIF / "MANIFEST.json").write_text(json.dumps(man, indent=1) + "\n")


if __name__ == "__main__":
    main()
