#!/usr/bin/env python3
"""Writes /verif/MANIFEST.json from the table below (kept in one place so the
manifest stays valid while checks are added)."""
import json
from pathlib import Path

VERIF = Path(__file__).resolve().parent.parent
ALL = [f"C{i:02d}" for i in range(1, 21)]

COMMON_NOTE = ("Trusted: Coq 8.16.1 kernel + vm_compute (no native_compute); stdlib axioms of the reals "
               "(ClassicalDedekindReals.sig_forall_dec, sig_not_dec, functional_extensionality_dep) where "
               "theorems are over R, as listed by Print Assumptions in the evidence; hand-written Gallina "
               "model tied to the code by (a) constants regenerated from the working tree into "
               "coq/Gen/Consts.v and (b) a sampled correspondence check evaluated inside Coq; gcc rebuild "
               "of the kernels with the pre-generated Cython wrapper C; harness generators and oracles. "
               "Floating-point accuracy clauses are tested, not proved. ")

CHECKS = {
    "C17": dict(
        text=("Theorems for every AR order 1..MAX, every series length and every NaN placement: the "
              "simulation kernel is the textbook recursion, residual(sim(e)) = e and sim(residual(y)) = y "
              "over the reals, missing innovations = zero innovations (any arithmetic instance), missing "
              "input => zero residual, rejections, accepted orders fit the C stack buffers (size "
              "re-extracted from the source). The model (generic over the arithmetic) is run in binary64 "
              "inside Coq against the rebuilt kernels through the public API, bit-exact, on ~900 cases; an "
              "independent numerical oracle checks the recursion and inverse laws on the implementation."),
        design="5/C17",
        technique="Coq proof (induction over the series, refinement of the lag buffer to an unbounded history) + in-Coq binary64 correspondence",
        note="Default sim_mean of armodel_residual (numpy.nanmean) is glue computed by the harness."),
    "C19": dict(
        text=("Theorems for ALL 1 <= nbatch <= nelements: the concatenation of the batches in order is exactly "
              "0..n-1 (hence contiguous, ordered, disjoint, covering), sizes differ by at most one, rejected "
              "calls, SiteBatch.search returns the batch holding the site (any duplicate-free site list); the "
              "cartesian product enumerates every combination exactly once (NoDup, length, membership); "
              "find returns exactly the tasks whose option equals the value; from_dict(to_dict m) = m for "
              "any admissible key renaming and __eq__ holds in both directions. Model evaluated inside Coq "
              "against hyruns.py on ~6000 cases (all (n,k,i) with n<=26 exhaustively), exact comparison."),
        design="5/C19",
        technique="Coq proof (Z arithmetic with lia/nia, list induction) + in-Coq exact correspondence",
        note="numpy.array_split section sizes and re.search on metacharacter-free strings are modelled assumptions validated by the correspondence; json round trip is library code."),
    "C07": dict(
        text=("Theorems over the reals for every grid shape, origin and positive cell size: cell2coord is the "
              "centre of the cell numbered row by row from the top-left; every point of a cell's (closed-open) "
              "footprint maps to it; coord2cell(cell2coord c) = c; every point outside the extent on any side "
              "maps to -1 (refuted for the pinned kernel's truncation - fixed in /repo by a fix: commit); "
              "cell2rowcol inverts row*ncols+col; neighbours are symmetric with mirrored slots k<->8-k, "
              "off-grid -1; invalid cell numbers flagged. The same generic model runs in binary64 inside Coq "
              "against the rebuilt kernels (exact), integer operations exhaustively on all shapes up to 5x5; "
              "an exact rational oracle decides the float clauses (1e-9 margin) on the implementation."),
        design="5/C07",
        technique="Coq proof over R (floor lemmas, lia/nra) + in-Coq binary64 correspondence + exact rational oracle",
        note="Out-of-range double->long long casts are modelled by their x86-64 result (-1 after the range test)."),
    "C06": dict(
        text=("Theorems on EVERY grid (any shape, any cell contents): upstream and downstream are inverse "
              "relations (using distinctness of the eight direction codes re-extracted from grid.py and the "
              "mirrored-slot law), sinks -2 / unknown codes -1 / invalid cells error; the delineated area is "
              "exactly the outlet plus every cell whose downstream chain reaches the outlet without passing "
              "through an inlet (soundness + completeness by induction over breadth-first layers), empty when "
              "nothing drains to it, duplicate-free when the outlet is not on a cycle; on any grid (cycles "
              "included) the loop ends within its fuel (never a hang); flow-path lengths equal the length of "
              "the downstream chain (1 / sqrt 2 per step), 0 for the outlet; river traces are the downstream "
              "chain with cumulative distances. Correspondence: exhaustive over all grids of <= 3 cells x "
              "outlets x inlet subsets plus random grids to 8x8 (~86000 cases), exact, inside Coq; brute-force "
              "reachability oracle with an independent ESRI table."),
        design="5/C06",
        technique="Coq proof (layer induction, reachability characterisation, fuel bound) + in-Coq exhaustive/sampled correspondence + brute-force graph oracle",
        note="Hole filling (scipy binary_fill_holes) is not modelled: containment tested. The area model is at layer granularity (buffer-exhaustion errors derived from lengths), validated including error cases."),
}

NOT_YET = "check not built yet in this session; planned with the same technique (DESIGN.md section 5/8)"


def main():
    checks = []
    for pid in ALL:
        if pid not in CHECKS:
            continue
        c = CHECKS[pid]
        checks.append({
            "property_id": pid,
            "quick_cmd": f"./check {pid} --tier quick",
            "thorough_cmd": f"./check {pid} --tier thorough",
            "evidence_file": f"/verif/evidence/{pid}.json",
            "replay_cmd_template": f"./check {pid} --replay {{path}}",
            "engine": "coq-model+correspondence",
            "level_claimed": {"category": "proof", "text": c["text"],
                              "design_ref": f"DESIGN.md section {c['design']}"},
            "level_note": c.get("prefix", "") + COMMON_NOTE + c["note"],
            "technique": c["technique"],
        })
    man = {
        "version": 1,
        "setup_cmd": "./setup.sh",
        "hooks": {
            "guard": "HYDRODIY_VERIF",
            "enable": "no hook is needed: checks observe the kernels from outside (gcc/clang rebuild of the working tree into a scratch directory, PYTHONPATH override)",
            "baseline_off_cmd": "cd /repo && /venv/bin/python -m pytest -ra -q -p no:cacheprovider --timeout=900 --continue-on-collection-errors",
            "source_commits": [],
            "add_only": True,
        },
        "engines": [{
            "name": "coq-model+correspondence", "path": "/verif/check",
            "serves_properties": sorted(CHECKS),
            "kind_free_text": "Rocq/Coq 8.16.1 development under /verif/coq (Model/, Proofs/, Props/); "
                              "harness/ regenerates constants from the source, rebuilds the kernels, runs model "
                              "(vm_compute, PrimFloat) and implementation on the same cases, and searches for a "
                              "failing input with independent oracles",
        }],
        "checks": checks,
        "notes": "See DESIGN.md. known_findings.json lists recorded findings and fixed defects.",
        "not_applicable": [{"property_id": p, "reason": NOT_YET} for p in ALL if p not in CHECKS],
    }
    (VERIF / "MANIFEST.json").write_text(json.dumps(man, indent=1) + "\n")


if __name__ == "__main__":
    main()
