#!/bin/bash
# usage: tools/mk.sh [make targets relative to coq/]  - regenerates _CoqProject/Makefile, builds under the shared lock
cd /verif
PYTHONPATH=/verif /venv/bin/python - "$@" <<'PY'
import sys
from harness import common as cm
ok, log = cm.coq_make(sys.argv[1:], timeout=1800)
print(log[-6000:])
sys.exit(0 if ok else 1)
PY
