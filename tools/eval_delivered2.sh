#!/bin/bash
# usage: eval_delivered2.sh <PID> [first index=4] [tier]  - second round: evaluates the changes delivered in
# /var/tmp/mut2_<PID>/deliver/m{1,2}/ as seeded changes <PID>-m<first>, <PID>-m<first+1>
# (log /verif/out/eval2_<PID>.log, input of `MUT_SRC_TEMPLATE=/var/tmp/mut2_{pid} tools/keep_mutants.py`).
pid=$1; first=${2:-4}; tier=${3:-quick}
src=${MUT_SRC:-/var/tmp/mut2_$pid}
log=/verif/out/${EVAL_TAG:-eval2}_$pid.log
: > "$log"
for k in 1 2; do
  d=$src/deliver/m$k; n=$((first + k - 1))
  [ -f "$d/patch.diff" ] || continue
  cp "$d/patch.diff" "$src/m$n.diff"; cp "$d/demo.py" "$src/m${n}_demo.py"
  /venv/bin/python - "$d" "$src/m$n.json" <<'PY'
import json, sys, re, pathlib
d, out = sys.argv[1], sys.argv[2]
note = pathlib.Path(d, "note.txt").read_text().strip()
files = re.findall(r"^\+\+\+ b/(\S+)", pathlib.Path(d, "patch.diff").read_text(), re.M)
json.dump({"summary": note, "needs": "see summary (last sentences: what the breakage needs in order to manifest)", "files": files}, open(out, "w"), indent=1)
PY
  echo "=== $pid m$n" >> "$log"
  /verif/tools/try_mutant.sh "$pid" "$src/m$n.diff" "$src/m${n}_demo.py" "$tier" >> "$log" 2>&1
done
grep -E '^===|demo_on|missing=|check_rc|^VIOLATION' "$log" | cut -c1-300
