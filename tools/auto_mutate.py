#!/usr/bin/env python3
"""Classical mutation campaign on the code the properties are anchored in.

usage: auto_mutate.py plan  [K] [seed]     -> out/auto/plan.json   (K mutants per property)
       auto_mutate.py run   <index>        -> out/auto/<index>.json (one mutant: build, pinned suite, check)
       auto_mutate.py table                -> prints the table, writes out/auto/TABLE.md

Mutation operators (one token changed per mutant, only on code lines inside the anchor ranges of
properties.jsonl, +-3 lines because the fix: commits moved a few lines; .pyx files are skipped, they
cannot be rebuilt here):  ROR (< <= > >= == !=), AOR (+ <-> -), LCR (&& || and or), OBO (+1 / -1 dropped
or doubled), CONST (0.5 -> 0.25, 2 -> 3 in floating expressions is NOT done: too often equivalent).
A mutant that does not build or that the pinned suite kills is discarded (the brief is about changes
that still compile and pass the existing tests).  A surviving mutant that the check does not report is
either an equivalent mutant or a gap: survivors are reviewed by hand (DESIGN section 9)."""
import json
import os
import random
import re
import subprocess
import sys
from pathlib import Path

V = Path("/verif")
REPO = Path("/repo")
OUT = V / "out" / os.environ.get("AUTO_OUT", "auto")

ROR = [("<=", "<"), (">=", ">"), ("==", "!="), ("!=", "=="), ("<", "<="), (">", ">=")]
LCR = [("&&", "||"), ("||", "&&"), (" and ", " or "), (" or ", " and ")]


def find_file(name):
    hits = [p for p in (REPO / "src" / "hydrodiy").rglob(name) if "tests" not in p.parts]
    return hits[0] if hits else None


def anchor_ranges(prop):
    """[(path, lo, hi)] from the free-text `where` fields."""
    res = []
    for mech in prop["anchors"]["mechanism"]:
        for part in mech["where"].split(";"):
            m = re.search(r"([A-Za-z_0-9]+\.(?:py|c|pyx))", part)
            if not m:
                continue
            fname = m.group(1)
            if fname.endswith(".pyx"):
                continue
            path = find_file(fname)
            if path is None:
                continue
            rest = part[m.end():]
            for a, b in re.findall(r"(\d+)(?:-(\d+))?", rest):
                lo = int(a)
                hi = int(b) if b else lo
                res.append((path, max(1, lo - 3), hi + 3))
    return res


def code_lines(path, lo, hi):
    """(lineno, text) for lines that are code (not comments / docstrings / blank)."""
    lines = open(path, newline="").read().split("\n")
    is_py = path.suffix == ".py"
    indoc = False
    inc = False
    out = []
    for i, ln in enumerate(lines, 1):
        s = ln.strip()
        if is_py:
            q = s.count('"""') + s.count("'''")
            if indoc:
                if q % 2 == 1:
                    indoc = False
                continue
            if q % 2 == 1:
                indoc = True
                continue
            if q == 2 or s.startswith("#") or not s:
                continue
            if re.match(r"(raise|import|from|errmsg|error_msg|warnings|print|assert)\b", s) or "Error(" in s:
                continue
        else:
            if inc:
                if "*/" in s:
                    inc = False
                continue
            if s.startswith("/*"):
                if "*/" not in s:
                    inc = True
                continue
            if s.startswith("//") or not s or s.startswith("#") or "printf" in s:
                continue
        if lo <= i <= hi:
            out.append((i, ln))
    return out


def strip_strings(ln, is_py):
    # blank out string literals and trailing comments so that operators inside them are not mutated
    ln2 = re.sub(r"\"[^\"]*\"|'[^']*'", lambda m: " " * len(m.group(0)), ln)
    if is_py:
        k = ln2.find("#")
    else:
        k = ln2.find("//")
    if k >= 0:
        ln2 = ln2[:k] + " " * (len(ln2) - k)
    return ln2


def candidates(path, lo, hi):
    is_py = path.suffix == ".py"
    res = []
    for i, ln in code_lines(path, lo, hi):
        vis = strip_strings(ln, is_py)
        # ROR
        for m in re.finditer(r"<=|>=|==|!=|<|>", vis):
            tok = m.group(0)
            if tok in ("<", ">") and (not is_py) and re.search(r"#include", ln):
                continue
            if tok in ("<", ">") and vis[m.start() - 1:m.start() + 2] in ("->",) :
                continue
            if tok == ">" and m.start() > 0 and vis[m.start() - 1] == "-":
                continue
            if tok in ("<", ">") and (vis[m.end():m.end() + 1] in ("<", ">") or vis[m.start() - 1:m.start()] in ("<", ">")):
                continue
            rep = dict(ROR)[tok]
            res.append((i, m.start(), m.end(), rep, "ROR"))
        # LCR
        for a, b in LCR:
            for m in re.finditer(re.escape(a), vis):
                res.append((i, m.start(), m.end(), b, "LCR"))
        # AOR: binary + / - between operands (spaces or identifiers), not ++ -- += -= -> e+ e-
        for m in re.finditer(r"(?<=[\w\)\]\s])([+-])(?=[\s\w\(])", vis):
            st = m.start(1)
            if vis[st - 1:st] in "+-" or vis[st + 1:st + 2] in "+-=>":
                continue
            if re.search(r"\d[eE]$", vis[:st]):
                continue
            if vis[:st].rstrip().endswith(("(", ",", "=", "return", "[", "*", "/", "<", ">", ":")) or not vis[:st].strip():
                continue  # unary
            res.append((i, st, st + 1, "-" if m.group(1) == "+" else "+", "AOR"))
        # OBO: "+1" / "-1" dropped
        for m in re.finditer(r"\s*[+-]\s*1(?![\d.\w])", vis):
            if re.search(r"[eE]$", vis[:m.start()].rstrip()):
                continue
            if vis[:m.start()].rstrip().endswith(("(", ",", "=", "return", "[", "<", ">", ":")):
                continue
            res.append((i, m.start(), m.end(), "", "OBO"))
    return res


def plan(K, seed):
    rng = random.Random(seed)
    props = [json.loads(l) for l in open(V / "properties.jsonl")]
    allm = []
    for p in props:
        cands = []
        seen = set()
        for path, lo, hi in anchor_ranges(p):
            for c in candidates(path, lo, hi):
                key = (str(path), c[0], c[1], c[3])
                if key in seen:
                    continue
                seen.add(key)
                cands.append((path, c))
        rng.shuffle(cands)
        # balance operators a little: at most ceil(K/2) of one kind
        picked, kinds = [], {}
        for path, c in cands:
            if kinds.get(c[4], 0) >= (K + 1) // 2:
                continue
            picked.append((path, c))
            kinds[c[4]] = kinds.get(c[4], 0) + 1
            if len(picked) == K:
                break
        for path, c in picked:
            ln = open(path, newline="").read().split("\n")[c[0] - 1]
            allm.append({"property": p["id"], "file": str(path.relative_to(REPO)), "line": c[0],
                         "col": [c[1], c[2]], "new": c[3], "op": c[4], "old_line": ln.rstrip("\r"),
                         "new_line": (ln[:c[1]] + c[3] + ln[c[2]:]).rstrip("\r")})
    OUT.mkdir(parents=True, exist_ok=True)
    (OUT / "plan.json").write_text(json.dumps(allm, indent=1))
    print(len(allm), "mutants planned")


def sh(cmd, **kw):
    return subprocess.run(cmd, shell=True, capture_output=True, text=True, **kw)


def run(idx):
    allm = json.loads((OUT / "plan.json").read_text())
    m = allm[idx]
    res = dict(m, index=idx)
    try:   # one worker per mutant (several xargs pools may run)
        os.close(os.open(OUT / f"{idx}.lock", os.O_CREAT | os.O_EXCL))
    except FileExistsError:
        return {"index": idx, "status": "taken"}
    wt = f"/var/tmp/{os.environ.get('AUTO_OUT', 'auto')}_{idx}"
    sh(f"git -C /repo worktree remove --force {wt}; rm -rf {wt}")
    r = sh(f"/verif/tools/mk_worktree.sh {wt}")
    try:
        path = Path(wt) / m["file"]
        lines = open(path, newline="").read().split("\n")
        ln = lines[m["line"] - 1]
        lines[m["line"] - 1] = ln[:m["col"][0]] + m["new"] + ln[m["col"][1]:]
        open(path, "w", newline="").write("\n".join(lines))
        diff = subprocess.run(["git", "-C", wt, "diff"], capture_output=True).stdout   # bytes: the C files use CRLF
        (OUT / f"{idx}.diff").write_bytes(diff)
        if m["file"].endswith((".c", ".h")):
            b = sh(f"{wt}/REBUILD.sh")
            if b.returncode != 0:
                res["status"] = "does-not-build"
                return res
        else:
            b = sh(f"/venv/bin/python -m py_compile {path}")
            if b.returncode != 0:
                res["status"] = "does-not-build"
                return res
        t = sh(f"/verif/tools/run_baseline.sh {wt}")
        res["suite"] = t.stdout.strip().split("\n")[0]
        if "missing=0" not in t.stdout:
            res["status"] = "killed-by-pinned-suite"
            return res
        pid = m["property"]
        c = sh(f"SKIP_BASELINE=1 VERIF_NCPU={os.environ.get('VERIF_NCPU', '4')} /verif/tools/try_mutant.sh {pid} {OUT}/{idx}.diff")
        out = c.stdout
        rc = re.search(r"check_rc=(\d+)", out)
        res["check_rc"] = int(rc.group(1)) if rc else None
        res["keys"] = re.findall(r"key=(\S+)", out)
        res["no_input"] = out.count("no-failing-input-found")
        res["status"] = "survived-suite"
        return res
    finally:
        sh(f"git -C /repo worktree remove --force {wt}; rm -rf {wt}")
        if res.get("status") != "taken":
            (OUT / f"{idx}.json").write_text(json.dumps(res, indent=1))


def table():
    rows = [json.loads(p.read_text()) for p in sorted(OUT.glob("[0-9]*.json"), key=lambda p: int(p.stem))]
    from collections import Counter
    c = Counter()
    lines = ["| # | property | file:line | op | change | outcome |", "|---|---|---|---|---|---|"]
    for r in rows:
        if r.get("status") != "survived-suite":
            out = r.get("status")
        elif r.get("check_rc") is None:
            out = "check-not-run"
        elif r.get("check_rc") == 0:
            out = "NOT REPORTED"
        else:
            ks = r.get("keys", [])
            concrete = [k for k in ks if not re.search(r"/(proof|correspondence|minic-tie[^/]*)$", k)]
            out = "reported" + (" with input" if concrete else " (proof / tie only)")
        c[out] += 1
        lines.append(f"| {r['index']} | {r['property']} | {r['file'].split('/')[-1]}:{r['line']} | {r['op']} | "
                     f"`{r['old_line'].strip()[:60]}` -> `{r['new_line'].strip()[:60]}` | {out} |")
    lines.append("")
    lines.append(str(dict(c)))
    (OUT / "TABLE.md").write_text("\n".join(lines) + "\n")
    print("\n".join(lines))


if __name__ == "__main__":
    cmd = sys.argv[1]
    if cmd == "plan":
        plan(int(sys.argv[2]) if len(sys.argv) > 2 else 8, int(sys.argv[3]) if len(sys.argv) > 3 else 1)
    elif cmd == "run":
        print(json.dumps(run(int(sys.argv[2])))[:300])
    elif cmd == "table":
        table()
