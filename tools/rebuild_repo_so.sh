#!/bin/bash
# Rebuild the (git-ignored) extension modules in /repo/src from the working
# tree, so that the repository's own test suite exercises repaired kernels.
set -e
cd /verif
PYTHONPATH=/verif /venv/bin/python - <<'PY'
from harness import common as cm
import shutil
d = cm.build_ext()
for f in d.glob("*.so"):
    shutil.copy2(f, cm.REPO / "src" / f.name)
    print("installed", f.name)
PY
