#!/usr/bin/env python3
"""usage: rerun_record.py   Reads out/rerun/<name>.log written by tools/rerun_seeded.sh and records the outcome of
the PRESENT checks in seeded/<id>/meta.json (key `check_now`) and in seeded_hardening/RESULTS.json; prints the table."""
import json, re, sys
from pathlib import Path
V = Path("/verif")
rows = []
hard = {}
for log in sorted((V / "out/rerun").glob("*.log")):
    body = log.read_text()
    rc = re.search(r"check_rc=(\d+)", body)
    if not rc:
        rows.append((log.stem, "incomplete", [], 0)); continue
    keys = re.findall(r"^VIOLATION .*?key=(\S+)", body, re.M)
    noinput = len(re.findall(r"^VIOLATION .*no-failing-input-found", body, re.M))
    concrete = [k for k in keys if not re.search(r"/(proof|correspondence|minic-tie[^/]*|tie)(/|$)", k)]
    verdict = ("missed" if rc.group(1) == "0" else
               "reported with a concrete input" if (concrete or noinput < len(keys)) else
               "reported, no failing input found")
    rows.append((log.stem, verdict, keys, int(rc.group(1))))
    rec = {"rc": int(rc.group(1)), "violation_keys": keys, "verdict": verdict}
    if log.stem.startswith("H_"):
        hard[log.stem[2:]] = rec
    else:
        m = V / "seeded" / log.stem / "meta.json"
        if m.exists():
            d = json.loads(m.read_text()); d["check_now"] = rec
            m.write_text(json.dumps(d, indent=1) + "\n")
if hard:
    (V / "seeded_hardening/RESULTS.json").write_text(json.dumps(hard, indent=1) + "\n")
from collections import Counter
c = Counter(r[1] for r in rows)
for r in rows:
    print(f"{r[0]:14s} rc={r[3]} {r[1]:34s} {' '.join(r[2][:3])[:110]}")
print(dict(c))
