#!/bin/bash
# usage: try_mutant.sh <PID> <patch.diff> [demo.py] [tier]
# Applies the change to a scratch worktree of /repo HEAD (never to /repo), confirms
# that the demonstration passes without / fails with the change and that the pinned
# test suite still passes, then runs ./check <PID> against the changed tree.
# Evidence and replays of the run go to a scratch directory; /verif/evidence is untouched.
set -u
pid=$1; patch=$(readlink -f "$2"); demo=${3:-}; tier=${4:-quick}
wt=/var/tmp/evalwt_${pid}_$$
out=/var/tmp/evalout_${pid}_$$
mkdir -p "$out"
/verif/tools/mk_worktree.sh "$wt" >/dev/null || exit 9
cleanup(){ git -C /repo worktree remove --force "$wt" >/dev/null 2>&1; rm -rf "$wt" "$out"; }
trap cleanup EXIT
if [ -n "$demo" ]; then
  ( cd "$out" && HYDRODIY_ROOT=$wt PYTHONPATH=$wt/src MPLBACKEND=Agg timeout 900 /venv/bin/python "$(readlink -f "$demo")" >"$out/demo_clean.log" 2>&1 ); echo "demo_on_pristine_rc=$?"
fi
if ! git -C "$wt" apply "$patch"; then echo "PATCH_DOES_NOT_APPLY"; exit 8; fi
if git -C "$wt" diff --name-only | grep -qE '\.(c|h)$'; then "$wt/REBUILD.sh" >/dev/null 2>&1 || { echo "REBUILD_FAILED"; exit 7; }; fi
if [ -n "$demo" ]; then
  ( cd "$out" && HYDRODIY_ROOT=$wt PYTHONPATH=$wt/src MPLBACKEND=Agg timeout 900 /venv/bin/python "$(readlink -f "$demo")" >"$out/demo_mut.log" 2>&1 ); echo "demo_on_changed_rc=$?"; tail -3 "$out/demo_mut.log"
fi
if [ "${SKIP_BASELINE:-0}" != 1 ]; then /verif/tools/run_baseline.sh "$wt" | head -5; fi
cd /verif
# private copy of the Coq development (regenerated constants of the changed tree must not disturb /verif/coq)
rsync -a --exclude '.lock' /verif/coq/ "$out/coq/"
HYVERIF_COQ_DIR=$out/coq HYDRODIY_REPO=$wt HYVERIF_EVIDENCE_DIR=$out/evidence HYVERIF_REPLAY_DIR=$out/replays VERIF_NCPU=${VERIF_NCPU:-8} \
  timeout 3000 ./check "$pid" --tier "$tier" > "$out/check.log" 2>&1
rc=$?
echo "check_rc=$rc"
grep -E "^(VIOLATION|KNOWN-FINDING)" "$out/check.log" | cut -c1-400 | head -8
