#!/bin/bash
# usage: run_baseline.sh [repo_dir]  - runs the pinned test suite of the given tree
# (default /repo) and reports every test of BASELINE.stable_pass that does not pass.
d=${1:-/repo}
out=$(mktemp /var/tmp/junit.XXXXXX.xml)
cd "$d" && PYTHONPATH="$d/src" MPLBACKEND=Agg /venv/bin/python -m pytest -ra -q -p no:cacheprovider --timeout=900 --continue-on-collection-errors --junitxml="$out" >/dev/null 2>&1
/venv/bin/python - "$out" <<'PY'
import json, sys
import xml.etree.ElementTree as ET
base = json.load(open("/root/.vp/BASELINE.json"))
want = set(base["stable_pass"])
passed = set()
for tc in ET.parse(sys.argv[1]).getroot().iter("testcase"):
    name = f"{tc.get('classname')}::{tc.get('name')}"
    if not any(ch.tag in ("failure", "error", "skipped") for ch in tc):
        passed.add(name)
missing = sorted(want - passed)
print(f"stable_pass={len(want)} passing_now={len(want & passed)} missing={len(missing)}")
for m in missing:
    print("  NOT PASSING:", m)
sys.exit(1 if missing else 0)
PY
rc=$?
rm -f "$out"
exit $rc
