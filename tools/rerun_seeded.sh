#!/bin/bash
# usage: rerun_seeded.sh [-j N] [ids...]   - re-runs the present checks (quick tier) against every kept seeded
# change (seeded/<PID>-mK/patch.diff; default all) and the hardening regressions (seeded_hardening/<PID>/mK.diff)
# in scratch worktrees, N at a time; writes out/rerun/<name>.log and the table out/rerun/TABLE.txt;
# `tools/rerun_seeded.py` then records `check_now` in each seeded/<id>/meta.json.
J=3; if [ "${1:-}" = "-j" ]; then J=$2; shift 2; fi
cd /verif; mkdir -p out/rerun
if [ $# -gt 0 ]; then list="$*"; else
  list="$(ls seeded | grep -E '^C[0-9]+-m[0-9]+$') $(for d in seeded_hardening/C*; do for f in $d/m*.diff; do echo "H:$(basename $d):$(basename $f .diff)"; done; done)"
fi
one(){
  id=$1
  case $id in
    H:*) pid=$(echo $id | cut -d: -f2); k=$(echo $id | cut -d: -f3); patch=/verif/seeded_hardening/$pid/$k.diff; name=H_${pid}_$k;;
    *) pid=${id%%-*}; patch=/verif/seeded/$id/patch.diff; name=$id;;
  esac
  SKIP_BASELINE=1 VERIF_NCPU=4 /verif/tools/try_mutant.sh $pid $patch > /verif/out/rerun/$name.log 2>&1
  echo "$name $(grep -E '^check_rc|PATCH_DOES_NOT_APPLY|REBUILD_FAILED' /verif/out/rerun/$name.log | tr '\n' ' ') keys=$(grep -E '^VIOLATION' /verif/out/rerun/$name.log | wc -l) nofail=$(grep -c 'no-failing-input-found' /verif/out/rerun/$name.log)"
}
export -f one
printf '%s\n' $list | xargs -P $J -I{} bash -c 'one {}' | tee out/rerun/TABLE.txt
