#!/bin/bash
# usage: eval_delivered.sh <PID> [tier]  - evaluates the changes a sub-agent delivered in
# /var/tmp/mut_<PID>/deliver/m{1,2,3}/{patch.diff,demo.py,note.txt} with tools/try_mutant.sh
# and writes /verif/out/eval_<PID>.log (input of tools/keep_mutants.py).
pid=$1; tier=${2:-quick}
src=/var/tmp/mut_$pid
log=/verif/out/eval_$pid.log
: > "$log"
for k in 1 2 3; do
  d=$src/deliver/m$k
  [ -f "$d/patch.diff" ] || continue
  cp "$d/patch.diff" "$src/m$k.diff"; cp "$d/demo.py" "$src/m${k}_demo.py"
  /venv/bin/python - "$d" "$src/m$k.json" <<'PY'
import json, sys, re, pathlib
d, out = sys.argv[1], sys.argv[2]
note = pathlib.Path(d, "note.txt").read_text().strip()
files = re.findall(r"^\+\+\+ b/(\S+)", pathlib.Path(d, "patch.diff").read_text(), re.M)
json.dump({"summary": note, "needs": "see summary (last sentences: what the breakage needs in order to manifest)", "files": files}, open(out, "w"), indent=1)
PY
  echo "=== $pid m$k" >> "$log"
  /verif/tools/try_mutant.sh "$pid" "$src/m$k.diff" "$src/m${k}_demo.py" "$tier" >> "$log" 2>&1
done
cat "$log"
