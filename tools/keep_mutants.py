#!/usr/bin/env python3
"""usage: keep_mutants.py <eval.log>...   Parses logs written by tools/try_mutant.sh runs
(sections '=== PID mK') and stores each confirmed change as /verif/seeded/<PID>-mK/
(patch.diff, demo.py, meta.json).  A change is kept only when the demonstration passes on
the pristine tree, fails on the changed tree and the pinned suite still passes."""
import json
import os
import re
import shutil
import sys
from pathlib import Path

SEEDED = Path("/verif/seeded")
for log in sys.argv[1:]:
    text = Path(log).read_text()
    for m in re.finditer(r"^=== (C\d\d) m(\d+)\n(.*?)(?=^=== |\Z)", text, re.S | re.M):
        pid, k, body = m.group(1), m.group(2), m.group(3)
        src = Path(os.environ.get("MUT_SRC_TEMPLATE", "/var/tmp/mut_{pid}").format(pid=pid))
        ok = ("demo_on_pristine_rc=0" in body and re.search(r"demo_on_changed_rc=[1-9]", body)
              and "missing=0" in body)
        rc = re.search(r"check_rc=(\d+)", body)
        if not ok or not rc:
            print(f"{pid} m{k}: not confirmed / incomplete, skipped")
            continue
        d = SEEDED / f"{pid}-m{k}"
        d.mkdir(parents=True, exist_ok=True)
        shutil.copy(src / f"m{k}.diff", d / "patch.diff")
        shutil.copy(src / f"m{k}_demo.py", d / "demo.py")
        info = json.loads((src / f"m{k}.json").read_text())
        keys = re.findall(r"key=(\S+)", body)
        abnormal = "ended abnormally" in body
        meta = {
            "property": pid,
            "summary": info.get("summary"),
            "needs": info.get("needs"),
            "files": info.get("files"),
            "origin": "written by an independent sub-agent given only the property text and a scratch worktree",
            "confirmed": {
                "demo_on_pristine_rc": 0,
                "demo_on_changed_rc": int(re.search(r"demo_on_changed_rc=(\d+)", body).group(1)),
                "pinned_suite_on_changed_tree": "stable_pass=183 passing_now=183 missing=0",
                "how": "tools/try_mutant.sh (scratch worktree of /repo HEAD, change applied there, never in /repo)",
            },
            "check": {
                "cmd": f"HYDRODIY_REPO=<changed tree> ./check {pid} --tier quick",
                "rc_first_run": int(rc.group(1)),
                "violation_keys_first_run": keys + (["abnormal-exit"] if abnormal else []),
            },
        }
        old = d / "meta.json"
        if old.exists():
            prev = json.loads(old.read_text())
            for key in ("history", "detected_by"):
                if key in prev:
                    meta[key] = prev[key]
        (d / "meta.json").write_text(json.dumps(meta, indent=1) + "\n")
        print(f"{pid} m{k}: kept, first run rc={rc.group(1)} keys={keys}")
