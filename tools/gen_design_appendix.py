#!/usr/bin/env python3
"""Rewrites the generated tail of DESIGN.md (everything after the marker line):
section 10 = per-property reports (notes/CXX.md), section 11 = seeded changes and
which check detects them (seeded/*/meta.json), section 12 = findings register
(known_findings.json + known_findings.d/*.json)."""
import json
import re
from pathlib import Path

V = Path(__file__).resolve().parent.parent
MARK = "<!-- GENERATED BELOW by tools/gen_design_appendix.py: do not edit by hand -->"


def demote(text):
    out = []
    for line in text.splitlines():
        if line.startswith("#"):
            line = "###" + line.lstrip("#") if line.startswith("# ") else "##" + line
        out.append(line)
    return "\n".join(out)


def main():
    p = V / "DESIGN.md"
    s = p.read_text()
    if MARK in s:
        s = s[:s.index(MARK)]
    s = s.rstrip("\n") + "\n\n" + MARK + "\n\n"
    # ---- 10
    s += "---------------------------------------------------------------------------\n\n"
    s += "## 10. Per-property reports (as built)\n\n"
    s += ("One report per property, written when its check was built (model, theorems, correspondence, "
          "oracle, defects, false alarms met and how the check was corrected, generator restrictions). "
          "C06, C07, C17, C19 were built in the first session following section 5 without deviation "
          "and have no separate report.\n\n")
    for f in sorted((V / "notes").glob("C*.md")):
        s += demote(f.read_text()).rstrip("\n") + "\n\n"
    # ---- 11
    s += "---------------------------------------------------------------------------\n\n"
    s += "## 11. Seeded changes and the checks that detect them\n\n"
    s += ("Each change was written by an independent sub-agent that saw only the property text and a scratch "
          "worktree; each was confirmed here (demonstration passes on the pristine tree and fails on the changed "
          "tree; the pinned 183-test suite still passes on the changed tree, imported from that tree) and then "
          "the property's quick check was run against the changed tree (`tools/try_mutant.sh`). `first run` is "
          "the outcome before any strengthening; `history` says what was strengthened when the first run missed "
          "the change or reported it without a failing input.\n\n")
    s += "| id | property | change (needs) | first run | detected by (keys) |\n|---|---|---|---|---|\n"
    for d in sorted((V / "seeded").glob("*/meta.json")):
        m = json.loads(d.read_text())
        ck = m.get("check", {})
        keys = ", ".join(f"`{k}`" for k in ck.get("violation_keys_first_run", [])) or "-"
        first = "reported" if ck.get("rc_first_run") == 1 else "MISSED"
        if "history" in m:
            keys += " — " + m["history"]
        summ = (m.get("summary") or "").replace("|", "/").replace("\n", " ")
        needs = (m.get("needs") or "").replace("|", "/").replace("\n", " ")
        s += f"| {d.parent.name} | {m['property']} | {summ} (**needs:** {needs}) | {first} | {keys} |\n"
    s += "\n"
    # ---- 12
    s += "---------------------------------------------------------------------------\n\n"
    s += "## 12. Findings register (generated from known_findings.json and known_findings.d/)\n\n"
    s += "| property | kind | key | /repo commit | what |\n|---|---|---|---|---|\n"
    fs = json.loads((V / "known_findings.json").read_text())["findings"]
    for f in sorted((V / "known_findings.d").glob("*.json")):
        fs += json.loads(f.read_text())["findings"]
    for k in sorted(fs, key=lambda k: (k["property"], k["key"])):
        what = k["what"].replace("|", "/").replace("\n", " ")
        s += f"| {k['property']} | {k.get('kind', 'known')} | `{k['key']}` | {k.get('commit', '-')} | {what} |\n"
    p.write_text(s)


if __name__ == "__main__":
    main()
