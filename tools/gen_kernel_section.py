#!/usr/bin/env python3
"""usage: gen_kernel_section.py <PID> <spec.json>
Appends to coq/Props/<PID>.v a section of theorems about the regenerated MiniC program whose
statements are printed by `Check` from compiled proof files and re-checked by `exact`.
spec.json: {"modules": ["Proofs.RefineX", ...],            (Required, not Imported)
            "imports": ["Model.Grid", ...],                 (Imported for notations/names)
            "header": "comment text",
            "theorems": [["RefineX.lemma", "CXX_kernel_name", "comment"], ...]}"""
import json, re, subprocess, sys
pid, spec = sys.argv[1], json.load(open(sys.argv[2]))
imports = " ".join(["Base.Num", "Base.MiniC", "Gen.KernelsAst", "Gen.Consts"] + spec.get("imports", []))
HDR = f"""From Coq Require Import ZArith Bool List String Lia Reals PrimFloat.
From Hy Require Import {imports}.
From Hy Require {' '.join(spec['modules'])}.
Import ListNotations.
Open Scope string_scope.
Open Scope list_scope.
Open Scope Z_scope.
"""
chk = HDR + "Set Printing Width 100.\nSet Printing Depth 1000.\n"
for lem, _, _ in spec["theorems"]:
    chk += f"Check @{lem}.\n"
open("/var/tmp/chk_gen.v", "w").write(chk)
out = subprocess.run(["coqc", "-Q", ".", "Hy", "/var/tmp/chk_gen.v"], capture_output=True, text=True, cwd="/verif/coq")
if out.returncode:
    sys.exit(out.stdout + out.stderr)
blocks = re.split(r"\n(?=@?[A-Za-z0-9_.']+\n\s+:)", "\n" + out.stdout)
res = {}
for b in blocks:
    b = b.strip("\n")
    if not b:
        continue
    head, rest = b.split("\n", 1)
    ty = rest.strip()[1:].strip()
    # hexadecimal float literals are printed without their scope
    ty = re.sub(r"(?<![\w(])(-?0x[0-9a-fA-F.]+p[-+]?\d+)(?!%float)", r"(\1)%float", ty)
    res[head.lstrip("@").strip()] = ty
text = ["", "(* " + "=" * 66 + " *)"]
for line in spec["header"].split("\n"):
    text.append(f"(* {line:<66} *)")
text.append("(* " + "=" * 66 + " *)")
text.append(HDR.replace("From Coq Require Import ZArith Bool List String Lia Reals PrimFloat.", "From Coq Require Import String Lia PrimFloat."))
for lem, name, comment in spec["theorems"]:
    if comment:
        text.append("(* " + comment.replace("*)", "* )") + " *)")
    text.append(f"Theorem {name} :\n  {res[lem]}.\nProof. exact @{lem}. Qed.\nPrint Assumptions {name}.\n")
open(f"/verif/coq/Props/{pid}.v", "a").write("\n".join(text))
print(len(spec["theorems"]), "theorems appended to", pid)
