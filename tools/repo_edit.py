#!/usr/bin/env python3
"""Exact-string replacement in a /repo file preserving its line endings.
usage: repo_edit.py <file> <<< JSON [[old,new],...]   (old/new written with \n)"""
import json
import sys

path = sys.argv[1]
pairs = json.load(sys.stdin)
raw = open(path, newline="").read()
crlf = "\r\n" in raw
for old, new in pairs:
    if crlf:
        old = old.replace("\n", "\r\n")
        new = new.replace("\n", "\r\n")
    if raw.count(old) != 1:
        sys.exit(f"pattern occurs {raw.count(old)} times: {old[:60]!r}")
    raw = raw.replace(old, new)
open(path, "w", newline="").write(raw)
