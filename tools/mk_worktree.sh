#!/bin/bash
# usage: mk_worktree.sh <dir>   - scratch worktree of /repo HEAD with the git-ignored
# generated wrapper C files and freshly built extension modules copied in.
set -e
d=$1
git -C /repo worktree add --detach "$d" HEAD >/dev/null 2>&1
for pkg in data stat gis; do
  cp /repo/src/hydrodiy/$pkg/c_hydrodiy_$pkg.c "$d/src/hydrodiy/$pkg/"
done
cp /repo/src/*.so "$d/src/"
# test data that is git-ignored but needed by tests
rsync -a --ignore-existing /repo/src/hydrodiy/ "$d/src/hydrodiy/" >/dev/null 2>&1 || true
cat > "$d/REBUILD.sh" <<'EOS'
#!/bin/bash
# Rebuild the three C extension modules of THIS worktree after editing a kernel (.c/.h).
# (Cython is not installed: .pyx files cannot be regenerated; do not edit them.)
set -e
here=$(cd "$(dirname "$0")" && pwd)
cd "$here"
INC="-I/root/.pyenv/versions/3.12.1/include/python3.12 -I/venv/lib/python3.12/site-packages/numpy/_core/include"
S=src/hydrodiy
gcc -shared -fPIC -O2 -w $INC -I$S/data $S/data/c_hydrodiy_data.c $S/data/c_{dateutils,qualitycontrol,dutils,var2h,baseflow}.c -o src/c_hydrodiy_data.cpython-312-x86_64-linux-gnu.so -lm
gcc -shared -fPIC -O2 -w $INC -I$S/stat $S/stat/c_hydrodiy_stat.c $S/stat/{c_crps,c_dscore,c_olsleverage,c_armodels,ADinf,AnDarl,c_andersondarling,c_paretofront}.c -o src/c_hydrodiy_stat.cpython-312-x86_64-linux-gnu.so -lm
gcc -shared -fPIC -O2 -w $INC -I$S/gis $S/gis/c_hydrodiy_gis.c $S/gis/{c_grid,c_catchment,c_points_inside_polygon}.c -o src/c_hydrodiy_gis.cpython-312-x86_64-linux-gnu.so -lm
echo rebuilt
EOS
chmod +x "$d/REBUILD.sh"
# the .so files copied from /repo/src may predate the fix: commits (they are git-ignored build output)
"$d/REBUILD.sh" >/dev/null 2>&1 || echo "REBUILD_FAILED" >&2
echo "$d"
