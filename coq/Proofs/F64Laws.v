(* The laws about the arithmetic that the refinement / safety theorems assume, proved for
   the binary64 instance [F64] (Coq primitive floats), and the binary64 instances of the
   theorems that thereby become unconditional.

   PART 1  comparisons of primitive floats through a lexicographic key on [Prim2SF]
           (infinities included, no real numbers):
             ord_laws_F64 : RefineCrps.ord_laws F64 (RefineCrps.notnan F64)
             refine_c_crps_F64, refine_c_crps_ok_F64
   PART 2  cmp_sign_ok_F64 : RefineEnsrank.cmp_sign_ok F64 KF        (keys)
           idx_ok_F64      : 2 * ncol <= 2^53 -> RefineEnsrank.idx_ok F64 ncol   (Flocq:
             (double) z is exact for |z| <= 2^53, [ofZ_exact], [ofZ_ltb], [ofZ_leb])
             refine_c_ensrank_qsort_F64, refine_c_ensrank_F64
   PART 3  trunc_ok_F64 : n <= 2^53 -> SafeGis.trunc_ok F64 n
           perc_ok_F64  : len <= 2^63 -> SafeGis.perc_ok F64 XF64 len
   PART 4  floor_laws_F64 : RefineGridGeom.floor_laws F64 XF64 (2^53)
             refine_coord2cell_F64, refine_coord2cell_raw_F64, safe_slice_F64,
             safe_delineate_boundary_F64

   Axioms: those of Coq.Floats.FloatAxioms (specification of the primitive floats) and,
   from PART 2 [idx_ok_F64] on, those of the standard library's real numbers (through Flocq).
   No axiom, parameter or admitted proof of our own. *)
From Coq Require Import ZArith Bool List Lia String.
From Coq Require Import PrimFloat FloatOps SpecFloat FloatAxioms.
From Hy Require Import Base.Num Base.MiniC.
Import ListNotations.
Open Scope Z_scope.

(* ################################################################## *)
(* PART 1: <= and < on the non-NaN binary64 numbers are a total preorder *)
(* ################################################################## *)

(* a key whose lexicographic order is the order of [SFcompare]:
   (class, exponent, mantissa), class = -2 (-inf), -1 (negative), 0 (zeros), 1, 2 (+inf) *)
Definition fkey (x : spec_float) : Z * (Z * Z) :=
  match x with
  | S754_nan => (0, (0, 0))
  | S754_zero _ => (0, (0, 0))
  | S754_infinity true => (-2, (0, 0))
  | S754_infinity false => (2, (0, 0))
  | S754_finite false m e => (1, (e, Zpos m))
  | S754_finite true m e => (-1, (- e, Zneg m))
  end.

Definition klt (a b : Z * (Z * Z)) : Prop :=
  fst a < fst b \/
  (fst a = fst b /\ (fst (snd a) < fst (snd b) \/
                     (fst (snd a) = fst (snd b) /\ snd (snd a) < snd (snd b)))).
Definition kle (a b : Z * (Z * Z)) : Prop :=
  fst a < fst b \/
  (fst a = fst b /\ (fst (snd a) < fst (snd b) \/
                     (fst (snd a) = fst (snd b) /\ snd (snd a) <= snd (snd b)))).

Lemma kle_nlt a b : kle a b <-> ~ klt b a.
Proof. unfold kle, klt. lia. Qed.
Lemma nkle_lt a b : ~ kle a b -> klt b a.
Proof. unfold kle, klt. lia. Qed.
Lemma kle_total a b : ~ kle a b -> kle b a.
Proof. unfold kle. lia. Qed.
Lemma kle_trans a b c : kle a b -> kle b c -> kle a c.
Proof. unfold kle. lia. Qed.
Lemma klt_le_trans a b c : klt a b -> kle b c -> klt a c.
Proof. unfold kle, klt. lia. Qed.
Lemma kle_lt_trans a b c : kle a b -> klt b c -> klt a c.
Proof. unfold kle, klt. lia. Qed.
Lemma klt_trans a b c : klt a b -> klt b c -> klt a c.
Proof. unfold klt. lia. Qed.
Lemma klt_irrefl a : ~ klt a a.
Proof. unfold klt. lia. Qed.

Definition sf_notnan (x : spec_float) : Prop := x <> S754_nan.

Lemma SFcompare_key x y : sf_notnan x -> sf_notnan y ->
  exists c, SFcompare x y = Some c /\
    match c with
    | Lt => klt (fkey x) (fkey y)
    | Eq => kle (fkey x) (fkey y) /\ kle (fkey y) (fkey x)
    | Gt => klt (fkey y) (fkey x)
    end.
Proof.
  intros Hx Hy.
  destruct x as [sx|sx| |sx mx ex]; [| |contradiction Hx; reflexivity|];
  destruct y as [sy|sy| |sy my ey]; try (contradiction Hy; reflexivity);
  try destruct sx; try destruct sy; cbn [SFcompare fkey];
  try (eexists; split; [reflexivity|]; unfold klt, kle; cbn [fst snd]; lia).
  - (* both negative *)
    change (Pos.compare_cont Eq mx my) with (Pos.compare mx my).
    destruct (Z.compare_spec ex ey) as [E|E|E];
      [destruct (Pos.compare_spec mx my) as [E'|E'|E']|..];
      eexists; (split; [reflexivity|]); unfold klt, kle; cbn [fst snd CompOpp]; try subst my; lia.
  - (* both positive *)
    change (Pos.compare_cont Eq mx my) with (Pos.compare mx my).
    destruct (Z.compare_spec ex ey) as [E|E|E];
      [destruct (Pos.compare_spec mx my) as [E'|E'|E']|..];
      eexists; (split; [reflexivity|]); unfold klt, kle; cbn [fst snd]; try subst my; lia.
Qed.

Lemma SFltb_key x y : sf_notnan x -> sf_notnan y ->
  (SFltb x y = true <-> klt (fkey x) (fkey y)).
Proof.
  intros Hx Hy. destruct (SFcompare_key x y Hx Hy) as (c & E & H).
  unfold SFltb. rewrite E.
  destruct c; split; intros H'; try reflexivity; try discriminate; try exact H;
    exfalso; unfold klt, kle in *; lia.
Qed.

Lemma SFleb_key x y : sf_notnan x -> sf_notnan y ->
  (SFleb x y = true <-> kle (fkey x) (fkey y)).
Proof.
  intros Hx Hy. destruct (SFcompare_key x y Hx Hy) as (c & E & H).
  unfold SFleb. rewrite E.
  destruct c; split; intros H'; try reflexivity; try discriminate;
    unfold klt, kle in *; try lia; exfalso; lia.
Qed.

Lemma SFltb_nan_l y : SFltb S754_nan y = false.
Proof. reflexivity. Qed.
Lemma SFltb_nan_r x : SFltb x S754_nan = false.
Proof. destruct x; reflexivity. Qed.

(* ---- the primitive floats ---- *)

Definition f_notnan (x : float) : Prop := PrimFloat.is_nan x = false.

Lemma SFeqb_refl x : sf_notnan x -> SFeqb x x = true.
Proof.
  intros Hx. unfold SFeqb. destruct x as [s|s| |s m e]; [reflexivity|destruct s; reflexivity|
    contradiction Hx; reflexivity|].
  cbn [SFcompare]. rewrite Z.compare_refl.
  change (Pos.compare_cont Eq m m) with (Pos.compare m m). rewrite Pos.compare_refl.
  destruct s; reflexivity.
Qed.

Lemma f_notnan_sf x : f_notnan x <-> sf_notnan (Prim2SF x).
Proof.
  unfold f_notnan, PrimFloat.is_nan. rewrite eqb_spec, negb_false_iff. split.
  - intros H E. rewrite E in H. discriminate.
  - apply SFeqb_refl.
Qed.

Definition key (x : float) : Z * (Z * Z) := fkey (Prim2SF x).

Lemma ltb_key x y : f_notnan x -> f_notnan y ->
  (PrimFloat.ltb x y = true <-> klt (key x) (key y)).
Proof.
  intros Hx Hy. rewrite ltb_spec. apply SFltb_key; apply f_notnan_sf; assumption.
Qed.

Lemma leb_key x y : f_notnan x -> f_notnan y ->
  (PrimFloat.leb x y = true <-> kle (key x) (key y)).
Proof.
  intros Hx Hy. rewrite leb_spec. apply SFleb_key; apply f_notnan_sf; assumption.
Qed.

(* a true [<] has two numbers as operands *)
Lemma ltb_true_notnan x y : PrimFloat.ltb x y = true -> f_notnan x /\ f_notnan y.
Proof.
  rewrite ltb_spec. intros H. split; apply f_notnan_sf; intros E; rewrite E in H.
  - rewrite SFltb_nan_l in H. discriminate.
  - rewrite SFltb_nan_r in H. discriminate.
Qed.

Lemma ltb_true_key x y : PrimFloat.ltb x y = true -> klt (key x) (key y).
Proof.
  intros H. destruct (ltb_true_notnan x y H) as [Hx Hy]. apply ltb_key; assumption.
Qed.

Lemma bool_eq_iff (a b : bool) : (a = true <-> b = true) -> a = b.
Proof. destruct a, b; intros [H1 H2]; try reflexivity; [symmetry; apply H1|apply H2]; reflexivity. Qed.

From Hy Require Proofs.RefineCrps.

Theorem ord_laws_F64 : RefineCrps.ord_laws F64 (RefineCrps.notnan F64).
Proof.
  unfold RefineCrps.ord_laws, RefineCrps.notnan. cbn [nltb nleb nisnan F64].
  split; [|split].
  - intros x y Hx Hy. destruct (PrimFloat.leb x y) eqn:E; cbn [negb].
    + apply (leb_key x y Hx Hy) in E. apply not_true_iff_false. intros H.
      apply (ltb_key y x Hy Hx) in H. apply kle_nlt in E. contradiction.
    + apply (ltb_key y x Hy Hx). apply nkle_lt. rewrite <- (leb_key x y Hx Hy), E. discriminate.
  - intros x y Hx Hy H. apply (leb_key y x Hy Hx). apply kle_total.
    rewrite <- (leb_key x y Hx Hy). rewrite H. discriminate.
  - intros x y z Hx Hy Hz H1 H2.
    apply (leb_key x y Hx Hy) in H1. apply (leb_key y z Hy Hz) in H2.
    apply (leb_key x z Hx Hz). eapply kle_trans; eassumption.
Qed.

(* ---- binary64 instances of the refinement theorems of RefineCrps ---- *)

Theorem refine_c_crps_F64 (rows : list (float * list float)) (m : nat) (wv rt0 : list float) n :
  let v := filter (Crps.row_valid F64) rows in
  v <> [] ->
  Forall (fun r => List.length (snd r) = m) v ->
  Forall (fun r => Forall (RefineCrps.notnan F64) (snd r)) v ->
  List.length rt0 = (7 * S m)%nat ->
  (Nat.max (List.length v) (S m) < n)%nat ->
  match Crps.crps F64 rows with
  | Some out =>
      exec_fun F64 XF64 KernelsAst.program (S n) "c_crps"%string
        (RefineCrps.crps_args F64 ConstsC03.CRPS_USE_WEIGHTS ConstsC03.CRPS_IS_SORTED v m wv rt0)
      = Ok (RI 0, [VArrF (map fst v); VArrF (List.concat (map snd v)); VArrF wv;
                   VArrF (RefineCrps.table_vals (Crps.o_table out)); VArrF (RefineCrps.dec_vals out)])
  | None =>
      exists code, 0 < code /\
      exec_fun F64 XF64 KernelsAst.program (S n) "c_crps"%string
        (RefineCrps.crps_args F64 ConstsC03.CRPS_USE_WEIGHTS ConstsC03.CRPS_IS_SORTED v m wv rt0)
      = Ok (RI code, [VArrF (map fst v); VArrF (List.concat (map snd v)); VArrF wv;
                      VArrF rt0; VArrF [n0 F64; n0 F64; n0 F64; n0 F64; n0 F64]])
  end.
Proof.
  exact (RefineCrps.refine_c_crps F64 XF64 rows m wv rt0 n RefineCrps.lits_ok_F64 ord_laws_F64).
Qed.

Theorem refine_c_crps_ok_F64 (rows : list (float * list float)) (m : nat) (wv rt0 : list float) n :
  let v := filter (Crps.row_valid F64) rows in
  v <> [] ->
  Forall (fun r => List.length (snd r) = m) v ->
  Forall (fun r => Forall (RefineCrps.notnan F64) (snd r)) v ->
  List.length rt0 = (7 * S m)%nat ->
  (Nat.max (List.length v) (S m) < n)%nat ->
  exists out, Crps.crps F64 rows = Some out /\
    exec_fun F64 XF64 KernelsAst.program (S n) "c_crps"%string
      (RefineCrps.crps_args F64 ConstsC03.CRPS_USE_WEIGHTS ConstsC03.CRPS_IS_SORTED v m wv rt0)
    = Ok (RI 0, [VArrF (map fst v); VArrF (List.concat (map snd v)); VArrF wv;
                 VArrF (RefineCrps.table_vals (Crps.o_table out)); VArrF (RefineCrps.dec_vals out)]).
Proof.
  exact (RefineCrps.refine_c_crps_ok F64 XF64 rows m wv rt0 n RefineCrps.lits_ok_F64 ord_laws_F64).
Qed.

(* ################################################################## *)
(* PART 2: the laws of RefineEnsrank                                    *)
(* ################################################################## *)
From Hy Require Proofs.RefineEnsrank.

(* x < c1 and c2 < x are exclusive as soon as c2 < c1 is false *)
Lemma ltb_excl c1 c2 d : f_notnan c1 -> f_notnan c2 -> PrimFloat.ltb c2 c1 = false ->
  PrimFloat.ltb d c1 = true -> PrimFloat.ltb c2 d = false.
Proof.
  intros H1 H2 H21 Hd. apply not_true_iff_false. intros Hd2.
  apply ltb_true_key in Hd. apply ltb_true_key in Hd2.
  apply not_true_iff_false in H21. apply H21. apply (ltb_key c2 c1 H2 H1).
  eapply klt_trans; eassumption.
Qed.

Theorem cmp_sign_ok_F64 : RefineEnsrank.cmp_sign_ok F64 Dscore.KF.
Proof.
  intros d. apply ltb_excl; vm_compute; reflexivity.
Qed.

(* ---- (double) z for |z| <= 2^53, through Flocq ---- *)
From Coq Require Import Reals Lra.
From Flocq Require Import Core.Zaux Core.Raux Core.Defs Core.Generic_fmt Core.FLT Core.Float_prop
  IEEE754.BinarySingleNaN IEEE754.PrimFloat.
Open Scope Z_scope.

Lemma f_ofZ_normalize z :
  f_ofZ z = SF2Prim (SpecFloat.binary_normalize prec emax z 0 false).
Proof. destruct z; reflexivity. Qed.

Lemma Prim2B_ofZ z :
  Prim2B (f_ofZ z) = binary_normalize prec emax Hprec Hmax mode_NE z 0 false.
Proof.
  rewrite f_ofZ_normalize, binary_normalize_equiv.
  change (SF2Prim (B2SF ?b)) with (B2Prim b). apply Prim2B_B2Prim.
Qed.

Lemma format_small_int z : Z.abs z <= 2 ^ 53 ->
  generic_format radix2 (FLT_exp (3 - emax - prec) prec) (IZR z).
Proof.
  intros Hz. destruct (Z.eq_dec (Z.abs z) (2 ^ 53)) as [E|E].
  - assert (Hb : generic_format radix2 (FLT_exp (3 - emax - prec) prec) (IZR (2 ^ 53))).
    { change (IZR (2 ^ 53)) with (IZR (Zpower radix2 53)). rewrite IZR_Zpower by lia.
      apply generic_format_FLT_bpow; [reflexivity|]. unfold emax, prec. lia. }
    destruct (Z.abs_eq_or_opp z) as [A|A]; rewrite A in E.
    + rewrite E. exact Hb.
    + replace z with (- 2 ^ 53) by lia. rewrite opp_IZR. apply generic_format_opp. exact Hb.
  - apply generic_format_FLT. apply (FLT_spec radix2 _ prec (IZR z) (Float radix2 z 0)).
    + unfold F2R. cbn. lra.
    + cbn [Fnum]. change (Zpower radix2 prec) with (2 ^ 53). lia.
    + cbn [Fexp]. unfold emax, prec. lia.
Qed.

Lemma ofZ_exact z : Z.abs z <= 2 ^ 53 ->
  B2R (Prim2B (f_ofZ z)) = IZR z /\ is_finite (Prim2B (f_ofZ z)) = true.
Proof.
  intros Hz. rewrite Prim2B_ofZ.
  pose proof (binary_normalize_correct prec emax Hprec Hmax mode_NE z 0 false) as H.
  cbv zeta in H.
  assert (HF : F2R (Float radix2 z 0) = IZR z) by (unfold F2R; cbn; lra).
  rewrite HF in H.
  rewrite (round_generic radix2 _ _ (IZR z)) in H by (apply format_small_int; exact Hz).
  rewrite Rlt_bool_true in H.
  - destruct H as (H1 & H2 & _). split; assumption.
  - rewrite <- abs_IZR. apply Rle_lt_trans with (IZR (2 ^ 53)); [apply IZR_le; exact Hz|].
    change (IZR (2 ^ 53)) with (IZR (Zpower radix2 53)). rewrite IZR_Zpower by lia.
    apply bpow_lt. unfold emax. lia.
Qed.

Lemma ofZ_notnan z : Z.abs z <= 2 ^ 53 -> f_notnan (f_ofZ z).
Proof.
  intros Hz. destruct (ofZ_exact z Hz) as [_ Hf]. unfold f_notnan.
  rewrite is_nan_equiv. destruct (Prim2B (f_ofZ z)); try reflexivity; discriminate.
Qed.

Lemma ofZ_ltb a b : Z.abs a <= 2 ^ 53 -> Z.abs b <= 2 ^ 53 ->
  PrimFloat.ltb (f_ofZ a) (f_ofZ b) = (a <? b).
Proof.
  intros Ha Hb. destruct (ofZ_exact a Ha) as [Ra Fa]. destruct (ofZ_exact b Hb) as [Rb Fb].
  rewrite ltb_equiv, (Bltb_correct _ _ _ _ Fa Fb), Ra, Rb.
  destruct (Z.ltb_spec a b) as [H|H].
  - apply Rlt_bool_true. apply IZR_lt. exact H.
  - apply Rlt_bool_false. apply IZR_le. exact H.
Qed.

Lemma ofZ_leb a b : Z.abs a <= 2 ^ 53 -> Z.abs b <= 2 ^ 53 ->
  PrimFloat.leb (f_ofZ a) (f_ofZ b) = (a <=? b).
Proof.
  intros Ha Hb. destruct (ofZ_exact a Ha) as [Ra Fa]. destruct (ofZ_exact b Hb) as [Rb Fb].
  rewrite leb_equiv, (Bleb_correct _ _ _ _ Fa Fb), Ra, Rb.
  destruct (Z.leb_spec a b) as [H|H].
  - apply Rle_bool_true. apply IZR_le. exact H.
  - apply Rle_bool_false. apply IZR_lt. exact H.
Qed.

Theorem idx_ok_F64 (ncol : nat) : 2 * Z.of_nat ncol <= 2 ^ 53 -> RefineEnsrank.idx_ok F64 ncol.
Proof.
  intros Hn a Ha. cbn [nltb nofZ F64]. apply ofZ_ltb; lia.
Qed.

(* ---- binary64 instances of the refinement theorems of RefineEnsrank ---- *)

Theorem refine_c_ensrank_qsort_F64 eps (sim : list (list PrimFloat.float)) (ncol : nat) fmat ranks n :
  2 * Z.of_nat ncol <= 2 ^ 53 ->
  Forall (fun r => List.length r = ncol) sim ->
  List.length fmat = (List.length sim * List.length sim)%nat ->
  List.length ranks = List.length sim ->
  (Nat.max (List.length sim) (2 * ncol) < n)%nat ->
  exec_fun F64 XF64 KernelsAst.program (S n) "c_ensrank"%string
    [AVF eps; AVI (Z.of_nat (List.length sim)); AVI (Z.of_nat ncol);
     AVArrF (List.concat sim); AVArrF fmat; AVArrF ranks]
  = Ok (RefineEnsrank.ens_outputs
          (RefineEnsrank.ensrank_s F64 Dscore.KF (RefineEnsrank.qs F64 Dscore.KF) eps sim) sim fmat ranks).
Proof.
  intros Hn. apply RefineEnsrank.refine_c_ensrank_qsort;
    [exact RefineEnsrank.lits_ok_F64|exact RefineEnsrank.cmp_lit_ok_F64|exact cmp_sign_ok_F64|
     apply idx_ok_F64; exact Hn].
Qed.

Theorem refine_c_ensrank_F64 eps (sim : list (list PrimFloat.float)) (ncol : nat) fmat ranks n :
  2 * Z.of_nat ncol <= 2 ^ 53 ->
  RefineEnsrank.pairs_agree F64 Dscore.KF sim ->
  Forall (fun r => List.length r = ncol) sim ->
  List.length fmat = (List.length sim * List.length sim)%nat ->
  List.length ranks = List.length sim ->
  (Nat.max (List.length sim) (2 * ncol) < n)%nat ->
  exec_fun F64 XF64 KernelsAst.program (S n) "c_ensrank"%string
    [AVF eps; AVI (Z.of_nat (List.length sim)); AVI (Z.of_nat ncol);
     AVArrF (List.concat sim); AVArrF fmat; AVArrF ranks]
  = Ok (RefineEnsrank.ens_outputs (Dscore.ensrank F64 Dscore.KF eps sim) sim fmat ranks).
Proof.
  intros Hn. apply RefineEnsrank.refine_c_ensrank;
    [exact RefineEnsrank.lits_ok_F64|exact RefineEnsrank.cmp_lit_ok_F64|exact cmp_sign_ok_F64|
     apply idx_ok_F64; exact Hn].
Qed.

(* ################################################################## *)
(* PART 3: the cast (long long), SafeGis.trunc_ok / perc_ok              *)
(* ################################################################## *)
From Hy Require Proofs.SafeGis.

(* the magnitude computed by [f_trunc] is the floor of the absolute value *)
Lemma mag_floor (m : positive) (e : Z) :
  (if 0 <=? e then Z.shiftl (Zpos m) e else Z.shiftr (Zpos m) (- e))
  = Zfloor (F2R (Float radix2 (Zpos m) e)).
Proof.
  unfold F2R. cbn [Fnum Fexp]. destruct (Z.leb_spec 0 e) as [He|He].
  - rewrite Z.shiftl_mul_pow2 by exact He.
    rewrite <- (IZR_Zpower radix2 e He), <- mult_IZR, Zfloor_IZR. reflexivity.
  - rewrite Z.shiftr_div_pow2 by lia.
    replace e with (- (- e)) at 2 by lia. rewrite bpow_opp.
    rewrite <- (IZR_Zpower radix2 (- e)) by lia.
    change (IZR (Z.pos m) * / IZR (radix2 ^ (- e)))%R with (IZR (Z.pos m) / IZR (radix2 ^ (- e)))%R.
    rewrite Zfloor_div; [reflexivity|].
    change (radix2 ^ (- e)) with (2 ^ (- e)). apply Z.pow_nonzero; lia.
Qed.

Lemma f_trunc_B x :
  f_trunc x =
  match Prim2B x with
  | B754_zero _ => Some 0
  | B754_finite s m e _ =>
      let mag := Zfloor (F2R (Float radix2 (Zpos m) e)) in
      if mag <? 2 ^ 63 then Some (if s then - mag else mag) else None
  | _ => None
  end.
Proof.
  unfold f_trunc. rewrite <- B2SF_Prim2B.
  destruct (Prim2B x) as [s|s| |s m e H]; cbn [B2SF]; try reflexivity.
  rewrite mag_floor. reflexivity.
Qed.

Lemma Prim2B_ofZ0 : Prim2B (f_ofZ 0) = B754_zero false.
Proof. rewrite Prim2B_ofZ. reflexivity. Qed.

Lemma in_width_64 z : - 2 ^ 63 <= z < 2 ^ 63 -> in_width W64 z = true.
Proof. intros H. unfold in_width. apply andb_true_intro. split; apply Z.leb_le; lia. Qed.

Lemma Rlt_bool_inv x y : Rlt_bool x y = true -> (x < y)%R.
Proof. intros H. destruct (Rlt_bool_spec x y); [assumption|discriminate]. Qed.
Lemma Rle_bool_inv x y : Rle_bool x y = true -> (x <= y)%R.
Proof. intros H. destruct (Rle_bool_spec x y); [assumption|discriminate]. Qed.

(* a double in [0, y) with y finite: zero or a positive finite double below y *)
Lemma range_cases x (y : binary_float prec emax) :
  PrimFloat.leb (f_ofZ 0) x = true -> Bltb (Prim2B x) y = true -> is_finite y = true ->
  (exists s, Prim2B x = B754_zero s) \/
  (exists m e H, Prim2B x = B754_finite false m e H /\
                 (0 < F2R (Float radix2 (Zpos m) e) < B2R y)%R).
Proof.
  intros H0 H1 Fy. rewrite leb_equiv, Prim2B_ofZ0 in H0.
  destruct (Prim2B x) as [s|s| |s m e H] eqn:E.
  - left. exists s. reflexivity.
  - exfalso. destruct s; [discriminate H0|]. destruct y as [sy|sy| |sy my ey Hy]; try discriminate Fy;
      discriminate H1.
  - discriminate H0.
  - destruct s; [discriminate H0|]. right. exists m, e, H. split; [reflexivity|].
    rewrite Bltb_correct in H1 by (exact Fy || reflexivity).
    apply Rlt_bool_inv in H1. cbn [B2R cond_Zopp] in H1. split; [|exact H1].
    apply F2R_gt_0. reflexivity.
Qed.

(* (double) c is not above zero when c <= 0 (whatever the magnitude of c: -inf included) *)
Lemma key_ofZ0 : key (f_ofZ 0) = (0, (0, 0)).
Proof. reflexivity. Qed.

Lemma key_B x : key x = fkey (B2SF (Prim2B x)).
Proof. unfold key. rewrite B2SF_Prim2B. reflexivity. Qed.

Lemma ofZ_nonpos_key c : c <= 0 -> fst (key (f_ofZ c)) <= 0.
Proof.
  intros Hc. destruct (Z.eq_dec c 0) as [->|Hc0]; [rewrite key_ofZ0; cbn; lia|].
  rewrite key_B, Prim2B_ofZ.
  pose proof (binary_normalize_correct prec emax Hprec Hmax mode_NE c 0 false) as H.
  cbv zeta in H.
  assert (Hneg : (F2R (Float radix2 c 0) < 0)%R) by (apply F2R_lt_0; cbn; lia).
  destruct (binary_normalize prec emax Hprec Hmax mode_NE c 0 false) as [s|s| |s m e Hb].
  - cbn. lia.
  - destruct (Rlt_bool _ _).
    + destruct H as (_ & Hf & _). discriminate Hf.
    + rewrite (Rlt_bool_true _ _ Hneg) in H. cbn in H. injection H as ->. cbn. lia.
  - cbn. lia.
  - destruct (Rlt_bool _ _).
    + destruct H as (_ & _ & Hs). rewrite (Rcompare_Lt _ _ Hneg) in Hs. cbn in Hs. subst s. cbn. lia.
    + cbn in H. discriminate H.
Qed.

Lemma ofZ_notnan_any z : f_notnan (f_ofZ z).
Proof.
  unfold f_notnan. rewrite is_nan_equiv, Prim2B_ofZ. apply is_nan_binary_normalize.
Qed.

Lemma fkey_class0 s : fst (fkey s) = 0 -> fkey s = (0, (0, 0)).
Proof. destruct s as [b|b| |b m e]; try destruct b; cbn; intros H; try reflexivity; discriminate H. Qed.

Lemma range_nonpos c x : c <= 0 ->
  PrimFloat.leb (f_ofZ 0) x = true -> PrimFloat.ltb x (f_ofZ c) = true -> False.
Proof.
  intros Hc H0 H1. pose proof (ofZ_nonpos_key c Hc) as Hk.
  destruct (ltb_true_notnan _ _ H1) as [Hx _].
  apply ltb_true_key in H1. apply (leb_key _ _ (ofZ_notnan_any 0) Hx) in H0.
  rewrite key_ofZ0 in H0.
  destruct (Z.eq_dec (fst (key (f_ofZ c))) 0) as [E|E].
  - unfold key in E. apply fkey_class0 in E. fold (key (f_ofZ c)) in E. rewrite E in H1.
    apply kle_nlt in H0. contradiction.
  - unfold klt in H1. unfold kle in H0. cbn [fst snd] in H0. lia.
Qed.

Theorem trunc_ok_F64 n : n <= 2 ^ 53 -> SafeGis.trunc_ok F64 n.
Proof.
  intros Hn x H0 H1. cbn [nleb nltb nofZ ntrunc F64] in *.
  destruct (Z.le_gt_cases n 0) as [Hn0|Hn0]; [exfalso; exact (range_nonpos n x Hn0 H0 H1)|].
  destruct (ofZ_exact n) as [Rn Fn]; [lia|].
  rewrite ltb_equiv in H1.
  destruct (range_cases x _ H0 H1 Fn) as [(s & E)|(m & e & H & E & Hr)]; rewrite f_trunc_B, E.
  - exists 0. split; [reflexivity|apply in_width_64; lia].
  - cbv zeta. set (mag := Zfloor _).
    assert (Hm : 0 <= mag < n).
    { split.
      - apply Zfloor_lub. apply Rlt_le. apply Hr.
      - apply lt_IZR. apply Rle_lt_trans with (1 := Zfloor_lb _). rewrite Rn in Hr. apply Hr. }
    replace (mag <? 2 ^ 63) with true by (symmetry; apply Z.ltb_lt; lia).
    exists mag. split; [reflexivity|apply in_width_64; lia].
Qed.

(* ---- rounding of (double) z for |z| <= 2^64, products ---- *)
From Flocq Require Import Core.Round_NE Core.FLX.
#[local] Existing Instance Hprec.
#[local] Existing Instance Hmax.
Notation fexp64 := (FLT_exp (3 - emax - prec) prec).
Notation rnd64 := (round radix2 fexp64 ZnearestE).

Lemma format_bpow64 e : 0 <= e -> generic_format radix2 fexp64 (bpow radix2 e).
Proof. intros He. apply generic_format_FLT_bpow; [reflexivity|]. unfold emax, prec. lia. Qed.

Lemma bpow_lt_emax e : e < 1024 -> (bpow radix2 e < bpow radix2 emax)%R.
Proof. intros He. apply bpow_lt. unfold emax. lia. Qed.

Lemma ofZ_round z : Z.abs z <= 2 ^ 64 ->
  B2R (Prim2B (f_ofZ z)) = rnd64 (IZR z) /\ is_finite (Prim2B (f_ofZ z)) = true.
Proof.
  intros Hz. rewrite Prim2B_ofZ.
  pose proof (binary_normalize_correct prec emax Hprec Hmax mode_NE z 0 false) as H.
  cbv zeta in H.
  assert (HF : F2R (Float radix2 z 0) = IZR z) by (unfold F2R; cbn; lra).
  rewrite HF in H.
  rewrite Rlt_bool_true in H.
  - destruct H as (H1 & H2 & _). split; assumption.
  - apply Rle_lt_trans with (bpow radix2 64); [|apply bpow_lt_emax; lia].
    apply abs_round_le_generic; [apply FLT_exp_valid; exact Hprec|apply valid_rnd_N|apply format_bpow64; lia|].
    rewrite <- abs_IZR, <- (IZR_Zpower radix2 64) by lia. apply IZR_le. exact Hz.
Qed.

Lemma rnd64_le x y : (x <= y)%R -> (rnd64 x <= rnd64 y)%R.
Proof. apply round_le; [apply FLT_exp_valid; exact Hprec|apply valid_rnd_N]. Qed.

Lemma rnd64_id z : Z.abs z <= 2 ^ 53 -> rnd64 (IZR z) = IZR z.
Proof. intros Hz. apply round_generic; [apply valid_rnd_N|apply format_small_int; exact Hz]. Qed.

(* the literal 0.8 of c_delineate_boundary *)
Definition lit08 : PrimFloat.float := 0x1.999999999999ap-1%float.

Lemma lit08_B : B2R (Prim2B lit08) = (IZR 7205759403792794 * bpow radix2 (-53))%R /\
                is_finite (Prim2B lit08) = true.
Proof.
  assert (E : Prim2SF lit08 = S754_finite false 7205759403792794 (-53)) by (vm_compute; reflexivity).
  unfold Prim2B. rewrite B2R_SF2B, is_finite_SF2B, E. split; reflexivity.
Qed.

Theorem perc_ok_F64 len : len <= 2 ^ 63 -> SafeGis.perc_ok F64 XF64 len.
Proof.
  intros Hl nb Hnb. cbn [nmul nofZ ntrunc F64 nlit XF64]. fold lit08.
  destruct (ofZ_round nb) as [Rn Fn]; [lia|]. destruct lit08_B as [Rc Fc].
  set (M := 7205759403792794) in *.
  set (top := (IZR M * bpow radix2 10)%R).
  assert (Hr : (0 <= rnd64 (IZR nb) <= bpow radix2 63)%R).
  { split.
    - rewrite <- (rnd64_id 0) by lia. apply rnd64_le. apply IZR_le. lia.
    - apply round_le_generic; [apply FLT_exp_valid; exact Hprec|apply valid_rnd_N|apply format_bpow64; lia|].
      rewrite <- (IZR_Zpower radix2 63) by lia. apply IZR_le. change (radix2 ^ 63) with (2 ^ 63). lia. }
  assert (HM : (0 < IZR M < bpow radix2 53)%R).
  { split; [apply IZR_lt; reflexivity|]. rewrite <- (IZR_Zpower radix2 53) by lia. apply IZR_lt. reflexivity. }
  assert (Htop : generic_format radix2 fexp64 top).
  { apply generic_format_FLT. apply (FLT_spec radix2 _ prec top (Float radix2 M 10)).
    - reflexivity.
    - cbn [Fnum]. reflexivity.
    - cbn [Fexp]. unfold emax, prec. lia. }
  assert (Htop63 : (top < bpow radix2 63)%R).
  { unfold top. change 63 with (53 + 10). rewrite bpow_plus.
    apply Rmult_lt_compat_r; [apply bpow_gt_0|apply HM]. }
  set (x := (B2R (Prim2B (f_ofZ nb)) * B2R (Prim2B lit08))%R).
  assert (Hx : (0 <= x <= top)%R).
  { unfold x. rewrite Rn, Rc. pose proof (bpow_gt_0 radix2 (-53)) as Hb. split.
    - apply Rmult_le_pos; [apply Hr|]. apply Rmult_le_pos; [apply Rlt_le, HM|apply Rlt_le, Hb].
    - unfold top. change 10 with (63 + -53). rewrite bpow_plus.
      replace (IZR M * (bpow radix2 63 * bpow radix2 (-53)))%R
        with (bpow radix2 63 * (IZR M * bpow radix2 (-53)))%R by ring.
      apply Rmult_le_compat_r; [|apply Hr].
      apply Rmult_le_pos; [apply Rlt_le, HM|apply Rlt_le, Hb]. }
  assert (Hrx : (0 <= rnd64 x <= top)%R).
  { split.
    - apply round_ge_generic; [apply FLT_exp_valid; exact Hprec|apply valid_rnd_N|apply generic_format_0|apply Hx].
    - apply round_le_generic; [apply FLT_exp_valid; exact Hprec|apply valid_rnd_N|exact Htop|apply Hx]. }
  pose proof (Bmult_correct prec emax Hprec Hmax mode_NE (Prim2B (f_ofZ nb)) (Prim2B lit08)) as HB.
  fold x in HB. change (round radix2 (SpecFloat.fexp prec emax) (round_mode mode_NE) x) with (rnd64 x) in HB.
  rewrite Rlt_bool_true in HB.
  2:{ rewrite Rabs_pos_eq by apply Hrx. apply Rle_lt_trans with top; [apply Hrx|].
      apply Rlt_trans with (1 := Htop63). apply bpow_lt_emax. lia. }
  destruct HB as (HBr & HBf & _). rewrite Fn, Fc in HBf. cbn [andb] in HBf.
  rewrite f_trunc_B, mul_equiv.
  destruct (Bmult mode_NE (Prim2B (f_ofZ nb)) (Prim2B lit08)) as [s|s| |s m e Hb];
    try discriminate HBf.
  - exists 0. split; [reflexivity|apply in_width_64; lia].
  - cbv zeta. cbn [B2R] in HBr.
    destruct s.
    + exfalso. assert (F2R (Float radix2 (cond_Zopp true (Z.pos m)) e) < 0)%R
        by (apply F2R_lt_0; reflexivity). lra.
    + cbn [cond_Zopp] in HBr. set (mag := Zfloor _).
      assert (Hm : 0 <= mag < 2 ^ 63).
      { split.
        - apply Zfloor_lub. rewrite HBr. apply Hrx.
        - apply lt_IZR. apply Rle_lt_trans with (1 := Zfloor_lb _). rewrite HBr.
          change (2 ^ 63) with (radix2 ^ 63). rewrite (IZR_Zpower radix2 63) by lia. lra. }
      replace (mag <? 2 ^ 63) with true by (symmetry; apply Z.ltb_lt; lia).
      exists mag. split; [reflexivity|apply in_width_64; lia].
Qed.

(* ################################################################## *)
(* PART 4: RefineGridGeom.floor_laws for binary64, grids up to 2^53      *)
(* ################################################################## *)
From Hy Require Proofs.RefineGridGeom.

(* (long long)(double) z = z for |z| <= 2^53 *)
Lemma f_trunc_ofZ z : Z.abs z <= 2 ^ 53 -> f_trunc (f_ofZ z) = Some z.
Proof.
  intros Hz. destruct (ofZ_exact z Hz) as [Rz Fz]. rewrite f_trunc_B.
  destruct (Prim2B (f_ofZ z)) as [s|s| |s m e Hb]; try discriminate Fz.
  - cbn [B2R] in Rz. apply eq_IZR in Rz. rewrite <- Rz. reflexivity.
  - cbv zeta. cbn [B2R] in Rz. destruct s; cbn [cond_Zopp] in Rz.
    + change (- Z.pos m) with (Z.opp (Z.pos m)) in Rz. rewrite F2R_Zopp in Rz.
      assert (E : F2R (Float radix2 (Z.pos m) e) = IZR (- z)) by (rewrite opp_IZR; lra).
      rewrite E, Zfloor_IZR.
      replace (- z <? 2 ^ 63) with true by (symmetry; apply Z.ltb_lt; lia).
      f_equal. lia.
    + rewrite Rz, Zfloor_IZR.
      replace (z <? 2 ^ 63) with true by (symmetry; apply Z.ltb_lt; lia). reflexivity.
Qed.

Lemma f_trunc_bound q t : f_trunc q = Some t -> Z.abs t < 2 ^ 63.
Proof.
  rewrite f_trunc_B. destruct (Prim2B q) as [s|s| |s m e Hb]; try discriminate.
  - intros H. injection H as <-. reflexivity.
  - cbv zeta. set (mag := Zfloor _).
    assert (H0 : 0 <= mag).
    { apply Zfloor_lub. apply F2R_ge_0. cbn. lia. }
    destruct (Z.ltb_spec mag (2 ^ 63)) as [Hm|Hm]; [|discriminate].
    intros H. injection H as <-. destruct s; lia.
Qed.

Lemma f_floor_bound q z : f_floor q = Some z -> Z.abs z <= 2 ^ 63.
Proof.
  unfold f_floor. destruct (f_trunc q) as [t|] eqn:Et; [|discriminate].
  apply f_trunc_bound in Et.
  destruct (PrimFloat.ltb q (f_ofZ t)); intros H; injection H as <-; lia.
Qed.

Lemma fl_in_F64 q c z :
  c <= 2 ^ 53 -> f_floor q = Some z -> 0 <= z < c ->
  PrimFloat.leb (f_ofZ 0) (f_floorf q) = true /\ PrimFloat.ltb (f_floorf q) (f_ofZ c) = true /\
  f_trunc (f_floorf q) = Some z /\ in_width W64 z = true.
Proof.
  intros Hc Hf Hz. unfold f_floorf. rewrite Hf. repeat split.
  - rewrite ofZ_leb by lia. apply Z.leb_le. lia.
  - rewrite ofZ_ltb by lia. apply Z.ltb_lt. lia.
  - apply f_trunc_ofZ. lia.
  - apply in_width_64. lia.
Qed.

Lemma fl_out_F64 q c :
  c <= 2 ^ 53 ->
  PrimFloat.leb (f_ofZ 0) (f_floorf q) = true -> PrimFloat.ltb (f_floorf q) (f_ofZ c) = true ->
  exists z, f_floor q = Some z /\ 0 <= z < c.
Proof.
  intros Hc H0 H1.
  destruct (Z.le_gt_cases c 0) as [Hc0|Hc0]; [exfalso; exact (range_nonpos c _ Hc0 H0 H1)|].
  destruct (ofZ_exact c) as [Rc Fc]; [lia|].
  unfold f_floorf in H0, H1. destruct (f_floor q) as [z|] eqn:Ef.
  - exists z. split; [reflexivity|].
    pose proof (f_floor_bound q z Ef) as Hb.
    destruct (ofZ_round z) as [Rz Fz]; [lia|].
    destruct (ofZ_exact 0) as [R0 F0]; [lia|].
    rewrite leb_equiv, (Bleb_correct _ _ _ _ F0 Fz), R0, Rz in H0. apply Rle_bool_inv in H0.
    rewrite ltb_equiv, (Bltb_correct _ _ _ _ Fz Fc), Rz, Rc in H1. apply Rlt_bool_inv in H1.
    split.
    + destruct (Z.le_gt_cases 0 z) as [G|G]; [exact G|exfalso].
      assert (rnd64 (IZR z) <= rnd64 (IZR (-1)))%R by (apply rnd64_le; apply IZR_le; lia).
      rewrite (rnd64_id (-1)) in H by (cbn; lia). lra.
    + destruct (Z.le_gt_cases c z) as [G|G]; [exfalso|lia].
      assert (rnd64 (IZR c) <= rnd64 (IZR z))%R by (apply rnd64_le; apply IZR_le; lia).
      rewrite (rnd64_id c) in H by lia. lra.
  - exfalso. unfold f_floor in Ef. destruct (f_trunc q) as [t|] eqn:Et.
    { destruct (PrimFloat.ltb q (f_ofZ t)); discriminate Ef. }
    rewrite ltb_equiv in H1.
    rewrite f_trunc_B in Et.
    destruct (range_cases q _ H0 H1 Fc) as [(s & E)|(m & e & H & E & Hr)]; rewrite E in Et.
    + discriminate Et.
    + cbv zeta in Et. rewrite Rc in Hr.
      destruct (Z.ltb_spec (Zfloor (F2R (Float radix2 (Z.pos m) e))) (2 ^ 63)) as [Hm|Hm];
        [discriminate Et|].
      apply IZR_le in Hm. pose proof (Zfloor_lb (F2R (Float radix2 (Z.pos m) e))) as Hl.
      assert (IZR c <= IZR (2 ^ 63))%R by (apply IZR_le; lia). lra.
Qed.

Definition floor_laws_F64 : RefineGridGeom.floor_laws F64 XF64 (2 ^ 53).
Proof.
  refine (RefineGridGeom.mkFloorLaws F64 XF64 (2 ^ 53) f_floorf _ _ _).
  - intros q. reflexivity.
  - exact fl_in_F64.
  - exact fl_out_F64.
Defined.

(* ---- binary64 instances: c_coord2cell (refinement), c_slice and c_delineate_boundary (safety) ---- *)

Theorem refine_coord2cell_F64 nrows ncols (xll yll csz : PrimFloat.float) pts junk n :
  nrows <= 2 ^ 53 -> ncols <= 2 ^ 53 ->
  List.length junk = List.length pts ->
  (List.length pts < n)%nat ->
  exec_fun F64 XF64 KernelsAst.program (S n) "c_coord2cell"%string
    [AVI nrows; AVI ncols; AVF xll; AVF yll; AVF csz; AVI (zlen pts);
     AVArrF (RefineGridGeom.flat_xy pts); AVArrI junk]
  = Ok (RI 0, [VArrF (RefineGridGeom.flat_xy pts);
               VArrI (map (Grid.coord2cell F64 nrows ncols xll yll csz) pts)]).
Proof. apply (RefineGridGeom.refine_coord2cell F64 XF64 (2 ^ 53) floor_laws_F64). Qed.

Theorem refine_coord2cell_raw_F64 nrows ncols (xll yll csz : PrimFloat.float) xy junk n :
  nrows <= 2 ^ 53 -> ncols <= 2 ^ 53 ->
  List.length xy = (2 * List.length junk)%nat ->
  (List.length junk < n)%nat ->
  exec_fun F64 XF64 KernelsAst.program (S n) "c_coord2cell"%string
    [AVI nrows; AVI ncols; AVF xll; AVF yll; AVF csz; AVI (zlen junk); AVArrF xy; AVArrI junk]
  = Ok (RI 0, [VArrF xy;
               VArrI (map (Grid.coord2cell F64 nrows ncols xll yll csz) (RefineGridGeom.pairs xy))]).
Proof. apply (RefineGridGeom.refine_coord2cell_raw F64 XF64 (2 ^ 53) floor_laws_F64). Qed.

Theorem safe_slice_F64 nrows ncols (xll yll csz : PrimFloat.float) data xys zs n :
  nrows <= 2 ^ 53 -> ncols <= 2 ^ 53 ->
  Z.of_nat (List.length data) = nrows * ncols ->
  List.length xys = (2 * List.length zs)%nat ->
  (List.length zs + 2 < n)%nat ->
  exists ret outs,
    exec_fun F64 XF64 KernelsAst.program (S n) "c_slice"%string
      [AVI nrows; AVI ncols; AVF xll; AVF yll; AVF csz; AVArrF data; AVI (zlen zs); AVArrF xys; AVArrF zs]
    = Ok (ret, outs) /\
    ret = RI 0 /\
    exists zs', outs = [VArrF data; VArrF xys; VArrF zs'] /\ List.length zs' = List.length zs.
Proof.
  intros Hr Hc. apply SafeGis.safe_slice;
    [exact SafeGis.floor_total_F64|apply trunc_ok_F64; exact Hr|apply trunc_ok_F64; exact Hc].
Qed.

Theorem safe_delineate_boundary_F64 nrows ncols area buffer mask bnd n :
  List.length buffer = List.length area -> List.length bnd = List.length area ->
  Z.of_nat (List.length mask) = nrows * ncols ->
  Z.of_nat (List.length area) <= 2 ^ 63 ->
  (List.length area + 4 < n)%nat ->
  exists ret outs,
    exec_fun F64 XF64 KernelsAst.program (S n) "c_delineate_boundary"%string
      [AVI nrows; AVI ncols; AVI (zlen area); AVArrI area; AVArrI buffer; AVArrI mask; AVArrI bnd]
    = Ok (ret, outs) /\
    exists c area' buffer' bnd',
      ret = RI c /\ 0 <= c /\
      outs = [VArrI area'; VArrI buffer'; VArrI mask; VArrI bnd'] /\
      List.length area' = List.length area /\ List.length buffer' = List.length buffer /\
      List.length bnd' = List.length bnd.
Proof.
  intros Hb Hd Hm Hl Hn. apply SafeGis.safe_delineate_boundary; try assumption.
  apply perc_ok_F64. exact Hl.
Qed.
