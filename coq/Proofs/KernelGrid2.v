(* C07 on the regenerated program, second part (Proofs/KernelGrid.v has the round trip
   coord2cell(cell2coord c) = c): the remaining model theorems of Proofs/GridGeomProofs.v -
   footprint, outside, cell centre, row/column, neighbour symmetry - transported through the
   refinement theorems of Proofs/RefineGrid.v and Proofs/RefineGridGeom.v.  Every statement
   is about [exec_fun _ _ program], the MiniC translation of src/hydrodiy/gis/c_grid.c
   regenerated from the tree under test; coordinates are real numbers (RR/XRR). *)
From Coq Require Import ZArith Bool List String Lia Reals Lra PrimFloat.
From Hy Require Import Base.Num Base.MiniC Gen.KernelsAst Model.Grid
  Proofs.GridGeomProofs Proofs.RefineGrid Proofs.RefineGridGeom.
Import ListNotations.
Open Scope string_scope.
Open Scope list_scope.
Open Scope Z_scope.

(* cells are numbered row by row from the top-left corner *)
Definition cellnum (ncols : Z) (rc : Z * Z) : Z := fst rc * ncols + snd rc.

Definition on_grid (nrows ncols : Z) (rc : Z * Z) : Prop :=
  0 <= snd rc < ncols /\ 0 <= fst rc < nrows.

(* the (closed-open) square covered by the cell in row [fst rc] (from the top), column [snd rc] *)
Definition in_footprint (nrows : Z) (xll yll csz : R) (rc : Z * Z) (p : R * R) : Prop :=
  (xll + csz * IZR (snd rc) <= fst p < xll + csz * (IZR (snd rc) + 1))%R /\
  (yll + csz * IZR (nrows - 1 - fst rc) <= snd p < yll + csz * (IZR (nrows - 1 - fst rc) + 1))%R.

(* left of, right of, below or above the extent of the grid (corners included) *)
Definition outside_extent (nrows ncols : Z) (xll yll csz : R) (p : R * R) : Prop :=
  (fst p < xll \/ xll + csz * IZR ncols <= fst p \/ snd p < yll \/ yll + csz * IZR nrows <= snd p)%R.

(* centre of the cell in row [fst rc], column [snd rc] *)
Definition centre (nrows : Z) (xll yll csz : R) (rc : Z * Z) : R * R :=
  ((xll + csz * (IZR (snd rc) + / 2))%R, (yll + csz * (IZR (nrows - 1 - fst rc) + / 2))%R).

Definition run_coord2cell (n : nat) nrows ncols (xll yll csz : R) (pts : list (R * R)) (buf : list Z) :=
  exec_fun RR XRR program (S n) "c_coord2cell"
    [AVI nrows; AVI ncols; AVF xll; AVF yll; AVF csz; AVI (zlen pts); AVArrF (flat_xy pts); AVArrI buf].

Definition run_cell2coord (n : nat) nrows ncols (xll yll csz : R) (idx : list Z) (buf : list R) :=
  exec_fun RR XRR program (S n) "c_cell2coord"
    [AVI nrows; AVI ncols; AVF xll; AVF yll; AVF csz; AVI (zlen idx); AVArrI idx; AVArrF buf].

(* ---------------- c_coord2cell ---------------- *)

(* any grid of at most 2^63 rows / columns with a positive cell size, any list of points each
   lying in the footprint of a cell of the grid, any initial content of the output: the
   translated c_coord2cell returns 0, leaves the coordinates unchanged and writes, for every
   point, the number of the cell whose footprint contains it *)
Theorem kernel_coord2cell_footprint nrows ncols xll yll csz rcs pts buf n :
  (0 < csz)%R -> nrows <= cmax64 -> ncols <= cmax64 ->
  Forall (on_grid nrows ncols) rcs ->
  Forall2 (in_footprint nrows xll yll csz) rcs pts ->
  List.length buf = List.length pts -> (List.length pts < n)%nat ->
  run_coord2cell n nrows ncols xll yll csz pts buf
  = Ok (RI 0, [VArrF (flat_xy pts); VArrI (map (cellnum ncols) rcs)]).
Proof.
  intros Hcsz Hr Hc Hgrid Hfoot Hbuf Hn. unfold run_coord2cell.
  rewrite (refine_coord2cell_RR nrows ncols xll yll csz pts buf n Hr Hc Hbuf Hn).
  assert (E : map (coord2cell RR nrows ncols xll yll csz) pts = map (cellnum ncols) rcs).
  { clear Hbuf Hn buf n. induction Hfoot as [|rc p rcs pts Hp _ IH]; [reflexivity|].
    inversion Hgrid as [|rc' rcs' Hrc Hgrid']; subst. cbn [map]. rewrite (IH Hgrid'). f_equal.
    destruct rc as [row col], p as [x y]. destruct Hrc as [Hcol Hrow]. destruct Hp as [Hx Hy].
    cbn [fst snd] in *. unfold cellnum. cbn [fst snd].
    apply coord2cell_footprint; assumption. }
  rewrite E. reflexivity.
Qed.

(* ... and -1 for every point outside the extent of the grid: all four sides, hence corners *)
Theorem kernel_coord2cell_outside nrows ncols xll yll csz pts buf n :
  (0 < csz)%R -> nrows <= cmax64 -> ncols <= cmax64 ->
  Forall (outside_extent nrows ncols xll yll csz) pts ->
  List.length buf = List.length pts -> (List.length pts < n)%nat ->
  run_coord2cell n nrows ncols xll yll csz pts buf
  = Ok (RI 0, [VArrF (flat_xy pts); VArrI (repeat (-1) (List.length pts))]).
Proof.
  intros Hcsz Hr Hc Hout Hbuf Hn. unfold run_coord2cell.
  rewrite (refine_coord2cell_RR nrows ncols xll yll csz pts buf n Hr Hc Hbuf Hn).
  assert (E : map (coord2cell RR nrows ncols xll yll csz) pts = repeat (-1) (List.length pts)).
  { clear Hbuf Hn buf n. induction Hout as [|p pts Hp _ IH]; [reflexivity|].
    cbn [map List.length repeat]. rewrite IH. f_equal. destruct p as [x y].
    apply coord2cell_outside; assumption. }
  rewrite E. reflexivity.
Qed.

(* ---------------- c_cell2coord ---------------- *)

Lemma cc_out_flat nrows ncols (xll yll csz : R) idx :
  cc_out RR nrows ncols xll yll csz idx = flat_xy (map (cell2coord RR nrows ncols xll yll csz) idx).
Proof.
  induction idx as [|c r IH]; [reflexivity|].
  unfold cc_out, flat_xy in *. cbn [flat_map map].
  destruct (cell2coord RR nrows ncols xll yll csz c) as [x y]. cbn [fst snd app]. rewrite IH. reflexivity.
Qed.

(* cells are numbered row by row from the top-left corner and the translated c_cell2coord
   writes the centre of each cell: any grid, any cell size, any list of (row, column) pairs of
   the grid, any initial content of the output *)
Theorem kernel_cell2coord_centre nrows ncols xll yll csz rcs buf n :
  Forall (on_grid nrows ncols) rcs ->
  List.length buf = (2 * List.length rcs)%nat -> (List.length rcs < n)%nat ->
  run_cell2coord n nrows ncols xll yll csz (map (cellnum ncols) rcs) buf
  = Ok (RI 0, [VArrI (map (cellnum ncols) rcs); VArrF (flat_xy (map (centre nrows xll yll csz) rcs))]).
Proof.
  intros Hgrid Hbuf Hn. unfold run_cell2coord.
  rewrite refine_cell2coord_RR by (rewrite map_length; assumption).
  rewrite cc_out_flat, map_map.
  assert (E : map (fun rc => cell2coord RR nrows ncols xll yll csz (cellnum ncols rc)) rcs
              = map (centre nrows xll yll csz) rcs).
  { clear Hbuf Hn. induction Hgrid as [|rc rcs Hrc _ IH]; [reflexivity|].
    cbn [map]. rewrite IH. f_equal. destruct rc as [row col]. destruct Hrc as [Hcol Hrow].
    cbn [fst snd] in *. unfold cellnum, centre. cbn [fst snd].
    apply cell2coord_centre; assumption. }
  rewrite E. reflexivity.
Qed.

(* ---------------- c_cell2rowcol, c_neighbours: any arithmetic instance ---------------- *)
Section K.
Context {T : Type} (N : NumOps T) (X : NumLit T).

Definition run_cell2rowcol (n : nat) nrows ncols (idx buf : list Z) :=
  exec_fun N X program (S n) "c_cell2rowcol" [AVI nrows; AVI ncols; AVI (zlen idx); AVArrI idx; AVArrI buf].

Definition run_neighbours (n : nat) nrows ncols (c : Z) (buf : list Z) :=
  exec_fun N X program (S n) "c_neighbours" [AVI nrows; AVI ncols; AVI c; AVArrI buf].

(* the translated c_cell2rowcol inverts the numbering row * ncols + col: for every list of
   (row, column) pairs of the grid it writes row, column for each *)
Theorem kernel_cell2rowcol_rowcol nrows ncols rcs buf n :
  Forall (on_grid nrows ncols) rcs ->
  List.length buf = (2 * List.length rcs)%nat -> (List.length rcs < n)%nat ->
  run_cell2rowcol n nrows ncols (map (cellnum ncols) rcs) buf
  = Ok (RI 0, [VArrI (map (cellnum ncols) rcs); VArrI (flat_map (fun rc => [fst rc; snd rc]) rcs)]).
Proof.
  intros Hgrid Hbuf Hn. unfold run_cell2rowcol.
  rewrite (refine_cell2rowcol N X) by (rewrite map_length; assumption).
  assert (E : rc_out nrows ncols (map (cellnum ncols) rcs) = flat_map (fun rc => [fst rc; snd rc]) rcs).
  { clear Hbuf Hn. unfold rc_out. induction Hgrid as [|rc rcs Hrc _ IH]; [reflexivity|].
    cbn [map flat_map]. rewrite IH. f_equal. destruct rc as [row col]. destruct Hrc as [Hcol Hrow].
    cbn [fst snd] in *. unfold cellnum. cbn [fst snd].
    rewrite cell2rowcol_rowcol by assumption. reflexivity. }
  rewrite E. reflexivity.
Qed.

(* cell numbers outside the grid are flagged with the pair -1, -1 *)
Theorem kernel_cell2rowcol_invalid nrows ncols idx buf n :
  Forall (fun c => c < 0 \/ nrows * ncols <= c) idx ->
  List.length buf = (2 * List.length idx)%nat -> (List.length idx < n)%nat ->
  run_cell2rowcol n nrows ncols idx buf
  = Ok (RI 0, [VArrI idx; VArrI (repeat (-1) (2 * List.length idx))]).
Proof.
  intros Hbad Hbuf Hn. unfold run_cell2rowcol.
  rewrite (refine_cell2rowcol N X) by assumption.
  assert (E : rc_out nrows ncols idx = repeat (-1) (2 * List.length idx)).
  { clear Hbuf Hn. unfold rc_out. induction Hbad as [|c idx Hc _ IH]; [reflexivity|].
    cbn [flat_map List.length]. rewrite IH, cell2rowcol_invalid by assumption.
    replace (2 * S (List.length idx))%nat with (S (S (2 * List.length idx))) by lia. reflexivity. }
  rewrite E. reflexivity.
Qed.

(* the neighbour relation computed by the translated c_neighbours is symmetric and the slots
   mirror: for a valid cell c the kernel returns 0 and nine slots; whenever slot k holds a
   cell d (not -1), d is a valid cell different from c, and the kernel run on d returns 0
   and nine slots of which slot 8-k holds c *)
Theorem kernel_neighbours_symmetric nrows ncols c buf n :
  0 < ncols -> 0 <= c < nrows * ncols -> List.length buf = 9%nat -> (3 < n)%nat ->
  exists nbc,
    run_neighbours n nrows ncols c buf = Ok (RI 0, [VArrI nbc]) /\ List.length nbc = 9%nat /\
    forall k d buf', 0 <= k <= 8 -> zn nbc k (-1) = d -> d <> -1 -> List.length buf' = 9%nat ->
      0 <= d < nrows * ncols /\ d <> c /\
      exists nbd,
        run_neighbours n nrows ncols d buf' = Ok (RI 0, [VArrI nbd]) /\ List.length nbd = 9%nat /\
        zn nbd (8 - k) (-1) = c.
Proof.
  intros Hnc Hc Hbuf Hn. exists (neighbours_raw nrows ncols c). split; [|split].
  - unfold run_neighbours. apply (refine_neighbours_ok N X); try assumption.
    apply valid_cell_true; assumption.
  - unfold neighbours_raw. rewrite map_length. reflexivity.
  - intros k d buf' Hk Hd Hne Hbuf'.
    destruct (neighbours_symmetric nrows ncols c k d Hnc Hc Hk Hd Hne) as (Hdv & Hdc & Hback).
    split; [exact Hdv|]. split; [exact Hdc|].
    exists (neighbours_raw nrows ncols d). split; [|split].
    + unfold run_neighbours. apply (refine_neighbours_ok N X); try assumption.
      apply valid_cell_true; assumption.
    + unfold neighbours_raw. rewrite map_length. reflexivity.
    + exact Hback.
Qed.

End K.

(* the abbreviations used in the statements above, unfolded *)
Theorem kernel_grid2_defs :
  (forall n nrows ncols xll yll csz pts buf,
     run_coord2cell n nrows ncols xll yll csz pts buf
     = exec_fun RR XRR program (S n) "c_coord2cell"
         [AVI nrows; AVI ncols; AVF xll; AVF yll; AVF csz; AVI (zlen pts); AVArrF (flat_xy pts); AVArrI buf]) /\
  (forall n nrows ncols xll yll csz idx buf,
     run_cell2coord n nrows ncols xll yll csz idx buf
     = exec_fun RR XRR program (S n) "c_cell2coord"
         [AVI nrows; AVI ncols; AVF xll; AVF yll; AVF csz; AVI (zlen idx); AVArrI idx; AVArrF buf]) /\
  (forall {T} (N : NumOps T) (X : NumLit T) n nrows ncols idx buf,
     run_cell2rowcol N X n nrows ncols idx buf
     = exec_fun N X program (S n) "c_cell2rowcol" [AVI nrows; AVI ncols; AVI (zlen idx); AVArrI idx; AVArrI buf]) /\
  (forall {T} (N : NumOps T) (X : NumLit T) n nrows ncols c buf,
     run_neighbours N X n nrows ncols c buf
     = exec_fun N X program (S n) "c_neighbours" [AVI nrows; AVI ncols; AVI c; AVArrI buf]) /\
  (forall (pts : list (R * R)), flat_xy pts = flat_map (fun p => [fst p; snd p]) pts) /\
  (forall ncols row col, cellnum ncols (row, col) = row * ncols + col) /\
  (forall nrows ncols row col, on_grid nrows ncols (row, col) <-> 0 <= col < ncols /\ 0 <= row < nrows) /\
  (forall nrows xll yll csz row col x y,
     in_footprint nrows xll yll csz (row, col) (x, y) <->
     (xll + csz * IZR col <= x < xll + csz * (IZR col + 1))%R /\
     (yll + csz * IZR (nrows - 1 - row) <= y < yll + csz * (IZR (nrows - 1 - row) + 1))%R) /\
  (forall nrows ncols xll yll csz x y,
     outside_extent nrows ncols xll yll csz (x, y) <->
     (x < xll \/ xll + csz * IZR ncols <= x \/ y < yll \/ yll + csz * IZR nrows <= y)%R) /\
  (forall nrows xll yll csz row col,
     centre nrows xll yll csz (row, col)
     = ((xll + csz * (IZR col + / 2))%R, (yll + csz * (IZR (nrows - 1 - row) + / 2))%R)).
Proof.
  unfold on_grid, in_footprint, outside_extent, cellnum, centre; cbn [fst snd].
  repeat split; try reflexivity; tauto.
Qed.

(* ---------------- non-vacuity ---------------- *)
(* 4 x 3 grid, lower-left corner (10, 20), cell size 2: cell 7 is row 2, column 1, its footprint
   [12,14) x [22,24); cell 0 is the top-left cell, footprint [10,12) x [26,28) *)
Example kernel_coord2cell_footprint_example :
  run_coord2cell 3 4 3 10 20 2 [(13, 23); (10, 27)]%R [9; 9]
  = Ok (RI 0, [VArrF [13; 23; 10; 27]%R; VArrI [7; 0]]).
Proof.
  apply (kernel_coord2cell_footprint 4 3 10 20 2 [(2, 1); (0, 0)] [(13, 23); (10, 27)]%R [9; 9] 3).
  - lra.
  - unfold cmax64. lia.
  - unfold cmax64. lia.
  - repeat constructor; cbn; lia.
  - repeat constructor; cbn; lra.
  - reflexivity.
  - cbn. lia.
Qed.

(* one point on each side of the extent [10,16) x [20,28), and a corner *)
Example kernel_coord2cell_outside_example :
  run_coord2cell 6 4 3 10 20 2 [(9, 23); (16, 23); (13, 19); (13, 28); (9, 28)]%R [9; 9; 9; 9; 9]
  = Ok (RI 0, [VArrF [9; 23; 16; 23; 13; 19; 13; 28; 9; 28]%R; VArrI [-1; -1; -1; -1; -1]]).
Proof.
  apply (kernel_coord2cell_outside 4 3 10 20 2
           [(9, 23); (16, 23); (13, 19); (13, 28); (9, 28)]%R [9; 9; 9; 9; 9] 6).
  - lra.
  - unfold cmax64. lia.
  - unfold cmax64. lia.
  - repeat constructor; unfold outside_extent; cbn; lra.
  - reflexivity.
  - cbn. lia.
Qed.

Example kernel_cell2coord_centre_example :
  exists x y, (x = 13 /\ y = 23)%R /\
  run_cell2coord 2 4 3 10 20 2 [7] [0; 0]%R = Ok (RI 0, [VArrI [7]; VArrF [x; y]]).
Proof.
  eexists. eexists. split; [|exact (kernel_cell2coord_centre 4 3 10 20 2 [(2, 1)] [0; 0]%R 2
    ltac:(repeat constructor; cbn; lia) eq_refl ltac:(cbn; lia))].
  cbn. split; lra.
Qed.

(* the same grid in binary64 (vm_compute of the interpreter on the translated kernels):
   cell 7 has neighbour 3 in slot 0 and cell 3 has 7 in slot 8 *)
Example kernel_grid_examples_F64 :
  exec_fun F64 XF64 program 10 "c_coord2cell"
    [AVI 4; AVI 3; AVF 10%float; AVF 20%float; AVF 2%float; AVI 3;
     AVArrF [13; 23; 10; 27; 9; 28]%float; AVArrI [9; 9; 9]]
  = Ok (RI 0, [VArrF [13; 23; 10; 27; 9; 28]%float; VArrI [7; 0; -1]]) /\
  run_cell2rowcol F64 XF64 10 4 3 [7; 0; 12; -1] [9; 9; 9; 9; 9; 9; 9; 9]
  = Ok (RI 0, [VArrI [7; 0; 12; -1]; VArrI [2; 1; 0; 0; -1; -1; -1; -1]]) /\
  run_neighbours F64 XF64 10 4 3 7 [9; 9; 9; 9; 9; 9; 9; 9; 9]
  = Ok (RI 0, [VArrI [3; 4; 5; 6; -1; 8; 9; 10; 11]]) /\
  run_neighbours F64 XF64 10 4 3 3 [9; 9; 9; 9; 9; 9; 9; 9; 9]
  = Ok (RI 0, [VArrI [-1; 0; 1; -1; -1; 4; -1; 6; 7]]).
Proof. repeat split; vm_compute; reflexivity. Qed.

Example kernel_neighbours_symmetric_example :
  exists nbc, run_neighbours F64 XF64 10 4 3 7 [9; 9; 9; 9; 9; 9; 9; 9; 9] = Ok (RI 0, [VArrI nbc]) /\
              List.length nbc = 9%nat.
Proof.
  destruct (kernel_neighbours_symmetric F64 XF64 4 3 7 [9; 9; 9; 9; 9; 9; 9; 9; 9] 10)
    as (nbc & Hrun & Hlen & _); [lia|lia|reflexivity|lia|].
  exists nbc. split; assumption.
Qed.
