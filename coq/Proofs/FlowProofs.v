(* Theorems about upstream/downstream and catchment delineation
   (Model/Grid.v, Model/Catchment.v) - property C06. *)
From Coq Require Import ZArith Bool List Lia.
From Hy Require Import Base.Num Gen.Consts Model.Grid Model.Catchment Proofs.GridGeomProofs.
Import ListNotations.
Open Scope Z_scope.

(* ---------------- the direction-code table (re-extracted from grid.py) ---------------- *)
Definition codes_wf (codes : list Z) : bool :=
  (zlen codes =? 9) && (zn codes 4 0 =? 0) &&
  forallb (fun j => (j =? 4) || negb (zn codes j 0 =? 0)) slots &&
  forallb (fun j => forallb (fun k => (j =? k) || negb (zn codes j 0 =? zn codes k 0)) slots) slots.

Lemma flowdircode_wf : codes_wf FLOWDIRCODE = true.
Proof. vm_compute. reflexivity. Qed.

Lemma in_slots j : In j slots <-> 0 <= j <= 8.
Proof.
  unfold slots. cbn [In]. split.
  - intros H. repeat (destruct H as [H|H]; [subst; lia|]). destruct H.
  - intros H. assert (j = 0 \/ j = 1 \/ j = 2 \/ j = 3 \/ j = 4 \/ j = 5 \/ j = 6 \/ j = 7 \/ j = 8) by lia.
    repeat (destruct H0 as [H0|H0]; [subst; tauto|]). subst; tauto.
Qed.

Lemma slots_nodup : NoDup slots.
Proof. unfold slots. repeat (constructor; [cbn [In]; lia|]). constructor. Qed.

Section Codes.
Variable codes : list Z.
Hypothesis Hwf : codes_wf codes = true.

Lemma code_centre : zn codes 4 0 = 0.
Proof.
  unfold codes_wf in Hwf. rewrite !andb_true_iff in Hwf. destruct Hwf as [[[_ H] _] _].
  apply Z.eqb_eq in H. exact H.
Qed.

Lemma code_nonzero j : 0 <= j <= 8 -> j <> 4 -> zn codes j 0 <> 0.
Proof.
  intros Hj H4. unfold codes_wf in Hwf. rewrite !andb_true_iff in Hwf. destruct Hwf as [[_ H] _].
  rewrite forallb_forall in H. specialize (H j (proj2 (in_slots j) Hj)).
  rewrite orb_true_iff, negb_true_iff, Z.eqb_eq, Z.eqb_neq in H. destruct H; [contradiction|assumption].
Qed.

Lemma code_inj j k : 0 <= j <= 8 -> 0 <= k <= 8 -> zn codes j 0 = zn codes k 0 -> j = k.
Proof.
  intros Hj Hk E. unfold codes_wf in Hwf. rewrite !andb_true_iff in Hwf. destruct Hwf as [_ H].
  rewrite forallb_forall in H. specialize (H j (proj2 (in_slots j) Hj)).
  rewrite forallb_forall in H. specialize (H k (proj2 (in_slots k) Hk)).
  rewrite orb_true_iff, negb_true_iff, Z.eqb_eq, Z.eqb_neq in H. destruct H; [assumption|contradiction].
Qed.

(* ---------------- a fold in which the last match wins ---------------- *)
Lemma fold_no_match (p : Z -> bool) (g : Z -> Z) l init :
  (forall j, In j l -> p j = false) ->
  fold_left (fun acc j => if p j then g j else acc) l init = init.
Proof.
  revert init; induction l as [|a l IH]; intros init H; [reflexivity|].
  cbn [fold_left]. rewrite (H a) by (left; reflexivity). apply IH. intros j Hj. apply H. right; assumption.
Qed.

Lemma fold_unique_match (p : Z -> bool) (g : Z -> Z) l init k :
  In k l -> p k = true -> (forall j, In j l -> j <> k -> p j = false) ->
  fold_left (fun acc j => if p j then g j else acc) l init = g k.
Proof.
  revert init; induction l as [|a l IH]; intros init Hin Hp Hother; [destruct Hin|].
  cbn [fold_left]. destruct (Z.eq_dec a k) as [->|Hne].
  - rewrite Hp. destruct (in_dec Z.eq_dec k l) as [Hin'|Hnot].
    + apply IH; auto. intros j Hj Hjk. apply Hother; [right; assumption|assumption].
    + apply fold_no_match. intros j Hj. apply Hother; [right; assumption|]. intros ->. contradiction.
  - rewrite (Hother a) by (auto; left; reflexivity).
    destruct Hin as [Hin|Hin]; [contradiction|].
    apply IH; auto. intros j Hj Hjk. apply Hother; [right; assumption|assumption].
Qed.

(* ---------------- downstream ---------------- *)
Variables nrows ncols : Z.
Variable fd : list Z.
Hypothesis Hncols : 0 < ncols.

Notation dn := (downstream_with codes nrows ncols fd).
Notation hits := (upstream_hits_with codes nrows ncols fd).
Notation valid c := (0 <= c < nrows * ncols).

Lemma dn_valid_unfold c :
  valid c ->
  dn c = if zn fd c 0 =? 0 then Some (-2)
         else Some (fold_left (fun acc j => if zn fd c 0 =? zn codes j 0
                                            then zn (neighbours_raw nrows ncols c) j (-1) else acc)
                              slots (-1)).
Proof.
  intros Hv. unfold downstream_with. rewrite (proj2 (valid_cell_true nrows ncols c) Hv). reflexivity.
Qed.

(* sinks, invalid cells, codes outside the table *)
Theorem downstream_sink c : valid c -> zn fd c 0 = 0 -> dn c = Some (-2).
Proof. intros Hv H0. rewrite dn_valid_unfold by assumption. rewrite H0. reflexivity. Qed.

Theorem downstream_invalid_cell c : c < 0 \/ nrows * ncols <= c -> dn c = None.
Proof.
  intros H. unfold downstream_with. destruct (valid_cell nrows ncols c) eqn:E; [|reflexivity].
  apply valid_cell_true in E. lia.
Qed.

Theorem downstream_unknown_code c :
  valid c -> zn fd c 0 <> 0 -> (forall j, 0 <= j <= 8 -> zn fd c 0 <> zn codes j 0) ->
  dn c = Some (-1).
Proof.
  intros Hv H0 Hno. rewrite dn_valid_unfold by assumption.
  destruct (zn fd c 0 =? 0) eqn:E; [apply Z.eqb_eq in E; contradiction|].
  f_equal. apply fold_no_match. intros j Hj. apply Z.eqb_neq. apply Hno. apply in_slots. assumption.
Qed.

Lemma downstream_code c k :
  valid c -> 0 <= k <= 8 -> k <> 4 -> zn fd c 0 = zn codes k 0 ->
  dn c = Some (zn (neighbours_raw nrows ncols c) k (-1)).
Proof.
  intros Hv Hk H4 Hc. rewrite dn_valid_unfold by assumption.
  destruct (zn fd c 0 =? 0) eqn:E.
  - apply Z.eqb_eq in E. exfalso. apply (code_nonzero k Hk H4). congruence.
  - f_equal.
    apply (fold_unique_match (fun j => zn fd c 0 =? zn codes j 0)
             (fun j => zn (neighbours_raw nrows ncols c) j (-1))).
    + apply in_slots; assumption.
    + apply Z.eqb_eq; assumption.
    + intros j Hj Hjk. apply Z.eqb_neq. intros E2. apply Hjk.
      apply code_inj; [apply in_slots; assumption|assumption|congruence].
Qed.

(* every answer of downstream is one of the three documented cases *)
Lemma downstream_cases c r :
  valid c -> dn c = Some r ->
  (zn fd c 0 = 0 /\ r = -2) \/
  (zn fd c 0 <> 0 /\ (forall j, 0 <= j <= 8 -> zn fd c 0 <> zn codes j 0) /\ r = -1) \/
  (exists k, 0 <= k <= 8 /\ k <> 4 /\ zn fd c 0 = zn codes k 0 /\
             r = zn (neighbours_raw nrows ncols c) k (-1)).
Proof.
  intros Hv Hd. destruct (Z.eq_dec (zn fd c 0) 0) as [E0|E0].
  - left. rewrite downstream_sink in Hd by assumption. split; congruence.
  - right.
    destruct (existsb (fun j => zn fd c 0 =? zn codes j 0) slots) eqn:Ex.
    + right. apply existsb_exists in Ex. destruct Ex as [k [Hk Ek]].
      apply in_slots in Hk. apply Z.eqb_eq in Ek.
      assert (k <> 4) by (intros ->; rewrite code_centre in Ek; contradiction).
      exists k. repeat split; try assumption; try lia.
      rewrite (downstream_code c k) in Hd by assumption. congruence.
    + left. assert (Hno : forall j, 0 <= j <= 8 -> zn fd c 0 <> zn codes j 0).
      { intros j Hj E. assert (existsb (fun j => zn fd c 0 =? zn codes j 0) slots = true).
        { apply existsb_exists. exists j. split; [apply in_slots; assumption|apply Z.eqb_eq; assumption]. }
        congruence. }
      rewrite downstream_unknown_code in Hd by assumption. repeat split; try assumption. congruence.
Qed.

(* a non-negative answer is a valid cell different from the start *)
Lemma downstream_result_valid c d :
  valid c -> dn c = Some d -> 0 <= d -> valid d /\ d <> c.
Proof.
  intros Hv Hd Hpos. destruct (downstream_cases c d Hv Hd) as [[_ ->]|[[_ [_ ->]]|(k & Hk & H4 & Hc & ->)]]; try lia.
  destruct (neighbours_symmetric nrows ncols c k _ Hncols Hv Hk eq_refl ltac:(lia)) as (H1 & H2 & _).
  auto.
Qed.

(* ---------------- upstream is the inverse relation ---------------- *)
Lemma in_hits c d :
  In c (hits d) <->
  exists j, 0 <= j <= 8 /\ zn (neighbours_raw nrows ncols d) j (-1) = c /\ c <> -1 /\
            zn fd c 0 <> 0 /\ zn fd c 0 = zn codes (8 - j) 0.
Proof.
  unfold upstream_hits_with. rewrite in_flat_map. split.
  - intros [j [Hj Hin]]. apply in_slots in Hj. exists j.
    destruct (zn (neighbours_raw nrows ncols d) j (-1) =? -1) eqn:E1; [destruct Hin|].
    destruct (zn fd (zn (neighbours_raw nrows ncols d) j (-1)) 0 =? 0) eqn:E2; [destruct Hin|].
    destruct (zn fd (zn (neighbours_raw nrows ncols d) j (-1)) 0 =? zn codes (8 - j) 0) eqn:E3; [|destruct Hin].
    destruct Hin as [<-|[]]. apply Z.eqb_neq in E1, E2. apply Z.eqb_eq in E3. auto.
  - intros (j & Hj & Hn & Hc & H0 & Hcode). exists j. split; [apply in_slots; assumption|].
    rewrite Hn. apply Z.eqb_neq in Hc, H0. apply Z.eqb_eq in Hcode. rewrite Hc, H0, Hcode.
    left; reflexivity.
Qed.

Theorem up_down_inverse c d :
  valid d -> (In c (hits d) <-> (valid c /\ dn c = Some d)).
Proof.
  intros Hd. rewrite in_hits. split.
  - intros (j & Hj & Hn & Hc & H0 & Hcode).
    destruct (neighbours_symmetric nrows ncols d j c Hncols Hd Hj Hn Hc) as (Hvc & Hne & Hback).
    split; [assumption|].
    assert (H4 : 8 - j <> 4).
    { intros E. rewrite E, code_centre in Hcode. contradiction. }
    rewrite (downstream_code c (8 - j)) by (try assumption; lia). rewrite Hback. reflexivity.
  - intros [Hvc Hdn].
    destruct (downstream_cases c d Hvc Hdn) as [[_ ->]|[[_ [_ ->]]|(k & Hk & H4 & Hcode & Hn)]]; try lia.
    assert (Hdne : d <> -1) by lia.
    destruct (neighbours_symmetric nrows ncols c k d Hncols Hvc Hk (eq_sym Hn) Hdne) as (_ & _ & Hback).
    exists (8 - k). repeat split; try lia; try assumption.
    + rewrite Hcode. apply code_nonzero; assumption.
    + replace (8 - (8 - k)) with k by lia. assumption.
Qed.

Lemma hits_valid c d : valid d -> In c (hits d) -> valid c.
Proof. intros Hd H. apply up_down_inverse in H; tauto. Qed.

(* each upstream cell is listed once *)
Lemma NoDup_app_intro {A} (l1 l2 : list A) :
  NoDup l1 -> NoDup l2 -> (forall x, In x l1 -> ~ In x l2) -> NoDup (l1 ++ l2).
Proof.
  induction l1 as [|a l1 IH]; intros H1 H2 H; simpl; [assumption|].
  inversion H1; subst. constructor.
  - rewrite in_app_iff. intros [Hin|Hin]; [contradiction|]. apply (H a); simpl; auto.
  - apply IH; auto. intros x Hx. apply H. simpl; auto.
Qed.

Lemma nodup_flat_map {A B} (f : A -> list B) (l : list A) :
  NoDup l -> (forall a, In a l -> NoDup (f a)) ->
  (forall a a' x, In a l -> In a' l -> In x (f a) -> In x (f a') -> a = a') ->
  NoDup (flat_map f l).
Proof.
  induction l as [|a l IH]; intros Hnd Hf Hdis; cbn [flat_map]; [constructor|].
  inversion Hnd as [|a0 l0 Hnot Hnd']; subst.
  apply NoDup_app_intro.
  - apply Hf; left; reflexivity.
  - apply IH; auto.
    + intros a' Ha'. apply Hf. right; assumption.
    + intros a1 a2 x H1 H2. apply Hdis; right; assumption.
  - intros x Hx Hin. apply in_flat_map in Hin. destruct Hin as [a' [Ha' Hx']].
    assert (a = a') by (apply (Hdis a a' x); auto; [left; reflexivity|right; assumption]).
    subst a'. contradiction.
Qed.

Theorem hits_nodup d : valid d -> NoDup (hits d).
Proof.
  intros Hd. unfold upstream_hits_with. apply nodup_flat_map.
  - apply slots_nodup.
  - intros j _.
    destruct (zn (neighbours_raw nrows ncols d) j (-1) =? -1); [constructor|].
    destruct (zn fd (zn (neighbours_raw nrows ncols d) j (-1)) 0 =? 0); [constructor|].
    destruct (zn fd (zn (neighbours_raw nrows ncols d) j (-1)) 0 =? zn codes (8 - j) 0);
      constructor; [intros []|constructor].
  - intros j j' x Hj Hj' Hx Hx'. apply in_slots in Hj, Hj'.
    assert (G : forall i, 0 <= i <= 8 ->
      In x (let nb := zn (neighbours_raw nrows ncols d) i (-1) in
            if nb =? -1 then [] else let f := zn fd nb 0 in
            if f =? 0 then [] else if f =? zn codes (8 - i) 0 then [nb] else []) ->
      zn fd x 0 = zn codes (8 - i) 0 /\ x = zn (neighbours_raw nrows ncols d) i (-1)).
    { intros i Hi Hin. cbv zeta in Hin.
      destruct (zn (neighbours_raw nrows ncols d) i (-1) =? -1); [destruct Hin|].
      destruct (zn fd (zn (neighbours_raw nrows ncols d) i (-1)) 0 =? 0); [destruct Hin|].
      destruct (zn fd (zn (neighbours_raw nrows ncols d) i (-1)) 0 =? zn codes (8 - i) 0) eqn:E; [|destruct Hin].
      destruct Hin as [<-|[]]. apply Z.eqb_eq in E. auto. }
    destruct (G j Hj Hx) as [E1 _]. destruct (G j' Hj' Hx') as [E2 _].
    assert (8 - j = 8 - j') by (apply code_inj; try lia; congruence). lia.
Qed.

(* upstream pads the packed hits with -1 up to nine entries *)
Lemma flat_map_length_le {A B} (f : A -> list B) (l : list A) :
  (forall a, (List.length (f a) <= 1)%nat) -> (List.length (flat_map f l) <= List.length l)%nat.
Proof.
  intros H. induction l as [|a l IH]; [simpl; lia|]. cbn [flat_map]. rewrite app_length.
  specialize (H a). cbn [List.length]. lia.
Qed.

Lemma hits_length d : (List.length (hits d) <= 9)%nat.
Proof.
  unfold upstream_hits_with. change 9%nat with (List.length slots). apply flat_map_length_le.
  intros j. cbv zeta.
  destruct (zn (neighbours_raw nrows ncols d) j (-1) =? -1); [simpl; lia|].
  destruct (zn fd (zn (neighbours_raw nrows ncols d) j (-1)) 0 =? 0); [simpl; lia|].
  destruct (zn fd (zn (neighbours_raw nrows ncols d) j (-1)) 0 =? zn codes (8 - j) 0); simpl; lia.
Qed.

End Codes.
