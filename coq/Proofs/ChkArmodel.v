(* Overflow-checked refinement: the CHECKED MiniC program (Gen/KernelsAstChk.v, [program_chk]:
   every signed integer +, -, ++, -- of the C text wrapped in [IChk W32]) regenerated from
   src/hydrodiy/stat/c_armodels.c (c_armodel_sim, c_armodel_residual) computes, for ALL inputs
   whose length fits a C [int], what the hand-written model of Model/Armodel.v computes:
   besides memory safety, no signed integer operation of the two kernels overflows.
   Adapted from Proofs/RefineArmodel.v (same invariants; the extra [in_width] tests are
   discharged by [iw]).  Last part: c_paretofront (checked safety). *)
From Coq Require Import ZArith Bool List String Lia.
From Hy Require Import Base.Num Base.MiniC Gen.Consts Gen.KernelsAstChk Model.Armodel.
Import ListNotations.
Open Scope string_scope.
Open Scope list_scope.
Open Scope Z_scope.

(* ================================================================== *)
(* The overflow tests                                                   *)
(* ================================================================== *)

Lemma in_width_W32 v : in_width W32 v = true <-> -2147483648 <= v <= 2147483647.
Proof.
  unfold in_width. rewrite andb_true_iff, !Z.leb_le. reflexivity.
Qed.

Lemma in_width_W64 v :
  in_width W64 v = true <-> -9223372036854775808 <= v <= 9223372036854775807.
Proof.
  unfold in_width. rewrite andb_true_iff, !Z.leb_le. reflexivity.
Qed.

(* keep the tests folded under cbn; [iw] rewrites them to [true] by [lia] from the context *)
#[local] Arguments in_width : simpl never.

Ltac iw1 :=
  match goal with
  | |- context[in_width W32 ?v] =>
      replace (in_width W32 v) with true by (symmetry; apply in_width_W32; lia)
  | |- context[in_width W64 ?v] =>
      replace (in_width W64 v) with true by (symmetry; apply in_width_W64; lia)
  end.
Ltac iw := repeat iw1.

(* ================================================================== *)
(* Generic helpers (candidates for Base/MiniC.v)                        *)
(* ================================================================== *)

Lemma snoc_cases {A} (l : list A) : l = [] \/ exists l' x, l = l' ++ [x].
Proof.
  destruct l as [|a l]; [left; reflexivity|right].
  destruct (@exists_last A (a :: l)) as (l' & x & E); [discriminate|].
  exists l', x. exact E.
Qed.

Lemma removelast_snoc {A} (l : list A) x : removelast (l ++ [x]) = l.
Proof. apply removelast_last. Qed.

Lemma repeat_snoc {A} (x : A) k : repeat x k ++ [x] = repeat x (S k).
Proof. induction k as [|k IH]; [reflexivity|]. cbn [repeat app]. rewrite IH. reflexivity. Qed.

Lemma repeat_app_cons {A} (x : A) k l : repeat x k ++ x :: l = x :: repeat x k ++ l.
Proof. induction k as [|k IH]; [reflexivity|]. cbn [repeat app]. rewrite IH. reflexivity. Qed.

Lemma map_const_repeat {A B} (d : B) (l : list A) : map (fun _ => d) l = repeat d (List.length l).
Proof. induction l as [|a l IH]; [reflexivity|]. cbn. rewrite IH. reflexivity. Qed.

Lemma combine_snoc {A B} (pa : list A) (qa : list B) c x :
  List.length pa = List.length qa ->
  combine (pa ++ [c]) (qa ++ [x]) = combine pa qa ++ [(c, x)].
Proof.
  revert qa; induction pa as [|a pa IH]; intros [|b qa] H; cbn in H; try discriminate.
  - reflexivity.
  - cbn. rewrite IH by lia. reflexivity.
Qed.

Lemma skipn_cons_nth {A} (l : list A) k :
  (k < List.length l)%nat -> exists x, skipn k l = x :: skipn (S k) l.
Proof.
  revert k; induction l as [|a l IH]; intros k H; cbn in H; [lia|].
  destruct k as [|k]; [exists a; reflexivity|].
  destruct (IH k) as (x & E); [lia|]. exists x. cbn [skipn]. exact E.
Qed.

Lemma removelast_cons2 {A} (y x : A) l : removelast (y :: x :: l) = y :: removelast (x :: l).
Proof. reflexivity. Qed.

Lemma fold_rev_combine_cons {A B} (f : A -> B * B -> A) c pb x qb v :
  fold_left f (rev (combine (c :: pb) (x :: qb))) v = f (fold_left f (rev (combine pb qb)) v) (c, x).
Proof.
  change (combine (c :: pb) (x :: qb)) with ((c, x) :: combine pb qb).
  change (rev ((c, x) :: combine pb qb)) with (rev (combine pb qb) ++ [(c, x)]).
  rewrite fold_left_app. reflexivity.
Qed.

Lemma removelast_length_cons {A} (x : A) l : l <> [] -> List.length (x :: removelast l) = List.length l.
Proof.
  intros H. destruct (snoc_cases l) as [->|(l' & y & ->)]; [contradiction|].
  rewrite removelast_snoc, app_length. cbn. lia.
Qed.

(* present the initial state of the (first matching) loop of the goal as [st]
   (a convertible term, e.g. a named state constructor) before rewriting with a
   lemma about that loop *)
Ltac fold_loop_state n st :=
  match goal with
  | |- context[loop n _ _ ?s] => change s with st
  end.

(* ================================================================== *)

Section Refine.
Context {T : Type} (N : NumOps T) (X : NumLit T).

Definition notnan (x : T) : bool := negb (nisnan N x).

(* the two kernels have the same variables; only the names of the second and
   third array differ *)
Definition nm_ok (nm1 nm2 : string) : Prop :=
  (nm1 = "innov" /\ nm2 = "outputs") \/ (nm1 = "inputs" /\ nm2 = "residuals").

Definition ar_state (nm1 nm2 : string) (nval p i k : Z) (mean ini value tmp : T)
           (params a1 a2 prev : list T) : state T :=
  {| s_i := [("nval", nval); ("nparams", p); ("i", i); ("k", k)];
     s_f := [("sim_mean", mean); ("sim_ini", ini); ("value", value); ("tmp", tmp)];
     s_ai := [];
     s_af := [("params", params); (nm1, a1); (nm2, a2); ("prev_centered", prev)] |}.

(* ---- loop 1: for(k=0; k<nparams; k++) if(isnan(params[k])) return ERROR+__LINE__ ---- *)

Definition chk_inv (nm1 nm2 : string) (nval : Z) (mean ini v t : T) (params a1 a2 : list T) (prev : list T) (k : nat) (st : state T) : Prop :=
  exists done todo, params = done ++ todo /\ List.length done = k /\
    forallb notnan done = true /\
    st = ar_state nm1 nm2 nval (zlen params) 0 (Z.of_nat k) mean ini v t params a1 a2 prev.

Definition chk_post (nm1 nm2 : string) (nval : Z) (mean ini v t : T) (params a1 a2 : list T) (prev : list T) (r : outcome T * state T) : Prop :=
  (forallb notnan params = true /\
   r = (ONormal, ar_state nm1 nm2 nval (zlen params) 0 (zlen params) mean ini v t params a1 a2 prev))
  \/
  (forallb notnan params = false /\ exists code k, 0 < code /\
   r = (ORet (RI code), ar_state nm1 nm2 nval (zlen params) 0 k mean ini v t params a1 a2 prev)).

Lemma chk_loop nm1 nm2 nval mean ini v t params a1 a2 (callf : callee T) n c prev :
  nm_ok nm1 nm2 -> 0 <= c <= 1000000 -> zlen params <= 2147483647 ->
  (List.length params < n)%nat ->
  exists r,
    loop n (cond_of N X (ICmp CLt (IVar "k") (IVar "nparams")))
      (for_body
         (exec N X callf n
            (SIf (IIsnan (FArr "params" (IVar "k")))
               (SRetI (IChk W32 (IBin IAdd (IConst 56000) (IConst c)))) SSkip))
         (exec N X callf n (SSetI "k" (IChk W32 (IBin IAdd (IVar "k") (IConst 1))))))
      (ar_state nm1 nm2 nval (zlen params) 0 0 mean ini v t params a1 a2 prev) = Ok r
    /\ chk_post nm1 nm2 nval mean ini v t params a1 a2 prev r.
Proof.
  intros Hnm Hc Hpm Hn. rewrite zlen_eq in Hpm.
  apply (loop_rule (chk_inv nm1 nm2 nval mean ini v t params a1 a2 prev)
           (chk_post nm1 nm2 nval mean ini v t params a1 a2 prev) (List.length params)) with (k := O).
  - intros k st (done & todo & Hp & Hk & Hd & ->).
    assert (Hlen : List.length params = (k + List.length todo)%nat)
      by (rewrite Hp, app_length; lia).
    split; [lia|].
    destruct Hnm as [[? ?]|[? ?]]; subst nm1 nm2; unfold ar_state; cbn; rewrite zlen_eq.
    all: destruct todo as [|x todo].
    all: try (replace (Z.of_nat k <? Z.of_nat (List.length params)) with false
               by (symmetry; apply Z.ltb_ge; cbn in Hlen; lia);
              cbn; left; rewrite app_nil_r in Hp; subst done;
              split; [exact Hd|]; unfold ar_state; rewrite zlen_eq;
              replace (List.length params) with k by (cbn in Hlen; lia); reflexivity).
    all: replace (Z.of_nat k <? Z.of_nat (List.length params)) with true
           by (symmetry; apply Z.ltb_lt; cbn in Hlen; lia).
    all: assert (Hg : zget params (Z.of_nat k) = Some x)
           by (rewrite Hp; apply zget_app; lia).
    all: cbn; rewrite Hg; cbn; rewrite truth_b2z; destruct (nisnan N x) eqn:Hx; cbn.
    all: cbn in Hlen; iw; cbn.
    all: try (right; split;
              [rewrite Hp, forallb_app; cbn; unfold notnan at 2; rewrite Hx, andb_false_r; reflexivity|];
              exists (56000 + c), (Z.of_nat k); split; [lia|];
              unfold ar_state; rewrite zlen_eq; reflexivity).
    all: exists (done ++ [x]), todo;
         split; [rewrite <- app_assoc; exact Hp|];
         split; [rewrite app_length; cbn; lia|];
         split; [rewrite forallb_app, Hd; cbn; unfold notnan; rewrite Hx; reflexivity|];
         norm_state; unfold ar_state; rewrite zlen_eq;
         replace (Z.of_nat k + 1) with (Z.of_nat (S k)) by lia; reflexivity.
  - exists [], params. repeat split.
  - lia.
Qed.


(* ---- loop 2: for(k=0; k<nparams; k++) prev_centered[k] = sim_ini-sim_mean ---- *)

Definition init_st (nm1 nm2 : string) (nval : Z) (mean ini v t : T) (params a1 a2 : list T)
           (prev0 : list T) (k : nat) : state T :=
  ar_state nm1 nm2 nval (zlen params) 0 (Z.of_nat k) mean ini v t params a1 a2
           (repeat (nsub N ini mean) k ++ skipn k prev0).

Lemma init_loop nm1 nm2 nval mean ini v t params a1 a2 (callf : callee T) n prev0 :
  nm_ok nm1 nm2 -> (List.length params <= List.length prev0)%nat ->
  zlen params <= 2147483647 -> (List.length params < n)%nat ->
  loop n (cond_of N X (ICmp CLt (IVar "k") (IVar "nparams")))
    (for_body
       (exec N X callf n
          (SStoreF "prev_centered" (IVar "k") (FBin FSub (FVar "sim_ini") (FVar "sim_mean"))))
       (exec N X callf n (SSetI "k" (IChk W32 (IBin IAdd (IVar "k") (IConst 1))))))
    (ar_state nm1 nm2 nval (zlen params) 0 0 mean ini v t params a1 a2 prev0)
  = Ok (ONormal, init_st nm1 nm2 nval mean ini v t params a1 a2 prev0 (List.length params)).
Proof.
  intros Hnm Hlen Hpm Hn. rewrite zlen_eq in Hpm.
  apply (loop_rule_eq
           (fun k st => (k <= List.length params)%nat /\
                        st = init_st nm1 nm2 nval mean ini v t params a1 a2 prev0 k)
           _ (List.length params)).
  - intros k st (Hk & ->). split; [exact Hk|].
    destruct Hnm as [[? ?]|[? ?]]; subst nm1 nm2; unfold init_st, ar_state; cbn; rewrite zlen_eq.
    all: destruct (Z.ltb_spec (Z.of_nat k) (Z.of_nat (List.length params))) as [Hlt|Hge]; cbn.
    all: try (replace k with (List.length params) by lia; reflexivity).
    all: destruct (skipn_cons_nth prev0 k) as (x & Hx); [lia|]; rewrite Hx.
    all: rewrite zset_app by (rewrite repeat_length; reflexivity); cbn.
    all: iw; cbn.
    all: split; [lia|]; norm_state; unfold init_st, ar_state; rewrite ?zlen_eq.
    all: replace (Z.of_nat k + 1) with (Z.of_nat (S k)) by lia.
    all: rewrite repeat_app_cons; reflexivity.
  - split; [lia|]. unfold init_st. cbn. reflexivity.
  - lia.
Qed.

(* ---- c_armodel_sim: the inner loop  for(k=nparams-1; k>=0; k--)  ---- *)

#[local] Arguments removelast : simpl never.
#[local] Arguments rev : simpl never.
#[local] Arguments combine : simpl never.
#[local] Arguments fold_left : simpl never.

(* state after j iterations: the last j entries (pb, qb) are processed *)
Definition simk_inv nval i mean ini v params a1 a2 prev rest (j : nat) (st : state T) : Prop :=
  exists pa pb qa qb,
    params = pa ++ pb /\ prev = qa ++ qb /\ List.length pa = List.length qa /\
    List.length pb = j /\ List.length qb = j /\
    st = ar_state "innov" "outputs" nval (zlen params) i (Z.of_nat (List.length qa) - 1) mean ini v
           (fold_left (sim_term N) (rev (combine pb qb)) v) params a1 a2
           (match rev qa with
            | [] => fold_left (sim_term N) (rev (combine pb qb)) v :: removelast prev
            | y :: _ => qa ++ removelast (y :: qb)
            end ++ rest).

Lemma sim_inner (callf : callee T) n nval i mean ini v params a1 a2 prev rest :
  List.length prev = List.length params -> (0 < List.length params)%nat ->
  zlen params <= 2147483647 -> (List.length params < n)%nat ->
  loop n (cond_of N X (ICmp CGe (IVar "k") (IConst 0)))
    (for_body
       (exec N X callf n
          (SSeq
             (SIf (IUn ILNot (IIsnan (FArr "prev_centered" (IVar "k"))))
                (SSetF "tmp"
                   (FBin FAdd (FVar "tmp")
                      (FBin FMul (FArr "params" (IVar "k")) (FArr "prev_centered" (IVar "k")))))
                SSkip)
             (SStoreF "prev_centered" (IVar "k")
                (FCond (ICmp CGt (IVar "k") (IConst 0))
                   (FArr "prev_centered" (IChk W32 (IBin ISub (IVar "k") (IConst 1))))
                   (FVar "tmp")))))
       (exec N X callf n (SSetI "k" (IChk W32 (IBin ISub (IVar "k") (IConst 1))))))
    (ar_state "innov" "outputs" nval (zlen params) i (zlen params - 1) mean ini v v params a1 a2
              (prev ++ rest))
  = Ok (ONormal,
        ar_state "innov" "outputs" nval (zlen params) i (-1) mean ini v
          (fold_left (sim_term N) (rev (combine params prev)) v) params a1 a2
          (fold_left (sim_term N) (rev (combine params prev)) v :: removelast prev ++ rest)).
Proof.
  intros Hlen Hpos Hpm Hn. rewrite zlen_eq in Hpm.
  apply (loop_rule_eq (simk_inv nval i mean ini v params a1 a2 prev rest) _ (List.length params)).
  - intros j st (pa & pb & qa & qb & Hp & Hq & Hl & Hpb & Hqb & ->).
    assert (Hj : List.length params = (List.length qa + j)%nat)
      by (rewrite Hp, app_length; lia).
    split; [lia|].
    destruct (snoc_cases qa) as [->|(qa' & x & ->)].
    + (* k = -1: end of the loop *)
      destruct pa; [|discriminate]. cbn in Hp, Hq. subst pb qb.
      unfold ar_state. cbn. reflexivity.
    + destruct (snoc_cases pa) as [->|(pa' & c & ->)];
        [rewrite app_length in Hl; cbn in Hl; lia|].
      rewrite !app_length in Hl. cbn in Hl.
      assert (Hl' : List.length pa' = List.length qa') by lia.
      rewrite app_length in Hj; cbn in Hj.
      rewrite rev_app_distr. change (rev [x]) with [x]. cbn [app].
      replace (Z.of_nat (List.length (qa' ++ [x])) - 1) with (Z.of_nat (List.length qa'))
        by (rewrite app_length; cbn; lia).
      rewrite <- !app_assoc. cbn [app].
      assert (Hg2 : zget params (Z.of_nat (List.length qa')) = Some c).
      { rewrite Hp, <- app_assoc. cbn [app]. apply zget_app. lia. }
      unfold ar_state. cbn. zb. cbn.
      rewrite (zget_app qa') by reflexivity. cbn. rewrite Hg2. cbn.
      set (tmp0 := fold_left (sim_term N) (rev (combine pb qb)) v).
      set (tmp1 := sim_term N tmp0 (c, x)).
      match goal with
      | |- context[if ?b then Ok (@ONormal T, ?A) else Ok (@ONormal T, ?B)] =>
          replace (if b then Ok (@ONormal T, A) else Ok (@ONormal T, B))
            with (Ok (@ONormal T, set_f B "tmp" tmp1))
            by (subst tmp1; unfold sim_term; cbn [fst snd]; destruct (nisnan N x); reflexivity)
      end.
      cbn.
      destruct (snoc_cases qa') as [->|(qa'' & y & ->)].
      * (* k = 0: prev_centered[0] = tmp *)
        cbn. iw. cbn.
        exists pa', (c :: pb), [], (x :: qb).
        split; [rewrite Hp, <- app_assoc; reflexivity|].
        split; [exact Hq|].
        split; [exact Hl'|].
        split; [cbn; lia|]. split; [cbn; lia|].
        norm_state. unfold ar_state. rewrite fold_rev_combine_cons. fold tmp0. fold tmp1.
        change (rev []) with (@nil T). cbn [app] in Hq. rewrite Hq. cbn. reflexivity.
      * replace (0 <? Z.of_nat (List.length (qa'' ++ [y]))) with true
          by (symmetry; apply Z.ltb_lt; rewrite app_length; cbn; lia).
        cbn. iw. cbn. rewrite <- app_assoc. cbn [app].
        rewrite (zget_app qa'') by (rewrite app_length; cbn; lia).
        cbn.
        replace (qa'' ++ y :: x :: removelast (x :: qb) ++ rest)
          with ((qa'' ++ [y]) ++ x :: removelast (x :: qb) ++ rest)
          by (rewrite <- app_assoc; reflexivity).
        rewrite (zset_app (qa'' ++ [y])) by reflexivity. cbn. iw. cbn.
        exists pa', (c :: pb), (qa'' ++ [y]), (x :: qb).
        split; [rewrite Hp, <- app_assoc; reflexivity|].
        split; [rewrite Hq, <- app_assoc; reflexivity|].
        split; [exact Hl'|].
        split; [cbn; lia|]. split; [cbn; lia|].
        norm_state. unfold ar_state. rewrite fold_rev_combine_cons. fold tmp0. fold tmp1.
        rewrite rev_app_distr. change (rev [y]) with [y]. cbn [app].
        rewrite removelast_cons2. rewrite <- !app_assoc. cbn [app]. reflexivity.
  - exists params, [], prev, [].
    split; [rewrite app_nil_r; reflexivity|]. split; [rewrite app_nil_r; reflexivity|].
    split; [symmetry; exact Hlen|]. split; [reflexivity|]. split; [reflexivity|].
    rewrite zlen_eq, Hlen.
    change (fold_left (sim_term N) (rev (combine [] [])) v) with v.
    destruct (rev prev) as [|y r] eqn:E.
    + apply (f_equal (@rev T)) in E. rewrite rev_involutive in E.
      change (rev []) with (@nil T) in E. subst prev. cbn in Hlen. lia.
    + change (removelast [y]) with (@nil T). rewrite app_nil_r. reflexivity.
  - lia.
Qed.

(* ---- c_armodel_sim: the loop over the time steps ---- *)

(* the model's state (centered previous values) after the inputs [l] *)
Definition sim_prevs (mean : T) (params prev l : list T) : list T :=
  fold_left (fun pv e => fst (sim_step N mean params pv e)) l prev.

Lemma sim_prevs_snoc mean params prev l e :
  sim_prevs mean params prev (l ++ [e]) = fst (sim_step N mean params (sim_prevs mean params prev l) e).
Proof. unfold sim_prevs. rewrite fold_left_app. reflexivity. Qed.

Lemma sim_loop_snoc mean params l : forall prev e,
  sim_loop N mean params prev (l ++ [e])
  = sim_loop N mean params prev l ++ [snd (sim_step N mean params (sim_prevs mean params prev l) e)].
Proof.
  induction l as [|a l IH]; intros prev e.
  - reflexivity.
  - cbn [app sim_loop]. destruct (sim_step N mean params prev a) as [pv y] eqn:E.
    rewrite IH. unfold sim_prevs. change (fold_left ?f (a :: l) prev) with (fold_left f l (f prev a)).
    cbv beta. rewrite E. reflexivity.
Qed.

Lemma sim_loop_length mean params l : forall prev,
  List.length (sim_loop N mean params prev l) = List.length l.
Proof.
  induction l as [|a l IH]; intros prev; [reflexivity|].
  cbn [sim_loop]. destruct (sim_step N mean params prev a). cbn [List.length]. rewrite IH. reflexivity.
Qed.

Lemma sim_prevs_length mean params l : forall prev,
  prev <> [] -> List.length (sim_prevs mean params prev l) = List.length prev.
Proof.
  induction l as [|a l IH]; intros prev H; [reflexivity|].
  unfold sim_prevs. change (fold_left ?f (a :: l) prev) with (fold_left f l (f prev a)).
  cbv beta. fold (sim_prevs mean params (fst (sim_step N mean params prev a)) l).
  rewrite IH; unfold sim_step; cbn [fst]; [|discriminate].
  apply removelast_length_cons. exact H.
Qed.

Definition simo_inv mean ini params innov prev0 rest (i : nat) (st : state T) : Prop :=
  exists done todo jtodo value tmp kk,
    innov = done ++ todo /\ List.length done = i /\ List.length jtodo = List.length todo /\
    st = ar_state "innov" "outputs" (zlen innov) (zlen params) (Z.of_nat i) kk mean ini value tmp
           params innov (sim_loop N mean params prev0 done ++ jtodo)
           (sim_prevs mean params prev0 done ++ rest).

Definition simo_post mean ini params innov prev0 (r : outcome T * state T) : Prop :=
  exists value tmp kk prevf,
    r = (ONormal, ar_state "innov" "outputs" (zlen innov) (zlen params) (zlen innov) kk mean ini
                    value tmp params innov (sim_loop N mean params prev0 innov) prevf).

Lemma sim_outer (callf : callee T) n mean ini params innov junk prev0 rest kk0 v0 t0 :
  nofZ N 0 = n0 N ->
  List.length prev0 = List.length params -> (0 < List.length params)%nat ->
  List.length junk = List.length innov ->
  zlen params <= 2147483647 -> zlen innov <= 2147483647 ->
  (List.length params < n)%nat -> (List.length innov < n)%nat ->
  exists r,
  loop n (cond_of N X (ICmp CLt (IVar "i") (IVar "nval")))
    (for_body
       (exec N X callf n
          (SSeq (SSetF "value" (FArr "innov" (IVar "i")))
             (SSeq (SSetF "value" (FCond (IIsnan (FVar "value")) (FOfInt (IConst 0)) (FVar "value")))
                (SSeq (SSetF "tmp" (FVar "value"))
                   (SSeq (SSetI "k" (IChk W32 (IBin ISub (IVar "nparams") (IConst 1))))
                      (SSeq
                         (SFor (ICmp CGe (IVar "k") (IConst 0))
                            (SSetI "k" (IChk W32 (IBin ISub (IVar "k") (IConst 1))))
                            (SSeq
                               (SIf (IUn ILNot (IIsnan (FArr "prev_centered" (IVar "k"))))
                                  (SSetF "tmp"
                                     (FBin FAdd (FVar "tmp")
                                        (FBin FMul (FArr "params" (IVar "k"))
                                           (FArr "prev_centered" (IVar "k")))))
                                  SSkip)
                               (SStoreF "prev_centered" (IVar "k")
                                  (FCond (ICmp CGt (IVar "k") (IConst 0))
                                     (FArr "prev_centered" (IChk W32 (IBin ISub (IVar "k") (IConst 1))))
                                     (FVar "tmp")))))
                         (SStoreF "outputs" (IVar "i") (FBin FAdd (FVar "tmp") (FVar "sim_mean")))))))))
       (exec N X callf n (SSetI "i" (IChk W32 (IBin IAdd (IVar "i") (IConst 1))))))
    (ar_state "innov" "outputs" (zlen innov) (zlen params) 0 kk0 mean ini v0 t0 params innov junk
              (prev0 ++ rest)) = Ok r
  /\ simo_post mean ini params innov prev0 r.
Proof.
  intros HZ Hlen Hpos Hjunk Hpm Him Hnp Hn.
  assert (Hpm' := Hpm). rewrite zlen_eq in Hpm', Him.
  apply (loop_rule (simo_inv mean ini params innov prev0 rest)
                   (simo_post mean ini params innov prev0) (List.length innov)) with (k := O).
  - intros i st (done & todo & jtodo & value & tmp & kk & Hi & Hd & Hj & ->).
    assert (Hli : List.length innov = (i + List.length todo)%nat)
      by (rewrite Hi, app_length; lia).
    split; [lia|].
    unfold ar_state. cbn. rewrite (zlen_eq innov).
    destruct todo as [|e todo].
    + replace (Z.of_nat i <? Z.of_nat (List.length innov)) with false
        by (symmetry; apply Z.ltb_ge; cbn in Hli; lia).
      cbn. destruct jtodo; [|discriminate]. rewrite app_nil_r in *. subst done.
      exists value, tmp, kk, (sim_prevs mean params prev0 innov ++ rest).
      unfold ar_state. rewrite (zlen_eq innov).
      replace (List.length innov) with i by (cbn in Hli; lia). reflexivity.
    + replace (Z.of_nat i <? Z.of_nat (List.length innov)) with true
        by (symmetry; apply Z.ltb_lt; cbn in Hli; lia).
      assert (Hg : zget innov (Z.of_nat i) = Some e) by (rewrite Hi; apply zget_app; lia).
      assert (Hne : prev0 <> []) by (intros ->; cbn in Hlen; lia).
      assert (Hpl : List.length (sim_prevs mean params prev0 done) = List.length params)
        by (rewrite sim_prevs_length by exact Hne; exact Hlen).
      cbn [List.length] in Hli.
      cbn. rewrite Hg. cbn. rewrite truth_b2z, if_ok, HZ. cbn.
      rewrite (zlen_eq params). iw. cbn. rewrite <- (zlen_eq params).
      set (ve := if nisnan N e then n0 N else e).
      match goal with
      | |- context[loop n ?c ?b ?s] =>
          change s with (ar_state "innov" "outputs" (Z.of_nat (List.length innov)) (zlen params)
                           (Z.of_nat i) (zlen params - 1) mean ini ve ve params innov
                           (sim_loop N mean params prev0 done ++ jtodo)
                           (sim_prevs mean params prev0 done ++ rest))
      end.
      rewrite (sim_inner callf n (Z.of_nat (List.length innov)) (Z.of_nat i) mean ini ve params innov
                 (sim_loop N mean params prev0 done ++ jtodo)
                 (sim_prevs mean params prev0 done) rest Hpl Hpos Hpm Hnp).
      cbn.
      destruct jtodo as [|j0 jtodo]; [cbn in Hj; lia|].
      rewrite zset_app by (rewrite sim_loop_length; lia).
      cbn. iw. cbn.
      exists (done ++ [e]), todo, jtodo, ve,
        (fold_left (sim_term N) (rev (combine params (sim_prevs mean params prev0 done))) ve), (-1).
      split; [rewrite <- app_assoc; exact Hi|].
      split; [rewrite app_length; cbn; lia|].
      split; [cbn in Hj; lia|].
      norm_state. unfold ar_state. rewrite (zlen_eq innov).
      rewrite sim_loop_snoc, sim_prevs_snoc. unfold sim_step. cbn [fst snd]. fold ve.
      rewrite <- !app_assoc. cbn [app].
      replace (Z.of_nat i + 1) with (Z.of_nat (S i)) by lia. reflexivity.
  - exists [], innov, junk, v0, t0, kk0. repeat split; try assumption.
  - lia.
Qed.

(* ---- the checks at the head of both kernels vs [ar_params_ok] ---- *)

Lemma size_check (params : list T) :
  negb (Nat.ltb (Z.to_nat ARMODEL_NPARAMSMAX) (List.length params)) &&
  negb (Nat.eqb (List.length params) 0)
  = negb ((10 <? zlen params) || (zlen params <=? 0)).
Proof.
  rewrite zlen_eq. change (Z.to_nat ARMODEL_NPARAMSMAX) with 10%nat.
  destruct (Nat.ltb_spec 10 (List.length params)); destruct (Nat.eqb_spec (List.length params) 0);
    destruct (Z.ltb_spec 10 (Z.of_nat (List.length params)));
    destruct (Z.leb_spec (Z.of_nat (List.length params)) 0); cbn; try reflexivity; lia.
Qed.

(* run the head of a kernel up to the end of the first loop (result [Hr]) *)
Ltac run_head Hsz Hr prev0 n st0 :=
  cbn; rewrite !truth_b2z, or_ok; cbn; rewrite truth_b2z, Hsz; cbn;
  fold prev0; fold_loop_state n st0; rewrite Hr; cbn.

Theorem chk_refine_armodel_sim mean ini params innov junk n :
  nofZ N 0 = n0 N ->
  List.length junk = List.length innov ->
  zlen innov <= 2147483647 ->
  (Nat.max (List.length innov) 10 < n)%nat ->
  match armodel_sim N mean ini params innov with
  | ArOk out =>
      exec_fun N X program_chk (S n) "c_armodel_sim"
        [AVI (zlen innov); AVI (zlen params); AVF mean; AVF ini;
         AVArrF params; AVArrF innov; AVArrF junk]
      = Ok (RI 0, [VArrF params; VArrF innov; VArrF out])
  | ArErr =>
      exists code, 0 < code /\
      exec_fun N X program_chk (S n) "c_armodel_sim"
        [AVI (zlen innov); AVI (zlen params); AVF mean; AVF ini;
         AVArrF params; AVArrF innov; AVArrF junk]
      = Ok (RI code, [VArrF params; VArrF innov; VArrF junk])
  end.
Proof.
  intros HZ Hjunk Him Hn.
  unfold armodel_sim, ar_params_ok. rewrite size_check.
  destruct ((10 <? zlen params) || (zlen params <=? 0)) eqn:Hsz; cbn [negb andb].
  - (* wrong number of parameters *)
    exists 56001. split; [lia|]. cbn.
    rewrite !truth_b2z, or_ok. cbn. rewrite truth_b2z, Hsz. cbn. iw. cbn. reflexivity.
  - assert (Hsz' := Hsz). apply orb_false_iff in Hsz'. destruct Hsz' as [H10 H0].
    apply Z.ltb_ge in H10. apply Z.leb_gt in H0. rewrite zlen_eq in H10, H0.
    set (prev0 := [n0 N; n0 N; n0 N; n0 N; n0 N; n0 N; n0 N; n0 N; n0 N; n0 N]).
    destruct (chk_loop "innov" "outputs" (zlen innov) mean ini (nofZ N 0) (nofZ N 0) params innov junk
                (exec_fun N X program_chk n) n 1 prev0) as (r & Hr & Hpost);
      [left; split; reflexivity|lia|rewrite zlen_eq; lia|lia|].
    change (forallb (fun p : T => negb (nisnan N p)) params) with (forallb notnan params).
    destruct Hpost as [[Hall ->]|[Hall (code & k & Hcode & ->)]]; rewrite Hall; cbn [andb].
    + destruct (nisnan N mean) eqn:Hm; cbn [negb andb].
      { exists 56001. split; [lia|].
        run_head Hsz Hr prev0 n
          (ar_state "innov" "outputs" (zlen innov) (zlen params) 0 0 mean ini
             (nofZ N 0) (nofZ N 0) params innov junk prev0).
        rewrite Hm. cbn. iw. cbn. reflexivity. }
      destruct (nisnan N ini) eqn:Hi; cbn [negb andb].
      { exists 56001. split; [lia|].
        run_head Hsz Hr prev0 n
          (ar_state "innov" "outputs" (zlen innov) (zlen params) 0 0 mean ini
             (nofZ N 0) (nofZ N 0) params innov junk prev0).
        rewrite Hm. cbn. rewrite Hi. cbn. iw. cbn. reflexivity. }
      run_head Hsz Hr prev0 n
        (ar_state "innov" "outputs" (zlen innov) (zlen params) 0 0 mean ini
           (nofZ N 0) (nofZ N 0) params innov junk prev0).
      rewrite Hm. cbn. rewrite Hi. cbn.
      fold_loop_state n
        (ar_state "innov" "outputs" (zlen innov) (zlen params) 0 0 mean ini
           (nofZ N 0) (nofZ N 0) params innov junk prev0).
      rewrite init_loop; [|left; split; reflexivity|cbn; lia|rewrite zlen_eq; lia|lia].
      cbn.
      destruct (sim_outer (exec_fun N X program_chk n) n mean ini params innov junk
                  (map (fun _ : T => nsub N ini mean) params)
                  (skipn (List.length params) prev0) (Z.of_nat (List.length params))
                  (nofZ N 0) (nofZ N 0) HZ)
        as (r2 & Hr2 & (value & tmp & kk & prevf & ->));
        [apply map_length|lia|exact Hjunk|rewrite zlen_eq; lia|exact Him|lia|lia|].
      fold_loop_state n
        (ar_state "innov" "outputs" (zlen innov) (zlen params) 0 (Z.of_nat (List.length params))
           mean ini (nofZ N 0) (nofZ N 0) params innov junk
           (repeat (nsub N ini mean) (List.length params) ++ skipn (List.length params) prev0)).
      rewrite <- (map_const_repeat (nsub N ini mean) params).
      rewrite Hr2. cbn. reflexivity.
    + exists code. split; [exact Hcode|].
      run_head Hsz Hr prev0 n
        (ar_state "innov" "outputs" (zlen innov) (zlen params) 0 0 mean ini
           (nofZ N 0) (nofZ N 0) params innov junk prev0).
      reflexivity.
Qed.

(* ================================================================== *)
(* c_armodel_residual                                                   *)
(* ================================================================== *)

Definition res_add (acc : T) (pc : T * T) : T := nadd N acc (nmul N (fst pc) (snd pc)).
Definition res_sub (acc : T) (pc : T * T) : T := nsub N acc (nmul N (fst pc) (snd pc)).

(* ---- the prediction loop  for(k=0; k<nparams; k++) value += params[k]*prev_centered[k] ---- *)

Definition resu_inv nval i mean ini v0 t params a1 a2 prev rest (j : nat) (st : state T) : Prop :=
  exists pa pb qa qb,
    params = pa ++ pb /\ prev = qa ++ qb /\ List.length pa = j /\ List.length qa = j /\
    st = ar_state "inputs" "residuals" nval (zlen params) i (Z.of_nat j) mean ini
           (fold_left res_add (combine pa qa) v0) t params a1 a2 (prev ++ rest).

Lemma res_up (callf : callee T) n nval i mean ini v0 t params a1 a2 prev rest :
  List.length prev = List.length params -> zlen params <= 2147483647 ->
  (List.length params < n)%nat ->
  loop n (cond_of N X (ICmp CLt (IVar "k") (IVar "nparams")))
    (for_body
       (exec N X callf n
          (SSetF "value"
             (FBin FAdd (FVar "value")
                (FBin FMul (FArr "params" (IVar "k")) (FArr "prev_centered" (IVar "k"))))))
       (exec N X callf n (SSetI "k" (IChk W32 (IBin IAdd (IVar "k") (IConst 1))))))
    (ar_state "inputs" "residuals" nval (zlen params) i 0 mean ini v0 t params a1 a2 (prev ++ rest))
  = Ok (ONormal,
        ar_state "inputs" "residuals" nval (zlen params) i (zlen params) mean ini
          (fold_left res_add (combine params prev) v0) t params a1 a2 (prev ++ rest)).
Proof.
  intros Hlen Hpm Hn. rewrite zlen_eq in Hpm.
  apply (loop_rule_eq (resu_inv nval i mean ini v0 t params a1 a2 prev rest) _ (List.length params)).
  - intros j st (pa & pb & qa & qb & Hp & Hq & Hpa & Hqa & ->).
    assert (Hj : List.length params = (j + List.length pb)%nat)
      by (rewrite Hp, app_length; lia).
    assert (Hj' : List.length prev = (j + List.length qb)%nat)
      by (rewrite Hq, app_length; lia).
    split; [lia|].
    unfold ar_state. cbn. rewrite (zlen_eq params).
    destruct pb as [|c pb].
    + replace (Z.of_nat j <? Z.of_nat (List.length params)) with false
        by (symmetry; apply Z.ltb_ge; cbn in Hj; lia).
      destruct qb; [|cbn in Hj, Hj'; lia].
      rewrite app_nil_r in Hp, Hq. subst pa qa.
      unfold ar_state. rewrite ?(zlen_eq params).
      replace (List.length params) with j by (cbn in Hj; lia). reflexivity.
    + replace (Z.of_nat j <? Z.of_nat (List.length params)) with true
        by (symmetry; apply Z.ltb_lt; cbn in Hj; lia).
      destruct qb as [|x qb]; [cbn in Hj, Hj'; lia|].
      assert (Hg1 : zget params (Z.of_nat j) = Some c) by (rewrite Hp; apply zget_app; lia).
      assert (Hg2 : zget (prev ++ rest) (Z.of_nat j) = Some x).
      { rewrite Hq, <- app_assoc. cbn [app]. apply zget_app. lia. }
      cbn. rewrite Hg1. cbn. rewrite Hg2. cbn.
      cbn [List.length] in Hj. iw. cbn.
      exists (pa ++ [c]), pb, (qa ++ [x]), qb.
      split; [rewrite <- app_assoc; exact Hp|].
      split; [rewrite <- app_assoc; exact Hq|].
      split; [rewrite app_length; cbn; lia|].
      split; [rewrite app_length; cbn; lia|].
      norm_state. unfold ar_state. rewrite (zlen_eq params).
      rewrite combine_snoc by lia. rewrite fold_left_app.
      replace (Z.of_nat j + 1) with (Z.of_nat (S j)) by lia. reflexivity.
  - exists [], params, [], prev. repeat split.
  - lia.
Qed.

(* ---- the inner loop  for(k=nparams-1; k>=0; k--) { tmp -= ...; shift }  ---- *)

Definition resk_inv nval i mean ini v params a1 a2 prev rest (j : nat) (st : state T) : Prop :=
  exists pa pb qa qb,
    params = pa ++ pb /\ prev = qa ++ qb /\ List.length pa = List.length qa /\
    List.length pb = j /\ List.length qb = j /\
    st = ar_state "inputs" "residuals" nval (zlen params) i (Z.of_nat (List.length qa) - 1) mean ini v
           (fold_left res_sub (rev (combine pb qb)) v) params a1 a2
           (match rev qa with
            | [] => v :: removelast prev
            | y :: _ => qa ++ removelast (y :: qb)
            end ++ rest).

Lemma res_inner (callf : callee T) n nval i mean ini v params a1 a2 prev rest :
  List.length prev = List.length params -> (0 < List.length params)%nat ->
  zlen params <= 2147483647 -> (List.length params < n)%nat ->
  loop n (cond_of N X (ICmp CGe (IVar "k") (IConst 0)))
    (for_body
       (exec N X callf n
          (SSeq
             (SSetF "tmp"
                (FBin FSub (FVar "tmp")
                   (FBin FMul (FArr "params" (IVar "k")) (FArr "prev_centered" (IVar "k")))))
             (SStoreF "prev_centered" (IVar "k")
                (FCond (ICmp CGt (IVar "k") (IConst 0))
                   (FArr "prev_centered" (IChk W32 (IBin ISub (IVar "k") (IConst 1))))
                   (FVar "value")))))
       (exec N X callf n (SSetI "k" (IChk W32 (IBin ISub (IVar "k") (IConst 1))))))
    (ar_state "inputs" "residuals" nval (zlen params) i (zlen params - 1) mean ini v v params a1 a2
              (prev ++ rest))
  = Ok (ONormal,
        ar_state "inputs" "residuals" nval (zlen params) i (-1) mean ini v
          (fold_left res_sub (rev (combine params prev)) v) params a1 a2
          (v :: removelast prev ++ rest)).
Proof.
  intros Hlen Hpos Hpm Hn. rewrite zlen_eq in Hpm.
  apply (loop_rule_eq (resk_inv nval i mean ini v params a1 a2 prev rest) _ (List.length params)).
  - intros j st (pa & pb & qa & qb & Hp & Hq & Hl & Hpb & Hqb & ->).
    assert (Hj : List.length params = (List.length qa + j)%nat)
      by (rewrite Hp, app_length; lia).
    split; [lia|].
    destruct (snoc_cases qa) as [->|(qa' & x & ->)].
    + (* k = -1: end of the loop *)
      destruct pa; [|discriminate]. cbn in Hp, Hq. subst pb qb.
      unfold ar_state. cbn. reflexivity.
    + destruct (snoc_cases pa) as [->|(pa' & c & ->)];
        [rewrite app_length in Hl; cbn in Hl; lia|].
      rewrite !app_length in Hl. cbn in Hl.
      assert (Hl' : List.length pa' = List.length qa') by lia.
      rewrite app_length in Hj; cbn in Hj.
      rewrite rev_app_distr. change (rev [x]) with [x]. cbn [app].
      replace (Z.of_nat (List.length (qa' ++ [x])) - 1) with (Z.of_nat (List.length qa'))
        by (rewrite app_length; cbn; lia).
      rewrite <- !app_assoc. cbn [app].
      assert (Hg2 : zget params (Z.of_nat (List.length qa')) = Some c).
      { rewrite Hp, <- app_assoc. cbn [app]. apply zget_app. lia. }
      unfold ar_state. cbn. zb. cbn. rewrite Hg2. cbn.
      rewrite (zget_app qa') by reflexivity. cbn.
      set (tmp0 := fold_left res_sub (rev (combine pb qb)) v).
      destruct (snoc_cases qa') as [->|(qa'' & y & ->)].
      * (* k = 0: prev_centered[0] = value *)
        cbn. iw. cbn.
        exists pa', (c :: pb), [], (x :: qb).
        split; [rewrite Hp, <- app_assoc; reflexivity|].
        split; [exact Hq|].
        split; [exact Hl'|].
        split; [cbn; lia|]. split; [cbn; lia|].
        norm_state. unfold ar_state. rewrite fold_rev_combine_cons. fold tmp0.
        change (rev []) with (@nil T). cbn [app] in Hq. rewrite Hq. cbn. reflexivity.
      * replace (0 <? Z.of_nat (List.length (qa'' ++ [y]))) with true
          by (symmetry; apply Z.ltb_lt; rewrite app_length; cbn; lia).
        cbn. iw. cbn. rewrite <- app_assoc. cbn [app].
        rewrite (zget_app qa'') by (rewrite app_length; cbn; lia).
        cbn.
        replace (qa'' ++ y :: x :: removelast (x :: qb) ++ rest)
          with ((qa'' ++ [y]) ++ x :: removelast (x :: qb) ++ rest)
          by (rewrite <- app_assoc; reflexivity).
        rewrite (zset_app (qa'' ++ [y])) by reflexivity. cbn. iw. cbn.
        exists pa', (c :: pb), (qa'' ++ [y]), (x :: qb).
        split; [rewrite Hp, <- app_assoc; reflexivity|].
        split; [rewrite Hq, <- app_assoc; reflexivity|].
        split; [exact Hl'|].
        split; [cbn; lia|]. split; [cbn; lia|].
        norm_state. unfold ar_state. rewrite fold_rev_combine_cons. fold tmp0.
        rewrite rev_app_distr. change (rev [y]) with [y]. cbn [app].
        rewrite removelast_cons2. rewrite <- !app_assoc. cbn [app]. reflexivity.
  - exists params, [], prev, [].
    split; [rewrite app_nil_r; reflexivity|]. split; [rewrite app_nil_r; reflexivity|].
    split; [symmetry; exact Hlen|]. split; [reflexivity|]. split; [reflexivity|].
    rewrite zlen_eq, Hlen.
    change (fold_left res_sub (rev (combine [] [])) v) with v.
    destruct (rev prev) as [|y r] eqn:E.
    + apply (f_equal (@rev T)) in E. rewrite rev_involutive in E.
      change (rev []) with (@nil T) in E. subst prev. cbn in Hlen. lia.
    + change (removelast [y]) with (@nil T). rewrite app_nil_r. reflexivity.
  - lia.
Qed.

(* ---- c_armodel_residual: the loop over the time steps ---- *)

Definition res_prevs (mean : T) (params prev l : list T) : list T :=
  fold_left (fun pv e => fst (res_step N mean params pv e)) l prev.

Lemma res_prevs_snoc mean params prev l e :
  res_prevs mean params prev (l ++ [e]) = fst (res_step N mean params (res_prevs mean params prev l) e).
Proof. unfold res_prevs. rewrite fold_left_app. reflexivity. Qed.

Lemma res_loop_snoc mean params l : forall prev e,
  res_loop N mean params prev (l ++ [e])
  = res_loop N mean params prev l ++ [snd (res_step N mean params (res_prevs mean params prev l) e)].
Proof.
  induction l as [|a l IH]; intros prev e.
  - reflexivity.
  - cbn [app res_loop]. destruct (res_step N mean params prev a) as [pv y] eqn:E.
    rewrite IH. unfold res_prevs. change (fold_left ?f (a :: l) prev) with (fold_left f l (f prev a)).
    cbv beta. rewrite E. reflexivity.
Qed.

Lemma res_loop_length mean params l : forall prev,
  List.length (res_loop N mean params prev l) = List.length l.
Proof.
  induction l as [|a l IH]; intros prev; [reflexivity|].
  cbn [res_loop]. destruct (res_step N mean params prev a). cbn [List.length]. rewrite IH. reflexivity.
Qed.

Lemma res_prevs_length mean params l : forall prev,
  prev <> [] -> List.length (res_prevs mean params prev l) = List.length prev.
Proof.
  induction l as [|a l IH]; intros prev H; [reflexivity|].
  unfold res_prevs. change (fold_left ?f (a :: l) prev) with (fold_left f l (f prev a)).
  cbv beta. fold (res_prevs mean params (fst (res_step N mean params prev a)) l).
  rewrite IH; unfold res_step; cbn [fst]; [|discriminate].
  apply removelast_length_cons. exact H.
Qed.

Definition reso_inv mean ini params inputs prev0 rest (i : nat) (st : state T) : Prop :=
  exists done todo jtodo value tmp kk,
    inputs = done ++ todo /\ List.length done = i /\ List.length jtodo = List.length todo /\
    st = ar_state "inputs" "residuals" (zlen inputs) (zlen params) (Z.of_nat i) kk mean ini value tmp
           params inputs (res_loop N mean params prev0 done ++ jtodo)
           (res_prevs mean params prev0 done ++ rest).

Definition reso_post mean ini params inputs prev0 (r : outcome T * state T) : Prop :=
  exists value tmp kk prevf,
    r = (ONormal, ar_state "inputs" "residuals" (zlen inputs) (zlen params) (zlen inputs) kk mean ini
                    value tmp params inputs (res_loop N mean params prev0 inputs) prevf).

Lemma res_outer (callf : callee T) n mean ini params inputs junk prev0 rest kk0 v0 t0 :
  nofZ N 0 = n0 N ->
  List.length prev0 = List.length params -> (0 < List.length params)%nat ->
  List.length junk = List.length inputs ->
  zlen params <= 2147483647 -> zlen inputs <= 2147483647 ->
  (List.length params < n)%nat -> (List.length inputs < n)%nat ->
  exists r,
  loop n (cond_of N X (ICmp CLt (IVar "i") (IVar "nval")))
    (for_body
       (exec N X callf n
          (SSeq (SSetF "value" (FBin FSub (FArr "inputs" (IVar "i")) (FVar "sim_mean")))
             (SSeq
                (SIf (IIsnan (FVar "value"))
                   (SSeq (SSetF "value" (FOfInt (IConst 0)))
                      (SSeq (SSetI "k" (IConst 0))
                         (SFor (ICmp CLt (IVar "k") (IVar "nparams"))
                            (SSetI "k" (IChk W32 (IBin IAdd (IVar "k") (IConst 1))))
                            (SSetF "value"
                               (FBin FAdd (FVar "value")
                                  (FBin FMul (FArr "params" (IVar "k"))
                                     (FArr "prev_centered" (IVar "k"))))))))
                   SSkip)
                (SSeq (SSetF "tmp" (FVar "value"))
                   (SSeq (SSetI "k" (IChk W32 (IBin ISub (IVar "nparams") (IConst 1))))
                      (SSeq
                         (SFor (ICmp CGe (IVar "k") (IConst 0))
                            (SSetI "k" (IChk W32 (IBin ISub (IVar "k") (IConst 1))))
                            (SSeq
                               (SSetF "tmp"
                                  (FBin FSub (FVar "tmp")
                                     (FBin FMul (FArr "params" (IVar "k"))
                                        (FArr "prev_centered" (IVar "k")))))
                               (SStoreF "prev_centered" (IVar "k")
                                  (FCond (ICmp CGt (IVar "k") (IConst 0))
                                     (FArr "prev_centered" (IChk W32 (IBin ISub (IVar "k") (IConst 1))))
                                     (FVar "value")))))
                         (SStoreF "residuals" (IVar "i") (FVar "tmp"))))))))
       (exec N X callf n (SSetI "i" (IChk W32 (IBin IAdd (IVar "i") (IConst 1))))))
    (ar_state "inputs" "residuals" (zlen inputs) (zlen params) 0 kk0 mean ini v0 t0 params inputs junk
              (prev0 ++ rest)) = Ok r
  /\ reso_post mean ini params inputs prev0 r.
Proof.
  intros HZ Hlen Hpos Hjunk Hpm Him Hnp Hn.
  assert (Hzp : 0 < zlen params) by (rewrite zlen_eq; lia). rewrite zlen_eq in Him.
  apply (loop_rule (reso_inv mean ini params inputs prev0 rest)
                   (reso_post mean ini params inputs prev0) (List.length inputs)) with (k := O).
  - intros i st (done & todo & jtodo & value & tmp & kk & Hi & Hd & Hj & ->).
    assert (Hli : List.length inputs = (i + List.length todo)%nat)
      by (rewrite Hi, app_length; lia).
    split; [lia|].
    unfold ar_state. cbn. rewrite (zlen_eq inputs).
    destruct todo as [|e todo].
    + replace (Z.of_nat i <? Z.of_nat (List.length inputs)) with false
        by (symmetry; apply Z.ltb_ge; cbn in Hli; lia).
      cbn. destruct jtodo; [|discriminate]. rewrite app_nil_r in *. subst done.
      exists value, tmp, kk, (res_prevs mean params prev0 inputs ++ rest).
      unfold ar_state. rewrite (zlen_eq inputs).
      replace (List.length inputs) with i by (cbn in Hli; lia). reflexivity.
    + replace (Z.of_nat i <? Z.of_nat (List.length inputs)) with true
        by (symmetry; apply Z.ltb_lt; cbn in Hli; lia).
      assert (Hg : zget inputs (Z.of_nat i) = Some e) by (rewrite Hi; apply zget_app; lia).
      assert (Hne : prev0 <> []) by (intros ->; cbn in Hlen; lia).
      assert (Hpl : List.length (res_prevs mean params prev0 done) = List.length params)
        by (rewrite res_prevs_length by exact Hne; exact Hlen).
      cbn [List.length] in Hli.
      remember (if nisnan N (nsub N e mean)
                then res_pred N params (res_prevs mean params prev0 done)
                else nsub N e mean) as ve eqn:Hve.
      assert (Hve0 := Hve).
      cbn. rewrite Hg. cbn. rewrite truth_b2z.
      destruct (nisnan N (nsub N e mean)) eqn:Hnan;
        [ cbn; rewrite HZ;
          fold_loop_state n
            (ar_state "inputs" "residuals" (Z.of_nat (List.length inputs)) (zlen params) (Z.of_nat i) 0
               mean ini (n0 N) tmp params inputs (res_loop N mean params prev0 done ++ jtodo)
               (res_prevs mean params prev0 done ++ rest));
          rewrite (res_up callf n _ _ _ _ _ _ _ _ _ _ _ Hpl Hpm Hnp);
          change (fold_left res_add (combine params (res_prevs mean params prev0 done)) (n0 N))
            with (res_pred N params (res_prevs mean params prev0 done));
          rewrite <- Hve; cbn
        | cbn; rewrite <- Hve ].
      all: iw; cbn.
      all: fold_loop_state n
             (ar_state "inputs" "residuals" (Z.of_nat (List.length inputs)) (zlen params) (Z.of_nat i)
                (zlen params - 1) mean ini ve ve params inputs
                (res_loop N mean params prev0 done ++ jtodo)
                (res_prevs mean params prev0 done ++ rest)).
      all: rewrite (res_inner callf n _ _ _ _ _ _ _ _ _ _ Hpl Hpos Hpm Hnp); cbn.
      all: destruct jtodo as [|j0 jtodo]; [cbn in Hj; lia|].
      all: rewrite zset_app by (rewrite res_loop_length; lia); cbn.
      all: iw; cbn.
      all: exists (done ++ [e]), todo, jtodo, ve,
             (fold_left res_sub (rev (combine params (res_prevs mean params prev0 done))) ve), (-1).
      all: split; [rewrite <- app_assoc; exact Hi|].
      all: split; [rewrite app_length; cbn; lia|].
      all: split; [cbn in Hj; lia|].
      all: norm_state; unfold ar_state; rewrite (zlen_eq inputs).
      all: rewrite res_loop_snoc, res_prevs_snoc; unfold res_step; cbn [fst snd].
      all: rewrite Hnan, <- Hve.
      all: rewrite <- !app_assoc; cbn [app].
      all: replace (Z.of_nat i + 1) with (Z.of_nat (S i)) by lia; reflexivity.
  - exists [], inputs, junk, v0, t0, kk0. repeat split; try assumption.
  - lia.
Qed.

(* ---- the whole kernel ---- *)

Theorem chk_refine_armodel_residual mean ini params inputs junk n :
  nofZ N 0 = n0 N ->
  List.length junk = List.length inputs ->
  zlen inputs <= 2147483647 ->
  (Nat.max (List.length inputs) 10 < n)%nat ->
  match armodel_residual N mean ini params inputs with
  | ArOk out =>
      exec_fun N X program_chk (S n) "c_armodel_residual"
        [AVI (zlen inputs); AVI (zlen params); AVF mean; AVF ini;
         AVArrF params; AVArrF inputs; AVArrF junk]
      = Ok (RI 0, [VArrF params; VArrF inputs; VArrF out])
  | ArErr =>
      exists code, 0 < code /\
      exec_fun N X program_chk (S n) "c_armodel_residual"
        [AVI (zlen inputs); AVI (zlen params); AVF mean; AVF ini;
         AVArrF params; AVArrF inputs; AVArrF junk]
      = Ok (RI code, [VArrF params; VArrF inputs; VArrF junk])
  end.
Proof.
  intros HZ Hjunk Him Hn.
  unfold armodel_residual, ar_params_ok. rewrite size_check.
  destruct ((10 <? zlen params) || (zlen params <=? 0)) eqn:Hsz; cbn [negb andb].
  - (* wrong number of parameters *)
    exists 56001. split; [lia|]. cbn.
    rewrite !truth_b2z, or_ok. cbn. rewrite truth_b2z, Hsz. cbn. iw. cbn. reflexivity.
  - assert (Hsz' := Hsz). apply orb_false_iff in Hsz'. destruct Hsz' as [H10 H0].
    apply Z.ltb_ge in H10. apply Z.leb_gt in H0. rewrite zlen_eq in H10, H0.
    set (prev0 := [n0 N; n0 N; n0 N; n0 N; n0 N; n0 N; n0 N; n0 N; n0 N; n0 N]).
    destruct (chk_loop "inputs" "residuals" (zlen inputs) mean ini (nofZ N 0) (nofZ N 0) params inputs junk
                (exec_fun N X program_chk n) n 1 prev0) as (r & Hr & Hpost);
      [right; split; reflexivity|lia|rewrite zlen_eq; lia|lia|].
    change (forallb (fun p : T => negb (nisnan N p)) params) with (forallb notnan params).
    destruct Hpost as [[Hall ->]|[Hall (code & k & Hcode & ->)]]; rewrite Hall; cbn [andb].
    + destruct (nisnan N mean) eqn:Hm; cbn [negb andb].
      { exists 56001. split; [lia|].
        run_head Hsz Hr prev0 n
          (ar_state "inputs" "residuals" (zlen inputs) (zlen params) 0 0 mean ini
             (nofZ N 0) (nofZ N 0) params inputs junk prev0).
        rewrite Hm. cbn. iw. cbn. reflexivity. }
      destruct (nisnan N ini) eqn:Hi; cbn [negb andb].
      { exists 56001. split; [lia|].
        run_head Hsz Hr prev0 n
          (ar_state "inputs" "residuals" (zlen inputs) (zlen params) 0 0 mean ini
             (nofZ N 0) (nofZ N 0) params inputs junk prev0).
        rewrite Hm. cbn. rewrite Hi. cbn. iw. cbn. reflexivity. }
      run_head Hsz Hr prev0 n
        (ar_state "inputs" "residuals" (zlen inputs) (zlen params) 0 0 mean ini
           (nofZ N 0) (nofZ N 0) params inputs junk prev0).
      rewrite Hm. cbn. rewrite Hi. cbn.
      fold_loop_state n
        (ar_state "inputs" "residuals" (zlen inputs) (zlen params) 0 0 mean ini
           (nofZ N 0) (nofZ N 0) params inputs junk prev0).
      rewrite init_loop; [|right; split; reflexivity|cbn; lia|rewrite zlen_eq; lia|lia].
      cbn.
      destruct (res_outer (exec_fun N X program_chk n) n mean ini params inputs junk
                  (map (fun _ : T => nsub N ini mean) params)
                  (skipn (List.length params) prev0) (Z.of_nat (List.length params))
                  (nofZ N 0) (nofZ N 0) HZ)
        as (r2 & Hr2 & (value & tmp & kk & prevf & ->));
        [apply map_length|lia|exact Hjunk|rewrite zlen_eq; lia|exact Him|lia|lia|].
      fold_loop_state n
        (ar_state "inputs" "residuals" (zlen inputs) (zlen params) 0 (Z.of_nat (List.length params))
           mean ini (nofZ N 0) (nofZ N 0) params inputs junk
           (repeat (nsub N ini mean) (List.length params) ++ skipn (List.length params) prev0)).
      rewrite <- (map_const_repeat (nsub N ini mean) params).
      rewrite Hr2. cbn. reflexivity.
    + exists code. split; [exact Hcode|].
      run_head Hsz Hr prev0 n
        (ar_state "inputs" "residuals" (zlen inputs) (zlen params) 0 0 mean ini
           (nofZ N 0) (nofZ N 0) params inputs junk prev0).
      reflexivity.
Qed.


End Refine.

(* ================================================================== *)
(* Reading of the two theorems; the hypothesis on the arithmetic          *)
(* ================================================================== *)

(* [nofZ N 0 = n0 N] ((double)0 is the zero of the model) holds in the three instances *)
Lemma nofZ0_F64 : nofZ F64 0 = n0 F64. Proof. reflexivity. Qed.
Lemma nofZ0_RR : nofZ RR 0 = n0 RR. Proof. reflexivity. Qed.
Lemma nofZ0_RN : nofZ RN 0 = n0 RN. Proof. reflexivity. Qed.

Section Corollaries.
Context {T : Type} (N : NumOps T) (X : NumLit T).

Corollary chk_refine_armodel_sim_ok mean ini params innov junk out n :
  nofZ N 0 = n0 N -> List.length junk = List.length innov ->
  zlen innov <= 2147483647 -> (Nat.max (List.length innov) 10 < n)%nat ->
  armodel_sim N mean ini params innov = ArOk out ->
  exec_fun N X program_chk (S n) "c_armodel_sim"
    [AVI (zlen innov); AVI (zlen params); AVF mean; AVF ini;
     AVArrF params; AVArrF innov; AVArrF junk]
  = Ok (RI 0, [VArrF params; VArrF innov; VArrF out]).
Proof.
  intros HZ Hj Him Hn E. generalize (chk_refine_armodel_sim N X mean ini params innov junk n HZ Hj Him Hn).
  rewrite E. exact (fun H => H).
Qed.

Corollary chk_refine_armodel_sim_err mean ini params innov junk n :
  nofZ N 0 = n0 N -> List.length junk = List.length innov ->
  zlen innov <= 2147483647 -> (Nat.max (List.length innov) 10 < n)%nat ->
  armodel_sim N mean ini params innov = ArErr ->
  exists code, 0 < code /\
  exec_fun N X program_chk (S n) "c_armodel_sim"
    [AVI (zlen innov); AVI (zlen params); AVF mean; AVF ini;
     AVArrF params; AVArrF innov; AVArrF junk]
  = Ok (RI code, [VArrF params; VArrF innov; VArrF junk]).
Proof.
  intros HZ Hj Him Hn E. generalize (chk_refine_armodel_sim N X mean ini params innov junk n HZ Hj Him Hn).
  rewrite E. exact (fun H => H).
Qed.

Corollary chk_refine_armodel_residual_ok mean ini params inputs junk out n :
  nofZ N 0 = n0 N -> List.length junk = List.length inputs ->
  zlen inputs <= 2147483647 -> (Nat.max (List.length inputs) 10 < n)%nat ->
  armodel_residual N mean ini params inputs = ArOk out ->
  exec_fun N X program_chk (S n) "c_armodel_residual"
    [AVI (zlen inputs); AVI (zlen params); AVF mean; AVF ini;
     AVArrF params; AVArrF inputs; AVArrF junk]
  = Ok (RI 0, [VArrF params; VArrF inputs; VArrF out]).
Proof.
  intros HZ Hj Him Hn E. generalize (chk_refine_armodel_residual N X mean ini params inputs junk n HZ Hj Him Hn).
  rewrite E. exact (fun H => H).
Qed.

Corollary chk_refine_armodel_residual_err mean ini params inputs junk n :
  nofZ N 0 = n0 N -> List.length junk = List.length inputs ->
  zlen inputs <= 2147483647 -> (Nat.max (List.length inputs) 10 < n)%nat ->
  armodel_residual N mean ini params inputs = ArErr ->
  exists code, 0 < code /\
  exec_fun N X program_chk (S n) "c_armodel_residual"
    [AVI (zlen inputs); AVI (zlen params); AVF mean; AVF ini;
     AVArrF params; AVArrF inputs; AVArrF junk]
  = Ok (RI code, [VArrF params; VArrF inputs; VArrF junk]).
Proof.
  intros HZ Hj Him Hn E. generalize (chk_refine_armodel_residual N X mean ini params inputs junk n HZ Hj Him Hn).
  rewrite E. exact (fun H => H).
Qed.

End Corollaries.

(* binary64 instance (the arithmetic of the compiled code) *)
Corollary chk_refine_armodel_sim_F64 mean ini params innov junk n :
  List.length junk = List.length innov -> zlen innov <= 2147483647 ->
  (Nat.max (List.length innov) 10 < n)%nat ->
  match armodel_sim F64 mean ini params innov with
  | ArOk out =>
      exec_fun F64 XF64 program_chk (S n) "c_armodel_sim"
        [AVI (zlen innov); AVI (zlen params); AVF mean; AVF ini;
         AVArrF params; AVArrF innov; AVArrF junk]
      = Ok (RI 0, [VArrF params; VArrF innov; VArrF out])
  | ArErr =>
      exists code, 0 < code /\
      exec_fun F64 XF64 program_chk (S n) "c_armodel_sim"
        [AVI (zlen innov); AVI (zlen params); AVF mean; AVF ini;
         AVArrF params; AVArrF innov; AVArrF junk]
      = Ok (RI code, [VArrF params; VArrF innov; VArrF junk])
  end.
Proof. apply chk_refine_armodel_sim. exact nofZ0_F64. Qed.

Corollary chk_refine_armodel_residual_F64 mean ini params inputs junk n :
  List.length junk = List.length inputs -> zlen inputs <= 2147483647 ->
  (Nat.max (List.length inputs) 10 < n)%nat ->
  match armodel_residual F64 mean ini params inputs with
  | ArOk out =>
      exec_fun F64 XF64 program_chk (S n) "c_armodel_residual"
        [AVI (zlen inputs); AVI (zlen params); AVF mean; AVF ini;
         AVArrF params; AVArrF inputs; AVArrF junk]
      = Ok (RI 0, [VArrF params; VArrF inputs; VArrF out])
  | ArErr =>
      exists code, 0 < code /\
      exec_fun F64 XF64 program_chk (S n) "c_armodel_residual"
        [AVI (zlen inputs); AVI (zlen params); AVF mean; AVF ini;
         AVArrF params; AVArrF inputs; AVArrF junk]
      = Ok (RI code, [VArrF params; VArrF inputs; VArrF junk])
  end.
Proof. apply chk_refine_armodel_residual. exact nofZ0_F64. Qed.

(* ================================================================== *)
(* c_paretofront (src/hydrodiy/stat/c_paretofront.c): checked safety    *)
(* ================================================================== *)

(* a write inside the buffer succeeds and keeps the length (as in Proofs/SafeStat.v) *)
Lemma zset_ok_len {A} (l : list A) (i : Z) (v : A) :
  0 <= i < Z.of_nat (List.length l) ->
  exists l', zset l i v = Some l' /\ List.length l' = List.length l.
Proof.
  intros H. destruct (zset l i v) as [l'|] eqn:E.
  - exists l'. split; [reflexivity|]. eapply zset_length; eassumption.
  - rewrite zset_ok in E by exact H. discriminate E.
Qed.

(* one iteration of a loop, the fuel staying a neutral term (as in Proofs/RefineGridGeom.v) *)
Lemma loop_step {T} (f : nat) (cond : state T -> result bool)
      (body : state T -> result (outcome T * state T)) (st : state T) :
  (0 < f)%nat ->
  loop f cond body st =
  match cond st with
  | Err e => Err e
  | Ok false => Ok (ONormal, st)
  | Ok true =>
      match body st with
      | Err e => Err e
      | Ok (ONormal, st') => loop (Nat.pred f) cond body st'
      | Ok (OContinue, st') => loop (Nat.pred f) cond body st'
      | Ok (OBreak, st') => Ok (ONormal, st')
      | Ok (ORet v, st') => Ok (ORet v, st')
      end
  end.
Proof. intros H. destruct f as [|f]; [lia|]. reflexivity. Qed.

Section Pareto.
Context {T : Type} (N : NumOps T) (X : NumLit T).

Definition pf_state (nval ncol o i j k dom : Z) (diff od : T) (data : list T) (D : list Z)
  : state T :=
  {| s_i := [("nval", nval); ("ncol", ncol); ("orientation", o); ("i", i); ("j", j); ("k", k);
             ("dom", dom); ("ierr", 0)];
     s_f := [("diff", diff); ("orientationd", od)];
     s_ai := [("isdominated", D)];
     s_af := [("data", data)] |}.

Definition pf_kbody : stmt :=
  seq [(SSetF "diff" (FBin FSub (FArr "data" (IChk W32 (IBin IAdd (IChk W32 (IBin IMul (IVar "ncol") (IVar "j"))) (IVar "k")))) (FArr "data" (IChk W32 (IBin IAdd (IChk W32 (IBin IMul (IVar "ncol") (IVar "i"))) (IVar "k"))))));
       (SIf (IIsnan (FVar "diff")) SContinue SSkip);
       (SSetI "dom" (IChk W32 (IBin IMul (IVar "dom") (IFCmp CGt (FBin FMul (FVar "orientationd") (FVar "diff")) (FOfInt (IConst 0))))))].

Definition pf_kloop_stmt : stmt :=
  SFor (ICmp CLt (IVar "k") (IVar "ncol"))
       (SSetI "k" (IChk W32 (IBin IAdd (IVar "k") (IConst 1)))) pf_kbody.

Definition pf_jbody : stmt :=
  seq [(SIf (ICmp CEq (IVar "i") (IVar "j")) SContinue SSkip);
       (SSetI "dom" (IConst 1));
       (SSetI "k" (IConst 0));
       pf_kloop_stmt;
       (SIf (ICmp CEq (IVar "dom") (IConst 1))
            (seq [(SStoreI "isdominated" (IVar "i") (IConst 1)); SBreak])
            SSkip)].

Definition pf_jloop_stmt : stmt :=
  SFor (ICmp CLt (IVar "j") (IVar "nval"))
       (SSetI "j" (IChk W32 (IBin IAdd (IVar "j") (IConst 1)))) pf_jbody.

Definition pf_ibody : stmt :=
  seq [(SStoreI "isdominated" (IVar "i") (IConst 0));
       (SSetI "j" (IConst 0));
       pf_jloop_stmt].

Definition pf_iloop_stmt : stmt :=
  SFor (ICmp CLt (IVar "i") (IVar "nval"))
       (SSetI "i" (IChk W32 (IBin IAdd (IVar "i") (IConst 1)))) pf_ibody.

(* the statements above are the ones of the regenerated checked program *)
Lemma pf_def_eq :
  c_paretofront_chk_def =
  Fun [PI "nval"; PI "ncol"; PI "orientation"; PArrF "data"; PArrI "isdominated"]
    (seq [(SSetI "i" (IConst 0)); (SSetI "j" (IConst 0)); (SSetI "k" (IConst 0));
          (SSetI "dom" (IConst 0)); (SSetI "ierr" (IConst 0));
          (SSetF "diff" (FOfInt (IConst 0)));
          (SSetF "orientationd" (FOfInt (IVar "orientation")));
          (SSetI "i" (IConst 0));
          pf_iloop_stmt;
          (SRetI (IVar "ierr"))]).
Proof. reflexivity. Qed.

(* innermost loop: for(k=0; k<ncol; k++): the indices ncol*j+k, ncol*i+k are computed in [int] *)
Lemma pf_kloop (callf : callee T) fuel nval ncol o i j dom diff od data D :
  0 <= ncol <= 2147483647 ->
  0 <= ncol * j -> ncol * j + ncol <= zlen data -> ncol * j + ncol - 1 <= 2147483647 ->
  0 <= ncol * i -> ncol * i + ncol <= zlen data -> ncol * i + ncol - 1 <= 2147483647 ->
  0 <= dom <= 1 ->
  (Z.to_nat ncol < fuel)%nat ->
  exists dom' diff', 0 <= dom' <= 1 /\
    exec N X callf fuel pf_kloop_stmt (pf_state nval ncol o i j 0 dom diff od data D)
    = Ok (ONormal, pf_state nval ncol o i j ncol dom' diff' od data D).
Proof.
  intros Hnc Hj0 Hj1 Hj2 Hi0 Hi1 Hi2 Hdom Hfuel. rewrite !zlen_eq in *.
  set (Inv := fun (kk : nat) (st : state T) =>
         Z.of_nat kk <= ncol /\ exists dom' diff', 0 <= dom' <= 1 /\
           st = pf_state nval ncol o i j (Z.of_nat kk) dom' diff' od data D).
  set (Post := fun (r : outcome T * state T) =>
         exists dom' diff', 0 <= dom' <= 1 /\
           r = (ONormal, pf_state nval ncol o i j ncol dom' diff' od data D)).
  cbn.
  loop_with Inv Post (Z.to_nat ncol).
  - intros kk st (Hkk & dom' & diff' & Hd & ->).
    split; [lia|]. unfold pf_state. cbn.
    destruct (Z.ltb_spec (Z.of_nat kk) ncol) as [Hlt|Hge].
    + cbn. iw. cbn. iw. cbn.
      rewrite (zget_ok data _ (n0 N)) by lia. cbn. iw. cbn. iw. cbn.
      rewrite (zget_ok data _ (n0 N)) by lia. cbn.
      rewrite truth_b2z.
      set (d := nsub N _ _).
      destruct (nisnan N d); cbn.
      * (* isnan(diff): continue *)
        iw. cbn. split; [lia|]. exists dom', d. split; [exact Hd|].
        norm_state. unfold pf_state.
        replace (Z.of_nat kk + 1) with (Z.of_nat (S kk)) by lia. reflexivity.
      * destruct (nltb N (nofZ N 0) (nmul N od d)); cbn [b2z]; iw; cbn; iw; cbn.
        all: split; [lia|]; eexists; exists d; (split; [|norm_state; unfold pf_state;
          replace (Z.of_nat kk + 1) with (Z.of_nat (S kk)) by lia; reflexivity]); lia.
    + cbn. exists dom', diff'. split; [exact Hd|]. unfold pf_state.
      assert (Hnp : ncol = Z.of_nat kk) by lia. rewrite <- Hnp. reflexivity.
  - split; [lia|]. exists dom, diff. split; [exact Hdom|reflexivity].
  - lia.
  - destruct HL as (r & E & dom' & diff' & Hd & ->). exists dom', diff'. split; [exact Hd|exact E].
Qed.

Definition pf_post (nval ncol o i : Z) (od : T) (data : list T) (len : nat)
           (r : outcome T * state T) : Prop :=
  exists j k dom diff D',
    List.length D' = len /\ r = (ONormal, pf_state nval ncol o i j k dom diff od data D').

(* middle loop: for(j=0; j<nval; j++) *)
Lemma pf_jloop (callf : callee T) fuel nval ncol o i k0 dom0 diff od data D :
  0 <= i < nval -> nval <= 2147483647 -> 0 <= ncol <= 2147483647 ->
  nval * ncol <= zlen data -> nval * ncol - 1 <= 2147483647 -> nval <= zlen D ->
  (Z.to_nat nval < fuel)%nat -> (Z.to_nat ncol < fuel)%nat ->
  exists r,
    exec N X callf fuel pf_jloop_stmt (pf_state nval ncol o i 0 k0 dom0 diff od data D) = Ok r
    /\ pf_post nval ncol o i od data (List.length D) r.
Proof.
  intros Hi Hnv Hnc Hdata Hprod HD Hf1 Hf2. rewrite !zlen_eq in *.
  set (Inv := fun (jj : nat) (st : state T) =>
         Z.of_nat jj <= nval /\ exists k dom diff D',
           List.length D' = List.length D /\
           st = pf_state nval ncol o i (Z.of_nat jj) k dom diff od data D').
  cbn.
  loop_with Inv (pf_post nval ncol o i od data (List.length D)) (Z.to_nat nval).
  - intros jj st (Hjj & k & dom & df & D' & HD' & ->).
    split; [lia|]. unfold pf_state. cbn.
    destruct (Z.ltb_spec (Z.of_nat jj) nval) as [Hlt|Hge].
    + cbn. rewrite truth_b2z.
      destruct (Z.eqb_spec i (Z.of_nat jj)) as [Heq|Hne].
      * (* i == j: continue *)
        cbn. iw. cbn. split; [lia|]. exists k, dom, df, D'. split; [exact HD'|].
        norm_state. unfold pf_state.
        replace (Z.of_nat jj + 1) with (Z.of_nat (S jj)) by lia. reflexivity.
      * cbn.
        destruct (pf_kloop callf fuel nval ncol o i (Z.of_nat jj) 1 df od data D')
          as (dom' & df' & Hd' & E); try rewrite zlen_eq; try lia; try nia.
        unfold pf_kloop_stmt, pf_kbody in E. cbn in E.
        fold_loop_state fuel (pf_state nval ncol o i (Z.of_nat jj) 0 1 df od data D').
        rewrite E. unfold pf_state. cbn. rewrite truth_b2z.
        destruct (Z.eqb_spec dom' 1) as [Hd1|Hd1]; cbn.
        -- (* dominated: isdominated[i] = 1; break *)
           destruct (zset_ok_len D' i 1) as (D'' & EL & HL''); [lia|].
           rewrite EL. cbn.
           exists (Z.of_nat jj), ncol, dom', df', D''. split; [lia|].
           norm_state. unfold pf_state. reflexivity.
        -- iw. cbn. split; [lia|]. exists ncol, dom', df', D'. split; [exact HD'|].
           norm_state. unfold pf_state.
           replace (Z.of_nat jj + 1) with (Z.of_nat (S jj)) by lia. reflexivity.
    + cbn. exists (Z.of_nat jj), k, dom, df, D'. split; [exact HD'|reflexivity].
  - split; [lia|]. exists k0, dom0, diff, D. split; reflexivity.
  - lia.
  - exact HL.
Qed.

(* c_paretofront(nval, ncol, orientation, data[nval*ncol], isdominated[nval]).
   Buffer hypotheses = what the Cython wrapper guarantees (stat.pareto_front asserts
   data.shape[0]==isdominated.shape[0]; data is a C-contiguous nval x ncol array).
   Size hypotheses (C types): nval and ncol are C ints; the kernel computes the flat indices
   ncol*j+k and ncol*i+k (j, i < nval, k < ncol) in [int]: the largest one, nval*ncol-1, is
   formed whenever 2 <= nval and 1 <= ncol, so it must fit an [int].
   No hypothesis on the contents of data (NaN, inf allowed) nor on orientation. *)
Theorem chk_safe_c_paretofront (nval ncol orient : Z) (data : list T) (D : list Z) (fuel : nat) :
  nval <= zlen D -> nval * ncol <= zlen data ->
  nval <= 2147483647 -> 0 <= ncol <= 2147483647 ->
  nval * ncol - 1 <= 2147483647 ->
  (Z.to_nat nval < fuel)%nat -> (Z.to_nat ncol < fuel)%nat ->
  exists D',
    exec_fun N X program_chk (S fuel) "c_paretofront"
      [AVI nval; AVI ncol; AVI orient; AVArrF data; AVArrI D]
    = Ok (RI 0, [VArrF data; VArrI D'])
    /\ List.length D' = List.length D.
Proof.
  intros HD Hdata Hnv Hnc Hprod Hf1 Hf2.
  set (od := nofZ N orient).
  set (Inv := fun (ii : nat) (st : state T) =>
         Z.of_nat ii <= Z.max 0 nval /\ exists j k dom diff D',
           List.length D' = List.length D /\
           st = pf_state nval ncol orient (Z.of_nat ii) j k dom diff od data D').
  set (Post := fun (r : outcome T * state T) =>
         exists i, pf_post nval ncol orient i od data (List.length D) r).
  cbn. norm_state. fold od.
  loop_with Inv Post (Z.to_nat nval).
  - intros ii st (Hii & j & k & dom & df & D' & HD' & ->).
    split; [lia|]. unfold pf_state. cbn.
    destruct (Z.ltb_spec (Z.of_nat ii) nval) as [Hlt|Hge].
    + cbn.
      destruct (zset_ok_len D' (Z.of_nat ii) 0) as (D1 & EL & HL1);
        [rewrite zlen_eq in HD; lia|].
      rewrite EL. cbn.
      destruct (pf_jloop (exec_fun N X program_chk fuel) fuel nval ncol orient (Z.of_nat ii)
                  k dom df od data D1) as (r & E & HP);
        try lia; try (rewrite zlen_eq in *; lia).
      unfold pf_jloop_stmt, pf_jbody, pf_kloop_stmt, pf_kbody in E. cbn in E.
      fold_loop_state fuel (pf_state nval ncol orient (Z.of_nat ii) 0 k dom df od data D1).
      rewrite E.
      destruct HP as (j' & k' & dom' & df' & D2 & HL2 & ->).
      unfold pf_state. cbn. iw. cbn.
      split; [lia|]. exists j', k', dom', df', D2. split; [lia|].
      norm_state. unfold pf_state.
      replace (Z.of_nat ii + 1) with (Z.of_nat (S ii)) by lia. reflexivity.
    + cbn. exists (Z.of_nat ii), j, k, dom, df, D'. split; [exact HD'|reflexivity].
  - split; [lia|]. exists 0, 0, 0, (nofZ N 0), D. split; [reflexivity|].
    unfold pf_state. reflexivity.
  - lia.
  - destruct HL as (r & -> & i & j' & k' & dom' & df' & D2 & HL2 & ->).
    cbn. exists D2. split; [reflexivity|exact HL2].
Qed.

(* the same theorem in the wrapper's terms: nval = isdominated.shape[0], data of nval*ncol
   elements; the only size hypothesis beyond the C types of nval and ncol is that the number
   of elements of data is at most 2^31 (the last flat index fits an [int]) *)
Corollary chk_safe_c_paretofront_wrapper (ncol orient : Z) (data : list T) (D : list Z)
          (fuel : nat) :
  zlen data = zlen D * ncol ->
  zlen D <= 2147483647 -> 0 <= ncol <= 2147483647 ->
  zlen data <= 2147483648 ->
  (List.length D < fuel)%nat -> (Z.to_nat ncol < fuel)%nat ->
  exists D',
    exec_fun N X program_chk (S fuel) "c_paretofront"
      [AVI (zlen D); AVI ncol; AVI orient; AVArrF data; AVArrI D]
    = Ok (RI 0, [VArrF data; VArrI D'])
    /\ List.length D' = List.length D.
Proof.
  intros Hdata HD Hnc Hsz Hf1 Hf2.
  apply chk_safe_c_paretofront; try lia.
  rewrite zlen_eq. lia.
Qed.

(* FINDING (theoretical): the flat index is computed in [int].  A wrapper-admissible call
   (C-contiguous data of shape (2, INT_MAX), isdominated of shape (2,)) overflows at
   i=0, j=1, k=1: ncol*j+k = 2^31, whatever the contents of data. *)
Theorem overflow_c_paretofront_index (orient : Z) (data : list T) (D : list Z) (fuel : nat) :
  zlen D = 2 -> zlen data = 2 * 2147483647 -> (2 <= fuel)%nat ->
  exec_fun N X program_chk (S fuel) "c_paretofront"
    [AVI 2; AVI 2147483647; AVI orient; AVArrF data; AVArrI D]
  = Err (Overflow true 2147483648).
Proof.
  intros HD Hdata Hfuel. rewrite zlen_eq in Hdata.
  destruct D as [|d0 [|d1 [|d2 D]]]; cbn [zlen] in HD; try lia;
    [|pose proof (zlen_eq D) as HD2; lia].
  cbn. norm_state.
  (* i = 0 *)
  rewrite loop_step by lia. cbn.
  (* j = 0: continue *)
  rewrite loop_step by lia. cbn. iw. cbn.
  (* j = 1 *)
  rewrite loop_step by lia. cbn.
  (* k = 0 *)
  rewrite loop_step by lia. cbn. iw. cbn. iw. cbn.
  rewrite (zget_ok data _ (n0 N)) by lia. cbn. iw. cbn. iw. cbn.
  rewrite (zget_ok data _ (n0 N)) by lia. cbn. rewrite truth_b2z.
  set (d := nsub N _ _).
  assert (Hover : in_width W32 2147483648 = false) by reflexivity.
  destruct (nisnan N d); cbn.
  - (* isnan(diff): continue; k = 1: ncol*1+1 overflows *)
    iw. cbn. rewrite loop_step by lia. cbn. iw. cbn. rewrite Hover. cbn. reflexivity.
  - destruct (nltb N (nofZ N 0) (nmul N (nofZ N orient) d)); cbn [b2z]; iw; cbn; iw; cbn.
    all: rewrite loop_step by lia; cbn; iw; cbn; rewrite Hover; cbn; reflexivity.
Qed.

End Pareto.
