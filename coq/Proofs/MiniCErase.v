(* MiniCErase: erasure of the overflow checks [IChk] of a MiniC program, and the
   simulation theorem: a successful run of the overflow-checked program is a
   successful run of the erased (unchecked) program, with the same fuel, the
   same return value and the same final arrays.

   Instantiated on the two generated programs: [erase_program program_chk =
   program] is proved by computation (re-checked on every run against the
   regenerated files), hence every successful run of [program_chk] is a run of
   [program]. *)
From Coq Require Import ZArith Bool List String Lia.
From Hy Require Import Base.Num Base.MiniC.
From Hy Require Import Gen.KernelsAst Gen.KernelsAstChk.
Import ListNotations.
Open Scope Z_scope.

(* ------------------------------------------------------------------ *)
(* 1. the erasure                                                       *)

Fixpoint erase_i (e : iexp) : iexp :=
  match e with
  | IConst z => IConst z
  | IVar x => IVar x
  | IArr a i => IArr a (erase_i i)
  | IUn op a => IUn op (erase_i a)
  | IBin op a b => IBin op (erase_i a) (erase_i b)
  | ICmp op a b => ICmp op (erase_i a) (erase_i b)
  | IFCmp op a b => IFCmp op (erase_f a) (erase_f b)
  | IAnd a b => IAnd (erase_i a) (erase_i b)
  | IOr a b => IOr (erase_i a) (erase_i b)
  | ICond c a b => ICond (erase_i c) (erase_i a) (erase_i b)
  | ITrunc w f => ITrunc w (erase_f f)
  | IFloor w f => IFloor w (erase_f f)
  | IIsnan f => IIsnan (erase_f f)
  | IChk _ a => erase_i a
  end
with erase_f (e : fexp) : fexp :=
  match e with
  | FLit b n d => FLit b n d
  | FNan => FNan
  | FVar x => FVar x
  | FArr a i => FArr a (erase_i i)
  | FUn op a => FUn op (erase_f a)
  | FBin op a b => FBin op (erase_f a) (erase_f b)
  | FOfInt a => FOfInt (erase_i a)
  | FCond c a b => FCond (erase_i c) (erase_f a) (erase_f b)
  | FExt1 f a => FExt1 f (erase_f a)
  | FExt2 f a b => FExt2 f (erase_f a) (erase_f b)
  end.

Lemma erase_i_eq e :
  erase_i e =
  match e with
  | IConst z => IConst z
  | IVar x => IVar x
  | IArr a i => IArr a (erase_i i)
  | IUn op a => IUn op (erase_i a)
  | IBin op a b => IBin op (erase_i a) (erase_i b)
  | ICmp op a b => ICmp op (erase_i a) (erase_i b)
  | IFCmp op a b => IFCmp op (erase_f a) (erase_f b)
  | IAnd a b => IAnd (erase_i a) (erase_i b)
  | IOr a b => IOr (erase_i a) (erase_i b)
  | ICond c a b => ICond (erase_i c) (erase_i a) (erase_i b)
  | ITrunc w f => ITrunc w (erase_f f)
  | IFloor w f => IFloor w (erase_f f)
  | IIsnan f => IIsnan (erase_f f)
  | IChk _ a => erase_i a
  end.
Proof. destruct e; reflexivity. Qed.

Lemma erase_f_eq e :
  erase_f e =
  match e with
  | FLit b n d => FLit b n d
  | FNan => FNan
  | FVar x => FVar x
  | FArr a i => FArr a (erase_i i)
  | FUn op a => FUn op (erase_f a)
  | FBin op a b => FBin op (erase_f a) (erase_f b)
  | FOfInt a => FOfInt (erase_i a)
  | FCond c a b => FCond (erase_i c) (erase_f a) (erase_f b)
  | FExt1 f a => FExt1 f (erase_f a)
  | FExt2 f a b => FExt2 f (erase_f a) (erase_f b)
  end.
Proof. destruct e; reflexivity. Qed.

Definition erase_arg (a : arg) : arg :=
  match a with
  | AI e => AI (erase_i e)
  | AF e => AF (erase_f e)
  | AArrI n off => AArrI n (erase_i off)
  | AArrF n off => AArrF n (erase_i off)
  end.

Fixpoint erase_stmt (s : stmt) : stmt :=
  match s with
  | SSkip => SSkip
  | SSeq a b => SSeq (erase_stmt a) (erase_stmt b)
  | SSetI x e => SSetI x (erase_i e)
  | SSetF x e => SSetF x (erase_f e)
  | SStoreI a i e => SStoreI a (erase_i i) (erase_i e)
  | SStoreF a i e => SStoreF a (erase_i i) (erase_f e)
  | SNewI a n init => SNewI a (erase_i n) (map erase_i init)
  | SNewF a n init => SNewF a (erase_i n) (map erase_f init)
  | SIf c a b => SIf (erase_i c) (erase_stmt a) (erase_stmt b)
  | SWhile c b => SWhile (erase_i c) (erase_stmt b)
  | SFor c step b => SFor (erase_i c) (erase_stmt step) (erase_stmt b)
  | SBreak => SBreak
  | SContinue => SContinue
  | SRetI e => SRetI (erase_i e)
  | SRetF e => SRetF (erase_f e)
  | SCall d f args => SCall d f (map erase_arg args)
  | SQsortI a n k cmp => SQsortI a (erase_i n) k cmp
  | SQsortF a n k cmp => SQsortF a (erase_i n) k cmp
  end.

Definition erase_fundef (fd : fundef) : fundef :=
  match fd with
  | Fun ps body => Fun ps (erase_stmt body)
  | Untranslated r => Untranslated r
  end.

Definition erase_program (p : MiniC.program) : MiniC.program :=
  map (fun kf : string * fundef => (fst kf, erase_fundef (snd kf))) p.

(* ------------------------------------------------------------------ *)
(* 2. the simulation                                                    *)

(* induction principle for the mutual expression syntax *)
Scheme iexp_mut := Induction for iexp Sort Prop
  with fexp_mut := Induction for fexp Sort Prop.
Combined Scheme iexp_fexp_ind from iexp_mut, fexp_mut.

Lemma bind_inv {A B} (r : result A) (f : A -> result B) (b : B) :
  bind r f = Ok b -> exists a, r = Ok a /\ f a = Ok b.
Proof.
  destruct r as [a|e]; cbn [bind]; intros H; [|discriminate H].
  exists a. split; [reflexivity|exact H].
Qed.

(* split a successful [bind] hypothesis into its two steps *)
Ltac binv H x E :=
  apply bind_inv in H; destruct H as [x [E H]].

Section Sim.
Context {T : Type}.
Variable N : NumOps T.
Variable X : NumLit T.

Notation state := (state T).
Notation callee := (callee T).

(* ---- expressions ---- *)

(* unfolding equations ([cbn] / [simpl] do not refold the mutual fixpoints) *)
Lemma eval_i_eq (st : state) e :
  eval_i N X st e =
  match e with
  | IConst z => Ok z
  | IVar x => get_i st x
  | IArr a i => do k <- eval_i N X st i; read_i st a k
  | IUn op a => do v <- eval_i N X st a; Ok (sem_iun op v)
  | IBin op a b => do va <- eval_i N X st a; do vb <- eval_i N X st b; sem_ibin op va vb
  | ICmp op a b => do va <- eval_i N X st a; do vb <- eval_i N X st b; Ok (b2z (sem_cmp op va vb))
  | IFCmp op a b => do va <- eval_f N X st a; do vb <- eval_f N X st b; Ok (b2z (sem_fcmp N op va vb))
  | IAnd a b => do va <- eval_i N X st a;
                if truth va then (do vb <- eval_i N X st b; Ok (b2z (truth vb))) else Ok 0
  | IOr a b => do va <- eval_i N X st a;
               if truth va then Ok 1 else (do vb <- eval_i N X st b; Ok (b2z (truth vb)))
  | ICond c a b => do vc <- eval_i N X st c; if truth vc then eval_i N X st a else eval_i N X st b
  | ITrunc w f => do v <- eval_f N X st f; sem_cast w (ntrunc N v)
  | IFloor w f => do v <- eval_f N X st f; sem_cast w (nfloor N v)
  | IIsnan f => do v <- eval_f N X st f; Ok (b2z (nisnan N v))
  | IChk w a => do v <- eval_i N X st a;
                if in_width w v then Ok v
                else Err (Overflow (match w with W32 => true | W64 => false end) v)
  end.
Proof. destruct e; reflexivity. Qed.

Lemma eval_f_eq (st : state) e :
  eval_f N X st e =
  match e with
  | FLit b n d => Ok (nlit X b n d)
  | FNan => Ok (nnan N)
  | FVar x => get_f st x
  | FArr a i => do k <- eval_i N X st i; read_f st a k
  | FUn op a => do v <- eval_f N X st a; Ok (sem_fun N op v)
  | FBin op a b => do va <- eval_f N X st a; do vb <- eval_f N X st b; Ok (sem_fbin N op va vb)
  | FOfInt a => do v <- eval_i N X st a; Ok (nofZ N v)
  | FCond c a b => do vc <- eval_i N X st c; if truth vc then eval_f N X st a else eval_f N X st b
  | FExt1 f a => do v <- eval_f N X st a; of_opt (NoExt f) (next X f [v])
  | FExt2 f a b => do va <- eval_f N X st a; do vb <- eval_f N X st b; of_opt (NoExt f) (next X f [va; vb])
  end.
Proof. destruct e; reflexivity. Qed.

(* [H : eval_i st (C ..) = Ok v |- eval_i st (erase_i (C ..)) = Ok v]: unfold one
   constructor on both sides *)
Ltac step_i H :=
  rewrite eval_i_eq in H; cbv beta iota in H;
  rewrite erase_i_eq; cbv beta iota; rewrite eval_i_eq; cbv beta iota.
Ltac step_f H :=
  rewrite eval_f_eq in H; cbv beta iota in H;
  rewrite erase_f_eq; cbv beta iota; rewrite eval_f_eq; cbv beta iota.

Lemma erase_eval_both :
  (forall e (st : state) v, eval_i N X st e = Ok v -> eval_i N X st (erase_i e) = Ok v) /\
  (forall e (st : state) v, eval_f N X st e = Ok v -> eval_f N X st (erase_f e) = Ok v).
Proof.
  apply iexp_fexp_ind.
  - (* IConst *) intros z st v H. exact H.
  - (* IVar *) intros x st v H. exact H.
  - (* IArr *) intros a i IHi st v H. step_i H.
    binv H k Ek. rewrite (IHi _ _ Ek). exact H.
  - (* IUn *) intros op a IHa st v H. step_i H.
    binv H va Ea. rewrite (IHa _ _ Ea). exact H.
  - (* IBin *) intros op a IHa b IHb st v H. step_i H.
    binv H va Ea. binv H vb Eb. rewrite (IHa _ _ Ea). cbn [bind]. rewrite (IHb _ _ Eb). exact H.
  - (* ICmp *) intros op a IHa b IHb st v H. step_i H.
    binv H va Ea. binv H vb Eb. rewrite (IHa _ _ Ea). cbn [bind]. rewrite (IHb _ _ Eb). exact H.
  - (* IFCmp *) intros op a IHa b IHb st v H. step_i H.
    binv H va Ea. binv H vb Eb. rewrite (IHa _ _ Ea). cbn [bind]. rewrite (IHb _ _ Eb). exact H.
  - (* IAnd *) intros a IHa b IHb st v H. step_i H.
    binv H va Ea. rewrite (IHa _ _ Ea). cbn [bind].
    destruct (truth va); [|exact H].
    binv H vb Eb. rewrite (IHb _ _ Eb). exact H.
  - (* IOr *) intros a IHa b IHb st v H. step_i H.
    binv H va Ea. rewrite (IHa _ _ Ea). cbn [bind].
    destruct (truth va); [exact H|].
    binv H vb Eb. rewrite (IHb _ _ Eb). exact H.
  - (* ICond *) intros c IHc a IHa b IHb st v H. step_i H.
    binv H vc Ec. rewrite (IHc _ _ Ec). cbn [bind].
    destruct (truth vc); [apply IHa|apply IHb]; exact H.
  - (* ITrunc *) intros w f IHf st v H. step_i H.
    binv H vf Ef. rewrite (IHf _ _ Ef). exact H.
  - (* IFloor *) intros w f IHf st v H. step_i H.
    binv H vf Ef. rewrite (IHf _ _ Ef). exact H.
  - (* IIsnan *) intros f IHf st v H. step_i H.
    binv H vf Ef. rewrite (IHf _ _ Ef). exact H.
  - (* IChk: the check is dropped; when it passed, the value is that of the operand *)
    intros w a IHa st v H. rewrite eval_i_eq in H; cbv beta iota in H. rewrite erase_i_eq; cbv beta iota.
    binv H va Ea. destruct (in_width w va); [|discriminate H].
    injection H as <-. apply IHa. exact Ea.
  - (* FLit *) intros b n d st v H. exact H.
  - (* FNan *) intros st v H. exact H.
  - (* FVar *) intros x st v H. exact H.
  - (* FArr *) intros a i IHi st v H. step_f H.
    binv H k Ek. rewrite (IHi _ _ Ek). exact H.
  - (* FUn *) intros op a IHa st v H. step_f H.
    binv H va Ea. rewrite (IHa _ _ Ea). exact H.
  - (* FBin *) intros op a IHa b IHb st v H. step_f H.
    binv H va Ea. binv H vb Eb. rewrite (IHa _ _ Ea). cbn [bind]. rewrite (IHb _ _ Eb). exact H.
  - (* FOfInt *) intros a IHa st v H. step_f H.
    binv H va Ea. rewrite (IHa _ _ Ea). exact H.
  - (* FCond *) intros c IHc a IHa b IHb st v H. step_f H.
    binv H vc Ec. rewrite (IHc _ _ Ec). cbn [bind].
    destruct (truth vc); [apply IHa|apply IHb]; exact H.
  - (* FExt1 *) intros f a IHa st v H. step_f H.
    binv H va Ea. rewrite (IHa _ _ Ea). exact H.
  - (* FExt2 *) intros f a IHa b IHb st v H. step_f H.
    binv H va Ea. binv H vb Eb. rewrite (IHa _ _ Ea). cbn [bind]. rewrite (IHb _ _ Eb). exact H.
Qed.

Lemma erase_eval_i (st : state) e v :
  eval_i N X st e = Ok v -> eval_i N X st (erase_i e) = Ok v.
Proof. apply (proj1 erase_eval_both). Qed.

Lemma erase_eval_f (st : state) e v :
  eval_f N X st e = Ok v -> eval_f N X st (erase_f e) = Ok v.
Proof. apply (proj2 erase_eval_both). Qed.

Lemma erase_eval_ilist (st : state) l vs :
  eval_ilist N X st l = Ok vs -> eval_ilist N X st (map erase_i l) = Ok vs.
Proof.
  revert vs; induction l as [|e r IH]; intros vs H; cbn [eval_ilist map] in *; [exact H|].
  binv H v Ev. binv H vr Er.
  rewrite (erase_eval_i _ _ _ Ev). cbn [bind]. rewrite (IH _ Er). exact H.
Qed.

Lemma erase_eval_flist (st : state) l vs :
  eval_flist N X st l = Ok vs -> eval_flist N X st (map erase_f l) = Ok vs.
Proof.
  revert vs; induction l as [|e r IH]; intros vs H; cbn [eval_flist map] in *; [exact H|].
  binv H v Ev. binv H vr Er.
  rewrite (erase_eval_f _ _ _ Ev). cbn [bind]. rewrite (IH _ Er). exact H.
Qed.

Lemma erase_cond_of (c : iexp) (st : state) b :
  cond_of N X c st = Ok b -> cond_of N X (erase_i c) st = Ok b.
Proof.
  unfold cond_of. intros H. binv H v Ev. rewrite (erase_eval_i _ _ _ Ev). exact H.
Qed.

(* ---- calls ---- *)

Lemma erase_eval_args (st : state) l vs :
  eval_args N X st l = Ok vs -> eval_args N X st (map erase_arg l) = Ok vs.
Proof.
  revert vs; induction l as [|a r IH]; intros vs H; cbn [eval_args map] in *; [exact H|].
  binv H v Ev. binv H vr Er. rewrite (IH _ Er).
  destruct a as [e|e|n off|n off]; cbn [erase_arg].
  - binv Ev z Ez. injection Ev as <-. rewrite (erase_eval_i _ _ _ Ez). cbn [bind]. exact H.
  - binv Ev z Ez. injection Ev as <-. rewrite (erase_eval_f _ _ _ Ez). cbn [bind]. exact H.
  - binv Ev k Ek. rewrite (erase_eval_i _ _ _ Ek). cbn [bind]. rewrite Ev. exact H.
  - binv Ev k Ek. rewrite (erase_eval_i _ _ _ Ek). cbn [bind]. rewrite Ev. exact H.
Qed.

Lemma erase_arr_names l : arr_names (map erase_arg l) = arr_names l.
Proof.
  induction l as [|a r IH]; [reflexivity|].
  destruct a as [e|e|n off|n off]; cbn [map erase_arg arr_names]; rewrite IH; reflexivity.
Qed.

Lemma erase_write_back f l : forall (st : state) outs st',
  write_back N X f st l outs = Ok st' -> write_back N X f st (map erase_arg l) outs = Ok st'.
Proof.
  induction l as [|a r IH]; intros st outs st' H; [exact H|].
  destruct a as [e|e|n off|n off]; cbn [map erase_arg write_back] in *.
  - apply IH. exact H.
  - apply IH. exact H.
  - destruct outs as [|[o|o] outs']; try discriminate H.
    binv H k Ek. binv H arr Ea. rewrite (erase_eval_i _ _ _ Ek). cbn [bind]. rewrite Ea. cbn [bind].
    apply IH. exact H.
  - destruct outs as [|[o|o] outs']; try discriminate H.
    binv H k Ek. binv H arr Ea. rewrite (erase_eval_i _ _ _ Ek). cbn [bind]. rewrite Ea. cbn [bind].
    apply IH. exact H.
Qed.

(* ---- loops ---- *)

Lemma loop_sim (cond1 cond2 : state -> result bool)
      (body1 body2 : state -> result (outcome T * state)) :
  (forall st b, cond1 st = Ok b -> cond2 st = Ok b) ->
  (forall st r, body1 st = Ok r -> body2 st = Ok r) ->
  forall fuel st r, loop fuel cond1 body1 st = Ok r -> loop fuel cond2 body2 st = Ok r.
Proof.
  intros Hc Hb fuel. induction fuel as [|f IH]; intros st r H; cbn [loop] in *; [discriminate H|].
  destruct (cond1 st) as [b|e] eqn:Ec; [|discriminate H].
  rewrite (Hc _ _ Ec). destruct b; [|exact H].
  destruct (body1 st) as [[o st']|e] eqn:Eb; [|discriminate H].
  rewrite (Hb _ _ Eb).
  destruct o as [| | |v]; try exact H; apply IH; exact H.
Qed.

Lemma for_body_sim (b1 b2 s1 s2 : state -> result (outcome T * state)) :
  (forall st r, b1 st = Ok r -> b2 st = Ok r) ->
  (forall st r, s1 st = Ok r -> s2 st = Ok r) ->
  forall st r, for_body b1 s1 st = Ok r -> for_body b2 s2 st = Ok r.
Proof.
  intros Hb Hs st r H. unfold for_body in *.
  destruct (b1 st) as [[o st']|e] eqn:Eb; [|discriminate H].
  rewrite (Hb _ _ Eb).
  destruct o as [| | |v]; try exact H; apply Hs; exact H.
Qed.

(* ---- the sort ---- *)

Section SortSim.
Context {A : Type}.
Variables cmp1 cmp2 : A -> A -> result Z.
Hypothesis Hcmp : forall x y z, cmp1 x y = Ok z -> cmp2 x y = Ok z.

Lemma mergeM_sim : forall fuel l1 l2 r,
  mergeM cmp1 fuel l1 l2 = Ok r -> mergeM cmp2 fuel l1 l2 = Ok r.
Proof.
  induction fuel as [|f IH]; intros l1 l2 r H; cbn [mergeM] in *; [discriminate H|].
  destruct l1 as [|x r1]; [exact H|]. destruct l2 as [|y r2]; [exact H|].
  binv H c Ec. rewrite (Hcmp _ _ _ Ec). cbn [bind].
  destruct (c <=? 0).
  - binv H m Em. rewrite (IH _ _ _ Em). exact H.
  - binv H m Em. rewrite (IH _ _ _ Em). exact H.
Qed.

Lemma msortM_sim : forall fuel l r,
  msortM cmp1 fuel l = Ok r -> msortM cmp2 fuel l = Ok r.
Proof.
  induction fuel as [|f IH]; intros l r H; cbn [msortM] in *; [discriminate H|].
  destruct (Nat.leb (List.length l) 1); [exact H|].
  binv H a Ea. binv H b Eb. rewrite (IH _ _ Ea). cbn [bind]. rewrite (IH _ _ Eb). cbn [bind].
  apply mergeM_sim. exact H.
Qed.
End SortSim.

Section CallSim.
Variables callf1 callf2 : callee.
Hypothesis Hcall : forall f vs r, callf1 f vs = Ok r -> callf2 f vs = Ok r.

Lemma cmp_call_sim {A} cmpf (mk : list A -> argval T) a b z :
  cmp_call callf1 cmpf mk a b = Ok z -> cmp_call callf2 cmpf mk a b = Ok z.
Proof.
  unfold cmp_call. intros H. binv H r Er. rewrite (Hcall _ _ _ Er). exact H.
Qed.

Lemma qsort_list_sim {A} cmpf (mk : list A -> argval T) name n k l l' :
  qsort_list callf1 cmpf mk name n k l = Ok l' -> qsort_list callf2 cmpf mk name n k l = Ok l'.
Proof.
  unfold qsort_list. intros H.
  destruct ((n <? 0) || (k <? 1) || (zlen l <? n * k)); [discriminate H|].
  binv H s Es.
  rewrite (msortM_sim _ _ (fun x y z => cmp_call_sim cmpf mk x y z) _ _ _ Es).
  exact H.
Qed.

(* ---- statements ---- *)

Lemma erase_exec : forall s fuel (st : state) r,
  exec N X callf1 fuel s st = Ok r -> exec N X callf2 fuel (erase_stmt s) st = Ok r.
Proof.
  induction s as [ | a IHa b IHb | x e | x e | a i e | a i e | a n init | a n init
                 | c a IHa b IHb | c b IHb | c step IHstep b IHb | | | e | e
                 | d f args | a n k cmpf | a n k cmpf ];
    intros fuel st r H; cbn [exec erase_stmt] in *.
  - (* SSkip *) exact H.
  - (* SSeq *)
    destruct (exec N X callf1 fuel a st) as [[o st']|e] eqn:Ea; [|discriminate H].
    rewrite (IHa _ _ _ Ea). destruct o as [| | |v]; try exact H. apply IHb. exact H.
  - (* SSetI *) binv H v Ev. rewrite (erase_eval_i _ _ _ Ev). exact H.
  - (* SSetF *) binv H v Ev. rewrite (erase_eval_f _ _ _ Ev). exact H.
  - (* SStoreI *) binv H k Ek. binv H v Ev.
    rewrite (erase_eval_i _ _ _ Ek). cbn [bind]. rewrite (erase_eval_i _ _ _ Ev). exact H.
  - (* SStoreF *) binv H k Ek. binv H v Ev.
    rewrite (erase_eval_i _ _ _ Ek). cbn [bind]. rewrite (erase_eval_f _ _ _ Ev). exact H.
  - (* SNewI *) binv H k Ek. binv H vs Evs.
    rewrite (erase_eval_i _ _ _ Ek). cbn [bind]. rewrite (erase_eval_ilist _ _ _ Evs). exact H.
  - (* SNewF *) binv H k Ek. binv H vs Evs.
    rewrite (erase_eval_i _ _ _ Ek). cbn [bind]. rewrite (erase_eval_flist _ _ _ Evs). exact H.
  - (* SIf *) binv H v Ev. rewrite (erase_eval_i _ _ _ Ev). cbn [bind].
    destruct (truth v); [apply IHa|apply IHb]; exact H.
  - (* SWhile *)
    revert H. apply loop_sim.
    + intros st0 b0. apply erase_cond_of.
    + intros st0 r0. apply IHb.
  - (* SFor *)
    revert H. apply loop_sim.
    + intros st0 b0. apply erase_cond_of.
    + apply for_body_sim.
      * intros st0 r0. apply IHb.
      * intros st0 r0. apply IHstep.
  - (* SBreak *) exact H.
  - (* SContinue *) exact H.
  - (* SRetI *) binv H v Ev. rewrite (erase_eval_i _ _ _ Ev). exact H.
  - (* SRetF *) binv H v Ev. rewrite (erase_eval_f _ _ _ Ev). exact H.
  - (* SCall *)
    rewrite erase_arr_names.
    destruct (first_dup (arr_names args)); [discriminate H|].
    binv H vs Evs. binv H rr Er. binv H st1 Ewb.
    rewrite (erase_eval_args _ _ _ Evs). cbn [bind].
    rewrite (Hcall _ _ _ Er). cbn [bind].
    rewrite (erase_write_back _ _ _ _ _ Ewb). exact H.
  - (* SQsortI *) binv H nv En. binv H l El. binv H l' Eqs.
    rewrite (erase_eval_i _ _ _ En). cbn [bind]. rewrite El. cbn [bind].
    rewrite (qsort_list_sim _ _ _ _ _ _ _ Eqs). exact H.
  - (* SQsortF *) binv H nv En. binv H l El. binv H l' Eqs.
    rewrite (erase_eval_i _ _ _ En). cbn [bind]. rewrite El. cbn [bind].
    rewrite (qsort_list_sim _ _ _ _ _ _ _ Eqs). exact H.
Qed.

End CallSim.

(* ---- functions ---- *)

Lemma alookup_erase f (p : MiniC.program) :
  alookup f (erase_program p) = option_map erase_fundef (alookup f p).
Proof.
  induction p as [|[k fd] r IH]; [reflexivity|].
  cbn [erase_program map alookup fst snd]. destruct (String.eqb f k); [reflexivity|]. exact IH.
Qed.

Lemma erase_find_fun p f ps body :
  find_fun p f = Ok (ps, body) -> find_fun (erase_program p) f = Ok (ps, erase_stmt body).
Proof.
  unfold find_fun. rewrite alookup_erase.
  destruct (alookup f p) as [[ps' body'|reason]|]; cbn [option_map erase_fundef];
    intros H; try discriminate H.
  injection H as <- <-. reflexivity.
Qed.

(* the simulation theorem: same fuel, same return value, same final arrays *)
Theorem erase_exec_fun p fuel f args r :
  exec_fun N X p fuel f args = Ok r -> exec_fun N X (erase_program p) fuel f args = Ok r.
Proof.
  revert f args r. induction fuel as [|n IH]; intros f args r H; cbn [exec_fun] in *; [discriminate H|].
  binv H fd Efd. destruct fd as [ps body]. binv H st0 Ebp. cbn [fst snd] in *.
  rewrite (erase_find_fun _ _ _ _ Efd). cbn [bind fst snd]. rewrite Ebp. cbn [bind].
  destruct (exec N X (exec_fun N X p n) n body st0) as [[o st]|e] eqn:Ex; [|discriminate H].
  rewrite (erase_exec _ _ IH _ _ _ _ Ex). exact H.
Qed.

End Sim.

(* ------------------------------------------------------------------ *)
(* 3. the two generated programs                                        *)

(* by computation: re-checked on every run against the regenerated files *)
Lemma program_chk_erases_to_program : erase_program program_chk = program.
Proof. vm_compute. reflexivity. Qed.

Corollary checked_run_is_unchecked_run {T} (N : NumOps T) (X : NumLit T) fuel f args r :
  exec_fun N X program_chk fuel f args = Ok r -> exec_fun N X program fuel f args = Ok r.
Proof.
  intros H. rewrite <- program_chk_erases_to_program. apply erase_exec_fun. exact H.
Qed.
