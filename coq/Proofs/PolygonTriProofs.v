(* Proofs about Model/Polygon.v (property C15), part 3:
   - for a triangle (either orientation, degenerate or not) the answer is the
     topological interior (the three orientation determinants have one sign);
   - a point with a missing (NaN) coordinate is answered 0. *)
From Coq Require Import ZArith Bool List Reals Lra Lia.
From Hy Require Import Base.Num Gen.ConstsC15 Model.Grid Model.Polygon.
From Hy Require Import Proofs.PolygonProofs Proofs.PolygonInvProofs.
Import ListNotations.
Open Scope R_scope.

(* orientation determinant of (A, B, P): > 0 iff P lies to the left of A -> B *)
Definition orient (a b p : rpt) : R :=
  (fst b - fst a) * (snd p - snd a) - (snd b - snd a) * (fst p - fst a).

Lemma crossesb_orient x y a b :
  orient a b (x, y) <> 0 ->
  crossesb x y (a, b) =
  (Rltb (snd a) y && negb (Rltb (snd b) y) && Rltb 0 (orient a b (x, y))) ||
  (negb (Rltb (snd a) y) && Rltb (snd b) y && Rltb (orient a b (x, y)) 0).
Proof.
  destruct a as [ax ay], b as [bx by_]. unfold orient; simpl. intros Ho.
  rewrite crossesb_alt; simpl.
  set (o := (bx - ax) * (y - ay) - (by_ - ay) * (x - ax)) in *.
  destruct (Rltb ay y) eqn:H1, (Rltb by_ y) eqn:H2; simpl; try reflexivity;
    try apply Rltb_true in H1; try apply Rltb_false in H1;
    try apply Rltb_true in H2; try apply Rltb_false in H2.
  - (* upward edge *)
    assert (E : (xcross y (ax, ay) (bx, by_) - x) * (by_ - ay) = o).
    { unfold xcross, o; simpl. field. lra. }
    rewrite orb_false_r.
    unfold Rleb, Rltb.
    destruct (Rle_dec x (xcross y (ax, ay) (bx, by_))), (Rlt_dec 0 o); try reflexivity; exfalso; nra.
  - (* downward edge *)
    assert (E : (xcross y (ax, ay) (bx, by_) - x) * (by_ - ay) = o).
    { unfold xcross, o; simpl. field. lra. }
    unfold Rleb, Rltb.
    destruct (Rle_dec x (xcross y (ax, ay) (bx, by_))), (Rlt_dec o 0); try reflexivity; exfalso; nra.
Qed.

Lemma Rltb_pos_true o : 0 < o -> Rltb 0 o = true /\ Rltb o 0 = false.
Proof. intros H. split; [now apply Rltb_true|apply Rltb_false; lra]. Qed.
Lemma Rltb_neg_true o : o < 0 -> Rltb 0 o = false /\ Rltb o 0 = true.
Proof. intros H. split; [apply Rltb_false; lra|now apply Rltb_true]. Qed.

(* strictly inside the triangle: the three determinants have one sign *)
Definition in_triangle (a b c p : rpt) : Prop :=
  (0 < orient a b p /\ 0 < orient b c p /\ 0 < orient c a p) \/
  (orient a b p < 0 /\ orient b c p < 0 /\ orient c a p < 0).
Definition in_triangleb (a b c p : rpt) : bool :=
  (Rltb 0 (orient a b p) && Rltb 0 (orient b c p) && Rltb 0 (orient c a p)) ||
  (Rltb (orient a b p) 0 && Rltb (orient b c p) 0 && Rltb (orient c a p) 0).

Lemma in_triangleb_spec a b c p : in_triangleb a b c p = true <-> in_triangle a b c p.
Proof.
  unfold in_triangleb, in_triangle. rewrite orb_true_iff, !andb_true_iff, !Rltb_true. tauto.
Qed.

(* crossing parity of a triangle = strict interior, for a point off the three
   lines carrying its sides; no hypothesis on the triangle (either
   orientation, degenerate or not) *)
Lemma triangle_cparity a b c p :
  orient a b p <> 0 -> orient b c p <> 0 -> orient c a p <> 0 ->
  cparity [a; b; c] p = in_triangleb a b c p.
Proof.
  intros Hab Hbc Hca. unfold cparity, in_triangleb.
  change (edges [a; b; c]) with [(a, b); (b, c); (c, a)].
  destruct p as [x y]. cbn [map fst snd].
  rewrite (crossesb_orient x y a b Hab), (crossesb_orient x y b c Hbc),
          (crossesb_orient x y c a Hca).
  (* barycentric identity: the orientation determinants weigh the heights *)
  assert (Hid : orient b c (x, y) * (y - snd a) + orient c a (x, y) * (y - snd b) +
                orient a b (x, y) * (y - snd c) = 0)
    by (unfold orient; simpl; ring).
  set (oab := orient a b (x, y)) in *. set (obc := orient b c (x, y)) in *.
  set (oca := orient c a (x, y)) in *.
  unfold parityb; cbn [fold_right].
  destruct (Rdichotomy _ _ Hab) as [Sab|Sab];
  [destruct (Rltb_neg_true _ Sab) as [-> ->] | destruct (Rltb_pos_true _ Sab) as [-> ->]];
  (destruct (Rdichotomy _ _ Hbc) as [Sbc|Sbc];
   [destruct (Rltb_neg_true _ Sbc) as [-> ->] | destruct (Rltb_pos_true _ Sbc) as [-> ->]]);
  (destruct (Rdichotomy _ _ Hca) as [Sca|Sca];
   [destruct (Rltb_neg_true _ Sca) as [-> ->] | destruct (Rltb_pos_true _ Sca) as [-> ->]]);
  unfold Rltb;
  destruct (Rlt_dec (snd a) y) as [Ya|Ya], (Rlt_dec (snd b) y) as [Yb|Yb],
           (Rlt_dec (snd c) y) as [Yc|Yc]; cbn [andb orb negb xorb].
  all: try reflexivity.
  all: exfalso; try nra.
  (* what is left: all three vertices level with the point - then the three
     determinants vanish *)
  all: assert (E1 : snd a = y) by nra; assert (E2 : snd b = y) by nra;
       unfold oab, orient in Sab; cbn [fst snd] in Sab; rewrite E1, E2 in Sab; nra.
Qed.

Theorem triangle_interior atol a b c p :
  good_poly atol [a; b; c] ->
  orient a b p <> 0 -> orient b c p <> 0 -> orient c a p <> 0 ->
  (pip_point RR atol [a; b; c] p = Some 1%Z <-> in_triangle a b c p).
Proof.
  intros G Hab Hbc Hca.
  assert (Hne : [a; b; c] <> []) by discriminate.
  rewrite (inside_is_crossing_parity atol _ p Hne G).
  rewrite parity_answer_cparity, (triangle_cparity a b c p Hab Hbc Hca).
  rewrite <- in_triangleb_spec.
  destruct (in_triangleb a b c p); split; intros H; try reflexivity; discriminate H.
Qed.

(* ------------------------------------------------------------------ *)
(* the even-odd rule in its covering form: the crossing parity of ANY polygon
   v0 v1 ... v(n-1) is the parity of the number of fan triangles
   (v0, vi, vi+1) that contain the point - the diagonals v0-vi are each
   crossed twice and cancel.                                             *)

Section Fan.
Variables (v0 p : rpt).
Let c (e : rpt * rpt) : bool := crossesb (fst p) (snd p) e.
Definition tri_parity (e : rpt * rpt) : bool := cparity [v0; fst e; snd e] p.

Lemma tri_parity_unfold a b :
  tri_parity (a, b) = xorb (c (v0, a)) (xorb (c (a, b)) (c (b, v0))).
Proof.
  unfold tri_parity, cparity. cbn [fst snd].
  change (edges [v0; a; b]) with [(v0, a); (a, b); (b, v0)].
  cbn [map parityb fold_right]. now rewrite xorb_false_r.
Qed.

Lemma c_swap a b : c (b, a) = c (a, b).
Proof. unfold c. exact (crossesb_swap (fst p) (snd p) (a, b)). Qed.

Lemma fan_telescope l a :
  parityb (map tri_parity (path (a :: l))) =
  xorb (c (v0, a)) (xorb (parityb (map c (path (a :: l)))) (c (last l a, v0))).
Proof.
  revert a; induction l as [|b l IH]; intros a.
  - cbn [path map parityb fold_right last]. rewrite (c_swap v0 a).
    destruct (c (v0, a)); reflexivity.
  - change (path (a :: b :: l)) with ((a, b) :: path (b :: l)).
    cbn [map parityb fold_right]. fold (parityb (map tri_parity (path (b :: l)))).
    fold (parityb (map c (path (b :: l)))).
    rewrite IH, tri_parity_unfold, (last_cons_default l a b), (c_swap v0 b).
    destruct (c (v0, a)), (c (a, b)), (c (v0, b)), (parityb (map c (path (b :: l)))),
             (c (last l b, v0)); reflexivity.
Qed.

Lemma path_snoc {A} (l : list A) a z :
  path ((a :: l) ++ [z]) = path (a :: l) ++ [(last l a, z)].
Proof.
  revert a; induction l as [|b l IH]; intros a; [reflexivity|].
  change (path ((a :: b :: l) ++ [z])) with ((a, b) :: path ((b :: l) ++ [z])).
  rewrite IH, (last_cons_default l a b). reflexivity.
Qed.

Lemma fan_cparity l :
  cparity (v0 :: l) p = parityb (map tri_parity (path l)).
Proof.
  unfold cparity. fold c.
  destruct l as [|a l].
  - change (edges [v0]) with [(v0, v0)]. cbn [map parityb fold_right path].
    unfold c. now rewrite crossesb_degenerate.
  - rewrite fan_telescope.
    change (edges (v0 :: a :: l)) with ((v0, a) :: path ((a :: l) ++ [v0])).
    rewrite path_snoc. cbn [map parityb fold_right].
    fold (parityb (map c (path (a :: l) ++ [(last l a, v0)]))).
    rewrite map_app, parityb_app. cbn [map parityb fold_right].
    now rewrite xorb_false_r.
Qed.
End Fan.

Definition off_lines (v0 p : rpt) (e : rpt * rpt) : Prop :=
  orient v0 (fst e) p <> 0 /\ orient (fst e) (snd e) p <> 0 /\ orient (snd e) v0 p <> 0.

Definition fan_count (v0 : rpt) (l : list rpt) (p : rpt) : nat :=
  List.length (filter (fun e => in_triangleb v0 (fst e) (snd e) p) (path l)).

Theorem inside_is_fan_parity atol v0 l p :
  good_poly atol (v0 :: l) ->
  Forall (off_lines v0 p) (path l) ->
  pip_point RR atol (v0 :: l) p =
  Some (if Nat.odd (fan_count v0 l p) then 1%Z else 0%Z).
Proof.
  intros G Hoff.
  assert (Hne : v0 :: l <> []) by discriminate.
  rewrite (inside_is_crossing_parity atol _ p Hne G), parity_answer_cparity.
  rewrite fan_cparity. unfold fan_count. rewrite <- parityb_odd.
  assert (E : parityb (map (tri_parity v0 p) (path l)) =
              parityb (map (fun e : rpt * rpt => in_triangleb v0 (fst e) (snd e) p) (path l)));
    [|now rewrite E].
  apply parityb_map_ext_in. intros [a b] Hin.
  rewrite Forall_forall in Hoff. destruct (Hoff _ Hin) as (H1 & H2 & H3).
  unfold tri_parity. cbn [fst snd] in *. now apply triangle_cparity.
Qed.

(* a genuinely two-dimensional instance: a point strictly inside a triangle *)
Example triangle_example :
  good_poly PIP_ATOL_DEFAULT_R [(0, 0); (4, 1); (1, 3)] /\
  0 < orient (0, 0) (4, 1) (2, 1) /\ 0 < orient (4, 1) (1, 3) (2, 1) /\
  0 < orient (1, 3) (0, 0) (2, 1).
Proof.
  split.
  - unfold good_poly, PIP_ATOL_DEFAULT_R.
    change (edges [(0, 0); (4, 1); (1, 3)])
      with [((0, 0), (4, 1)); ((4, 1), (1, 3)); ((1, 3), (0, 0))].
    repeat (apply Forall_cons; [unfold good_edge; simpl; split;
              first [left; lra | right; rabs_const; lra]|]).
    apply Forall_nil.
  - unfold orient; simpl. repeat split; lra.
Qed.

(* ------------------------------------------------------------------ *)
(* missing coordinates (NaN): [RN] instance, None plays NaN              *)

Notation opt := (option R * option R)%type (only parsing).

Lemma edge_toggle_RN_nan atol x y e :
  x = None \/ y = None -> edge_toggle RN atol x y e = false.
Proof.
  destruct e as [p1 p2]. unfold edge_toggle.
  intros [-> | ->].
  - destruct (nltb RN _ _); [|reflexivity].
    destruct (nleb RN _ _); [|reflexivity]. reflexivity.
  - cbn [nltb RN]. destruct (nfmin RN (snd p1) (snd p2)); reflexivity.
Qed.

Theorem nan_point_zero atol (poly : list opt) x y :
  poly <> [] -> x = None \/ y = None ->
  pip_point RN atol poly (x, y) = Some 0%Z.
Proof.
  intros Hne Hn. unfold pip_point.
  destruct (extent_nonempty RN poly Hne) as (xlim & ylim & He). rewrite He. f_equal.
  unfold c_inside_point. destruct (outside_box RN xlim ylim (x, y)); [reflexivity|].
  unfold crossing_parity. rewrite fold_toggle, xorb_false_l.
  rewrite parityb_all_false; [reflexivity|].
  intros e _. now apply edge_toggle_RN_nan.
Qed.

(* non-vacuity of the fan theorem: the L-shaped polygon and a point of it off
   every line through two of the fan triangles' vertices *)
Example fan_example :
  good_poly PIP_ATOL_DEFAULT_R ((0, 0) :: [(2, 0); (2, 1); (1, 1); (1, 2); (0, 2)]) /\
  Forall (off_lines (0, 0) (1 / 2, 5 / 4)) (path [(2, 0); (2, 1); (1, 1); (1, 2); (0, 2)]).
Proof.
  split; [exact lshape_good|].
  change (path [(2, 0); (2, 1); (1, 1); (1, 2); (0, 2)])
    with [((2, 0), (2, 1)); ((2, 1), (1, 1)); ((1, 1), (1, 2)); ((1, 2), (0, 2))].
  repeat (apply Forall_cons; [unfold off_lines, orient; cbn [fst snd]; repeat split; lra|]).
  apply Forall_nil.
Qed.

Example nan_example : [(Some 0, Some 0); (Some 1, Some 0); (Some 0, Some 1)] <> @nil opt.
Proof. discriminate. Qed.
