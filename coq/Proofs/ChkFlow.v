(* Overflow-checked versions of the refinement theorems of Proofs/RefineFlow.v (c_downstream,
   c_upstream) and Proofs/RefineAccumulate.v (c_accumulate): the same conclusions about
   [program_chk] (Gen/KernelsAstChk.v), the translation of the C kernels in which every signed
   integer +, -, *, /, unary -, ++ carries [IChk <width>] (error [Overflow] unless the value
   fits the C type).  All integers of these kernels are [long long] (W64); the [int] literals
   (-1, -2, GRID_ERROR + __LINE__) are W32 and closed.

   A theorem [exec_fun N X program_chk (S n) "<kernel>" args = Ok r] therefore says that, besides
   memory safety / no division by zero, no signed overflow (undefined behaviour in C) occurs.

   Extra hypotheses (LLMAX = 2^63-1), all in terms of the C types:
     c_downstream : nrows*ncols <= LLMAX   (idxcell >= nrows*ncols; ny*ncols + nx in c_neighbours)
                    nval <= LLMAX          (i++; nval is a long long: always true)
     c_upstream   : nrows*ncols <= LLMAX, 9*nval <= LLMAX   (idxup[9*i+k], idxup[9*i+j])
     c_accumulate : -2^63 <= nrows*ncols <= LLMAX  (ntot = nrows*ncols; ncols is not checked by the kernel)
                    max_accumulated_cells + 1 <= LLMAX   (accumulated_cells++)
   No hypothesis on the DATA (cell numbers, direction codes): they are only compared or used
   as (checked) indices.

   Main statements:
     chk_refine_downstream, chk_refine_downstream_error, chk_refine_downstream_total,
     chk_refine_upstream,   chk_refine_upstream_error,   chk_refine_upstream_total,
     the _std versions (table FLOWDIRCODE), chk_refine_accumulate_gen, chk_refine_accumulate.
   Callees: getnxy_run, neighbours_run (c_neighbours on a valid cell, checked). *)
From Coq Require Import ZArith Bool List String Lia.
From Hy Require Import Base.Num Base.MiniC Gen.Consts Gen.KernelsAstChk Model.Grid Model.Accumulate.
From Hy Require Import Proofs.RefineFlow Proofs.RefineAccumulate.
Import ListNotations.
Open Scope string_scope.
Open Scope list_scope.
Open Scope Z_scope.

(* closed arguments are decided by computation; symbolic ones stay folded (tactic [chk]) *)
#[local] Arguments in_width w !z /.
#[local] Arguments exec_fun {T} N X p fuel f args : simpl never.
#[local] Arguments loop {T} fuel cond body st : simpl never.

Lemma in_width_W32_iff v : in_width W32 v = true <-> -2147483648 <= v <= 2147483647.
Proof. unfold in_width. rewrite andb_true_iff, !Z.leb_le. reflexivity. Qed.
Lemma in_width_W64_iff v :
  in_width W64 v = true <-> -9223372036854775808 <= v <= 9223372036854775807.
Proof. unfold in_width. rewrite andb_true_iff, !Z.leb_le. reflexivity. Qed.
Lemma in_width_W32 v : -2147483648 <= v <= 2147483647 -> in_width W32 v = true.
Proof. apply in_width_W32_iff. Qed.
Lemma in_width_W64 v : -9223372036854775808 <= v <= 9223372036854775807 -> in_width W64 v = true.
Proof. apply in_width_W64_iff. Qed.

Ltac chk1 :=
  match goal with
  | |- context[in_width W64 ?v] => rewrite (in_width_W64 v) by lia
  | |- context[in_width W32 ?v] => rewrite (in_width_W32 v) by lia
  end.
Ltac chk := repeat chk1.

Notation LLMAX := 9223372036854775807 (only parsing).

Lemma grid_dims_bounded nrows ncols :
  1 <= nrows * ncols <= LLMAX ->
  ncols <> 0 /\ nrows <> 0 /\ - LLMAX <= ncols <= LLMAX /\ - LLMAX <= nrows <= LLMAX.
Proof.
  intros H.
  assert (ncols <> 0) by nia. assert (nrows <> 0) by nia.
  repeat split; try assumption; nia.
Qed.

Lemma getnxy_bounds ncols idx :
  ncols <> 0 -> 0 <= idx ->
  0 <= getnx ncols idx <= idx /\ 0 <= idx - getnx ncols idx <= idx /\
  - idx <= getny ncols idx <= idx.
Proof.
  intros Hc Hi. unfold getny, getnx.
  assert (H0 : 0 <= Z.rem idx ncols) by (apply Z.rem_nonneg; assumption).
  assert (H1 : Z.rem idx ncols <= idx).
  { destruct (Z.lt_trichotomy ncols 0) as [Hn|[Hn|Hn]]; [|contradiction|].
    - rewrite <- (Z.opp_involutive ncols), Z.rem_opp_r by lia. apply Z.rem_le; lia.
    - apply Z.rem_le; lia. }
  split; [lia|]. split; [lia|].
  pose proof (Z.quot_rem' idx ncols) as E.
  replace (idx - Z.rem idx ncols) with (ncols * (Z.quot idx ncols)) by lia.
  rewrite Z.mul_comm, Z.quot_mul by assumption.
  assert (Z.abs (Z.quot idx ncols) <= Z.abs idx).
  { rewrite <- Z.quot_abs by assumption. apply Z.quot_le_upper_bound; [lia|].
    assert (0 <= Z.abs idx) by lia. nia. }
  lia.
Qed.

Lemma cell_bound nrows ncols nx ny :
  0 <= nx <= ncols - 1 -> 0 <= ny <= nrows - 1 ->
  0 <= ny * ncols <= nrows * ncols /\ 0 <= ny * ncols + nx < nrows * ncols.
Proof. intros. nia. Qed.

(* run as far as the symbolic data allows, resolving the overflow checks by [lia] on the way *)
Ltac mrun := repeat (progress (cbn; rewrite ?truth_b2z, ?b2z_truth_b2z, ?or_ok, ?and_ok; chk)).
Ltac mstep := mrun; try merge_if2; norm_state.

(* the tactics of the generic block of Proofs/RefineAccumulate.v, with the overflow checks *)
Ltac run1c :=
  first [ solve [mrun; norm_state; reflexivity]
        | solve [repeat (progress (mc_step; zb; chk)); norm_state; reflexivity] ].
Ltac stepc := step_with run1c.
Ltac stepsc := repeat stepc.
Ltac for_iterc last :=
  eapply loop_next';
  [ first [ solve [cbn; reflexivity] | solve [mc; reflexivity] ]
  | first [ eapply for_body_normal'; [ solve [stepsc; last] | run1c ]
          | eapply for_body_continue'; [ solve [stepsc; reflexivity] | run1c ] ]
  | ].

(* present the (first) for loop of the goal as [exec .. name st], [name] a constant bound to
   the [SFor] statement *)
Ltac fold_for_as name :=
  match goal with
  | |- context[loop ?f (cond_of ?N ?X ?c) (for_body (exec ?N ?X ?cf ?f ?b) (exec ?N ?X ?cf ?f ?s)) ?st] =>
      change (loop f (cond_of N X c) (for_body (exec N X cf f b) (exec N X cf f s)) st)
        with (exec N X cf f name st)
  end.

Lemma if_guard {A} (b : bool) (P Q Q' : A) :
  (b = false -> Q = Q') -> (if b then P else Q) = (if b then P else Q').
Proof. destruct b; intros H; [reflexivity|apply H; reflexivity]. Qed.

(* an overflow check that is only known to pass under the (symbolic) condition guarding it:
   [if b then P else Q] with [in_width] tests in Q; [tac Hb] must resolve them from [Hb : b = false] *)
Ltac guard_chk tac :=
  match goal with
  | |- context[if ?b then ?P else ?Q] =>
      match Q with context[in_width _ _] => idtac end;
      erewrite (if_guard b P Q);
      [| let Hb := fresh "Hb" in intro Hb; tac Hb; reflexivity ]
  end.

(* the guard of c_neighbours: the cell number ny*ncols+nx is only formed (and only fits) for a
   neighbour inside the grid *)
Ltac nb_guard nrows ncols Hb :=
  rewrite !orb_false_iff in Hb;
  let E1 := fresh "E" in let E2 := fresh "E" in let E3 := fresh "E" in let E4 := fresh "E" in
  destruct Hb as [[[E1 E2] E3] E4]; apply Z.ltb_ge in E1, E2, E3, E4;
  match type of E1 with 0 <= ?nx =>
    match type of E3 with 0 <= ?ny =>
      let C1 := fresh "C" in let C2 := fresh "C" in
      destruct (cell_bound nrows ncols nx ny) as [C1 C2]; [lia|lia|]
    end
  end;
  mrun.
Ltac nb_if nrows ncols :=
  mrun; try guard_chk ltac:(fun Hb => nb_guard nrows ncols Hb); merge_if2; norm_state; reflexivity.

Section Callees.
Context {T : Type} (N : NumOps T) (X : NumLit T).

Lemma getnxy_run n ncols idx a b :
  ncols <> 0 -> 0 <= idx <= LLMAX ->
  exec_fun N X program_chk (S n) "getnxy" [AVI ncols; AVI idx; AVArrI [a; b]]
  = Ok (RI 0, [VArrI [getnx ncols idx; getny ncols idx]]).
Proof.
  intros H Hi. destruct (getnxy_bounds ncols idx H (proj1 Hi)) as (B1 & B2 & B3).
  unfold getnx, getny in *.
  eapply exec_fun_intro; [reflexivity|reflexivity| |].
  - stepc. stepc. run1c.
  - reflexivity.
Qed.

Lemma neighbours_run n nrows ncols idx junk :
  List.length junk = 9%nat -> 0 <= idx < nrows * ncols -> nrows * ncols <= LLMAX -> (4 <= n)%nat ->
  exec_fun N X program_chk (S n) "c_neighbours" [AVI nrows; AVI ncols; AVI idx; AVArrI junk]
  = Ok (RI 0, [VArrI (neighbours_raw nrows ncols idx)]).
Proof.
  intros HJ Hidx HM Hn.
  do 9 (destruct junk as [|? junk]; [discriminate HJ|]). destruct junk; [|discriminate HJ].
  do 4 (destruct n as [|n]; [lia|]).
  destruct (grid_dims_bounded nrows ncols) as (Hnc & Hnr & Bc & Br); [lia|].
  destruct (getnxy_bounds ncols idx Hnc (proj1 Hidx)) as (B1 & B2 & B3).
  unfold neighbours_raw.
  remember (getnx ncols idx) as nx0 eqn:Enx. remember (getny ncols idx) as ny0 eqn:Eny.
  eapply exec_fun_intro; [reflexivity|reflexivity| |].
  - stepsc.
    eapply exec_seq_step'.
    { eapply exec_call; [reflexivity | cbn; reflexivity | apply getnxy_run; lia
                        | cbn; reflexivity | cbn; reflexivity ]. }
    rewrite <- Enx, <- Eny.
    norm_state. stepsc.
    eapply exec_seq_step'.
    { rewrite exec_for.
      do 3 (for_iterc ltac:(rewrite exec_for; do 3 (for_iterc ltac:(nb_if nrows ncols)); for_end)).
      for_end. }
    run1c.
  - reflexivity.
Qed.

(* the Cython wrapper [neighbours(nrows, ncols, idxcell, ..)] passes arbitrary long long
   dimensions: nrows*ncols is then computed without any guard (witness: 2^62 x 4) *)
Lemma overflow_neighbours_product a :
  List.length a = 9%nat ->
  exec_fun N X program_chk 1 "c_neighbours"
    [AVI 4611686018427387904; AVI 4; AVI 0; AVArrI a]
  = Err (Overflow false 18446744073709551616).
Proof. intros _. reflexivity. Qed.


End Callees.


Section Refine.
Context {T : Type} (N : NumOps T) (X : NumLit T).

(* ================================================================== *)
Section Flow.
Variables (nrows ncols : Z) (codes fdl : list Z).
(* [nrows*ncols] is computed in long long (the validity test of every cell, the cell numbers
   of c_neighbours) *)
Hypothesis HM : nrows * ncols <= LLMAX.
Notation valid c := (valid_cell nrows ncols c = true).

Lemma valid_range c : valid c -> 0 <= c < nrows * ncols.
Proof.
  unfold valid_cell. intros Hv. apply negb_true_iff, orb_false_iff in Hv. destruct Hv as [H1 H2].
  apply Z.ltb_ge in H1. apply Z.leb_gt in H2. lia.
Qed.

(* every entry of the neighbour table is -1 or a valid index of the flow-direction grid *)
Definition nb_ok (v : Z) : Prop := v = -1 \/ 0 <= v < Z.of_nat (List.length fdl).

Lemma neighbour_at_ok nx0 ny0 o :
  Z.of_nat (List.length fdl) = nrows * ncols -> nb_ok (neighbour_at nrows ncols nx0 ny0 o).
Proof.
  intros Hfd. destruct o as [ix iy]. unfold neighbour_at, nb_ok.
  destruct ((ix =? 0) && (iy =? 0)); [left; reflexivity|].
  destruct ((nx0 + ix <? 0) || (ncols - 1 <? nx0 + ix) || (ny0 + iy <? 0) || (nrows - 1 <? ny0 + iy)) eqn:E;
    [left; reflexivity|].
  right. rewrite !orb_false_iff in E. destruct E as [[[E1 E2] E3] E4].
  apply Z.ltb_ge in E1, E2, E3, E4. rewrite Hfd. nia.
Qed.

Lemma neighbours_raw_ok c :
  Z.of_nat (List.length fdl) = nrows * ncols -> Forall nb_ok (neighbours_raw nrows ncols c).
Proof.
  intros Hfd. unfold neighbours_raw. apply Forall_forall. intros v Hin.
  apply in_map_iff in Hin. destruct Hin as (o & <- & _). apply neighbour_at_ok. assumption.
Qed.

Lemma neighbours_raw_length c : List.length (neighbours_raw nrows ncols c) = 9%nat.
Proof. unfold neighbours_raw. rewrite map_length. reflexivity. Qed.

Lemma neighbours_run_ge n idx (nb : list Z) :
  List.length nb = 9%nat -> valid idx -> (5 <= n)%nat ->
  exec_fun N X program_chk n "c_neighbours" [AVI nrows; AVI ncols; AVI idx; AVArrI nb]
  = Ok (RI 0, [VArrI (neighbours_raw nrows ncols idx)]).
Proof.
  intros HL Hv Hn. destruct n as [|n]; [lia|].
  apply neighbours_run; [assumption|apply valid_range; assumption|exact HM|lia].
Qed.


(* ---------------- c_downstream ---------------- *)
(* the loops, extracted from the generated AST *)
Definition dn_for : stmt := Eval cbv in nth_stmt 6 (fun_body c_downstream_chk_def).
Definition dn_forj : stmt := Eval cbv in nth_stmt 7 (loop_body dn_for).

Definition dn_F (f : Z) (ng : list Z) (acc j : Z) : Z :=
  if f =? zn codes j 0 then zn ng j (-1) else acc.

Lemma dn_F_eq f ng acc j :
  dn_F f ng acc j = if f =? zn codes j 0 then zn ng j (-1) else acc.
Proof. reflexivity. Qed.

Definition dn_state (idx : list Z) (k : nat) (j fdv icell : Z) (out ng : list Z) : state T :=
  {| s_i := [("nrows", nrows); ("ncols", ncols); ("nval", zlen idx); ("i", Z.of_nat k);
             ("j", j); ("fd", fdv); ("idxcell", icell)];
     s_f := [];
     s_ai := [("flowdircode", codes); ("flowdir", fdl); ("idxup", idx); ("idxdown", out);
              ("neighbours", ng)];
     s_af := [] |}.

Definition dn_in_inv idx k fdv icell dout x jrest ng (jj : nat) (st : state T) : Prop :=
  (jj <= 9)%nat /\ st = dn_state idx k (Z.of_nat jj) fdv icell
         (dout ++ fold_left (dn_F fdv ng) (firstn jj slots) x :: jrest) ng.

Lemma dn_inner (cf : callee T) m idx k fdv icell dout x jrest ng :
  List.length codes = 9%nat -> List.length ng = 9%nat -> List.length dout = k -> (9 < m)%nat ->
  exec N X cf m dn_forj (dn_state idx k 0 fdv icell (dout ++ x :: jrest) ng)
  = Ok (ONormal, dn_state idx k 9 fdv icell (dout ++ fold_left (dn_F fdv ng) slots x :: jrest) ng).
Proof.
  intros Hc Hg Hd Hm. unfold dn_forj. rewrite exec_for.
  apply (loop_rule_eq (dn_in_inv idx k fdv icell dout x jrest ng) _ 9%nat); [|split; [lia|reflexivity]|lia].
  intros jj st [Hj9 ->]. split; [lia|].
  assert (jj = 9%nat \/ (jj < 9)%nat) as [->|Hj] by lia.
  - unfold dn_state. cbn. reflexivity.
  - unfold dn_state. cbn.
    replace (Z.of_nat jj <? 9) with true by (symmetry; apply Z.ltb_lt; lia).
    cbn. rewrite (zget_ok codes _ 0) by lia. cbn.
    rewrite ?truth_b2z.
    fold (zn codes (Z.of_nat jj) 0).
    destruct (fdv =? zn codes (Z.of_nat jj) 0) eqn:E.
    + cbn. rewrite (zget_ok ng _ (-1)) by lia. cbn.
      rewrite (zset_app dout jrest) by lia. mrun.
      unfold dn_in_inv, dn_state. norm_state. split; [lia|].
      rewrite firstn_slots_S by assumption. rewrite fold_left_app. cbn [fold_left].
      rewrite dn_F_eq, E. fold (zn ng (Z.of_nat jj) (-1)).
      replace (Z.of_nat jj + 1) with (Z.of_nat (S jj)) by lia. reflexivity.
    + mrun. unfold dn_in_inv, dn_state. norm_state. split; [lia|].
      rewrite firstn_slots_S by assumption. rewrite fold_left_app. cbn [fold_left].
      rewrite dn_F_eq, E.
      replace (Z.of_nat jj + 1) with (Z.of_nat (S jj)) by lia. reflexivity.
Qed.

Definition dn_get (c : Z) : Z :=
  match downstream_with codes nrows ncols fdl c with Some v => v | None => -1 end.

Lemma dn_get_valid c : valid c ->
  dn_get c = if zn fdl c 0 =? 0 then -2
             else fold_left (dn_F (zn fdl c 0) (neighbours_raw nrows ncols c)) slots (-1).
Proof.
  intros H. unfold dn_get, downstream_with. rewrite H.
  destruct (zn fdl c 0 =? 0); reflexivity.
Qed.

Definition dn_inv (idx junk : list Z) (k : nat) (st : state T) : Prop :=
  exists done todo jdone jtodo j fdv icell ng,
    idx = done ++ todo /\ junk = jdone ++ jtodo /\
    List.length done = k /\ List.length jdone = k /\
    Forall (fun c => valid c) done /\ List.length ng = 9%nat /\
    st = dn_state idx k j fdv icell (map dn_get done ++ jtodo) ng.

Definition dn_post (idx junk : list Z) (r : outcome T * state T) : Prop :=
  (Forall (fun c => valid c) idx /\
   exists j fdv icell ng,
     r = (ONormal, dn_state idx (List.length idx) j fdv icell (map dn_get idx) ng))
  \/
  (exists done bad rest jdone jtodo j fdv ng code,
     idx = done ++ bad :: rest /\ junk = jdone ++ jtodo /\
     List.length jdone = List.length done /\
     Forall (fun c => valid c) done /\ valid_cell nrows ncols bad = false /\ 0 < code /\
     r = (ORet (RI code), dn_state idx (List.length done) j fdv bad (map dn_get done ++ jtodo) ng)).

Lemma dn_main idx junk n :
  List.length codes = 9%nat ->
  Z.of_nat (List.length fdl) = nrows * ncols ->
  List.length junk = List.length idx ->
  zlen idx <= LLMAX ->
  (List.length idx < n)%nat -> (9 < n)%nat ->
  exists r,
    exec N X (exec_fun N X program_chk n) n dn_for
      (dn_state idx 0 0 0 0 junk [0; 0; 0; 0; 0; 0; 0; 0; 0]) = Ok r /\ dn_post idx junk r.
Proof.
  intros Hc Hfd HJ HL Hn Hn9. rewrite zlen_eq in HL.
  unfold dn_for. rewrite exec_for.
  apply (loop_rule (dn_inv idx junk) (dn_post idx junk) (List.length idx)) with (k := O); [| |lia].
  2:{ exists [], idx, [], junk, 0, 0, 0, [0; 0; 0; 0; 0; 0; 0; 0; 0]. repeat split; auto. }
  intros k st (done & todo & jdone & jtodo & j & fdv & icell & ng & Hidx & Hjunk & Hk & Hjk & Hval & Hng & ->).
  assert (Hlen : List.length idx = (k + List.length todo)%nat) by (rewrite Hidx, app_length; lia).
  assert (Hlenj : List.length jtodo = List.length todo).
  { rewrite Hjunk, Hidx, !app_length in HJ. lia. }
  split; [lia|].
  unfold dn_state. cbn. rewrite zlen_eq.
  destruct todo as [|c todo].
  - replace (Z.of_nat k <? Z.of_nat (List.length idx)) with false
      by (symmetry; apply Z.ltb_ge; cbn in Hlen; lia).
    cbn. left. destruct jtodo; [|discriminate]. rewrite app_nil_r in *. subst done.
    split; [assumption|]. exists j, fdv, icell, ng. unfold dn_state. rewrite zlen_eq, Hk. reflexivity.
  - replace (Z.of_nat k <? Z.of_nat (List.length idx)) with true
      by (symmetry; apply Z.ltb_lt; cbn in Hlen; lia).
    destruct jtodo as [|j0 jtodo]; [discriminate|].
    assert (Hk1 : Z.of_nat k + 1 <= LLMAX) by (cbn [List.length] in Hlen; lia).
    assert (HP : 0 <= nrows * ncols) by lia.
    subst idx. cbn. rewrite (zget_app done todo c) by lia. mrun.
    rewrite ?truth_b2z, ?b2z_truth_b2z, ?or_ok, ?truth_b2z.
    destruct (valid_cell nrows ncols c) eqn:Hv.
    + assert (Hv' := Hv). unfold valid_cell in Hv'. apply negb_true_iff in Hv'. rewrite Hv'.
      cbn. rewrite zlen_eq, Hng. change (Z.of_nat 9 <? 0) with false. cbn.
      rewrite neighbours_run_ge by (assumption || lia).
      assert (Hngc := neighbours_raw_length c).
      remember (neighbours_raw nrows ncols c) as ngc eqn:Engc.
      cbn.
      assert (Hcr : 0 <= c < Z.of_nat (List.length fdl)).
      { apply orb_false_iff in Hv'. destruct Hv' as [H1 H2].
        apply Z.ltb_ge in H1. apply Z.leb_gt in H2. lia. }
      rewrite (zget_ok fdl c 0) by exact Hcr. fold (zn fdl c 0). cbn.
      rewrite (zset_app (map dn_get done) jtodo) by (rewrite map_length; lia). cbn.
      rewrite ?truth_b2z.
      destruct (zn fdl c 0 =? 0) eqn:Ef.
      * rewrite (zset_app (map dn_get done) jtodo) by (rewrite map_length; lia). mrun.
        exists (done ++ [c]), todo, (jdone ++ [j0]), jtodo, j, (zn fdl c 0), c, ngc.
        split; [rewrite <- app_assoc; reflexivity|].
        split; [rewrite <- app_assoc; assumption|].
        split; [rewrite app_length; cbn; lia|].
        split; [rewrite app_length; cbn; lia|].
        split; [apply Forall_app; split; [assumption|constructor; [assumption|constructor]]|].
        split; [assumption|].
        norm_state. unfold dn_state. rewrite zlen_eq.
        rewrite map_app. cbn [map]. rewrite dn_get_valid, Ef by assumption.
        rewrite <- !app_assoc. cbn [app].
        replace (Z.of_nat k + 1) with (Z.of_nat (S k)) by lia. reflexivity.
      * norm_state. rewrite <- (zlen_eq (done ++ c :: todo)).
        fold (dn_state (done ++ c :: todo) k 0 (zn fdl c 0) c (map dn_get done ++ -1 :: jtodo) ngc).
        fold_for_as dn_forj.
        rewrite dn_inner by (assumption || (rewrite map_length; assumption)).
        mrun.
        exists (done ++ [c]), todo, (jdone ++ [j0]), jtodo, 9, (zn fdl c 0), c, ngc.
        split; [rewrite <- app_assoc; reflexivity|].
        split; [rewrite <- app_assoc; assumption|].
        split; [rewrite app_length; cbn; lia|].
        split; [rewrite app_length; cbn; lia|].
        split; [apply Forall_app; split; [assumption|constructor; [assumption|constructor]]|].
        split; [assumption|].
        norm_state. unfold dn_state.
        rewrite map_app. cbn [map]. rewrite dn_get_valid, Ef by assumption.
        rewrite <- !app_assoc. cbn [app]. subst ngc.
        replace (Z.of_nat k + 1) with (Z.of_nat (S k)) by lia. reflexivity.
    + assert (Hv' := Hv). unfold valid_cell in Hv'. apply negb_false_iff in Hv'. rewrite Hv'.
      cbn. right.
      exists done, c, todo, jdone, (j0 :: jtodo), j, fdv, ng, 50001.
      repeat (split; [first [reflexivity | assumption | lia]|]).
      unfold dn_state. rewrite zlen_eq, Hk. reflexivity.
Qed.

Lemma dn_run idx junk n :
  List.length codes = 9%nat ->
  Z.of_nat (List.length fdl) = nrows * ncols ->
  List.length junk = List.length idx ->
  zlen idx <= LLMAX ->
  (List.length idx < n)%nat -> (9 < n)%nat ->
  (Forall (fun c => valid c) idx /\
   exec_fun N X program_chk (S n) "c_downstream"
     [AVI nrows; AVI ncols; AVArrI codes; AVArrI fdl; AVI (zlen idx); AVArrI idx; AVArrI junk]
   = Ok (RI 0, [VArrI codes; VArrI fdl; VArrI idx; VArrI (map dn_get idx)]))
  \/
  (exists done bad rest code,
     idx = done ++ bad :: rest /\ Forall (fun c => valid c) done /\
     valid_cell nrows ncols bad = false /\ 0 < code /\
     exec_fun N X program_chk (S n) "c_downstream"
       [AVI nrows; AVI ncols; AVArrI codes; AVArrI fdl; AVI (zlen idx); AVArrI idx; AVArrI junk]
     = Ok (RI code, [VArrI codes; VArrI fdl; VArrI idx;
                     VArrI (map dn_get done ++ skipn (List.length done) junk)])).
Proof.
  intros Hc Hfd HJ HL Hn Hn9.
  destruct (dn_main idx junk n Hc Hfd HJ HL Hn Hn9) as (r & Hr & HP).
  destruct HP as [(Hall & j & fdv & icell & ng & ->) |
                  (done & bad & rest & jdone & jtodo & j & fdv & ng & code & Hidx & Hjunk & Hjl & Hd & Hb & Hcode & ->)].
  - left. split; [assumption|].
    eapply exec_fun_intro; [reflexivity|reflexivity| |].
    + stepsc. eapply exec_seq_step'; [exact Hr|]. unfold dn_state. run1c.
    + reflexivity.
  - right. exists done, bad, rest, code. repeat (split; [assumption|]).
    eapply exec_fun_intro; [reflexivity|reflexivity| |].
    + stepsc. eapply exec_seq_stop; [exact Hr|discriminate].
    + cbn. subst junk. rewrite <- Hjl, skipn_app, skipn_all, Nat.sub_diag. reflexivity.
Qed.

(* ---------------- c_upstream ---------------- *)
Definition up_for : stmt := Eval cbv in nth_stmt 8 (fun_body c_upstream_chk_def).
Definition up_for1 : stmt := Eval cbv in nth_stmt 5 (loop_body up_for).
Definition up_for2 : stmt := Eval cbv in nth_stmt 7 (loop_body up_for).
Definition up_G (ng : list Z) (j : Z) : list Z :=
  let nb := zn ng j (-1) in
  if nb =? -1 then []
  else let f := zn fdl nb 0 in
       if f =? 0 then [] else if f =? zn codes (8 - j) 0 then [nb] else [].

Lemma up_G_eq ng j :
  up_G ng j = if zn ng j (-1) =? -1 then []
              else if zn fdl (zn ng j (-1)) 0 =? 0 then []
              else if zn fdl (zn ng j (-1)) 0 =? zn codes (8 - j) 0 then [zn ng j (-1)] else [].
Proof. reflexivity. Qed.

Lemma up_G_le1 ng j : (List.length (up_G ng j) <= 1)%nat.
Proof.
  rewrite up_G_eq. destruct (_ =? -1); [cbn; lia|]. destruct (_ =? 0); [cbn; lia|].
  destruct (_ =? _); cbn; lia.
Qed.

Lemma hits_eq c :
  upstream_hits_with codes nrows ncols fdl c = flat_map (up_G (neighbours_raw nrows ncols c)) slots.
Proof. reflexivity. Qed.

Definition up_state (idx : list Z) (kk : nat) (j kv fdv icell inb : Z) (out ng : list Z) : state T :=
  {| s_i := [("nrows", nrows); ("ncols", ncols); ("nval", zlen idx); ("i", Z.of_nat kk);
             ("j", j); ("k", kv); ("fd", fdv); ("idxcell", icell); ("idxneighb", inb)];
     s_f := [];
     s_ai := [("flowdircode", codes); ("flowdir", fdl); ("idxdown", idx); ("idxup", out);
              ("neighbours", ng)];
     s_af := [] |}.

Definition up1_inv idx kk icell dout tail ng (jj : nat) (st : state T) : Prop :=
  (jj <= 9)%nat /\
  exists fdv inb,
    st = up_state idx kk (Z.of_nat jj)
           (Z.of_nat (List.length (flat_map (up_G ng) (firstn jj slots)))) fdv icell inb
           (dout ++ flat_map (up_G ng) (firstn jj slots)
                 ++ skipn (List.length (flat_map (up_G ng) (firstn jj slots))) tail) ng.

Definition up1_post idx kk icell dout tail ng (r : outcome T * state T) : Prop :=
  exists fdv inb,
    r = (ONormal,
         up_state idx kk 9 (Z.of_nat (List.length (flat_map (up_G ng) slots))) fdv icell inb
           (dout ++ flat_map (up_G ng) slots
                 ++ skipn (List.length (flat_map (up_G ng) slots)) tail) ng).

Lemma up_inner1 (cf : callee T) m idx kk fdv icell inb dout tail ng :
  List.length codes = 9%nat -> List.length ng = 9%nat -> Forall nb_ok ng ->
  List.length dout = (9 * kk)%nat -> (9 <= List.length tail)%nat -> (9 < m)%nat ->
  9 * Z.of_nat kk + 9 <= LLMAX ->
  exists r,
  exec N X cf m up_for1 (up_state idx kk 0 0 fdv icell inb (dout ++ tail) ng) = Ok r /\
  up1_post idx kk icell dout tail ng r.
Proof.
  intros Hc Hg Hok Hd Ht Hm HL9. unfold up_for1. rewrite exec_for.
  apply (loop_rule (up1_inv idx kk icell dout tail ng) (up1_post idx kk icell dout tail ng) 9%nat)
    with (k := O); [| |lia].
  2:{ split; [lia|]. exists fdv, inb. reflexivity. }
  intros jj st [Hj9 (fdv' & inb' & ->)]. split; [lia|].
  assert (jj = 9%nat \/ (jj < 9)%nat) as [->|Hj] by lia.
  - unfold up_state. mrun. exists fdv', inb'. reflexivity.
  - set (H := flat_map (up_G ng) (firstn jj slots)).
    assert (HH : (List.length H <= jj)%nat).
    { unfold H. etransitivity; [apply flat_map_le1; apply up_G_le1|]. rewrite firstn_length. lia. }
    unfold up_state. mrun.
    replace (Z.of_nat jj <? 9) with true by (symmetry; apply Z.ltb_lt; lia).
    mrun. rewrite (zget_ok ng _ (-1)) by lia. fold (zn ng (Z.of_nat jj) (-1)). mrun.
    rewrite ?truth_b2z.
    assert (Hnew : flat_map (up_G ng) (firstn (S jj) slots) = H ++ up_G ng (Z.of_nat jj)).
    { rewrite firstn_slots_S by assumption. rewrite flat_map_app. cbn [flat_map].
      rewrite app_nil_r. reflexivity. }
    rewrite up_G_eq in Hnew.
    assert (Hnb : nb_ok (zn ng (Z.of_nat jj) (-1))).
    { rewrite Forall_forall in Hok. apply Hok. unfold zn. apply nth_In. lia. }
    destruct (zn ng (Z.of_nat jj) (-1) =? -1) eqn:E1.
    + mrun. split; [lia|]. exists fdv', (zn ng (Z.of_nat jj) (-1)).
      rewrite Hnew, app_nil_r. fold H. unfold up_state. norm_state.
      replace (Z.of_nat jj + 1) with (Z.of_nat (S jj)) by lia. reflexivity.
    + mrun. apply Z.eqb_neq in E1. destruct Hnb as [Hnb|Hnb]; [contradiction|].
      rewrite (zget_ok fdl _ 0) by exact Hnb. fold (zn fdl (zn ng (Z.of_nat jj) (-1)) 0). mrun.
      rewrite ?truth_b2z.
      destruct (zn fdl (zn ng (Z.of_nat jj) (-1)) 0 =? 0) eqn:E2.
      * mrun. split; [lia|]. exists (zn fdl (zn ng (Z.of_nat jj) (-1)) 0), (zn ng (Z.of_nat jj) (-1)).
        rewrite Hnew, app_nil_r. fold H. unfold up_state. norm_state.
        replace (Z.of_nat jj + 1) with (Z.of_nat (S jj)) by lia. reflexivity.
      * mrun. rewrite (zget_ok codes _ 0) by lia. fold (zn codes (8 - Z.of_nat jj) 0). mrun.
        rewrite ?truth_b2z.
        destruct (zn fdl (zn ng (Z.of_nat jj) (-1)) 0 =? zn codes (8 - Z.of_nat jj) 0) eqn:E3.
        -- mrun.
           destruct (skipn_cons_ex (List.length H) tail) as (x & tl & Hs1 & Hs2); [lia|].
           fold H. rewrite Hs1. rewrite app_assoc.
           rewrite (zset_app (dout ++ H) tl x) by (rewrite app_length; lia).
           mrun. split; [lia|].
           exists (zn fdl (zn ng (Z.of_nat jj) (-1)) 0), (zn ng (Z.of_nat jj) (-1)).
           rewrite Hnew. unfold up_state. norm_state.
           rewrite app_length. cbn [List.length]. rewrite Nat.add_1_r, Hs2.
           rewrite <- !app_assoc. cbn [app].
           replace (Z.of_nat jj + 1) with (Z.of_nat (S jj)) by lia.
           replace (Z.of_nat (List.length H) + 1) with (Z.of_nat (S (List.length H))) by lia.
           reflexivity.
        -- mrun. split; [lia|].
           exists (zn fdl (zn ng (Z.of_nat jj) (-1)) 0), (zn ng (Z.of_nat jj) (-1)).
           rewrite Hnew, app_nil_r. fold H. unfold up_state. norm_state.
           replace (Z.of_nat jj + 1) with (Z.of_nat (S jj)) by lia. reflexivity.
Qed.



Definition up2_inv idx kk (j0 d : nat) kv fdv icell inb pre tail2 ng (t : nat) (st : state T) : Prop :=
  (t <= d)%nat /\
  st = up_state idx kk (Z.of_nat (j0 + t)) kv fdv icell inb
         (pre ++ repeat (-1) t ++ skipn t tail2) ng.

Lemma up_inner2 (cf : callee T) m idx kk (j0 d : nat) kv fdv icell inb pre tail2 ng :
  (j0 + d = 9)%nat -> List.length pre = (9 * kk + j0)%nat ->
  (d <= List.length tail2)%nat -> (9 < m)%nat ->
  9 * Z.of_nat kk + 9 <= LLMAX ->
  exec N X cf m up_for2 (up_state idx kk (Z.of_nat j0) kv fdv icell inb (pre ++ tail2) ng)
  = Ok (ONormal, up_state idx kk 9 kv fdv icell inb
                   (pre ++ repeat (-1) d ++ skipn d tail2) ng).
Proof.
  intros Hj0 Hpre Ht Hm HL9. unfold up_for2. rewrite exec_for.
  apply (loop_rule_eq (up2_inv idx kk j0 d kv fdv icell inb pre tail2 ng) _ 9%nat); [| |lia].
  2:{ split; [lia|]. rewrite Nat.add_0_r. reflexivity. }
  intros t st [Ht9 ->]. split; [lia|].
  assert (t = d \/ (t < d)%nat) as [->|Hlt] by lia.
  - unfold up_state. mrun.
    replace (Z.of_nat (j0 + d) <? 9) with false by (symmetry; apply Z.ltb_ge; lia).
    replace (Z.of_nat (j0 + d)) with 9 by lia. reflexivity.
  - unfold up_state. mrun.
    replace (Z.of_nat (j0 + t) <? 9) with true by (symmetry; apply Z.ltb_lt; lia).
    mrun.
    destruct (skipn_cons_ex t tail2) as (x & tl & Hs1 & Hs2); [lia|].
    rewrite Hs1. rewrite app_assoc.
    rewrite (zset_app (pre ++ repeat (-1) t) tl x) by (rewrite app_length, repeat_length; lia).
    mrun. split; [lia|]. unfold up_state. norm_state.
    rewrite repeat_snoc, Hs2. rewrite <- !app_assoc. cbn [app].
    replace (Z.of_nat (j0 + t) + 1) with (Z.of_nat (j0 + S t)) by lia. reflexivity.
Qed.


Definition up_get (c : Z) : list Z := pad9 (upstream_hits_with codes nrows ncols fdl c).
Definition up_out (l : list Z) : list Z := flat_map up_get l.

Lemma hits_length c : (List.length (upstream_hits_with codes nrows ncols fdl c) <= 9)%nat.
Proof. rewrite hits_eq. etransitivity; [apply flat_map_le1; apply up_G_le1|]. cbn. lia. Qed.

Lemma up_get_length c : List.length (up_get c) = 9%nat.
Proof.
  unfold up_get, pad9. rewrite app_length, repeat_length. pose proof (hits_length c). lia.
Qed.

Lemma up_out_length l : List.length (up_out l) = (9 * List.length l)%nat.
Proof.
  induction l as [|c l IH]; [reflexivity|]. unfold up_out in *. cbn [flat_map].
  rewrite app_length, up_get_length, IH. cbn [List.length]. lia.
Qed.

Lemma up_out_snoc l c : up_out (l ++ [c]) = up_out l ++ up_get c.
Proof. unfold up_out. rewrite flat_map_app. cbn [flat_map]. rewrite app_nil_r. reflexivity. Qed.

Definition up_inv (idx junk : list Z) (k : nat) (st : state T) : Prop :=
  exists done todo jdone jtodo j kv fdv icell inb ng,
    idx = done ++ todo /\ junk = jdone ++ jtodo /\
    List.length done = k /\ List.length jdone = (9 * k)%nat /\
    Forall (fun c => valid c) done /\ List.length ng = 9%nat /\
    st = up_state idx k j kv fdv icell inb (up_out done ++ jtodo) ng.

Definition up_post (idx junk : list Z) (r : outcome T * state T) : Prop :=
  (Forall (fun c => valid c) idx /\
   exists j kv fdv icell inb ng,
     r = (ONormal, up_state idx (List.length idx) j kv fdv icell inb (up_out idx) ng))
  \/
  (exists done bad rest jdone jtodo j kv fdv inb ng code,
     idx = done ++ bad :: rest /\ junk = jdone ++ jtodo /\
     List.length jdone = (9 * List.length done)%nat /\
     Forall (fun c => valid c) done /\ valid_cell nrows ncols bad = false /\ 0 < code /\
     r = (ORet (RI code),
          up_state idx (List.length done) j kv fdv bad inb (up_out done ++ jtodo) ng)).

Lemma up_main idx junk n :
  List.length codes = 9%nat ->
  Z.of_nat (List.length fdl) = nrows * ncols ->
  List.length junk = (9 * List.length idx)%nat ->
  9 * zlen idx <= LLMAX ->
  (List.length idx < n)%nat -> (9 < n)%nat ->
  exists r,
    exec N X (exec_fun N X program_chk n) n up_for
      (up_state idx 0 0 0 0 0 0 junk [0; 0; 0; 0; 0; 0; 0; 0; 0]) = Ok r /\ up_post idx junk r.
Proof.
  intros Hc Hfd HJ HL Hn Hn9. rewrite zlen_eq in HL. unfold up_for. rewrite exec_for.
  apply (loop_rule (up_inv idx junk) (up_post idx junk) (List.length idx)) with (k := O); [| |lia].
  2:{ exists [], idx, [], junk, 0, 0, 0, 0, 0, [0; 0; 0; 0; 0; 0; 0; 0; 0]. repeat split; auto. }
  intros k st (done & todo & jdone & jtodo & j & kv & fdv & icell & inb & ng &
               Hidx & Hjunk & Hk & Hjk & Hval & Hng & ->).
  assert (Hlen : List.length idx = (k + List.length todo)%nat) by (rewrite Hidx, app_length; lia).
  assert (Hlenj : List.length jtodo = (9 * List.length todo)%nat).
  { rewrite Hjunk, Hidx, !app_length in HJ. lia. }
  split; [lia|].
  unfold up_state. mrun. rewrite zlen_eq.
  destruct todo as [|c todo].
  - replace (Z.of_nat k <? Z.of_nat (List.length idx)) with false
      by (symmetry; apply Z.ltb_ge; cbn in Hlen; lia).
    mrun. left. destruct jtodo; [|discriminate]. rewrite app_nil_r in *. subst done.
    split; [assumption|]. exists j, kv, fdv, icell, inb, ng. unfold up_state.
    rewrite zlen_eq, Hk. reflexivity.
  - replace (Z.of_nat k <? Z.of_nat (List.length idx)) with true
      by (symmetry; apply Z.ltb_lt; cbn in Hlen; lia).
    assert (Hk9 : 9 * Z.of_nat k + 9 <= LLMAX) by (cbn [List.length] in Hlen; lia).
    subst idx. mrun. rewrite (zget_app done todo c) by lia. mrun.
    rewrite ?truth_b2z, ?b2z_truth_b2z, ?or_ok, ?truth_b2z.
    destruct (valid_cell nrows ncols c) eqn:Hv.
    + assert (Hv' := Hv). unfold valid_cell in Hv'. apply negb_true_iff in Hv'. rewrite Hv'.
      mrun. rewrite zlen_eq, Hng. change (Z.of_nat 9 <? 0) with false. mrun.
      rewrite neighbours_run_ge by (assumption || lia).
      assert (Hngc := neighbours_raw_length c).
      assert (Hngok := neighbours_raw_ok c Hfd).
      pose proof (hits_eq c) as Hhits.
      remember (neighbours_raw nrows ncols c) as ngc eqn:Engc.
      mrun. norm_loop_state. rewrite <- (zlen_eq (done ++ c :: todo)).
      fold (up_state (done ++ c :: todo) k 0 0 fdv c inb (up_out done ++ jtodo) ngc).
      fold_for_as up_for1.
      destruct (up_inner1 (exec_fun N X program_chk n) n (done ++ c :: todo) k fdv c inb
                  (up_out done) jtodo ngc) as (r1 & Hr1 & fdv1 & inb1 & ->);
        try assumption; try lia.
      { rewrite up_out_length. lia. }
      { cbn [List.length] in Hlenj. lia. }
      rewrite Hr1. clear Hr1.
      rewrite <- Hhits.
      assert (HHl := hits_length c).
      remember (upstream_hits_with codes nrows ncols fdl c) as H eqn:EH.
      remember (9 - List.length H)%nat as d eqn:Ed.
      unfold up_state. mrun. norm_loop_state.
      rewrite app_assoc.
      fold (up_state (done ++ c :: todo) k (Z.of_nat (List.length H)) (Z.of_nat (List.length H))
              fdv1 c inb1 ((up_out done ++ H) ++ skipn (List.length H) jtodo) ngc).
      fold_for_as up_for2.
      rewrite (up_inner2 _ _ _ _ (List.length H) d).
      2: lia. 2:{ rewrite app_length, up_out_length. lia. }
      2:{ rewrite skipn_length. cbn [List.length] in Hlenj. lia. } 2: lia. 2: exact Hk9.
      unfold up_state. mrun.
      exists (done ++ [c]), todo, (jdone ++ firstn 9 jtodo), (skipn 9 jtodo), 9,
             (Z.of_nat (List.length H)), fdv1, c, inb1, ngc.
      split; [rewrite <- app_assoc; reflexivity|].
      split; [rewrite <- app_assoc, firstn_skipn; assumption|].
      split; [rewrite app_length; cbn; lia|].
      split; [rewrite app_length, firstn_length; cbn [List.length] in Hlenj; lia|].
      split; [apply Forall_app; split; [assumption|constructor; [assumption|constructor]]|].
      split; [assumption|].
      norm_state. unfold up_state. rewrite zlen_eq.
      rewrite up_out_snoc. unfold up_get. rewrite <- EH. unfold pad9. rewrite <- Ed.
      rewrite skipn_skipn_add. replace (List.length H + d)%nat with 9%nat by lia.
      rewrite <- !app_assoc.
      replace (Z.of_nat k + 1) with (Z.of_nat (S k)) by lia. reflexivity.
    + assert (Hv' := Hv). unfold valid_cell in Hv'. apply negb_false_iff in Hv'. rewrite Hv'.
      mrun. right.
      exists done, c, todo, jdone, jtodo, j, kv, fdv, inb, ng, 50001.
      repeat (split; [first [reflexivity | assumption | lia]|]).
      unfold up_state. rewrite zlen_eq, Hk. reflexivity.
Qed.

Lemma up_run idx junk n :
  List.length codes = 9%nat ->
  Z.of_nat (List.length fdl) = nrows * ncols ->
  List.length junk = (9 * List.length idx)%nat ->
  9 * zlen idx <= LLMAX ->
  (List.length idx < n)%nat -> (9 < n)%nat ->
  (Forall (fun c => valid c) idx /\
   exec_fun N X program_chk (S n) "c_upstream"
     [AVI nrows; AVI ncols; AVArrI codes; AVArrI fdl; AVI (zlen idx); AVArrI idx; AVArrI junk]
   = Ok (RI 0, [VArrI codes; VArrI fdl; VArrI idx; VArrI (up_out idx)]))
  \/
  (exists done bad rest code,
     idx = done ++ bad :: rest /\ Forall (fun c => valid c) done /\
     valid_cell nrows ncols bad = false /\ 0 < code /\
     exec_fun N X program_chk (S n) "c_upstream"
       [AVI nrows; AVI ncols; AVArrI codes; AVArrI fdl; AVI (zlen idx); AVArrI idx; AVArrI junk]
     = Ok (RI code, [VArrI codes; VArrI fdl; VArrI idx;
                     VArrI (up_out done ++ skipn (9 * List.length done) junk)])).
Proof.
  intros Hc Hfd HJ HL Hn Hn9.
  destruct (up_main idx junk n Hc Hfd HJ HL Hn Hn9) as (r & Hr & HP).
  destruct HP as [(Hall & j & kv & fdv & icell & inb & ng & ->) |
                  (done & bad & rest & jdone & jtodo & j & kv & fdv & inb & ng & code &
                   Hidx & Hjunk & Hjl & Hd & Hb & Hcode & ->)].
  - left. split; [assumption|].
    eapply exec_fun_intro; [reflexivity|reflexivity| |].
    + stepsc. eapply exec_seq_step'; [exact Hr|]. unfold up_state. run1c.
    + reflexivity.
  - right. exists done, bad, rest, code. repeat (split; [assumption|]).
    replace (skipn (9 * List.length done) junk) with jtodo
      by (subst junk; rewrite <- Hjl, skipn_app, skipn_all, Nat.sub_diag; reflexivity).
    eapply exec_fun_intro; [reflexivity|reflexivity| |].
    + stepsc. eapply exec_seq_stop; [exact Hr|discriminate].
    + reflexivity.
Qed.

(* ---------------- statements in terms of the model only ---------------- *)
Notation dw := (downstream_with codes nrows ncols fdl).
Notation uw := (upstream_with codes nrows ncols fdl).

Lemma dw_some c v : dw c = Some v -> valid c /\ dn_get c = v.
Proof.
  intros H. unfold dn_get. rewrite H. split; [|reflexivity].
  unfold downstream_with in H. destruct (valid_cell nrows ncols c); [reflexivity|discriminate].
Qed.

Lemma dw_none c : dw c = None <-> valid_cell nrows ncols c = false.
Proof.
  unfold downstream_with. destruct (valid_cell nrows ncols c).
  - destruct (zn fdl c 0 =? 0); split; discriminate.
  - split; reflexivity.
Qed.

Lemma dw_F2 idx out :
  Forall2 (fun c v => dw c = Some v) idx out -> Forall (fun c => valid c) idx /\ out = map dn_get idx.
Proof.
  induction 1 as [|c v idx out H _ [IH1 IH2]]; [split; [constructor|reflexivity]|].
  destruct (dw_some c v H) as [Hv <-]. split; [constructor; assumption|]. cbn [map]. rewrite IH2. reflexivity.
Qed.

Lemma dw_F2_map idx :
  Forall (fun c => valid c) idx -> Forall2 (fun c v => dw c = Some v) idx (map dn_get idx).
Proof.
  induction 1 as [|c idx Hv _ IH]; [constructor|]. cbn [map]. constructor; [|exact IH].
  unfold dn_get, downstream_with. rewrite Hv. destruct (zn fdl c 0 =? 0); reflexivity.
Qed.

Lemma uw_some c l : uw c = Some l -> valid c /\ up_get c = l.
Proof.
  unfold upstream_with, up_get. destruct (valid_cell nrows ncols c); [|discriminate].
  intros [= <-]. split; reflexivity.
Qed.

Lemma uw_none c : uw c = None <-> valid_cell nrows ncols c = false.
Proof. unfold upstream_with. destruct (valid_cell nrows ncols c); split; (reflexivity || discriminate). Qed.

Lemma uw_F2 idx outs :
  Forall2 (fun c l => uw c = Some l) idx outs ->
  Forall (fun c => valid c) idx /\ List.concat outs = up_out idx.
Proof.
  induction 1 as [|c l idx outs H _ [IH1 IH2]]; [split; [constructor|reflexivity]|].
  destruct (uw_some c l H) as [Hv <-]. split; [constructor; assumption|].
  unfold up_out in *. cbn [List.concat flat_map]. rewrite IH2. reflexivity.
Qed.

Lemma uw_F2_map idx :
  Forall (fun c => valid c) idx -> Forall2 (fun c l => uw c = Some l) idx (map up_get idx).
Proof.
  induction 1 as [|c idx Hv _ IH]; [constructor|]. cbn [map]. constructor; [|exact IH].
  unfold upstream_with, up_get. rewrite Hv. reflexivity.
Qed.

Lemma not_all_valid done bad rest :
  valid_cell nrows ncols bad = false -> ~ Forall (fun c => valid c) (done ++ bad :: rest).
Proof.
  intros Hb HF. apply Forall_app in HF. destruct HF as [_ HF]. inversion HF; subst. congruence.
Qed.

(* c_downstream, all cell numbers valid: returns 0, the three input arrays are unchanged
   and idxdown holds the model's downstream cell of every entry of idxup *)
Theorem chk_refine_downstream idx junk out n :
  List.length codes = 9%nat ->
  Z.of_nat (List.length fdl) = nrows * ncols ->
  List.length junk = List.length idx ->
  zlen idx <= LLMAX ->
  Forall2 (fun c v => dw c = Some v) idx out ->
  (List.length idx < n)%nat -> (9 < n)%nat ->
  exec_fun N X program_chk (S n) "c_downstream"
    [AVI nrows; AVI ncols; AVArrI codes; AVArrI fdl; AVI (zlen idx); AVArrI idx; AVArrI junk]
  = Ok (RI 0, [VArrI codes; VArrI fdl; VArrI idx; VArrI out]).
Proof.
  intros Hc Hfd HJ HL HF Hn Hn9. destruct (dw_F2 idx out HF) as [Hall ->].
  destruct (dn_run idx junk n Hc Hfd HJ HL Hn Hn9) as [[_ E]|(done & bad & rest & code & Hidx & _ & Hb & _)].
  - exact E.
  - exfalso. subst idx. exact (not_all_valid _ _ _ Hb Hall).
Qed.

(* c_downstream, first invalid cell number at position [length done]: a positive error
   code is returned; the entries of idxdown before that position are already written,
   the others are untouched *)
Theorem chk_refine_downstream_error done bad rest junk outd n :
  List.length codes = 9%nat ->
  Z.of_nat (List.length fdl) = nrows * ncols ->
  List.length junk = List.length (done ++ bad :: rest) ->
  zlen (done ++ bad :: rest) <= LLMAX ->
  Forall2 (fun c v => dw c = Some v) done outd -> dw bad = None ->
  (List.length (done ++ bad :: rest) < n)%nat -> (9 < n)%nat ->
  exists code, 0 < code /\
  exec_fun N X program_chk (S n) "c_downstream"
    [AVI nrows; AVI ncols; AVArrI codes; AVArrI fdl; AVI (zlen (done ++ bad :: rest));
     AVArrI (done ++ bad :: rest); AVArrI junk]
  = Ok (RI code, [VArrI codes; VArrI fdl; VArrI (done ++ bad :: rest);
                  VArrI (outd ++ skipn (List.length done) junk)]).
Proof.
  intros Hc Hfd HJ HL HF Hbad Hn Hn9. destruct (dw_F2 done outd HF) as [Hall ->].
  apply dw_none in Hbad.
  destruct (dn_run (done ++ bad :: rest) junk n Hc Hfd HJ HL Hn Hn9)
    as [[Hall' _]|(done' & bad' & rest' & code & Hidx & Hd' & Hb' & Hcode & E)].
  - exfalso. exact (not_all_valid _ _ _ Hbad Hall').
  - destruct (first_bad_unique (fun c => valid c) _ _ _ _ _ _ Hidx Hall) as (<- & <- & <-);
      try assumption; try congruence.
    exists code. split; [assumption|exact E].
Qed.

(* every input: one of the two cases above applies *)
Theorem chk_refine_downstream_total idx junk n :
  List.length codes = 9%nat ->
  Z.of_nat (List.length fdl) = nrows * ncols ->
  List.length junk = List.length idx ->
  zlen idx <= LLMAX ->
  (List.length idx < n)%nat -> (9 < n)%nat ->
  (exists out,
     Forall2 (fun c v => dw c = Some v) idx out /\
     exec_fun N X program_chk (S n) "c_downstream"
       [AVI nrows; AVI ncols; AVArrI codes; AVArrI fdl; AVI (zlen idx); AVArrI idx; AVArrI junk]
     = Ok (RI 0, [VArrI codes; VArrI fdl; VArrI idx; VArrI out]))
  \/
  (exists done bad rest outd code,
     idx = done ++ bad :: rest /\
     Forall2 (fun c v => dw c = Some v) done outd /\ dw bad = None /\ 0 < code /\
     exec_fun N X program_chk (S n) "c_downstream"
       [AVI nrows; AVI ncols; AVArrI codes; AVArrI fdl; AVI (zlen idx); AVArrI idx; AVArrI junk]
     = Ok (RI code, [VArrI codes; VArrI fdl; VArrI idx;
                     VArrI (outd ++ skipn (List.length done) junk)])).
Proof.
  intros Hc Hfd HJ HL Hn Hn9.
  destruct (dn_run idx junk n Hc Hfd HJ HL Hn Hn9)
    as [[Hall E]|(done & bad & rest & code & Hidx & Hd & Hb & Hcode & E)].
  - left. exists (map dn_get idx). split; [apply dw_F2_map; assumption|exact E].
  - right. exists done, bad, rest, (map dn_get done), code.
    split; [assumption|]. split; [apply dw_F2_map; assumption|].
    split; [apply dw_none; assumption|]. split; [assumption|exact E].
Qed.

(* c_upstream, all cell numbers valid: returns 0 and idxup holds, for every entry of
   idxdown, the 9 entries of the model (upstream cells packed to the front, padded with -1) *)
Theorem chk_refine_upstream idx junk outs n :
  List.length codes = 9%nat ->
  Z.of_nat (List.length fdl) = nrows * ncols ->
  List.length junk = (9 * List.length idx)%nat ->
  9 * zlen idx <= LLMAX ->
  Forall2 (fun c l => uw c = Some l) idx outs ->
  (List.length idx < n)%nat -> (9 < n)%nat ->
  exec_fun N X program_chk (S n) "c_upstream"
    [AVI nrows; AVI ncols; AVArrI codes; AVArrI fdl; AVI (zlen idx); AVArrI idx; AVArrI junk]
  = Ok (RI 0, [VArrI codes; VArrI fdl; VArrI idx; VArrI (List.concat outs)]).
Proof.
  intros Hc Hfd HJ HL HF Hn Hn9. destruct (uw_F2 idx outs HF) as [Hall ->].
  destruct (up_run idx junk n Hc Hfd HJ HL Hn Hn9) as [[_ E]|(done & bad & rest & code & Hidx & _ & Hb & _)].
  - exact E.
  - exfalso. subst idx. exact (not_all_valid _ _ _ Hb Hall).
Qed.

Theorem chk_refine_upstream_error done bad rest junk outsd n :
  List.length codes = 9%nat ->
  Z.of_nat (List.length fdl) = nrows * ncols ->
  List.length junk = (9 * List.length (done ++ bad :: rest))%nat ->
  9 * zlen (done ++ bad :: rest) <= LLMAX ->
  Forall2 (fun c l => uw c = Some l) done outsd -> uw bad = None ->
  (List.length (done ++ bad :: rest) < n)%nat -> (9 < n)%nat ->
  exists code, 0 < code /\
  exec_fun N X program_chk (S n) "c_upstream"
    [AVI nrows; AVI ncols; AVArrI codes; AVArrI fdl; AVI (zlen (done ++ bad :: rest));
     AVArrI (done ++ bad :: rest); AVArrI junk]
  = Ok (RI code, [VArrI codes; VArrI fdl; VArrI (done ++ bad :: rest);
                  VArrI (List.concat outsd ++ skipn (9 * List.length done) junk)]).
Proof.
  intros Hc Hfd HJ HL HF Hbad Hn Hn9. destruct (uw_F2 done outsd HF) as [Hall ->].
  apply uw_none in Hbad.
  destruct (up_run (done ++ bad :: rest) junk n Hc Hfd HJ HL Hn Hn9)
    as [[Hall' _]|(done' & bad' & rest' & code & Hidx & Hd' & Hb' & Hcode & E)].
  - exfalso. exact (not_all_valid _ _ _ Hbad Hall').
  - destruct (first_bad_unique (fun c => valid c) _ _ _ _ _ _ Hidx Hall) as (<- & <- & <-);
      try assumption; try congruence.
    exists code. split; [assumption|exact E].
Qed.

Theorem chk_refine_upstream_total idx junk n :
  List.length codes = 9%nat ->
  Z.of_nat (List.length fdl) = nrows * ncols ->
  List.length junk = (9 * List.length idx)%nat ->
  9 * zlen idx <= LLMAX ->
  (List.length idx < n)%nat -> (9 < n)%nat ->
  (exists outs,
     Forall2 (fun c l => uw c = Some l) idx outs /\
     exec_fun N X program_chk (S n) "c_upstream"
       [AVI nrows; AVI ncols; AVArrI codes; AVArrI fdl; AVI (zlen idx); AVArrI idx; AVArrI junk]
     = Ok (RI 0, [VArrI codes; VArrI fdl; VArrI idx; VArrI (List.concat outs)]))
  \/
  (exists done bad rest outsd code,
     idx = done ++ bad :: rest /\
     Forall2 (fun c l => uw c = Some l) done outsd /\ uw bad = None /\ 0 < code /\
     exec_fun N X program_chk (S n) "c_upstream"
       [AVI nrows; AVI ncols; AVArrI codes; AVArrI fdl; AVI (zlen idx); AVArrI idx; AVArrI junk]
     = Ok (RI code, [VArrI codes; VArrI fdl; VArrI idx;
                     VArrI (List.concat outsd ++ skipn (9 * List.length done) junk)])).
Proof.
  intros Hc Hfd HJ HL Hn Hn9.
  assert (Hcat : forall l, List.concat (map up_get l) = up_out l).
  { intros l. unfold up_out. rewrite flat_map_concat_map. reflexivity. }
  destruct (up_run idx junk n Hc Hfd HJ HL Hn Hn9)
    as [[Hall E]|(done & bad & rest & code & Hidx & Hd & Hb & Hcode & E)].
  - left. exists (map up_get idx). split; [apply uw_F2_map; assumption|]. rewrite Hcat. exact E.
  - right. exists done, bad, rest, (map up_get done), code.
    split; [assumption|]. split; [apply uw_F2_map; assumption|].
    split; [apply uw_none; assumption|]. split; [assumption|]. rewrite Hcat. exact E.
Qed.

End Flow.

(* ================================================================== *)
(* the statements for the table of the library (FLOWDIRCODE, re-extracted *)
(* from grid.py into Gen/Consts.v) and the model functions downstream /  *)
(* upstream that the property theorems (Proofs/FlowProofs.v, Props/C06.v) *)
(* are about                                                             *)
(* ================================================================== *)

Theorem chk_refine_downstream_std nrows ncols fdl idx junk out n :
  Z.of_nat (List.length fdl) = nrows * ncols ->
  nrows * ncols <= LLMAX ->
  List.length junk = List.length idx ->
  zlen idx <= LLMAX ->
  Forall2 (fun c v => downstream nrows ncols fdl c = Some v) idx out ->
  (List.length idx < n)%nat -> (9 < n)%nat ->
  exec_fun N X program_chk (S n) "c_downstream"
    [AVI nrows; AVI ncols; AVArrI FLOWDIRCODE; AVArrI fdl; AVI (zlen idx); AVArrI idx; AVArrI junk]
  = Ok (RI 0, [VArrI FLOWDIRCODE; VArrI fdl; VArrI idx; VArrI out]).
Proof. intros. apply chk_refine_downstream; try assumption. reflexivity. Qed.

Theorem chk_refine_downstream_error_std nrows ncols fdl done bad rest junk outd n :
  Z.of_nat (List.length fdl) = nrows * ncols ->
  nrows * ncols <= LLMAX ->
  List.length junk = List.length (done ++ bad :: rest) ->
  zlen (done ++ bad :: rest) <= LLMAX ->
  Forall2 (fun c v => downstream nrows ncols fdl c = Some v) done outd ->
  downstream nrows ncols fdl bad = None ->
  (List.length (done ++ bad :: rest) < n)%nat -> (9 < n)%nat ->
  exists code, 0 < code /\
  exec_fun N X program_chk (S n) "c_downstream"
    [AVI nrows; AVI ncols; AVArrI FLOWDIRCODE; AVArrI fdl; AVI (zlen (done ++ bad :: rest));
     AVArrI (done ++ bad :: rest); AVArrI junk]
  = Ok (RI code, [VArrI FLOWDIRCODE; VArrI fdl; VArrI (done ++ bad :: rest);
                  VArrI (outd ++ skipn (List.length done) junk)]).
Proof. intros. apply chk_refine_downstream_error; try assumption. reflexivity. Qed.

Theorem chk_refine_upstream_std nrows ncols fdl idx junk outs n :
  Z.of_nat (List.length fdl) = nrows * ncols ->
  nrows * ncols <= LLMAX ->
  List.length junk = (9 * List.length idx)%nat ->
  9 * zlen idx <= LLMAX ->
  Forall2 (fun c l => upstream nrows ncols fdl c = Some l) idx outs ->
  (List.length idx < n)%nat -> (9 < n)%nat ->
  exec_fun N X program_chk (S n) "c_upstream"
    [AVI nrows; AVI ncols; AVArrI FLOWDIRCODE; AVArrI fdl; AVI (zlen idx); AVArrI idx; AVArrI junk]
  = Ok (RI 0, [VArrI FLOWDIRCODE; VArrI fdl; VArrI idx; VArrI (List.concat outs)]).
Proof. intros. apply chk_refine_upstream; try assumption. reflexivity. Qed.

Theorem chk_refine_upstream_error_std nrows ncols fdl done bad rest junk outsd n :
  Z.of_nat (List.length fdl) = nrows * ncols ->
  nrows * ncols <= LLMAX ->
  List.length junk = (9 * List.length (done ++ bad :: rest))%nat ->
  9 * zlen (done ++ bad :: rest) <= LLMAX ->
  Forall2 (fun c l => upstream nrows ncols fdl c = Some l) done outsd ->
  upstream nrows ncols fdl bad = None ->
  (List.length (done ++ bad :: rest) < n)%nat -> (9 < n)%nat ->
  exists code, 0 < code /\
  exec_fun N X program_chk (S n) "c_upstream"
    [AVI nrows; AVI ncols; AVArrI FLOWDIRCODE; AVArrI fdl; AVI (zlen (done ++ bad :: rest));
     AVArrI (done ++ bad :: rest); AVArrI junk]
  = Ok (RI code, [VArrI FLOWDIRCODE; VArrI fdl; VArrI (done ++ bad :: rest);
                  VArrI (List.concat outsd ++ skipn (9 * List.length done) junk)]).
Proof. intros. apply chk_refine_upstream_error; try assumption. reflexivity. Qed.

Theorem chk_refine_downstream_total_std nrows ncols fdl idx junk n :
  Z.of_nat (List.length fdl) = nrows * ncols ->
  nrows * ncols <= LLMAX ->
  List.length junk = List.length idx ->
  zlen idx <= LLMAX ->
  (List.length idx < n)%nat -> (9 < n)%nat ->
  (exists out,
     Forall2 (fun c v => downstream nrows ncols fdl c = Some v) idx out /\
     exec_fun N X program_chk (S n) "c_downstream"
       [AVI nrows; AVI ncols; AVArrI FLOWDIRCODE; AVArrI fdl; AVI (zlen idx); AVArrI idx; AVArrI junk]
     = Ok (RI 0, [VArrI FLOWDIRCODE; VArrI fdl; VArrI idx; VArrI out]))
  \/
  (exists done bad rest outd code,
     idx = done ++ bad :: rest /\
     Forall2 (fun c v => downstream nrows ncols fdl c = Some v) done outd /\
     downstream nrows ncols fdl bad = None /\ 0 < code /\
     exec_fun N X program_chk (S n) "c_downstream"
       [AVI nrows; AVI ncols; AVArrI FLOWDIRCODE; AVArrI fdl; AVI (zlen idx); AVArrI idx; AVArrI junk]
     = Ok (RI code, [VArrI FLOWDIRCODE; VArrI fdl; VArrI idx;
                     VArrI (outd ++ skipn (List.length done) junk)])).
Proof.
  intros Hfd HM HJ HL Hn Hn9.
  exact (chk_refine_downstream_total nrows ncols FLOWDIRCODE fdl HM idx junk n eq_refl Hfd HJ HL Hn Hn9).
Qed.

Theorem chk_refine_upstream_total_std nrows ncols fdl idx junk n :
  Z.of_nat (List.length fdl) = nrows * ncols ->
  nrows * ncols <= LLMAX ->
  List.length junk = (9 * List.length idx)%nat ->
  9 * zlen idx <= LLMAX ->
  (List.length idx < n)%nat -> (9 < n)%nat ->
  (exists outs,
     Forall2 (fun c l => upstream nrows ncols fdl c = Some l) idx outs /\
     exec_fun N X program_chk (S n) "c_upstream"
       [AVI nrows; AVI ncols; AVArrI FLOWDIRCODE; AVArrI fdl; AVI (zlen idx); AVArrI idx; AVArrI junk]
     = Ok (RI 0, [VArrI FLOWDIRCODE; VArrI fdl; VArrI idx; VArrI (List.concat outs)]))
  \/
  (exists done bad rest outsd code,
     idx = done ++ bad :: rest /\
     Forall2 (fun c l => upstream nrows ncols fdl c = Some l) done outsd /\
     upstream nrows ncols fdl bad = None /\ 0 < code /\
     exec_fun N X program_chk (S n) "c_upstream"
       [AVI nrows; AVI ncols; AVArrI FLOWDIRCODE; AVArrI fdl; AVI (zlen idx); AVArrI idx; AVArrI junk]
     = Ok (RI code, [VArrI FLOWDIRCODE; VArrI fdl; VArrI idx;
                     VArrI (List.concat outsd ++ skipn (9 * List.length done) junk)])).
Proof.
  intros Hfd HM HJ HL Hn Hn9.
  exact (chk_refine_upstream_total nrows ncols FLOWDIRCODE fdl HM idx junk n eq_refl Hfd HJ HL Hn Hn9).
Qed.

End Refine.

#[local] Arguments neighbours_raw : simpl never.

Definition acc_for_chk : stmt := Eval cbv in nth_stmt 11 (fun_body c_accumulate_chk_def).
Definition acc_while_chk : stmt := Eval cbv in nth_stmt 4 (loop_body acc_for_chk).

Section Acc.
Context {T : Type} (N : NumOps T) (X : NumLit T).

Lemma zset_upd_add (l : list T) i (v d : T) :
  0 <= i < Z.of_nat (List.length l) ->
  zset l i (nadd N (zn l i d) v) = Some (upd l i (fun x => nadd N x v)).
Proof. intros H. exact (zset_upd l i (fun x => nadd N x v) d H). Qed.

Variables (nrows ncols nprint mx : Z) (nodata : T) (codes fd : list Z) (field : list T).
Hypothesis Hcodes : List.length codes = 9%nat.
Hypothesis Hfd : List.length fd = Z.to_nat (nrows * ncols).
Hypothesis Hfield : List.length field = Z.to_nat (nrows * ncols).
(* ntot = nrows*ncols (and the same product in c_downstream / c_neighbours) is a long long *)
Hypothesis Hprod : - 9223372036854775808 <= nrows * ncols <= LLMAX.
(* accumulated_cells++ runs up to max_accumulated_cells + 1 *)
Hypothesis Hmxb : mx + 1 <= LLMAX.

Lemma downstream_run n up dd :
  0 <= up < nrows * ncols -> (10 <= n)%nat ->
  exec_fun N X program_chk (S n) "c_downstream"
    [AVI nrows; AVI ncols; AVArrI codes; AVArrI fd; AVI 1; AVArrI [up]; AVArrI [dd]]
  = Ok (RI 0, [VArrI codes; VArrI fd; VArrI [up]; VArrI [dn_val codes nrows ncols fd up]]).
Proof.
  intros Hup Hn.
  apply (chk_refine_downstream N X nrows ncols codes fd (proj2 Hprod) [up] [dd]
           [dn_val codes nrows ncols fd up] n).
  - exact Hcodes.
  - rewrite Hfd. lia.
  - reflexivity.
  - cbn. lia.
  - constructor; [|constructor]. apply downstream_with_valid. exact Hup.
  - cbn. lia.
  - lia.
Qed.

Definition wl_state (i kc ierr : Z) (av : T) (dd up : Z) (acc : list T) : state T :=
  {| s_i := [("nrows", nrows); ("ncols", ncols); ("nprint", nprint);
             ("max_accumulated_cells", mx); ("accumulated_cells", kc); ("i", i);
             ("ierr", ierr); ("ntot", nrows * ncols)];
     s_f := [("nodata_to_accumulate", nodata); ("accvalue", av)];
     s_ai := [("flowdircode", codes); ("flowdir", fd); ("idxdown", [dd]); ("idxup", [up])];
     s_af := [("to_accumulate", field); ("accumulation", acc)] |}.

Notation F := (Z.to_nat (mx + 1)).
Notation wk v fuel acc up := (walkw N codes v fuel nrows ncols fd nodata acc up).

Definition wl_inv (i : Z) (W : list T) (k : nat) (st : state T) : Prop :=
  exists ierr av dd up acc,
    st = wl_state i (Z.of_nat k) ierr av dd up acc /\
    0 <= up < nrows * ncols /\
    List.length acc = Z.to_nat (nrows * ncols) /\
    (k <= F)%nat /\
    wk (zn field i (n0 N)) (F - k)%nat acc up = W.

Definition wl_post (i : Z) (W : list T) (r : outcome T * state T) : Prop :=
  exists kc ierr av dd up, r = (ONormal, wl_state i kc ierr av dd up W).

Lemma wl_loop n i ierr0 av0 acc :
  0 <= i < nrows * ncols -> List.length acc = Z.to_nat (nrows * ncols) ->
  1 <= mx -> (F < n)%nat -> (11 <= n)%nat ->
  exists kc ierr av dd up,
    exec N X (exec_fun N X program_chk n) n acc_while_chk (wl_state i 0 ierr0 av0 0 i acc)
    = Ok (ONormal, wl_state i kc ierr av dd up (wk (zn field i (n0 N)) F acc i)).
Proof.
  intros Hi Hacc Hmx HnF Hn11.
  destruct n as [|n']; [lia|].
  unfold acc_while_chk. rewrite exec_while.
  set (v := zn field i (n0 N)).
  set (W := wk v F acc i).
  match goal with
  | |- context[loop ?f ?c ?b ?s] =>
      destruct (loop_rule (wl_inv i W) (wl_post i W) F c b) with (fuel := f) (k := O) (st := s)
        as (r & Hr & HP)
  end.
  - intros k st (ierr & av & dd & up & acc' & -> & Hup & Hlen & Hk & HW).
    split; [exact Hk|].
    destruct (Nat.eq_dec k F) as [HkF|HkF].
    + apply lstep_done.
      * unfold wl_state. cbn. zb. reflexivity.
      * replace (F - k)%nat with O in HW by lia. cbn [walkw] in HW. subst acc'.
        exists (Z.of_nat k), ierr, av, dd, up. reflexivity.
    + replace (F - k)%nat with (S (F - S k)) in HW by lia. cbn [walkw] in HW.
      rewrite (downstream_with_valid codes nrows ncols fd up Hup) in HW.
      pose proof (dn_val_range codes nrows ncols fd up) as Hd.
      remember (dn_val codes nrows ncols fd up) as d eqn:Hdv.
      assert (Hcall : exec_fun N X program_chk (S n') "c_downstream"
                [AVI nrows; AVI ncols; AVArrI codes; AVArrI fd; AVI 1; AVArrI [up]; AVArrI [dd]]
              = Ok (RI 0, [VArrI codes; VArrI fd; VArrI [up]; VArrI [d]])).
      { rewrite Hdv. apply downstream_run; [exact Hup | lia]. }
      destruct (Z.ltb_spec d 0) as [Hneg|Hpos].
      * eapply lstep_break with
          (st1 := wl_state i (Z.of_nat k) 0 av d up (upd acc' up (fun _ => nodata))).
        -- unfold wl_state. cbn. zb. reflexivity.
        -- unfold wl_state.
           call_with ltac:(exact Hcall).
           stepc.
           step_with ltac:(cbn; zb; cbn;
                           rewrite (zset_upd_const acc' up nodata) by lia;
                           cbn; norm_state; reflexivity).
           reflexivity.
        -- exists (Z.of_nat k), 0, av, d, up. rewrite HW. reflexivity.
      * assert (Hdr : 0 <= d < nrows * ncols) by (destruct Hd; lia).
        eapply lstep_next with
          (st1 := wl_state i (Z.of_nat k + 1) 0 v d d (upd acc' d (fun x => nadd N x v))).
        -- unfold wl_state. cbn. zb. reflexivity.
        -- unfold wl_state.
           call_with ltac:(exact Hcall).
           stepc. stepc.
           step_with ltac:(cbn; rewrite (zget_zn field i (n0 N)) by lia;
                           cbn; norm_state; reflexivity).
           step_with ltac:(cbn; rewrite (zget_zn acc' d (n0 N)) by lia; cbn;
                           rewrite (zset_upd_add acc' d) by lia;
                           cbn; norm_state; reflexivity).
           stepc. run1c.
        -- exists 0, v, d, d, (upd acc' d (fun x => nadd N x v)).
           split; [unfold wl_state; replace (Z.of_nat (S k)) with (Z.of_nat k + 1) by lia; reflexivity|].
           split; [exact Hdr|]. split; [rewrite upd_len; exact Hlen|]. split; [lia|exact HW].
  - exists ierr0, av0, 0, i, acc. split; [reflexivity|]. split; [exact Hi|].
    split; [exact Hacc|]. split; [lia|]. rewrite Nat.sub_0_r. reflexivity.
  - lia.
  - destruct HP as (kc & ierr & av & dd & up & ->). exists kc, ierr, av, dd, up. exact Hr.
Qed.

Notation NT := (Z.to_nat (nrows * ncols)).
Notation wstep := (fun a c => wk (zn field c (n0 N)) F a c).

Definition ol_inv (acc0 : list T) (k : nat) (st : state T) : Prop :=
  exists kc ierr av dd up,
    st = wl_state (Z.of_nat k) kc ierr av dd up (fold_left wstep (zseq 0 k) acc0) /\
    (k <= NT)%nat.

Definition ol_post (acc0 : list T) (r : outcome T * state T) : Prop :=
  exists kc ierr av dd up,
    r = (ONormal, wl_state (Z.of_nat NT) kc ierr av dd up
                    (accw N codes nrows ncols mx nodata fd field acc0)).

Lemma fold_wstep_length l : forall a, List.length (fold_left wstep l a) = List.length a.
Proof.
  induction l as [|c l IH]; intros a; cbn [fold_left]; [reflexivity|].
  rewrite IH. apply walkw_length.
Qed.

Lemma ol_loop n av0 acc0 :
  List.length acc0 = NT -> 1 <= mx -> (F < n)%nat -> (NT < n)%nat -> (11 <= n)%nat ->
  exists kc ierr av dd up,
    exec N X (exec_fun N X program_chk n) n acc_for_chk (wl_state 0 0 0 av0 0 0 acc0)
    = Ok (ONormal, wl_state (Z.of_nat NT) kc ierr av dd up
                     (accw N codes nrows ncols mx nodata fd field acc0)).
Proof.
  intros Hacc Hmx HnF HnT Hn11.
  unfold acc_for_chk. rewrite exec_for.
  match goal with
  | |- context[loop ?f ?c ?b ?s] =>
      destruct (loop_rule (ol_inv acc0) (ol_post acc0) NT c b) with (fuel := f) (k := O) (st := s)
        as (r & Hr & HP)
  end.
  - intros k st (kc & ierr & av & dd & up & -> & Hk).
    split; [exact Hk|].
    destruct (Nat.eq_dec k NT) as [HkN|HkN].
    + apply lstep_done.
      * unfold wl_state. cbn. zb. reflexivity.
      * exists kc, ierr, av, dd, up. unfold accw. rewrite <- HkN. reflexivity.
    + assert (Hi : 0 <= Z.of_nat k < nrows * ncols) by lia.
      remember (fold_left wstep (zseq 0 k) acc0) as acck eqn:Hacck.
      assert (Hlk : List.length acck = NT) by (rewrite Hacck, fold_wstep_length; exact Hacc).
      destruct (wl_loop n (Z.of_nat k) ierr av acck Hi Hlk Hmx HnF Hn11)
        as (kc' & ierr' & av' & dd' & up' & Hwl).
      eapply lstep_next with
        (st1 := wl_state (Z.of_nat k + 1) kc' ierr' av' dd' up'
                  (wk (zn field (Z.of_nat k) (n0 N)) F acck (Z.of_nat k))).
      * unfold wl_state. cbn. zb. reflexivity.
      * eapply for_body_normal'.
        { unfold wl_state.
          destruct (Z.eqb_spec nprint 0) as [Hnp|Hnp].
          - step_with ltac:(mc; rewrite ?if_same; norm_state; reflexivity).
            stepsc. exact Hwl.
          - step_with ltac:(mc; rewrite ?if_same; norm_state; reflexivity).
            stepsc. exact Hwl. }
        unfold wl_state. run1c.
      * exists kc', ierr', av', dd', up'. split; [|lia].
        replace (Z.of_nat (S k)) with (Z.of_nat k + 1) by lia.
        rewrite zseq_snoc, fold_left_app, <- Hacck. cbn [fold_left]. reflexivity.
  - exists 0, 0, av0, 0, 0. split; [reflexivity|lia].
  - lia.
  - destruct HP as (kc & ierr & av & dd & up & ->). exists kc, ierr, av, dd, up. exact Hr.
Qed.
End Acc.

Section Main.
Context {T : Type} (N : NumOps T) (X : NumLit T).

(* c_accumulate, most general form: ANY table of 9 direction codes, ANY initial content
   of the accumulation buffer, any nprint (0 included), any grid shape - overflow-checked. *)
Theorem chk_refine_accumulate_gen nrows ncols nprint maxcells (nodata : T) codes fd field acc0 n :
  List.length codes = 9%nat ->
  List.length fd = Z.to_nat (nrows * ncols) ->
  List.length field = Z.to_nat (nrows * ncols) ->
  List.length acc0 = Z.to_nat (nrows * ncols) ->
  - 9223372036854775808 <= nrows * ncols <= LLMAX ->
  maxcells + 1 <= LLMAX ->
  (Nat.max (Nat.max (Z.to_nat (nrows * ncols)) (Z.to_nat (maxcells + 1))) 10 < n)%nat ->
  if (maxcells <? 1) || (nrows <? 1)
  then exists code, 0 < code /\
         exec_fun N X program_chk (S n) "c_accumulate"
           [AVI nrows; AVI ncols; AVI nprint; AVI maxcells; AVF nodata;
            AVArrI codes; AVArrI fd; AVArrF field; AVArrF acc0]
         = Ok (RI code, [VArrI codes; VArrI fd; VArrF field; VArrF acc0])
  else exec_fun N X program_chk (S n) "c_accumulate"
         [AVI nrows; AVI ncols; AVI nprint; AVI maxcells; AVF nodata;
          AVArrI codes; AVArrI fd; AVArrF field; AVArrF acc0]
       = Ok (RI 0, [VArrI codes; VArrI fd; VArrF field;
                    VArrF (accw N codes nrows ncols maxcells nodata fd field acc0)]).
Proof.
  intros Hcodes Hfd Hfield Hacc Hprod Hmxb Hn.
  destruct (Z.ltb_spec maxcells 1) as [Hmx|Hmx]; cbn [orb].
  - eexists. split; [|eapply exec_fun_intro; [reflexivity|reflexivity| |]].
    2:{ stepsc. reflexivity. }
    2:{ reflexivity. }
    reflexivity.
  - destruct (Z.ltb_spec nrows 1) as [Hnr|Hnr].
    + eexists. split; [|eapply exec_fun_intro; [reflexivity|reflexivity| |]].
      2:{ stepsc. reflexivity. }
      2:{ reflexivity. }
      reflexivity.
    + destruct (ol_loop N X nrows ncols nprint maxcells nodata codes fd field
                  Hcodes Hfd Hfield Hprod Hmxb n (nofZ N 0) acc0 Hacc Hmx)
        as (kc & ierr & av & dd & up & Hol); [lia|lia|lia|].
      eapply exec_fun_intro; [reflexivity|reflexivity| |].
      * stepsc.
        eapply exec_seq_step'; [exact Hol|].
        unfold wl_state. run1c.
      * reflexivity.
Qed.

(* the wrapper hydrodiy.gis.grid.accumulate: the codes are the constant FLOWDIRCODE and
   the accumulation buffer starts as a copy of the field *)
Theorem chk_refine_accumulate nrows ncols nprint maxcells (nodata : T) fd field n :
  List.length fd = Z.to_nat (nrows * ncols) ->
  List.length field = Z.to_nat (nrows * ncols) ->
  - 9223372036854775808 <= nrows * ncols <= LLMAX ->
  maxcells + 1 <= LLMAX ->
  (Nat.max (Nat.max (Z.to_nat (nrows * ncols)) (Z.to_nat (maxcells + 1))) 10 < n)%nat ->
  match accumulate N nrows ncols maxcells nodata fd field with
  | Some res =>
      exec_fun N X program_chk (S n) "c_accumulate"
        [AVI nrows; AVI ncols; AVI nprint; AVI maxcells; AVF nodata;
         AVArrI FLOWDIRCODE; AVArrI fd; AVArrF field; AVArrF field]
      = Ok (RI 0, [VArrI FLOWDIRCODE; VArrI fd; VArrF field; VArrF res])
  | None =>
      exists code, 0 < code /\
        exec_fun N X program_chk (S n) "c_accumulate"
          [AVI nrows; AVI ncols; AVI nprint; AVI maxcells; AVF nodata;
           AVArrI FLOWDIRCODE; AVArrI fd; AVArrF field; AVArrF field]
        = Ok (RI code, [VArrI FLOWDIRCODE; VArrI fd; VArrF field; VArrF field])
  end.
Proof.
  intros Hfd Hfield Hprod Hmxb Hn.
  pose proof (chk_refine_accumulate_gen nrows ncols nprint maxcells nodata FLOWDIRCODE fd field field n
                eq_refl Hfd Hfield Hfield Hprod Hmxb Hn) as H.
  rewrite accumulate_accw. destruct ((maxcells <? 1) || (nrows <? 1)); exact H.
Qed.

End Main.

(* closed under the global context:
Print Assumptions chk_refine_downstream_total.
Print Assumptions chk_refine_upstream_total.
Print Assumptions chk_refine_accumulate. *)
