(* C08 on the regenerated program: the property theorems of Proofs/DutilsProofs.v
   (one output per group = reduce of the group, totals conserved, decreasing index
   rejected, flathomogen keeps each group's total) transported through the refinement
   theorems of Proofs/RefineDutils.v.  Every statement is about [exec_fun _ _ program]
   - the MiniC translation of src/hydrodiy/data/c_dutils.c regenerated from the tree
   under test - run on the reals with an explicit missing value ([RN], None = NaN);
   the rejection of a decreasing index holds for every arithmetic instance.

   The model theorems of Props/C08.v are about py_aggregate / py_flathomogen =
   wrapper (length check, int32 conversion, outputs = 0*inputs, outputs[:iend]) +
   kernel model.  Here the kernel is run directly: any initial content of the output
   buffer, any integer index (no int32 hypothesis: MiniC integers are unbounded). *)
From Coq Require Import ZArith Bool List String Lia Reals PrimFloat.
From Hy Require Import Base.Num Base.MiniC Gen.KernelsAst Gen.Consts Model.Dutils
  Proofs.DutilsProofs Proofs.RefineDutils.
Import ListNotations.
Open Scope string_scope.
Open Scope list_scope.

Definition run_aggregate {T} (N : NumOps T) (X : NumLit T) (n : nat) (op maxnan : Z)
    (idx : list Z) (xs outbuf : list T) (ie : Z) :=
  exec_fun N X program (S n) "c_aggregate"
    [AVI (MiniC.zlen idx); AVI op; AVI maxnan; AVArrI idx; AVArrF xs; AVArrF outbuf; AVArrI [ie]].

Definition run_flathomogen {T} (N : NumOps T) (X : NumLit T) (n : nat) (maxnan : Z)
    (idx : list Z) (xs outbuf : list T) :=
  exec_fun N X program (S n) "c_flathomogen"
    [AVI (MiniC.zlen idx); AVI maxnan; AVArrI idx; AVArrF xs; AVArrF outbuf].

(* [run_aggregate] / [run_flathomogen] are executions of the translated program *)
Lemma run_dutils_is_exec {T} (N : NumOps T) (X : NumLit T) n op maxnan idx xs outbuf ie :
  run_aggregate N X n op maxnan idx xs outbuf ie =
  exec_fun N X program (S n) "c_aggregate"
    [AVI (MiniC.zlen idx); AVI op; AVI maxnan; AVArrI idx; AVArrF xs; AVArrF outbuf; AVArrI [ie]] /\
  run_flathomogen N X n maxnan idx xs outbuf =
  exec_fun N X program (S n) "c_flathomogen"
    [AVI (MiniC.zlen idx); AVI maxnan; AVArrI idx; AVArrF xs; AVArrF outbuf].
Proof. split; reflexivity. Qed.

(* ------------------------------------------------------------------ *)
(* aggregate *)

(* MAIN COROLLARY.  Non-decreasing index, at least one value, every operator code,
   every maxnan, every placement of missing values, any buffer content: the
   translated c_aggregate returns 0, leaves index and inputs untouched, sets
   iend[0] to the number of groups and writes one value per group, in order,
   equal to [reduce op maxnan group]; the rest of the buffer is untouched. *)
Theorem kernel_aggregate_spec op maxnan idx xs outbuf ie n :
  List.length idx = List.length xs -> (1 <= List.length xs)%nat ->
  List.length outbuf = List.length idx ->
  nondecr idx -> (List.length idx < n)%nat ->
  let res := map (fun kg => reduce op maxnan (snd kg)) (runs (combine idx xs)) in
  run_aggregate RN XRN n op maxnan idx xs outbuf ie =
  Ok (RI 0%Z, [VArrI idx; VArrF xs; VArrF (res ++ skipn (List.length res) outbuf);
               VArrI [Z.of_nat (List.length res)]]) /\
  (List.length res <= List.length outbuf)%nat.
Proof.
  intros Hlen Hpos Hob Hs Hn res. split.
  - pose proof (refine_aggregate_RN op maxnan idx xs outbuf ie n (eq_sym Hlen) Hob Hn) as H.
    cbv zeta in H. rewrite MiniC.zlen_eq, Hlen in H.
    rewrite (c_aggregate_spec op maxnan idx xs outbuf Hlen Hpos Hs) in H.
    unfold run_aggregate. rewrite MiniC.zlen_eq, Hlen. exact H.
  - rewrite Hob, Hlen. apply aggregate_fits_buffer. exact Hlen.
Qed.

(* totals: operator sum (0), every group within maxnan: the values written add up
   to the sum of the non-missing inputs *)
Theorem kernel_aggregate_sum_conserved maxnan idx xs outbuf ie n :
  List.length idx = List.length xs -> (1 <= List.length xs)%nat ->
  List.length outbuf = List.length idx ->
  nondecr idx -> (List.length idx < n)%nat ->
  Forall (fun kg => (nmiss (snd kg) <= maxnan)%Z) (runs (combine idx xs)) ->
  exists outs : list R,
    run_aggregate RN XRN n 0 maxnan idx xs outbuf ie =
    Ok (RI 0%Z, [VArrI idx; VArrF xs; VArrF (map Some outs ++ skipn (List.length outs) outbuf);
                 VArrI [Z.of_nat (List.length outs)]]) /\
    lsum outs = lsum (present xs).
Proof.
  intros Hlen Hpos Hob Hs Hn Hm.
  exists (map (fun kg => lsum (present (snd kg))) (runs (combine idx xs))). split.
  - destruct (kernel_aggregate_spec 0 maxnan idx xs outbuf ie n Hlen Hpos Hob Hs Hn) as (H & _).
    cbv zeta in H. rewrite H. rewrite !map_length, map_map.
    assert (E : map (fun kg : Z * list (option R) => reduce 0 maxnan (snd kg)) (runs (combine idx xs))
              = map (fun kg => Some (lsum (present (snd kg)))) (runs (combine idx xs))).
    { apply map_ext_in. intros kg Hin. rewrite Forall_forall in Hm.
      specialize (Hm _ Hin). unfold reduce.
      destruct (Z.ltb_spec maxnan (nmiss (snd kg))); [lia|]. reflexivity. }
    rewrite E. reflexivity.
  - rewrite <- (map_snd_combine idx xs Hlen) at 2.
    rewrite <- runs_concat, present_concat, lsum_concat, !map_map. reflexivity.
Qed.

(* the kernel model on a decreasing index: any instance, any reduction step *)
Lemma c_aggregate_decreasing {T} (N : NumOps T) upd op maxnan idx (xs outbuf : list T) :
  List.length idx = List.length xs -> decreases_somewhere idx ->
  c_aggregate N upd (MiniC.zlen idx) op maxnan idx xs outbuf = KErrOrder.
Proof.
  intros Hlen Hd. apply not_nondecr_decreases in Hd.
  destruct idx as [|k0 idx]; [exfalso; apply Hd; exact I|].
  destruct xs as [|x0 xs]; [discriminate|].
  unfold c_aggregate. cbn [combine]. rewrite agg_loop_cons.
  cbn [ag_prev ag_count]. rewrite Z.ltb_irrefl, Z.eqb_refl. cbn [negb andb].
  simpl in Hlen. injection Hlen as Hlen.
  rewrite agg_loop_unordered; [reflexivity| |].
  - cbn [agg_next ag_count]. rewrite MiniC.zlen_eq, combine_length, Hlen, Nat.min_id.
    cbn [List.length]. lia.
  - cbn [agg_next ag_prev]. rewrite map_fst_combine by exact Hlen. exact Hd.
Qed.

(* an index that decreases anywhere: the translated kernel returns a positive code
   (the wrapper turns it into ValueError); index, inputs and iend are untouched -
   every arithmetic instance whose (double)0 is its zero, binary64 included *)
Theorem kernel_aggregate_rejects_decreasing {T} (N : NumOps T) (X : NumLit T)
    op maxnan idx (xs outbuf : list T) ie n :
  nofZ N 0 = n0 N ->
  List.length idx = List.length xs -> List.length outbuf = List.length idx ->
  decreases_somewhere idx -> (List.length idx < n)%nat ->
  exists code out',
    (0 < code)%Z /\ List.length out' = List.length outbuf /\
    run_aggregate N X n op maxnan idx xs outbuf ie =
    Ok (RI code, [VArrI idx; VArrF xs; VArrF out'; VArrI [ie]]).
Proof.
  intros HZ Hlen Hob Hd Hn.
  pose proof (refine_aggregate N X HZ op maxnan idx xs outbuf ie n (eq_sym Hlen) Hob Hn) as H.
  cbv zeta in H.
  rewrite (c_aggregate_decreasing N (agg_upd N) op maxnan idx xs outbuf Hlen Hd) in H.
  exact H.
Qed.

(* ------------------------------------------------------------------ *)
(* flathomogen *)

(* the kernel model on a non-decreasing index (flathomogen_spec without the wrapper) *)
Lemma c_flathomogen_spec maxnan idx xs :
  List.length idx = List.length xs -> (1 <= List.length xs)%nat -> nondecr idx ->
  c_flathomogen RN maxnan idx xs =
  KDone (List.concat (map (fun kg => flat_group maxnan (snd kg)) (runs (combine idx xs)))).
Proof.
  intros Hlen Hpos Hs.
  destruct idx as [|k0 idx]; [simpl in Hlen; lia|].
  destruct xs as [|x0 xs]; [simpl in Hpos; lia|].
  unfold c_flathomogen. cbn [combine]. rewrite flat_loop_cons.
  cbn [fl_prev]. rewrite Z.ltb_irrefl, Z.eqb_refl. cbn [negb].
  set (s0 := mkFlat k0 (n0 RN) 0%Z 0%Z (@nil (option R)) (@nil (option R))).
  assert (Hr0 : frepr s0 []) by (unfold frepr, s0; simpl; repeat split).
  assert (Hr2 : frepr (flat_next RN s0 x0) ([] ++ [x0])) by (apply frepr_next; exact Hr0).
  simpl in Hlen. injection Hlen as Hlen.
  destruct (flat_loop_spec maxnan (combine idx xs) _ _ Hr2) as (s' & E1 & E2).
  - change (fl_prev (flat_next RN s0 x0)) with k0.
    rewrite map_fst_combine by exact Hlen. exact Hs.
  - rewrite E1. change (fl_prev (flat_next RN s0 x0)) with k0 in E2.
    change (fl_out (flat_next RN s0 x0)) with (@nil (option R)) in E2. simpl app in E2.
    rewrite E2. unfold runs. cbn [runs_acc]. rewrite Z.eqb_refl. reflexivity.
Qed.

(* MAIN COROLLARY.  Non-decreasing index, at least one value: the translated
   c_flathomogen returns 0 and fills the whole buffer with one block per group, in
   order; the block of a group is [flat_group maxnan group] (missing stays missing,
   a present value becomes the mean of the present values), has the group's length
   and - when the group has at most maxnan missing values - the group's total. *)
Theorem kernel_flathomogen_preserves_group_totals maxnan idx xs outbuf n :
  List.length idx = List.length xs -> (1 <= List.length xs)%nat ->
  List.length outbuf = List.length idx ->
  nondecr idx -> (List.length idx < n)%nat ->
  exists blocks : list (list (option R)),
    run_flathomogen RN XRN n maxnan idx xs outbuf =
    Ok (RI 0%Z, [VArrI idx; VArrF xs; VArrF (List.concat blocks)]) /\
    Forall2 (fun kg b =>
               b = flat_group maxnan (snd kg) /\
               List.length b = List.length (snd kg) /\
               ((nmiss (snd kg) <= maxnan)%Z -> lsum (present b) = lsum (present (snd kg))))
            (runs (combine idx xs)) blocks.
Proof.
  intros Hlen Hpos Hob Hs Hn.
  exists (map (fun kg => flat_group maxnan (snd kg)) (runs (combine idx xs))). split.
  - pose proof (refine_flathomogen_RN maxnan idx xs outbuf n (eq_sym Hlen) Hob Hn) as H.
    cbv zeta in H. rewrite (c_flathomogen_spec maxnan idx xs Hlen Hpos Hs) in H. exact H.
  - generalize (runs (combine idx xs)). intros gs.
    induction gs as [|kg gs IH]; cbn [map]; constructor; [|exact IH].
    split; [reflexivity|]. split; [apply flat_group_length|]. apply flat_group_total.
Qed.

(* the whole series: same length, missing entries stay missing, and - every group
   within maxnan - the total of the non-missing values is conserved *)
Theorem kernel_flathomogen_total_conserved maxnan idx xs outbuf n :
  List.length idx = List.length xs -> (1 <= List.length xs)%nat ->
  List.length outbuf = List.length idx ->
  nondecr idx -> (List.length idx < n)%nat ->
  exists out : list (option R),
    run_flathomogen RN XRN n maxnan idx xs outbuf =
    Ok (RI 0%Z, [VArrI idx; VArrF xs; VArrF out]) /\
    List.length out = List.length xs /\
    Forall2 (fun x o => x = None -> o = None) xs out /\
    (Forall (fun kg => (nmiss (snd kg) <= maxnan)%Z) (runs (combine idx xs)) ->
     lsum (present out) = lsum (present xs)).
Proof.
  intros Hlen Hpos Hob Hs Hn.
  exists (List.concat (map (fun kg => flat_group maxnan (snd kg)) (runs (combine idx xs)))).
  assert (F : Forall2 (fun x o : option R => x = None -> o = None) xs
     (List.concat (map (fun kg => flat_group maxnan (snd kg)) (runs (combine idx xs))))).
  { rewrite <- (map_snd_combine idx xs Hlen) at 1. rewrite <- runs_concat.
    apply Forall2_concat. generalize (runs (combine idx xs)). intros gs.
    induction gs as [|kg gs IH]; simpl; constructor; [|exact IH].
    pose proof (flat_group_pointwise maxnan (snd kg)) as P.
    eapply Forall2_weaken; [|exact P]. cbv beta. intros x o Hx E. subst x. exact Hx. }
  split; [|split; [|split]].
  - pose proof (refine_flathomogen_RN maxnan idx xs outbuf n (eq_sym Hlen) Hob Hn) as H.
    cbv zeta in H. rewrite (c_flathomogen_spec maxnan idx xs Hlen Hpos Hs) in H. exact H.
  - symmetry. eapply Forall2_length. exact F.
  - exact F.
  - intros Hm. rewrite <- (map_snd_combine idx xs Hlen) at 2. rewrite <- runs_concat.
    rewrite !present_concat, !lsum_concat, !map_map.
    f_equal. apply map_ext_in. intros kg Hin. rewrite Forall_forall in Hm.
    apply flat_group_total, Hm, Hin.
Qed.

(* the kernel model on a decreasing index: any instance *)
Lemma c_flathomogen_decreasing {T} (N : NumOps T) maxnan idx (xs : list T) :
  List.length idx = List.length xs -> decreases_somewhere idx ->
  c_flathomogen N maxnan idx xs = KErrOrder.
Proof.
  intros Hlen Hd. apply not_nondecr_decreases in Hd.
  destruct idx as [|k0 idx]; [exfalso; apply Hd; exact I|].
  destruct xs as [|x0 xs]; [discriminate|].
  unfold c_flathomogen. cbn [combine]. rewrite flat_loop_cons.
  cbn [fl_prev]. rewrite Z.ltb_irrefl, Z.eqb_refl. cbn [negb].
  simpl in Hlen. injection Hlen as Hlen.
  rewrite flat_loop_unordered; [reflexivity|].
  cbn [flat_next fl_prev]. rewrite map_fst_combine by exact Hlen. exact Hd.
Qed.

Theorem kernel_flathomogen_rejects_decreasing {T} (N : NumOps T) (X : NumLit T)
    maxnan idx (xs outbuf : list T) n :
  nofZ N 0 = n0 N ->
  List.length idx = List.length xs -> List.length outbuf = List.length idx ->
  decreases_somewhere idx -> (List.length idx < n)%nat ->
  exists code out',
    (0 < code)%Z /\ List.length out' = List.length outbuf /\
    run_flathomogen N X n maxnan idx xs outbuf =
    Ok (RI code, [VArrI idx; VArrF xs; VArrF out']).
Proof.
  intros HZ Hlen Hob Hd Hn.
  pose proof (refine_flathomogen N X HZ maxnan idx xs outbuf n (eq_sym Hlen) Hob Hn) as H.
  cbv zeta in H. rewrite (c_flathomogen_decreasing N maxnan idx xs Hlen Hd) in H. exact H.
Qed.

(* ------------------------------------------------------------------ *)
(* the hypotheses are satisfiable: the worked instance of Props/C08.v (maximum with
   maxnan = 1 over the groups [-1; NaN] [-2] [4; -3]) executed on the translated
   kernel, buffer = the wrapper's 0*inputs *)
Example kernel_aggregate_example :
  run_aggregate RN XRN 6 2 1 ex_idx ex_xs [Some 0; None; Some 0; Some 0; Some 0]%R 0 =
  Ok (RI 0%Z, [VArrI ex_idx; VArrF ex_xs;
               VArrF [Some (-1); Some (-2); Some 4; Some 0; Some 0]%R; VArrI [3%Z]]).
Proof.
  destruct ex_hyps as (Hlen & Hpos & _ & Hs).
  destruct (kernel_aggregate_spec 2 1 ex_idx ex_xs [Some 0; None; Some 0; Some 0; Some 0]%R 0 6
              Hlen Hpos eq_refl Hs) as (H & _); [cbn; lia|].
  cbv zeta in H. rewrite H.
  pose proof ex_max as E. rewrite (aggregate_spec 2 1 ex_idx ex_xs) in E;
    [|exact Hlen|exact Hpos|exact (proj1 (proj2 (proj2 ex_hyps)))|exact Hs].
  assert (Inj : forall a b : list (option R), DOk a = DOk b -> a = b)
    by (intros a b Hab; injection Hab as Hab; exact Hab).
  rewrite (Inj _ _ E). reflexivity.
Qed.

Example kernel_aggregate_decreasing_example :
  exists code out',
    (0 < code)%Z /\ List.length out' = 3%nat /\
    run_aggregate F64 XF64 4 0 0 [199502; 199501; 199503]%Z
      [1%float; 2%float; 3%float] [0%float; 0%float; 0%float] 0 =
    Ok (RI code, [VArrI [199502; 199501; 199503]%Z; VArrF [1%float; 2%float; 3%float];
                  VArrF out'; VArrI [0%Z]]).
Proof.
  refine (kernel_aggregate_rejects_decreasing F64 XF64 0 0 [199502; 199501; 199503]%Z
            [1%float; 2%float; 3%float] [0%float; 0%float; 0%float] 0 4
            eq_refl eq_refl eq_refl ex_decreasing _).
  cbn; lia.
Qed.
