(* Refinement: the MiniC program regenerated from src/hydrodiy/gis/c_catchment.c
   (Gen/KernelsAst.v: c_delineate_area, with its callees c_upstream, c_neighbours, getnxy of
   c_grid.c) computes, for ALL inputs, what the hand-written model of Model/Catchment.v
   (delineate_area) computes.

   Part 1: generic helpers; run lemmas for getnxy, c_neighbours and c_upstream on one cell
           (upstream_run1: generic in the direction-code table, any 9 entries).
   Part 2: c_delineate_area: one lemma per C loop (chk_loop, srch_loop, k_loop, copy_loop,
           l_loop, w_loop), the kernel (da_exec), and the statements for the call made by the
           Cython wrapper: refine_c_delineate_area (+ _ok, _err, _rejected).

   Hypotheses = what the wrapper guarantees: ncols >= 0 (an array shape), flowdir has
   nrows*ncols entries, the three work arrays have the same length nval, ninlets is the length
   of idxinlets, the table has 9 entries (it is FLOWDIRCODE).  Nothing is assumed about the
   contents of flowdir, the outlet, the inlets, or the initial contents of the work arrays.

   By-products: no out-of-bounds access / other interpreter error for any such input; the
   return value of c_upstream, which the kernel ignores, is always 0 (every cell put in a layer
   is a valid cell); the second buffer test (nbuffer2==nval-1) can never fire (nbuffer2 <= i
   and i==nval-1 is tested first). *)
From Coq Require Import ZArith Bool List String Lia.
From Hy Require Import Base.Num Base.MiniC Gen.Consts Gen.KernelsAst Model.Grid Model.Catchment
     Proofs.GridGeomProofs Proofs.FlowProofs Proofs.AreaProofs.
Import ListNotations.
Open Scope string_scope.
Open Scope list_scope.
Open Scope Z_scope.

(* ================================================================== *)
(* Generic helpers (candidates for Base/MiniC.v)                        *)
(* ================================================================== *)

Ltac fold_loop_state n st :=
  match goal with
  | |- context[loop n _ _ ?s] => change s with st
  end.

(* [merge_if] of Base/MiniC.v with a type check of the anti-unified term: where the
   application of the merged heads is ill-typed, fall back to [if b then A else B] *)
Ltac merge_terms2 b A B :=
  lazymatch A with
  | B => A
  | ?f ?x =>
      lazymatch B with
      | ?g ?y =>
          match constr:(Set) with
          | _ => let fg := merge_terms2 b f g in
                 let xy := merge_terms2 b x y in
                 constr:(fg xy)
          | _ => constr:(if b then A else B)
          end
      | _ => constr:(if b then A else B)
      end
  | _ => constr:(if b then A else B)
  end.
Ltac merge_if2 :=
  match goal with
  | |- context[if ?b then Ok ?A else Ok ?B] =>
      let t := merge_terms2 b A B in
      replace (if b then Ok A else Ok B) with (Ok t) by (destruct b; reflexivity)
  end.

Lemma repeat_snoc {A} (x : A) k : repeat x k ++ [x] = repeat x (S k).
Proof. induction k as [|k IH]; [reflexivity|]. cbn [repeat app]. rewrite IH. reflexivity. Qed.

Lemma loop_unroll1 {T} (f : nat) (c : state T -> result bool)
      (b : state T -> result (outcome T * state T)) (st : state T) :
  (0 < f)%nat ->
  loop f c b st =
  match c st with
  | Err e => Err e
  | Ok false => Ok (ONormal, st)
  | Ok true =>
      match b st with
      | Err e => Err e
      | Ok (ONormal, st') => loop (pred f) c b st'
      | Ok (OContinue, st') => loop (pred f) c b st'
      | Ok (OBreak, st') => Ok (ONormal, st')
      | Ok (ORet v, st') => Ok (ORet v, st')
      end
  end.
Proof. intros H. destruct f as [|f]; [lia|]. reflexivity. Qed.

(* one statement at a time: the kernel re-checks a [cbn] over a long sequence of
   statements very slowly at [Qed]; these equations keep every conversion small *)
Section Steps.
Context {T : Type} (N : NumOps T) (X : NumLit T) (callf : callee T) (n : nat).

Lemma exec_seq_ok a b st st' :
  exec N X callf n a st = Ok (ONormal, st') ->
  exec N X callf n (SSeq a b) st = exec N X callf n b st'.
Proof. intros H. cbn [exec]. rewrite H. reflexivity. Qed.

Lemma exec_seq_ifret c e rest st v :
  eval_i N X st c = Ok v ->
  exec N X callf n (SSeq (SIf c (SRetI e) SSkip) rest) st
  = if truth v then (do z <- eval_i N X st e; Ok (ORet (RI z), st))
    else exec N X callf n rest st.
Proof.
  intros H. cbn [exec]. rewrite H. cbn [bind]. destruct (truth v); [|reflexivity].
  destruct (eval_i N X st e); reflexivity.
Qed.

Lemma exec_seq_for c stp body rest st :
  exec N X callf n (SSeq (SFor c stp body) rest) st
  = match loop n (cond_of N X c) (for_body (exec N X callf n body) (exec N X callf n stp)) st with
    | Ok (ONormal, st') => exec N X callf n rest st'
    | r => r
    end.
Proof. reflexivity. Qed.

Lemma exec_seq_while c body rest st :
  exec N X callf n (SSeq (SWhile c body) rest) st
  = match loop n (cond_of N X c) (exec N X callf n body) st with
    | Ok (ONormal, st') => exec N X callf n rest st'
    | r => r
    end.
Proof. reflexivity. Qed.
End Steps.

(* execute the first statement [a] of [exec (SSeq a b) st] (it must end normally) *)
Ltac step :=
  match goal with
  | |- context[exec ?N ?X ?cf ?n (SSeq ?a ?b) ?st] =>
      let H := fresh "Hstep" in
      eassert (H : exec N X cf n a st = Ok (ONormal, _)) by (cbn; norm_state; reflexivity);
      rewrite (exec_seq_ok N X cf n a b st _ H); clear H
  end.


Ltac step_with tac :=
  match goal with
  | |- context[exec ?N ?X ?cf ?n (SSeq ?a ?b) ?st] =>
      let H := fresh "Hstep" in
      eassert (H : exec N X cf n a st = Ok (ONormal, _)) by (cbn; tac; cbn; norm_state; reflexivity);
      rewrite (exec_seq_ok N X cf n a b st _ H); clear H
  end.

(* one call level: [exec_fun p (S n) f args] as the execution of the body (weak-head
   reduction only: the kernel re-checks a [cbn] of the whole function at [Qed] very slowly
   when a symbolic test is followed by a long continuation) *)
Ltac unfold_exec_fun :=
  match goal with
  | |- context[exec_fun ?N' ?X' ?p (S ?n') ?f ?args] =>
      let t := eval hnf in (exec_fun N' X' p (S n') f args) in
      change (exec_fun N' X' p (S n') f args) with t
  end;
  cbn [snd fst seq].

(* a buffer whose first entries have been overwritten by [P] *)
Definition ov {A} (P arr : list A) : list A := P ++ skipn (List.length P) arr.

Lemma skipn_cons_nth {A} (l : list A) k :
  (k < List.length l)%nat -> exists x, skipn k l = x :: skipn (S k) l.
Proof.
  revert k; induction l as [|a l IH]; intros k H; cbn in H; [lia|].
  destruct k as [|k]; [exists a; reflexivity|].
  destruct (IH k) as (x & E); [lia|]. exists x. cbn [skipn]. exact E.
Qed.

Lemma ov_nil {A} (arr : list A) : ov [] arr = arr.
Proof. reflexivity. Qed.

Lemma ov_length {A} (P arr : list A) :
  (List.length P <= List.length arr)%nat -> List.length (ov P arr) = List.length arr.
Proof. intros H. unfold ov. rewrite app_length, skipn_length. lia. Qed.

Lemma ov_split {A} (P arr : list A) :
  (List.length P < List.length arr)%nat ->
  exists x, ov P arr = P ++ x :: skipn (S (List.length P)) arr.
Proof.
  intros H. destruct (skipn_cons_nth arr (List.length P) H) as (x & E).
  exists x. unfold ov. rewrite E. reflexivity.
Qed.

Lemma ov_snoc {A} (P arr : list A) v :
  P ++ v :: skipn (S (List.length P)) arr = ov (P ++ [v]) arr.
Proof.
  unfold ov. rewrite <- app_assoc, app_length. cbn [app List.length].
  replace (List.length P + 1)%nat with (S (List.length P)) by lia. reflexivity.
Qed.

Lemma ov_app_form {A} (P arr : list A) : exists rest, ov P arr = P ++ rest.
Proof. exists (skipn (List.length P) arr). reflexivity. Qed.

(* ================================================================== *)
(* Part 1: getnxy, c_neighbours, c_upstream on one cell                 *)
(* ================================================================== *)

Section Refine.
Context {T : Type} (N : NumOps T) (X : NumLit T).

Lemma getnxy_run n ncols idx a b :
  ncols <> 0 ->
  exec_fun N X program (S n) "getnxy" [AVI ncols; AVI idx; AVArrI [a; b]]
  = Ok (RI 0, [VArrI [getnx ncols idx; getny ncols idx]]).
Proof.
  intros H. cbn. zb. cbn. zb. cbn. reflexivity.
Qed.

Lemma getnxy_run' n ncols idx a b :
  ncols <> 0 -> (0 < n)%nat ->
  exec_fun N X program n "getnxy" [AVI ncols; AVI idx; AVArrI [a; b]]
  = Ok (RI 0, [VArrI [getnx ncols idx; getny ncols idx]]).
Proof. intros H Hn. destruct n as [|n]; [lia|]. apply getnxy_run. exact H. Qed.

Lemma neighbours_run n nrows ncols idx a0 a1 a2 a3 a4 a5 a6 a7 a8 :
  0 <= idx < nrows * ncols ->
  (5 < n)%nat ->
  exec_fun N X program (S n) "c_neighbours"
    [AVI nrows; AVI ncols; AVI idx; AVArrI [a0; a1; a2; a3; a4; a5; a6; a7; a8]]
  = Ok (RI 0, [VArrI (neighbours_raw nrows ncols idx)]).
Proof.
  intros Hv Hn.
  assert (Hnc : ncols <> 0) by nia.
  unfold_exec_fun. norm_state.
  do 8 step.
  rewrite (exec_seq_ifret N X _ n _ _ _ _ (b2z ((idx <? 0) || (nrows * ncols <=? idx))))
    by (cbn; rewrite ?truth_b2z, ?b2z_truth_b2z, ?or_ok; reflexivity).
  rewrite truth_b2z.
  replace ((idx <? 0) || (nrows * ncols <=? idx)) with false
    by (symmetry; apply orb_false_iff; split; [apply Z.ltb_ge|apply Z.leb_gt]; lia).
  step_with ltac:(rewrite getnxy_run' by (try exact Hnc; lia)).
  do 3 step.
  rewrite exec_seq_for. cbn [exec eval_i bind].
  do 3 (rewrite loop_unroll1 by lia; cbn;
    do 3 (rewrite loop_unroll1 by lia; cbn;
          repeat (progress (rewrite ?truth_b2z, ?b2z_truth_b2z, ?or_ok, ?and_ok); cbn); try merge_if2; cbn; norm_state);
    rewrite loop_unroll1 by lia; cbn; norm_state).
  (rewrite loop_unroll1 by lia; cbn).
  reflexivity.
Qed.

Lemma neighbours_run' n nrows ncols idx a0 a1 a2 a3 a4 a5 a6 a7 a8 :
  0 <= idx < nrows * ncols ->
  (6 < n)%nat ->
  exec_fun N X program n "c_neighbours"
    [AVI nrows; AVI ncols; AVI idx; AVArrI [a0; a1; a2; a3; a4; a5; a6; a7; a8]]
  = Ok (RI 0, [VArrI (neighbours_raw nrows ncols idx)]).
Proof.
  intros Hv Hn. destruct n as [|n]; [lia|]. apply neighbours_run; [exact Hv|lia].
Qed.

(* ---- c_upstream ---- *)

Definition up_state (nrows ncols nval i j k fdv cell nbv : Z) (codes fd down up ng : list Z) : state T :=
  {| s_i := [("nrows", nrows); ("ncols", ncols); ("nval", nval); ("i", i); ("j", j); ("k", k);
             ("fd", fdv); ("idxcell", cell); ("idxneighb", nbv)];
     s_f := [];
     s_ai := [("flowdircode", codes); ("flowdir", fd); ("idxdown", down); ("idxup", up);
              ("neighbours", ng)];
     s_af := [] |}.

(* the hits found in the slots 0 .. j-1 of the neighbour list [ng] *)
Definition hit_of (codes fd ng : list Z) (j : Z) : list Z :=
  let nb := zn ng j (-1) in
  if nb =? -1 then []
  else let f := zn fd nb 0 in
       if f =? 0 then [] else if f =? zn codes (8 - j) 0 then [nb] else [].

Definition hitsj (codes fd ng : list Z) (j : nat) : list Z :=
  flat_map (hit_of codes fd ng) (map Z.of_nat (List.seq 0 j)).

Lemma hitsj_S codes fd ng j :
  hitsj codes fd ng (S j) = hitsj codes fd ng j ++ hit_of codes fd ng (Z.of_nat j).
Proof.
  unfold hitsj. rewrite seq_S, map_app, flat_map_app. cbn [map flat_map Nat.add].
  rewrite app_nil_r. reflexivity.
Qed.

Lemma hit_of_length codes fd ng j : (List.length (hit_of codes fd ng j) <= 1)%nat.
Proof.
  unfold hit_of. destruct (zn ng j (-1) =? -1); [cbn; lia|].
  destruct (zn fd (zn ng j (-1)) 0 =? 0); [cbn; lia|].
  destruct (zn fd (zn ng j (-1)) 0 =? zn codes (8 - j) 0); cbn; lia.
Qed.

Lemma hitsj_length codes fd ng j : (List.length (hitsj codes fd ng j) <= j)%nat.
Proof.
  induction j as [|j IH]; [cbn; lia|]. rewrite hitsj_S, app_length.
  pose proof (hit_of_length codes fd ng (Z.of_nat j)). lia.
Qed.

Lemma hits_hitsj codes nrows ncols fd c :
  upstream_hits_with codes nrows ncols fd c = hitsj codes fd (neighbours_raw nrows ncols c) 9.
Proof. reflexivity. Qed.

Definition hits_inv nrows ncols cell codes fd down ng (j : nat) (st : state T) : Prop :=
  exists fdv nbv rest, (j <= 9)%nat /\
    (List.length (hitsj codes fd ng j) + List.length rest = 9)%nat /\
    st = up_state nrows ncols 1 0 (Z.of_nat j) (Z.of_nat (List.length (hitsj codes fd ng j))) fdv cell nbv
           codes fd down (hitsj codes fd ng j ++ rest) ng.

Definition hits_post nrows ncols cell codes fd down ng (r : outcome T * state T) : Prop :=
  exists fdv nbv rest,
    (List.length (hitsj codes fd ng 9) + List.length rest = 9)%nat /\
    r = (ONormal, up_state nrows ncols 1 0 9 (Z.of_nat (List.length (hitsj codes fd ng 9))) fdv cell nbv
           codes fd down (hitsj codes fd ng 9 ++ rest) ng).

Lemma up_hits_loop (callf : callee T) n nrows ncols cell codes fd down up ng fdv0 nbv0 :
  List.length codes = 9%nat -> List.length ng = 9%nat -> List.length up = 9%nat ->
  (forall j, 0 <= j <= 8 ->
     zn ng j (-1) = -1 \/ 0 <= zn ng j (-1) < Z.of_nat (List.length fd)) ->
  (9 < n)%nat ->
  exists r,
    loop n (cond_of N X (ICmp CLt (IVar "j") (IConst 9)))
      (for_body
         (exec N X callf n
            (SSeq
               (SSetI "idxneighb" (IArr "neighbours" (IVar "j")))
               (SSeq
                  (SIf
                     (ICmp CEq (IVar "idxneighb")
                        (IUn INeg (IConst 1))) SContinue SSkip)
                  (SSeq
                     (SSetI "fd"
                        (IArr "flowdir" (IVar "idxneighb")))
                     (SSeq
                        (SIf (ICmp CEq (IVar "fd") (IConst 0))
                           SContinue SSkip)
                        (SIf
                           (ICmp CEq (IVar "fd")
                              (IArr "flowdircode"
                                 (IBin ISub (IConst 8) (IVar "j"))))
                           (SSeq
                              (SStoreI "idxup"
                                 (IBin IAdd
                                    (IBin IMul
                                     (IConst 9)
                                     (IVar "i"))
                                    (IVar "k"))
                                 (IVar "idxneighb"))
                              (SSetI "k"
                                 (IBin IAdd (IVar "k") (IConst 1))))
                           SSkip))))))
         (exec N X callf n
            (SSetI "j" (IBin IAdd (IVar "j") (IConst 1)))))
      (up_state nrows ncols 1 0 0 0 fdv0 cell nbv0 codes fd down up ng) = Ok r
    /\ hits_post nrows ncols cell codes fd down ng r.
Proof.
  intros Hcodes Hng Hup Hok Hn.
  apply (loop_rule (hits_inv nrows ncols cell codes fd down ng)
                   (hits_post nrows ncols cell codes fd down ng) 9) with (k := O).
  - intros j st (fdv & nbv & rest & Hj9 & Hlen & ->).
    pose proof (hitsj_length codes fd ng j) as HL.
    unfold up_state. cbn.
    destruct (Z.ltb_spec (Z.of_nat j) 9) as [Hj|Hj].
    + split; [lia|]. cbn.
      rewrite (zget_ok ng (Z.of_nat j) (-1)) by lia. cbn.
      fold (zn ng (Z.of_nat j) (-1)).
      set (g := zn ng (Z.of_nat j) (-1)).
      assert (Hh : hit_of codes fd ng (Z.of_nat j) =
                   if g =? -1 then []
                   else if zn fd g 0 =? 0 then []
                        else if zn fd g 0 =? zn codes (8 - Z.of_nat j) 0 then [g] else [])
        by reflexivity.
      destruct (g =? -1) eqn:Eg; cbn.
      * exists fdv, g, rest. rewrite hitsj_S, Hh, app_nil_r.
        split; [lia|]. split; [exact Hlen|]. norm_state. unfold up_state.
        replace (Z.of_nat j + 1) with (Z.of_nat (S j)) by lia. reflexivity.
      * apply Z.eqb_neq in Eg.
        destruct (Hok (Z.of_nat j)) as [Hm|Hr]; [lia|fold g in Hm; contradiction|]. fold g in Hr.
        rewrite (zget_ok fd g 0) by lia. cbn. fold (zn fd g 0).
        destruct (zn fd g 0 =? 0) eqn:Ef; cbn.
        -- exists (zn fd g 0), g, rest. rewrite hitsj_S, Hh, app_nil_r.
           split; [lia|]. split; [exact Hlen|]. norm_state. unfold up_state.
           replace (Z.of_nat j + 1) with (Z.of_nat (S j)) by lia. reflexivity.
        -- rewrite (zget_ok codes (8 - Z.of_nat j) 0) by lia. cbn.
           fold (zn codes (8 - Z.of_nat j) 0).
           destruct (zn fd g 0 =? zn codes (8 - Z.of_nat j) 0) eqn:Ec; cbn.
           ++ destruct rest as [|r0 rest]; [cbn in Hlen; lia|].
              rewrite (zset_app (hitsj codes fd ng j) rest r0 g) by lia.
              cbn.
              exists (zn fd g 0), g, rest. rewrite hitsj_S, Hh.
              split; [lia|]. split; [rewrite app_length; cbn in *; lia|].
              norm_state. unfold up_state. rewrite app_length. cbn [List.length].
              rewrite <- app_assoc. cbn [app].
              replace (Z.of_nat j + 1) with (Z.of_nat (S j)) by lia.
              replace (Z.of_nat (List.length (hitsj codes fd ng j)) + 1)
                with (Z.of_nat (List.length (hitsj codes fd ng j) + 1)) by lia.
              reflexivity.
           ++ exists (zn fd g 0), g, rest. rewrite hitsj_S, Hh, app_nil_r.
              split; [lia|]. split; [exact Hlen|]. norm_state. unfold up_state.
              replace (Z.of_nat j + 1) with (Z.of_nat (S j)) by lia. reflexivity.
    + split; [lia|]. cbn. exists fdv, nbv, rest.
      assert (j = 9%nat) by lia. subst j. split; [exact Hlen|]. reflexivity.
  - exists fdv0, nbv0, up. split; [lia|]. split; [cbn; lia|]. reflexivity.
  - lia.
Qed.

Lemma up_fill_loop (callf : callee T) n nrows ncols cell codes fd down ng fdv nbv H rest :
  (List.length H + List.length rest = 9)%nat ->
  (9 < n)%nat ->
  loop n (cond_of N X (ICmp CLt (IVar "j") (IConst 9)))
    (for_body
       (exec N X callf n
          (SStoreI "idxup"
             (IBin IAdd (IBin IMul (IConst 9) (IVar "i"))
                (IVar "j")) (IUn INeg (IConst 1))))
       (exec N X callf n
          (SSetI "j" (IBin IAdd (IVar "j") (IConst 1)))))
    (up_state nrows ncols 1 0 (Z.of_nat (List.length H)) (Z.of_nat (List.length H)) fdv cell nbv
       codes fd down (H ++ rest) ng)
  = Ok (ONormal,
        up_state nrows ncols 1 0 9 (Z.of_nat (List.length H)) fdv cell nbv
          codes fd down (H ++ repeat (-1) (List.length rest)) ng).
Proof.
  intros Hlen Hn.
  apply (loop_rule_eq
           (fun m st => exists rest', (List.length H + m + List.length rest' = 9)%nat /\
              st = up_state nrows ncols 1 0 (Z.of_nat (List.length H + m)) (Z.of_nat (List.length H))
                     fdv cell nbv codes fd down (H ++ repeat (-1) m ++ rest') ng)
           _ 9).
  - intros m st (rest' & Hm & ->). split; [lia|].
    unfold up_state. cbn.
    destruct (Z.ltb_spec (Z.of_nat (List.length H + m)) 9) as [Hj|Hj]; cbn.
    + destruct rest' as [|r0 rest']; [cbn in Hm; lia|].
      rewrite app_assoc.
      rewrite (zset_app (H ++ repeat (-1) m) rest' r0 (-1))
        by (rewrite app_length, repeat_length; lia).
      cbn. exists rest'. split; [cbn in Hm; lia|].
      norm_state. unfold up_state.
      rewrite <- !app_assoc.
      replace (repeat (-1) m ++ -1 :: rest') with (repeat (-1) (S m) ++ rest')
        by (rewrite <- repeat_snoc, <- app_assoc; reflexivity).
      replace (Z.of_nat (List.length H + m) + 1) with (Z.of_nat (List.length H + S m)) by lia.
      reflexivity.
    + destruct rest' as [|r0 rest']; [|cbn in Hm; lia].
      rewrite app_nil_r. unfold up_state.
      assert (Z.of_nat (List.length H + m) = 9) as -> by (cbn in Hm; lia).
      replace (List.length rest) with m by (cbn in Hm; lia). reflexivity.
  - exists rest. split; [lia|]. rewrite Nat.add_0_r. reflexivity.
  - lia.
Qed.

#[local] Arguments pad9 : simpl never.
#[local] Arguments upstream_hits_with : simpl never.
#[local] Arguments neighbours_raw : simpl never.
#[local] Arguments hitsj : simpl never.

Lemma neighbours_raw_length nrows ncols c : List.length (neighbours_raw nrows ncols c) = 9%nat.
Proof. reflexivity. Qed.

Lemma neighbours_raw_ok nrows ncols c j :
  0 <= ncols -> 0 <= c < nrows * ncols -> 0 <= j <= 8 ->
  zn (neighbours_raw nrows ncols c) j (-1) = -1 \/
  0 <= zn (neighbours_raw nrows ncols c) j (-1) < nrows * ncols.
Proof.
  intros Hnc0 Hv Hj.
  assert (Hnc : 0 < ncols)
    by (destruct (Z.eq_dec ncols 0) as [E0|E0]; [rewrite E0, Z.mul_0_r in Hv; lia|lia]).
  destruct (Z.eq_dec (zn (neighbours_raw nrows ncols c) j (-1)) (-1)) as [E|E]; [left; exact E|right].
  destruct (neighbours_symmetric nrows ncols c j _ Hnc Hv Hj eq_refl E) as (H1 & _). exact H1.
Qed.

(* c_upstream on one cell (nval = 1), as called by c_delineate_area and c_accumulate *)
Lemma upstream_run1 n nrows ncols codes fd c up :
  0 <= ncols -> 0 <= c < nrows * ncols ->
  List.length codes = 9%nat -> Z.of_nat (List.length fd) = nrows * ncols ->
  List.length up = 9%nat ->
  (12 < n)%nat ->
  exec_fun N X program (S n) "c_upstream"
    [AVI nrows; AVI ncols; AVArrI codes; AVArrI fd; AVI 1; AVArrI [c]; AVArrI up]
  = Ok (RI 0, [VArrI codes; VArrI fd; VArrI [c];
               VArrI (pad9 (upstream_hits_with codes nrows ncols fd c))]).
Proof.
  intros Hnc0 Hv Hcodes Hfd Hup Hn.
  cbn. norm_state.
  rewrite loop_unroll1 by lia. cbn.
  replace (c <? 0) with false by (symmetry; apply Z.ltb_ge; lia).
  replace (nrows * ncols <=? c) with false by (symmetry; apply Z.leb_gt; lia).
  cbn.
  rewrite neighbours_run' by (try exact Hv; lia).
  cbn. norm_state.
  set (ng := neighbours_raw nrows ncols c).
  fold_loop_state n (up_state nrows ncols 1 0 0 0 0 c 0 codes fd [c] up ng).
  destruct (up_hits_loop (exec_fun N X program n) n nrows ncols c codes fd [c] up ng 0 0
              Hcodes (neighbours_raw_length nrows ncols c) Hup)
    as (r & Hr & fdv & nbv & rest & Hlen & ->).
  { intros j Hj. rewrite Hfd. apply neighbours_raw_ok; assumption. }
  { lia. }
  rewrite Hr. cbn. norm_state.
  fold_loop_state n (up_state nrows ncols 1 0 (Z.of_nat (List.length (hitsj codes fd ng 9)))
                       (Z.of_nat (List.length (hitsj codes fd ng 9))) fdv c nbv codes fd [c]
                       (hitsj codes fd ng 9 ++ rest) ng).
  rewrite (up_fill_loop (exec_fun N X program n) n nrows ncols c codes fd [c] ng fdv nbv
             (hitsj codes fd ng 9) rest Hlen) by lia.
  cbn.
  rewrite loop_unroll1 by lia. cbn.
  rewrite hits_hitsj. fold ng. unfold pad9.
  replace (9 - List.length (hitsj codes fd ng 9))%nat with (List.length rest) by lia.
  reflexivity.
Qed.

(* the same statement under the name pattern of the refinement theorems *)
Definition refine_c_upstream_one := upstream_run1.

Lemma upstream_run1' n nrows ncols codes fd c up :
  0 <= ncols -> 0 <= c < nrows * ncols ->
  List.length codes = 9%nat -> Z.of_nat (List.length fd) = nrows * ncols ->
  List.length up = 9%nat ->
  (13 < n)%nat ->
  exec_fun N X program n "c_upstream"
    [AVI nrows; AVI ncols; AVArrI codes; AVArrI fd; AVI 1; AVArrI [c]; AVArrI up]
  = Ok (RI 0, [VArrI codes; VArrI fd; VArrI [c];
               VArrI (pad9 (upstream_hits_with codes nrows ncols fd c))]).
Proof.
  intros H1 H2 H3 H4 H5 Hn. destruct n as [|n]; [lia|]. apply upstream_run1; try assumption. lia.
Qed.

End Refine.

(* ================================================================== *)
(* Part 2: c_delineate_area                                             *)
(* ================================================================== *)

#[local] Arguments pad9 : simpl never.
#[local] Arguments upstream_hits_with : simpl never.
#[local] Arguments upstream_hits : simpl never.
#[local] Arguments neighbours_raw : simpl never.
#[local] Arguments next_layer : simpl never.
#[local] Arguments is_inlet : simpl never.
#[local] Arguments valid_cell : simpl never.
#[local] Arguments skipn : simpl nomatch.
#[local] Arguments firstn : simpl nomatch.


Section Area.
Context {T : Type} (N : NumOps T) (X : NumLit T).
Variables nrows ncols outlet nval : Z.
Variables codes fd inlets area0 : list Z.

Definition da_state (i k l m idx nb1 nb2 nlayer : Z) (area b1 b2 cell up : list Z) : state T :=
  {| s_i := [("nrows", nrows); ("ncols", ncols); ("idxoutlet", outlet);
             ("ninlets", Z.of_nat (List.length inlets)); ("nval", nval);
             ("i", i); ("k", k); ("l", l); ("m", m); ("idx", idx);
             ("nbuffer1", nb1); ("nbuffer2", nb2); ("nlayer", nlayer)];
     s_f := [];
     s_ai := [("flowdircode", codes); ("flowdir", fd); ("idxinlets", inlets);
              ("idxcells_area", area); ("buffer1", b1); ("buffer2", b2);
              ("idxcell", cell); ("idxup", up)];
     s_af := [] |}.

(* some state of the kernel (error returns: the scalars and the scratch arrays are not tracked) *)
Definition da_any (st : state T) : Prop :=
  exists i k l m idx nb1 nb2 nlayer area b1 b2 cell up,
    st = da_state i k l m idx nb1 nb2 nlayer area b1 b2 cell up.

Lemma valid_cell_c x :
  valid_cell nrows ncols x = negb ((x <? 0) || (nrows * ncols - 1 <? x)).
Proof.
  unfold valid_cell. f_equal. f_equal.
  destruct (Z.leb_spec (nrows * ncols) x), (Z.ltb_spec (nrows * ncols - 1) x); try reflexivity; lia.
Qed.

(* ---- loop 1: for(m=0; m<ninlets; m++) if(idxinlets[m] outside the grid) return ERROR ---- *)

Definition chk_inv area b1 b2 cell up (k : nat) (st : state T) : Prop :=
  exists done todo, inlets = done ++ todo /\ List.length done = k /\
    forallb (valid_cell nrows ncols) done = true /\
    st = da_state 0 0 0 (Z.of_nat k) 0 0 0 0 area b1 b2 cell up.

Definition chk_post area b1 b2 cell up (r : outcome T * state T) : Prop :=
  (forallb (valid_cell nrows ncols) inlets = true /\
   r = (ONormal, da_state 0 0 0 (Z.of_nat (List.length inlets)) 0 0 0 0 area b1 b2 cell up))
  \/
  (forallb (valid_cell nrows ncols) inlets = false /\ exists code mm, 0 < code /\
   r = (ORet (RI code), da_state 0 0 0 mm 0 0 0 0 area b1 b2 cell up)).

Lemma chk_loop (callf : callee T) n c area b1 b2 cell up :
  0 <= c -> (List.length inlets < n)%nat ->
  exists r,
    loop n (cond_of N X (ICmp CLt (IVar "m") (IVar "ninlets")))
      (for_body
         (exec N X callf n
            (SIf
               (IOr (ICmp CLt (IArr "idxinlets" (IVar "m")) (IConst 0))
                  (ICmp CGt (IArr "idxinlets" (IVar "m"))
                     (IBin ISub (IBin IMul (IVar "nrows") (IVar "ncols"))
                        (IConst 1))))
               (SRetI (IBin IAdd (IConst 60000) (IConst c))) SSkip))
         (exec N X callf n
            (SSetI "m" (IBin IAdd (IVar "m") (IConst 1)))))
      (da_state 0 0 0 0 0 0 0 0 area b1 b2 cell up) = Ok r
    /\ chk_post area b1 b2 cell up r.
Proof.
  intros Hc Hn.
  apply (loop_rule (chk_inv area b1 b2 cell up) (chk_post area b1 b2 cell up)
           (List.length inlets)) with (k := O).
  - intros k st (done & todo & Hp & Hk & Hd & ->).
    assert (Hlen : List.length inlets = (k + List.length todo)%nat)
      by (rewrite Hp, app_length; lia).
    split; [lia|].
    unfold da_state. cbn.
    destruct todo as [|x todo].
    + replace (Z.of_nat k <? Z.of_nat (List.length inlets)) with false
        by (symmetry; apply Z.ltb_ge; cbn in Hlen; lia).
      cbn. left. rewrite app_nil_r in Hp. rewrite Hp at 1. split; [exact Hd|].
      unfold da_state. replace (List.length inlets) with k by (cbn in Hlen; lia). reflexivity.
    + replace (Z.of_nat k <? Z.of_nat (List.length inlets)) with true
        by (symmetry; apply Z.ltb_lt; cbn in Hlen; lia).
      assert (Hg : zget inlets (Z.of_nat k) = Some x)
        by (rewrite Hp; apply zget_app; lia).
      cbn. rewrite Hg. cbn. rewrite ?truth_b2z, ?b2z_truth_b2z, ?or_ok. cbn.
      rewrite truth_b2z.
      assert (Hvx : valid_cell nrows ncols x = negb ((x <? 0) || (nrows * ncols - 1 <? x)))
        by apply valid_cell_c.
      destruct ((x <? 0) || (nrows * ncols - 1 <? x)) eqn:Hx; cbn.
      * right. split.
        { rewrite Hp, forallb_app. cbn [forallb]. rewrite Hvx. cbn. apply andb_false_r. }
        exists (60000 + c), (Z.of_nat k). split; [lia|]. reflexivity.
      * exists (done ++ [x]), todo.
        split; [rewrite <- app_assoc; exact Hp|].
        split; [rewrite app_length; cbn; lia|].
        split; [rewrite forallb_app, Hd; cbn [forallb]; rewrite Hvx; reflexivity|].
        norm_state. unfold da_state.
        replace (Z.of_nat k + 1) with (Z.of_nat (S k)) by lia. reflexivity.
  - exists [], inlets. repeat split.
  - lia.
Qed.

(* ---- the search loop: for(m=0; m<ninlets; m++) if(idxinlets[m]==idx) break ---- *)

Definition srch_inv i k l idx nb1 nb2 nlayer area b1 b2 cell up (j : nat) (st : state T) : Prop :=
  exists done todo, inlets = done ++ todo /\ List.length done = j /\
    existsb (Z.eqb idx) done = false /\
    st = da_state i k l (Z.of_nat j) idx nb1 nb2 nlayer area b1 b2 cell up.

Definition srch_post i k l idx nb1 nb2 nlayer area b1 b2 cell up (r : outcome T * state T) : Prop :=
  exists mm,
    r = (ONormal, da_state i k l mm idx nb1 nb2 nlayer area b1 b2 cell up) /\
    ((mm = Z.of_nat (List.length inlets) /\ is_inlet inlets idx = false) \/
     (0 <= mm < Z.of_nat (List.length inlets) /\ is_inlet inlets idx = true)).

Lemma srch_loop (callf : callee T) n i k l idx nb1 nb2 nlayer area b1 b2 cell up :
  (List.length inlets < n)%nat ->
  exists r,
    loop n (cond_of N X (ICmp CLt (IVar "m") (IVar "ninlets")))
      (for_body
         (exec N X callf n
            (SIf (ICmp CEq (IArr "idxinlets" (IVar "m")) (IVar "idx")) SBreak SSkip))
         (exec N X callf n
            (SSetI "m" (IBin IAdd (IVar "m") (IConst 1)))))
      (da_state i k l 0 idx nb1 nb2 nlayer area b1 b2 cell up) = Ok r
    /\ srch_post i k l idx nb1 nb2 nlayer area b1 b2 cell up r.
Proof.
  intros Hn.
  apply (loop_rule (srch_inv i k l idx nb1 nb2 nlayer area b1 b2 cell up)
           (srch_post i k l idx nb1 nb2 nlayer area b1 b2 cell up)
           (List.length inlets)) with (k := O).
  - intros j st (done & todo & Hp & Hj & Hd & ->).
    assert (Hlen : List.length inlets = (j + List.length todo)%nat)
      by (rewrite Hp, app_length; lia).
    split; [lia|].
    unfold da_state. cbn.
    destruct todo as [|x todo].
    + replace (Z.of_nat j <? Z.of_nat (List.length inlets)) with false
        by (symmetry; apply Z.ltb_ge; cbn in Hlen; lia).
      cbn. exists (Z.of_nat j). split.
      * reflexivity.
      * left. split; [cbn in Hlen; lia|]. unfold is_inlet. rewrite app_nil_r in Hp.
        rewrite Hp. exact Hd.
    + replace (Z.of_nat j <? Z.of_nat (List.length inlets)) with true
        by (symmetry; apply Z.ltb_lt; cbn in Hlen; lia).
      assert (Hg : zget inlets (Z.of_nat j) = Some x)
        by (rewrite Hp; apply zget_app; lia).
      cbn. rewrite Hg. cbn. rewrite truth_b2z.
      destruct (x =? idx) eqn:Hx; cbn.
      * exists (Z.of_nat j). split; [reflexivity|]. right.
        split; [cbn in Hlen; lia|]. unfold is_inlet. rewrite Hp, existsb_app. cbn [existsb].
        rewrite (Z.eqb_sym idx x), Hx. cbn. apply orb_true_r.
      * exists (done ++ [x]), todo.
        split; [rewrite <- app_assoc; exact Hp|].
        split; [rewrite app_length; cbn; lia|].
        split; [rewrite existsb_app, Hd; cbn [existsb]; rewrite (Z.eqb_sym idx x), Hx; reflexivity|].
        norm_state. unfold da_state.
        replace (Z.of_nat j + 1) with (Z.of_nat (S j)) by lia. reflexivity.
  - exists [], inlets. repeat split.
  - lia.
Qed.

(* ---- the loop over the nine entries of idxup ---- *)

Definition s_srch : stmt :=
  SIf (ICmp CEq (IArr "idxinlets" (IVar "m")) (IVar "idx")) SBreak SSkip.
Definition s_minc : stmt := SSetI "m" (IBin IAdd (IVar "m") (IConst 1)).
Definition s_store (c1 c2 : Z) : stmt :=
  SSeq (SIf (ICmp CEq (IVar "i") (IBin ISub (IVar "nval") (IConst 1)))
          (SRetI (IBin IAdd (IConst 60000) (IConst c1))) SSkip)
  (SSeq (SStoreI "idxcells_area" (IVar "i") (IVar "idx"))
  (SSeq (SStoreI "buffer2" (IVar "nbuffer2") (IVar "idx"))
  (SSeq (SIf (ICmp CEq (IVar "nbuffer2") (IBin ISub (IVar "nval") (IConst 1)))
           (SRetI (IBin IAdd (IConst 60000) (IConst c2))) SSkip)
  (SSeq (SSetI "nbuffer2" (IBin IAdd (IVar "nbuffer2") (IConst 1)))
        (SSetI "i" (IBin IAdd (IVar "i") (IConst 1))))))).
Definition s_kbody (c1 c2 : Z) : stmt :=
  SSeq (SSetI "idx" (IArr "idxup" (IVar "k")))
    (SIf (ICmp CGe (IVar "idx") (IConst 0))
       (SSeq (SSetI "m" (IConst 0))
          (SSeq (SFor (ICmp CLt (IVar "m") (IVar "ninlets")) s_minc s_srch)
             (SIf (ICmp CEq (IVar "m") (IVar "ninlets")) (s_store c1 c2) SSkip)))
       SSkip).
Definition s_kinc : stmt := SSetI "k" (IBin IAdd (IVar "k") (IConst 1)).

(* the entries that are stored: cells (not the padding -1) that are not inlets *)
Definition keep (x : Z) : bool := (0 <=? x) && negb (is_inlet inlets x).

Lemma filter_snoc {A} (f : A -> bool) l x :
  filter f (l ++ [x]) = filter f l ++ (if f x then [x] else []).
Proof. rewrite filter_app. reflexivity. Qed.

Definition k_inv l nb1 nlayer b1 b20 cell ups A B (kk : nat) (st : state T) : Prop :=
  exists done todo A' B' m idx,
    ups = done ++ todo /\ List.length done = kk /\
    A' = A ++ filter keep done /\ B' = B ++ filter keep done /\
    Z.of_nat (List.length A') <= nval - 1 /\
    st = da_state (Z.of_nat (List.length A')) (Z.of_nat kk) l m idx nb1
           (Z.of_nat (List.length B')) nlayer (ov A' area0) b1 (ov B' b20) cell ups.

Definition k_post l nb1 nlayer b1 b20 cell ups A B (r : outcome T * state T) : Prop :=
  (Z.of_nat (List.length (A ++ filter keep ups)) <= nval - 1 /\
   exists m idx,
     r = (ONormal, da_state (Z.of_nat (List.length (A ++ filter keep ups))) 9 l m idx nb1
                     (Z.of_nat (List.length (B ++ filter keep ups))) nlayer
                     (ov (A ++ filter keep ups) area0) b1 (ov (B ++ filter keep ups) b20) cell ups))
  \/
  (nval - 1 < Z.of_nat (List.length (A ++ filter keep ups)) /\
   exists code st', 0 < code /\ r = (ORet (RI code), st') /\ da_any st').

Lemma k_loop (callf : callee T) n c1 c2 l nb1 nlayer b1 b20 cell ups A B m0 idx0 :
  0 <= c1 -> 0 <= c2 ->
  Z.of_nat (List.length area0) = nval -> Z.of_nat (List.length b20) = nval ->
  List.length ups = 9%nat -> (List.length B <= List.length A)%nat ->
  Z.of_nat (List.length A) <= nval - 1 ->
  (List.length inlets < n)%nat -> (9 < n)%nat ->
  exists r,
    loop n (cond_of N X (ICmp CLt (IVar "k") (IConst 9)))
      (for_body (exec N X callf n (s_kbody c1 c2)) (exec N X callf n s_kinc))
      (da_state (Z.of_nat (List.length A)) 0 l m0 idx0 nb1 (Z.of_nat (List.length B)) nlayer
         (ov A area0) b1 (ov B b20) cell ups) = Ok r
    /\ k_post l nb1 nlayer b1 b20 cell ups A B r.
Proof.
  intros Hc1 Hc2 Ha0 Hb0 Hups HBA HA Hn Hn9.
  apply (loop_rule (k_inv l nb1 nlayer b1 b20 cell ups A B)
           (k_post l nb1 nlayer b1 b20 cell ups A B) 9) with (k := O).
  - intros kk st (done & todo & A' & B' & m & idx & Hp & Hkk & HA' & HB' & HA'le & ->).
    assert (Hlen : (kk + List.length todo = 9)%nat)
      by (rewrite <- Hups, Hp, app_length; lia).
    assert (HBA' : (List.length B' <= List.length A')%nat)
      by (rewrite HA', HB', !app_length; lia).
    split; [lia|].
    unfold da_state, s_kbody, s_kinc, s_store, s_srch, s_minc. cbn.
    destruct todo as [|x todo].
    + replace (Z.of_nat kk <? 9) with false by (symmetry; apply Z.ltb_ge; cbn in Hlen; lia).
      cbn. rewrite app_nil_r in Hp. rewrite <- Hp in HA', HB'. unfold k_post. rewrite <- HA', <- HB'.
      left. split; [exact HA'le|]. exists m, idx. unfold da_state.
      replace (Z.of_nat kk) with 9 by (cbn in Hlen; lia). reflexivity.
    + replace (Z.of_nat kk <? 9) with true by (symmetry; apply Z.ltb_lt; cbn in Hlen; lia).
      assert (Hg : zget ups (Z.of_nat kk) = Some x) by (rewrite Hp; apply zget_app; lia).
      assert (Hsn : filter keep (done ++ [x]) = filter keep done ++ (if keep x then [x] else []))
        by apply filter_snoc.
      assert (Hp' : ups = (done ++ [x]) ++ todo) by (rewrite <- app_assoc; exact Hp).
      cbn. rewrite Hg. cbn. rewrite truth_b2z.
      destruct (0 <=? x) eqn:Hx0; cbn.
      * (* a cell: is it an inlet? *)
        fold_loop_state n (da_state (Z.of_nat (List.length A')) (Z.of_nat kk) l 0 x nb1
                             (Z.of_nat (List.length B')) nlayer (ov A' area0) b1 (ov B' b20) cell ups).
        destruct (srch_loop callf n (Z.of_nat (List.length A')) (Z.of_nat kk) l x nb1
                    (Z.of_nat (List.length B')) nlayer (ov A' area0) b1 (ov B' b20) cell ups Hn)
          as (r & Hr & mm & -> & Hmm).
        rewrite Hr. unfold da_state. cbn. rewrite truth_b2z.
        destruct Hmm as [[-> Hin]|[Hlt Hin]].
        -- rewrite Z.eqb_refl. cbn. rewrite truth_b2z.
           assert (Hkx : keep x = true) by (unfold keep; rewrite Hx0, Hin; reflexivity).
           destruct (Z.of_nat (List.length A') =? nval - 1) eqn:Hfull; cbn.
           ++ (* the area buffer is full *)
              right. split.
              ** apply Z.eqb_eq in Hfull. rewrite Hp, filter_app. cbn [filter]. rewrite Hkx.
                 rewrite HA', !app_length in Hfull. rewrite !app_length. cbn [List.length]. lia.
              ** exists (60000 + c1). eexists. split; [lia|]. split; [reflexivity|].
                 unfold da_any, da_state. repeat eexists.
           ++ apply Z.eqb_neq in Hfull.
              destruct (ov_split A' area0) as (y & Ey); [lia|].
              destruct (ov_split B' b20) as (z & Ez); [lia|].
              rewrite Ey, Ez.
              rewrite (zset_app A') by reflexivity. cbn.
              rewrite (zset_app B') by reflexivity. cbn.
              replace (Z.of_nat (List.length B') =? nval - 1) with false
                by (symmetry; apply Z.eqb_neq; lia).
              cbn.
              exists (done ++ [x]), todo, (A' ++ [x]), (B' ++ [x]), (Z.of_nat (List.length inlets)), x.
              split; [exact Hp'|]. split; [rewrite app_length; cbn; lia|].
              split; [rewrite Hsn, Hkx, app_assoc, <- HA'; reflexivity|].
              split; [rewrite Hsn, Hkx, app_assoc, <- HB'; reflexivity|].
              split; [rewrite app_length; cbn; lia|].
              norm_state. unfold da_state. rewrite !ov_snoc, !app_length. cbn [List.length].
              replace (Z.of_nat kk + 1) with (Z.of_nat (S kk)) by lia.
              replace (Z.of_nat (List.length A') + 1) with (Z.of_nat (List.length A' + 1)) by lia.
              replace (Z.of_nat (List.length B') + 1) with (Z.of_nat (List.length B' + 1)) by lia.
              reflexivity.
        -- replace (mm =? Z.of_nat (List.length inlets)) with false
             by (symmetry; apply Z.eqb_neq; lia).
           cbn.
           assert (Hkx : keep x = false) by (unfold keep; rewrite Hx0, Hin; reflexivity).
           exists (done ++ [x]), todo, A', B', mm, x.
           split; [exact Hp'|]. split; [rewrite app_length; cbn; lia|].
           split; [rewrite Hsn, Hkx, app_nil_r; exact HA'|].
           split; [rewrite Hsn, Hkx, app_nil_r; exact HB'|].
           split; [exact HA'le|].
           norm_state. unfold da_state.
           replace (Z.of_nat kk + 1) with (Z.of_nat (S kk)) by lia. reflexivity.
      * assert (Hkx : keep x = false) by (unfold keep; rewrite Hx0; reflexivity).
        exists (done ++ [x]), todo, A', B', m, x.
        split; [exact Hp'|]. split; [rewrite app_length; cbn; lia|].
        split; [rewrite Hsn, Hkx, app_nil_r; exact HA'|].
        split; [rewrite Hsn, Hkx, app_nil_r; exact HB'|].
        split; [exact HA'le|].
        norm_state. unfold da_state.
        replace (Z.of_nat kk + 1) with (Z.of_nat (S kk)) by lia. reflexivity.
  - exists [], ups, A, B, m0, idx0. cbn [filter]. rewrite !app_nil_r.
    repeat split; try reflexivity. exact HA.
  - lia.
Qed.

(* ---- the copy loop: for(l=0; l<nbuffer2; l++) buffer1[l] = buffer2[l] ---- *)

Lemma copy_loop (callf : callee T) n i k m idx nb1 nlayer area b1 layer b2rest cell up :
  (List.length layer <= List.length b1)%nat -> (List.length layer < n)%nat ->
  loop n (cond_of N X (ICmp CLt (IVar "l") (IVar "nbuffer2")))
    (for_body
       (exec N X callf n (SStoreI "buffer1" (IVar "l") (IArr "buffer2" (IVar "l"))))
       (exec N X callf n (SSetI "l" (IBin IAdd (IVar "l") (IConst 1)))))
    (da_state i k 0 m idx nb1 (Z.of_nat (List.length layer)) nlayer area b1 (layer ++ b2rest) cell up)
  = Ok (ONormal,
        da_state i k (Z.of_nat (List.length layer)) m idx nb1 (Z.of_nat (List.length layer)) nlayer
          area (ov layer b1) (layer ++ b2rest) cell up).
Proof.
  intros Hb1 Hn.
  apply (loop_rule_eq
           (fun j st => exists done todo, layer = done ++ todo /\ List.length done = j /\
              st = da_state i k (Z.of_nat j) m idx nb1 (Z.of_nat (List.length layer)) nlayer
                     area (ov done b1) (layer ++ b2rest) cell up)
           _ (List.length layer)).
  - intros j st (done & todo & Hp & Hj & ->).
    assert (Hlen : List.length layer = (j + List.length todo)%nat)
      by (rewrite Hp, app_length; lia).
    split; [lia|].
    unfold da_state. cbn.
    destruct todo as [|x todo].
    + replace (Z.of_nat j <? Z.of_nat (List.length layer)) with false
        by (symmetry; apply Z.ltb_ge; cbn in Hlen; lia).
      rewrite app_nil_r in Hp. rewrite <- Hp.
      replace (List.length layer) with j by (cbn in Hlen; lia). reflexivity.
    + replace (Z.of_nat j <? Z.of_nat (List.length layer)) with true
        by (symmetry; apply Z.ltb_lt; cbn in Hlen; lia).
      assert (Hg : zget (layer ++ b2rest) (Z.of_nat j) = Some x).
      { rewrite Hp, <- app_assoc. apply (zget_app done (todo ++ b2rest) x). lia. }
      cbn. rewrite Hg. cbn.
      destruct (ov_split done b1) as (y & Ey); [cbn in Hlen; lia|].
      rewrite Ey. rewrite (zset_app done) by lia. cbn.
      exists (done ++ [x]), todo.
      split; [rewrite <- app_assoc; exact Hp|].
      split; [rewrite app_length; cbn; lia|].
      norm_state. unfold da_state. rewrite ov_snoc.
      replace (Z.of_nat j + 1) with (Z.of_nat (S j)) by lia. reflexivity.
  - exists [], layer. repeat split.
  - lia.
Qed.

(* ---- the loop over the cells of one layer ---- *)

Definition s_lbody (c1 c2 : Z) : stmt :=
  SSeq (SStoreI "idxcell" (IConst 0) (IArr "buffer1" (IVar "l")))
    (SSeq
       (SCall DNone "c_upstream"
          [AI (IVar "nrows"); AI (IVar "ncols"); AArrI "flowdircode" (IConst 0);
           AArrI "flowdir" (IConst 0); AI (IConst 1); AArrI "idxcell" (IConst 0);
           AArrI "idxup" (IConst 0)])
       (SSeq (SSetI "k" (IConst 0))
          (SFor (ICmp CLt (IVar "k") (IConst 9)) s_kinc (s_kbody c1 c2)))).
Definition s_linc : stmt := SSetI "l" (IBin IAdd (IVar "l") (IConst 1)).

Hypothesis Hcodes : codes = FLOWDIRCODE.
Hypothesis Hncols : 0 <= ncols.
Hypothesis Hfd : Z.of_nat (List.length fd) = nrows * ncols.
Hypothesis Harea0 : Z.of_nat (List.length area0) = nval.

Notation NL := (next_layer nrows ncols fd inlets).
Notation valid c := (0 <= c < nrows * ncols).

Lemma ncols_pos c : valid c -> 0 < ncols.
Proof.
  intros Hv. destruct (Z.eq_dec ncols 0) as [E0|E0]; [rewrite E0, Z.mul_0_r in Hv; lia|lia].
Qed.

Lemma zlen_ltb0 {A} (l : list A) : (MiniC.zlen l <? 0) = false.
Proof. rewrite zlen_eq. apply Z.ltb_ge. lia. Qed.

Lemma filter_repeat_false {A} (f : A -> bool) x k : f x = false -> filter f (repeat x k) = [].
Proof. intros H. induction k as [|k IH]; [reflexivity|]. cbn [repeat filter]. rewrite H. exact IH. Qed.

Lemma hits_valid_fdc b x : valid b -> In x (upstream_hits nrows ncols fd b) -> valid x.
Proof.
  intros Hb Hin.
  apply (hits_valid FLOWDIRCODE flowdircode_wf nrows ncols fd (ncols_pos b Hb) x b Hb Hin).
Qed.

Lemma keep_pad9 b :
  valid b ->
  filter keep (pad9 (upstream_hits_with codes nrows ncols fd b))
  = filter (fun x => negb (is_inlet inlets x)) (upstream_hits nrows ncols fd b).
Proof.
  intros Hb. rewrite Hcodes. change (upstream_hits_with FLOWDIRCODE) with upstream_hits.
  unfold pad9. rewrite filter_app, filter_repeat_false by reflexivity. rewrite app_nil_r.
  apply filter_ext_in. intros x Hx. apply hits_valid_fdc in Hx; [|exact Hb].
  unfold keep. replace (0 <=? x) with true by (symmetry; apply Z.leb_le; lia). reflexivity.
Qed.

Lemma NL_snoc done b :
  NL (done ++ [b]) = NL done ++ filter (fun x => negb (is_inlet inlets x)) (upstream_hits nrows ncols fd b).
Proof. unfold next_layer. rewrite flat_map_app. cbn [flat_map]. rewrite app_nil_r. reflexivity. Qed.

Lemma NL_app l1 l2 : NL (l1 ++ l2) = NL l1 ++ NL l2.
Proof. unfold next_layer. apply flat_map_app. Qed.

Lemma NL_valid layer x : (forall b, In b layer -> valid b) -> In x (NL layer) -> valid x.
Proof.
  intros Hl Hin. unfold next_layer in Hin. apply in_flat_map in Hin. destruct Hin as (b & Hb & Hx).
  apply filter_In in Hx. destruct Hx as [Hx _]. apply (hits_valid_fdc b x (Hl b Hb) Hx).
Qed.

(* the two scratch buffers (not part of Model/Catchment.v): buffer1 receives the current
   layer, buffer2 the next one, each over its previous content *)
Fixpoint buf_loop (fuel : nat) (layer b1 b2 : list Z) : list Z * list Z :=
  match fuel with
  | O => (b1, b2)
  | S f =>
      match NL layer with
      | [] => (ov layer b1, b2)
      | _ :: _ => buf_loop f (NL layer) (ov layer b1) (ov (NL layer) b2)
      end
  end.

Definition l_inv nlayer layer b1rest b20 A (j : nat) (st : state T) : Prop :=
  exists done todo k m idx c0 up,
    layer = done ++ todo /\ List.length done = j /\ List.length up = 9%nat /\
    Z.of_nat (List.length (A ++ NL done)) <= nval - 1 /\
    st = da_state (Z.of_nat (List.length (A ++ NL done))) k (Z.of_nat j) m idx
           (Z.of_nat (List.length layer)) (Z.of_nat (List.length (NL done))) nlayer
           (ov (A ++ NL done) area0) (layer ++ b1rest) (ov (NL done) b20) [c0] up.

Definition l_post nlayer layer b1rest b20 A (r : outcome T * state T) : Prop :=
  (Z.of_nat (List.length (A ++ NL layer)) <= nval - 1 /\
   exists k m idx c0 up, List.length up = 9%nat /\
     r = (ONormal,
          da_state (Z.of_nat (List.length (A ++ NL layer))) k (Z.of_nat (List.length layer)) m idx
            (Z.of_nat (List.length layer)) (Z.of_nat (List.length (NL layer))) nlayer
            (ov (A ++ NL layer) area0) (layer ++ b1rest) (ov (NL layer) b20) [c0] up))
  \/
  (nval - 1 < Z.of_nat (List.length (A ++ NL layer)) /\
   exists code st', 0 < code /\ r = (ORet (RI code), st') /\ da_any st').

Lemma l_loop n c1 c2 nlayer layer b1rest b20 A k0 m0 idx0 c00 up0 :
  0 <= c1 -> 0 <= c2 ->
  Z.of_nat (List.length b20) = nval ->
  (forall b, In b layer -> valid b) ->
  Z.of_nat (List.length A) <= nval - 1 ->
  List.length up0 = 9%nat ->
  (List.length inlets < n)%nat -> (List.length layer < n)%nat -> (13 < n)%nat ->
  exists r,
    loop n (cond_of N X (ICmp CLt (IVar "l") (IVar "nbuffer1")))
      (for_body (exec N X (exec_fun N X program n) n (s_lbody c1 c2))
                (exec N X (exec_fun N X program n) n s_linc))
      (da_state (Z.of_nat (List.length A)) k0 0 m0 idx0 (Z.of_nat (List.length layer)) 0 nlayer
         (ov A area0) (layer ++ b1rest) b20 [c00] up0) = Ok r
    /\ l_post nlayer layer b1rest b20 A r.
Proof.
  intros Hc1 Hc2 Hb0 Hval HA Hup0 Hn Hnl Hn13.
  assert (Hc9 : List.length codes = 9%nat) by (rewrite Hcodes; reflexivity).
  apply (loop_rule (l_inv nlayer layer b1rest b20 A) (l_post nlayer layer b1rest b20 A)
           (List.length layer)) with (k := O).
  - intros j st (done & todo & k & m & idx & c0 & up & Hp & Hj & Hup & HAle & ->).
    assert (Hlen : List.length layer = (j + List.length todo)%nat)
      by (rewrite Hp, app_length; lia).
    split; [lia|].
    unfold da_state, s_lbody, s_linc. cbn.
    destruct todo as [|b todo].
    + replace (Z.of_nat j <? Z.of_nat (List.length layer)) with false
        by (symmetry; apply Z.ltb_ge; cbn in Hlen; lia).
      cbn. unfold l_post. rewrite app_nil_r in Hp. subst done.
      left. split; [exact HAle|]. exists k, m, idx, c0, up. split; [exact Hup|].
      unfold da_state. rewrite <- Hj. reflexivity.
    + replace (Z.of_nat j <? Z.of_nat (List.length layer)) with true
        by (symmetry; apply Z.ltb_lt; cbn in Hlen; lia).
      assert (Hg : zget (layer ++ b1rest) (Z.of_nat j) = Some b).
      { rewrite Hp, <- app_assoc. apply (zget_app done (todo ++ b1rest) b). lia. }
      assert (Hvb : valid b) by (apply Hval; rewrite Hp; apply in_or_app; right; left; reflexivity).
      cbn. rewrite Hg. cbn.
      do 4 (rewrite ?zlen_ltb0; cbn).
      rewrite (upstream_run1' N X n nrows ncols codes fd b up Hncols Hvb Hc9 Hfd Hup Hn13).
      cbn.
      set (ups := pad9 (upstream_hits_with codes nrows ncols fd b)).
      assert (Hups : List.length ups = 9%nat).
      { subst ups. unfold pad9. rewrite app_length, repeat_length.
        pose proof (hits_length codes nrows ncols fd b). lia. }
      assert (Hkeep : filter keep ups
                      = filter (fun x => negb (is_inlet inlets x)) (upstream_hits nrows ncols fd b))
        by (apply keep_pad9; exact Hvb).
      fold_loop_state n (da_state (Z.of_nat (List.length (A ++ NL done))) 0 (Z.of_nat j) m idx
                           (Z.of_nat (List.length layer)) (Z.of_nat (List.length (NL done))) nlayer
                           (ov (A ++ NL done) area0) (layer ++ b1rest) (ov (NL done) b20) [b] ups).
      destruct (k_loop (exec_fun N X program n) n c1 c2 (Z.of_nat j) (Z.of_nat (List.length layer))
                  nlayer (layer ++ b1rest) b20 [b] ups (A ++ NL done) (NL done) m idx
                  Hc1 Hc2 Harea0 Hb0 Hups) as (r & Hr & HP);
        [rewrite app_length; lia|exact HAle|exact Hn|lia|].
      rewrite Hr.
      assert (Hnl_eq : NL layer = (NL done ++ filter keep ups) ++ NL todo).
      { rewrite Hp. change (b :: todo) with ([b] ++ todo). rewrite app_assoc, NL_app, NL_snoc, Hkeep.
        reflexivity. }
      destruct HP as [(Hle & m' & idx' & ->)|(Hgt & code & st' & Hcode & -> & Hany)].
      * unfold da_state. cbn.
        exists (done ++ [b]), todo, 9, m', idx', b, ups.
        split; [rewrite <- app_assoc; exact Hp|].
        split; [rewrite app_length; cbn; lia|].
        split; [exact Hups|].
        rewrite NL_snoc, <- Hkeep, app_assoc.
        split; [rewrite <- app_assoc in Hle |- *; exact Hle|].
        norm_state. unfold da_state.
        replace (Z.of_nat j + 1) with (Z.of_nat (S j)) by lia.
        rewrite <- !app_assoc. reflexivity.
      * cbn. right. split.
        -- rewrite Hnl_eq. rewrite !app_length in Hgt. rewrite !app_length. lia.
        -- exists code, st'. auto.
  - exists [], layer, k0, m0, idx0, c00, up0.
    split; [reflexivity|]. split; [reflexivity|]. split; [exact Hup0|].
    change (NL []) with (@nil Z). rewrite app_nil_r. split; [exact HA|]. reflexivity.
  - lia.
Qed.

(* ---- the while loop: one iteration per layer ---- *)

Definition s_wbody (c1 c2 c3 : Z) : stmt :=
  SSeq (SSetI "l" (IConst 0))
 (SSeq (SFor (ICmp CLt (IVar "l") (IVar "nbuffer2")) s_linc
          (SStoreI "buffer1" (IVar "l") (IArr "buffer2" (IVar "l"))))
 (SSeq (SSetI "nbuffer1" (IVar "nbuffer2"))
 (SSeq (SSetI "nbuffer2" (IConst 0))
 (SSeq (SSetI "l" (IConst 0))
 (SSeq (SFor (ICmp CLt (IVar "l") (IVar "nbuffer1")) s_linc (s_lbody c1 c2))
 (SSeq (SIf (ICmp CEq (IVar "nbuffer2") (IConst 0)) (SRetI (IConst 0)) SSkip)
 (SSeq (SIf (ICmp CEq (IVar "nlayer") (IConst 0))
          (SSeq (SIf (ICmp CEq (IVar "i") (IBin ISub (IVar "nval") (IConst 1)))
                   (SRetI (IBin IAdd (IConst 60000) (IConst c3))) SSkip)
             (SSeq (SStoreI "idxcells_area" (IVar "i") (IVar "idxoutlet"))
                (SSetI "i" (IBin IAdd (IVar "i") (IConst 1)))))
          SSkip)
       (SSetI "nlayer" (IBin IAdd (IVar "nlayer") (IConst 1)))))))))).

Definition w_inv (R : dres (list Z)) (BF : list Z * list Z) (k : nat) (st : state T) : Prop :=
  exists f layer A kk l m idx nb1 b1 b2rest c0 up,
    st = da_state (Z.of_nat (List.length A)) kk l m idx nb1 (Z.of_nat (List.length layer))
           (Z.of_nat k) (ov A area0) b1 (layer ++ b2rest) [c0] up /\
    Z.of_nat (List.length b1) = nval /\ Z.of_nat (List.length (layer ++ b2rest)) = nval /\
    List.length up = 9%nat /\ (forall b, In b layer -> valid b) /\
    (k <= List.length A)%nat /\ Z.of_nat (List.length A) <= nval - 1 /\
    area_loop f nrows ncols fd inlets outlet nval (Nat.eqb k 0) layer A = R /\
    buf_loop f layer b1 (layer ++ b2rest) = BF.

Definition w_post (R : dres (list Z)) (BF : list Z * list Z) (r : outcome T * state T) : Prop :=
  match R with
  | DOk res =>
      exists kk l m idx nb1 nb2 nlayer c0 up,
        r = (ORet (RI 0), da_state (Z.of_nat (List.length res)) kk l m idx nb1 nb2 nlayer
                            (ov res area0) (fst BF) (snd BF) [c0] up)
  | DErr => exists code st', 0 < code /\ r = (ORet (RI code), st') /\ da_any st'
  | DFuel => False
  end.

Lemma w_loop n c1 c2 c3 R BF st0 :
  0 <= c1 -> 0 <= c2 -> 0 <= c3 -> R <> DFuel ->
  w_inv R BF 0 st0 ->
  (List.length inlets < n)%nat -> (Z.to_nat nval < n)%nat -> (13 < n)%nat ->
  exists r,
    loop n (cond_of N X (ICmp CGe (IVar "nlayer") (IConst 0)))
      (exec N X (exec_fun N X program n) n (s_wbody c1 c2 c3)) st0 = Ok r
    /\ w_post R BF r.
Proof.
  intros Hc1 Hc2 Hc3 HR Hst0 Hn Hnv Hn13.
  apply (loop_rule (w_inv R BF) (w_post R BF) (Z.to_nat nval)) with (k := O); [|exact Hst0|lia].
  intros k st (f & layer & A & kk & l & m & idx & nb1 & b1 & b2rest & c0 & up &
               -> & Hb1 & Hb2 & Hup & Hval & HkA & HA & Hmodel & Hbuf).
  split; [lia|].
  destruct f as [|f]; [cbn in Hmodel; congruence|].
  cbn [area_loop] in Hmodel. unfold Catchment.zlen in Hmodel. cbn [buf_loop] in Hbuf.
  assert (Hll : (List.length layer <= List.length b1)%nat) by (rewrite app_length in Hb2; lia).
  unfold da_state, s_wbody. cbn.
  replace (0 <=? Z.of_nat k) with true by (symmetry; apply Z.leb_le; lia).
  cbn.
  fold_loop_state n (da_state (Z.of_nat (List.length A)) kk 0 m idx nb1 (Z.of_nat (List.length layer))
                       (Z.of_nat k) (ov A area0) b1 (layer ++ b2rest) [c0] up).
  rewrite (copy_loop (exec_fun N X program n) n) by (try exact Hll; rewrite app_length in Hb2; lia).
  unfold da_state. cbn.
  fold_loop_state n (da_state (Z.of_nat (List.length A)) kk 0 m idx (Z.of_nat (List.length layer)) 0
                       (Z.of_nat k) (ov A area0) (layer ++ skipn (List.length layer) b1)
                       (layer ++ b2rest) [c0] up).
  destruct (l_loop n c1 c2 (Z.of_nat k) layer (skipn (List.length layer) b1) (layer ++ b2rest) A
              kk m idx c0 up Hc1 Hc2 Hb2 Hval HA Hup Hn) as (r & Hr & HP);
    [rewrite app_length in Hb2; lia|exact Hn13|].
  rewrite Hr.
  assert (Hlenapp : Z.of_nat (List.length (A ++ NL layer))
                    = Z.of_nat (List.length A) + Z.of_nat (List.length (NL layer)))
    by (rewrite app_length; lia).
  destruct HP as [(Hle & k' & m' & idx' & c0' & up' & Hup' & ->)|(Hgt & code & st' & Hcode & -> & Hany)].
  2:{ (* the area buffer is exhausted inside the layer *)
      replace (nval <=? Z.of_nat (List.length A) + Z.of_nat (List.length (NL layer))) with true in Hmodel
        by (symmetry; apply Z.leb_le; lia).
      subst R. cbn. exists code, st'. auto. }
  replace (nval <=? Z.of_nat (List.length A) + Z.of_nat (List.length (NL layer))) with false in Hmodel
    by (symmetry; apply Z.leb_gt; lia).
  assert (Hvn : forall b, In b (NL layer) -> valid b) by (intros b Hb; apply (NL_valid layer b Hval Hb)).
  assert (Hb1' : Z.of_nat (List.length (layer ++ skipn (List.length layer) b1)) = nval)
    by (rewrite app_length, skipn_length; lia).
  destruct (NL layer) as [|x nxt] eqn:ENL.
  - (* nothing upstream of this layer: return 0 *)
    subst R BF. change (List.length (@nil Z)) with 0%nat. change (Z.of_nat 0) with 0.
    unfold da_state. cbn.
    exists k', (Z.of_nat (List.length layer)), m', idx', (Z.of_nat (List.length layer)), 0,
      (Z.of_nat k), c0', up'.
    reflexivity.
  - remember (x :: nxt) as nl eqn:Enl.
    assert (Hnlpos : (0 < List.length nl)%nat) by (rewrite Enl; cbn; lia).
    clear Enl.
    assert (Hb2' : Z.of_nat (List.length (nl ++ skipn (List.length nl) (layer ++ b2rest))) = nval)
      by (rewrite app_length, skipn_length; lia).
    assert (Hnl0 : (Z.of_nat (List.length nl) =? 0) = false) by (apply Z.eqb_neq; lia).
    assert (Hm2 : (if (k =? 0)%nat
                   then if Z.of_nat (List.length (A ++ nl)) =? nval - 1 then DErr
                        else area_loop f nrows ncols fd inlets outlet nval false nl ((A ++ nl) ++ [outlet])
                   else area_loop f nrows ncols fd inlets outlet nval false nl (A ++ nl)) = R)
      by exact Hmodel.
    clear Hmodel.
    destruct k as [|k0].
    + (* first layer: the outlet is added *)
      change (Z.of_nat 0) with 0. cbn [Nat.eqb] in Hm2.
      unfold da_state. cbn. rewrite truth_b2z, Hnl0. cbn. rewrite truth_b2z.
      destruct (Z.of_nat (List.length (A ++ nl)) =? nval - 1) eqn:Hfull; cbn.
      * subst R. cbn. exists (60000 + c3). eexists. split; [lia|]. split; [reflexivity|].
        unfold da_any, da_state. repeat eexists.
      * apply Z.eqb_neq in Hfull.
        destruct (ov_split (A ++ nl) area0) as (y & Ey); [lia|].
        rewrite Ey. rewrite (zset_app (A ++ nl)) by reflexivity. cbn.
        exists f, nl, ((A ++ nl) ++ [outlet]), k', (Z.of_nat (List.length layer)), m', idx',
          (Z.of_nat (List.length layer)), (layer ++ skipn (List.length layer) b1),
          (skipn (List.length nl) (layer ++ b2rest)), c0', up'.
        split.
        { norm_state. unfold da_state. rewrite ov_snoc, (app_length (A ++ nl) [outlet]).
          cbn [List.length].
          replace (Z.of_nat (List.length (A ++ nl)) + 1)
            with (Z.of_nat (List.length (A ++ nl) + 1)) by lia.
          reflexivity. }
        split; [exact Hb1'|]. split; [exact Hb2'|]. split; [exact Hup'|]. split; [exact Hvn|].
        split; [rewrite !app_length; cbn; lia|].
        split; [rewrite (app_length (A ++ nl)); cbn [List.length]; lia|].
        split; [exact Hm2|exact Hbuf].
    + cbn [Nat.eqb] in Hm2.
      unfold da_state. cbn. rewrite truth_b2z, Hnl0. cbn.
      replace (Z.of_nat (S k0) =? 0) with false by (symmetry; apply Z.eqb_neq; lia).
      cbn.
      exists f, nl, (A ++ nl), k', (Z.of_nat (List.length layer)), m', idx',
        (Z.of_nat (List.length layer)), (layer ++ skipn (List.length layer) b1),
        (skipn (List.length nl) (layer ++ b2rest)), c0', up'.
      split.
      { norm_state. unfold da_state.
        replace (Z.of_nat (S k0) + 1) with (Z.of_nat (S (S k0))) by lia. reflexivity. }
      split; [exact Hb1'|]. split; [exact Hb2'|]. split; [exact Hup'|]. split; [exact Hvn|].
      split; [rewrite app_length; lia|]. split; [exact Hle|]. split; [exact Hm2|exact Hbuf].
Qed.

(* ---- the kernel ---- *)

Definition da_args (b10 b20 : list Z) : list (argval T) :=
  [AVI nrows; AVI ncols; AVArrI codes; AVArrI fd; AVI outlet;
   AVI (Z.of_nat (List.length inlets)); AVArrI inlets; AVI nval;
   AVArrI area0; AVArrI b10; AVArrI b20].

(* final contents of the scratch buffers of a successful run *)
Definition area_bufs (b10 b20 : list Z) : list Z * list Z :=
  buf_loop (S (Z.to_nat nval)) [outlet] b10 (ov [outlet] b20).

#[local] Arguments buf_loop : simpl never.
#[local] Arguments area_bufs : simpl never.

(* the inputs rejected before anything is written *)
Definition da_rejected : bool :=
  (nval <? 1) || negb (valid_cell nrows ncols outlet)
  || negb (forallb (valid_cell nrows ncols) inlets).

Definition da_spec (b10 b20 : list Z) (ret : retval T) (a b1 b2 : list Z) : Prop :=
  match delineate_area nrows ncols fd outlet inlets nval with
  | DOk res => ret = RI 0 /\ a = res ++ skipn (List.length res) area0 /\
               (b1, b2) = area_bufs b10 b20
  | DErr => exists code, 0 < code /\ ret = RI code /\
               (da_rejected = true -> a = area0 /\ b1 = b10 /\ b2 = b20)
  | DFuel => False
  end.

Lemma da_exec n b10 b20 :
  List.length b10 = List.length area0 -> List.length b20 = List.length area0 ->
  (List.length inlets < n)%nat -> (List.length area0 < n)%nat -> (13 < n)%nat ->
  exists ret a b1 b2,
    exec_fun N X program (S n) "c_delineate_area" (da_args b10 b20)
    = Ok (ret, [VArrI codes; VArrI fd; VArrI inlets; VArrI a; VArrI b1; VArrI b2])
    /\ da_spec b10 b20 ret a b1 b2.
Proof.
  intros Hl1 Hl2 Hn Hna Hn13.
  unfold da_spec, da_rejected.
  remember (delineate_area nrows ncols fd outlet inlets nval) as D eqn:ED.
  revert ED. revert D. intros D ED.
  unfold delineate_area in ED. unfold da_args.
  unfold_exec_fun. norm_state.
  do 10 step.
  (* if(nval<1) return ERROR *)
  rewrite (exec_seq_ifret N X _ n _ _ _ _ (b2z (nval <? 1))) by reflexivity.
  rewrite truth_b2z.
  destruct (nval <? 1) eqn:Env.
  { subst D. cbn. eexists. exists area0, b10, b20. split; [reflexivity|].
    eexists. split; [|split; [reflexivity|auto]]. lia. }
  (* if(idxoutlet<0 || idxoutlet>nrows*ncols-1) return ERROR *)
  rewrite (exec_seq_ifret N X _ n _ _ _ _ (b2z ((outlet <? 0) || (nrows * ncols - 1 <? outlet))))
    by (cbn; rewrite ?truth_b2z, ?b2z_truth_b2z, ?or_ok; reflexivity).
  rewrite truth_b2z.
  rewrite (valid_cell_c outlet) in ED.
  destruct ((outlet <? 0) || (nrows * ncols - 1 <? outlet)) eqn:Eo; cbn [negb] in ED.
  { subst D. cbn. eexists. exists area0, b10, b20. split; [reflexivity|].
    eexists. split; [|split; [reflexivity|auto]]. lia. }
  remember (area_loop (S (Z.to_nat nval)) nrows ncols fd inlets outlet nval true [outlet] []) as R eqn:ER.
  revert ED ER. revert R. intros R ED ER.
  assert (HR : R <> DFuel).
  { rewrite ER. apply Z.ltb_ge in Env.
    apply loop_fuel; unfold Catchment.zlen; cbn [List.length]; lia. }
  (* the inlets *)
  step.
  rewrite exec_seq_for.
  fold_loop_state n (da_state 0 0 0 0 0 0 0 0 area0 b10 b20 [0] [0;0;0;0;0;0;0;0;0]).
  match goal with
  | |- context[loop n ?c ?b ?s] =>
      assert (HL : exists r, loop n c b s = Ok r /\
                             chk_post area0 b10 b20 [0] [0;0;0;0;0;0;0;0;0] r)
  end.
  { eapply chk_loop; [lia|exact Hn]. }
  destruct HL as (r & Hr & [(Hall & ->)|(Hall & code & mm & Hcode & ->)]);
    rewrite Hr; rewrite Hall in ED; cbn [negb] in ED; cbv beta iota.
  2:{ subst D. cbn. exists (RI code), area0, b10, b20. split; [reflexivity|].
      exists code. split; [exact Hcode|split; [reflexivity|auto]]. }
  (* all the inputs are valid: buffer2[0] = idxoutlet, then the while loop *)
  destruct b20 as [|y b2r]; [cbn in Hl2; apply Z.ltb_ge in Env; lia|].
  unfold da_state.
  do 4 step.
  rewrite exec_seq_while.
  match goal with
  | |- context[loop n ?c ?b ?s] =>
      assert (HL : exists r, loop n c b s = Ok r /\ w_post R (area_bufs b10 (y :: b2r)) r)
  end.
  { apply Z.ltb_ge in Env.
    eapply w_loop; try exact HR; try exact Hn; try exact Hn13; try lia.
    exists (S (Z.to_nat nval)), [outlet], [], 0, 0, (Z.of_nat (List.length inlets)), 0, 0, b10, b2r, 0,
      [0;0;0;0;0;0;0;0;0].
    split; [reflexivity|].
    split; [lia|]. split; [cbn [app List.length] in Hl2 |- *; lia|]. split; [reflexivity|].
    split.
    { intros b [<-|[]]. apply orb_false_iff in Eo. destruct Eo as [E1 E2].
      apply Z.ltb_ge in E1, E2. lia. }
    split; [cbn; lia|]. split; [cbn [List.length]; lia|]. split; [symmetry; exact ER|reflexivity]. }
  destruct HL as (r2 & Hr2 & HP). rewrite Hr2.
  subst D. clear ER.
  destruct R as [| |res]; cbn in HP.
  - destruct HP as (code & st' & Hcode & -> & Hany).
    destruct Hany as (i & k & l & m & idx & nb1 & nb2 & nlayer & a & b1 & b2 & cell & up & ->).
    cbn. exists (RI code), a, b1, b2. split; [reflexivity|]. exists code.
    split; [exact Hcode|]. split; [reflexivity|].
    rewrite Hall, (valid_cell_c outlet), Eo. cbn. discriminate.
  - contradiction.
  - destruct HP as (kk & l & m & idx & nb1 & nb2 & nlayer & c0 & up & ->).
    cbn. exists (RI 0), (ov res area0), (fst (area_bufs b10 (y :: b2r))), (snd (area_bufs b10 (y :: b2r))).
    split; [reflexivity|]. split; [reflexivity|]. split; [reflexivity|].
    symmetry. apply surjective_pairing.
Qed.

End Area.

(* ================================================================== *)
(* c_delineate_area = Model/Catchment.delineate_area, for all inputs    *)
(* ================================================================== *)

Section Main.
Context {T : Type} (N : NumOps T) (X : NumLit T).

(* the call made by the Cython wrapper: nrows, ncols = flowdir.shape, ninlets and nval are the
   lengths of idxinlets and idxcells_area, the table is FLOWDIRCODE *)
Definition da_call (n : nat) (nrows ncols : Z) (fd : list Z) (outlet : Z) (inlets area0 b10 b20 : list Z)
  : result (retval T * list (arrval T)) :=
  exec_fun N X program (S n) "c_delineate_area"
    [AVI nrows; AVI ncols; AVArrI FLOWDIRCODE; AVArrI fd; AVI outlet;
     AVI (Z.of_nat (List.length inlets)); AVArrI inlets;
     AVI (Z.of_nat (List.length area0)); AVArrI area0; AVArrI b10; AVArrI b20].

(* For every grid shape, every content of flowdir, every outlet and inlets (valid or not), every
   initial content of the three work arrays of equal lengths (nval = 0 included):
   - the model returns DOk res: the kernel returns 0, idxcells_area holds res followed by the
     untouched tail, buffer1/buffer2 hold [area_bufs];
   - the model returns DErr: the kernel returns a positive code; the arrays are untouched when the
     input is rejected by the initial checks (existential otherwise);
   - the model never runs out of fuel.
   No interpreter error (out-of-bounds access, ...) for any such input. *)
Theorem refine_c_delineate_area nrows ncols fd outlet inlets area0 b10 b20 n :
  0 <= ncols ->
  Z.of_nat (List.length fd) = nrows * ncols ->
  List.length b10 = List.length area0 -> List.length b20 = List.length area0 ->
  (List.length inlets < n)%nat -> (List.length area0 < n)%nat -> (13 < n)%nat ->
  match delineate_area nrows ncols fd outlet inlets (Z.of_nat (List.length area0)) with
  | DOk res =>
      da_call n nrows ncols fd outlet inlets area0 b10 b20
      = Ok (RI 0, [VArrI FLOWDIRCODE; VArrI fd; VArrI inlets;
                   VArrI (res ++ skipn (List.length res) area0);
                   VArrI (fst (area_bufs nrows ncols outlet (Z.of_nat (List.length area0)) fd inlets b10 b20));
                   VArrI (snd (area_bufs nrows ncols outlet (Z.of_nat (List.length area0)) fd inlets b10 b20))])
  | DErr =>
      exists code a b1 b2, 0 < code /\
        da_call n nrows ncols fd outlet inlets area0 b10 b20
        = Ok (RI code, [VArrI FLOWDIRCODE; VArrI fd; VArrI inlets; VArrI a; VArrI b1; VArrI b2]) /\
        (da_rejected nrows ncols outlet (Z.of_nat (List.length area0)) inlets = true ->
         a = area0 /\ b1 = b10 /\ b2 = b20)
  | DFuel => False
  end.
Proof.
  intros Hnc Hfd Hl1 Hl2 Hn Hna Hn13.
  destruct (da_exec N X nrows ncols outlet (Z.of_nat (List.length area0)) FLOWDIRCODE fd inlets area0
              eq_refl Hnc Hfd eq_refl n b10 b20 Hl1 Hl2 Hn Hna Hn13)
    as (ret & a & b1 & b2 & Hrun & Hspec).
  unfold da_spec in Hspec. unfold da_call. unfold da_args in Hrun.
  destruct (delineate_area nrows ncols fd outlet inlets (Z.of_nat (List.length area0))) as [| |res].
  - destruct Hspec as (code & Hcode & -> & Hrej). exists code, a, b1, b2. auto.
  - exact Hspec.
  - destruct Hspec as (-> & -> & Hb). rewrite Hrun, <- Hb. reflexivity.
Qed.

Corollary refine_c_delineate_area_ok nrows ncols fd outlet inlets area0 b10 b20 n res :
  0 <= ncols ->
  Z.of_nat (List.length fd) = nrows * ncols ->
  List.length b10 = List.length area0 -> List.length b20 = List.length area0 ->
  (List.length inlets < n)%nat -> (List.length area0 < n)%nat -> (13 < n)%nat ->
  delineate_area nrows ncols fd outlet inlets (Z.of_nat (List.length area0)) = DOk res ->
  da_call n nrows ncols fd outlet inlets area0 b10 b20
  = Ok (RI 0, [VArrI FLOWDIRCODE; VArrI fd; VArrI inlets;
               VArrI (res ++ skipn (List.length res) area0);
               VArrI (fst (area_bufs nrows ncols outlet (Z.of_nat (List.length area0)) fd inlets b10 b20));
               VArrI (snd (area_bufs nrows ncols outlet (Z.of_nat (List.length area0)) fd inlets b10 b20))]).
Proof.
  intros Hnc Hfd Hl1 Hl2 Hn Hna Hn13 HD.
  pose proof (refine_c_delineate_area nrows ncols fd outlet inlets area0 b10 b20 n
                Hnc Hfd Hl1 Hl2 Hn Hna Hn13) as H.
  rewrite HD in H. exact H.
Qed.

Corollary refine_c_delineate_area_err nrows ncols fd outlet inlets area0 b10 b20 n :
  0 <= ncols ->
  Z.of_nat (List.length fd) = nrows * ncols ->
  List.length b10 = List.length area0 -> List.length b20 = List.length area0 ->
  (List.length inlets < n)%nat -> (List.length area0 < n)%nat -> (13 < n)%nat ->
  delineate_area nrows ncols fd outlet inlets (Z.of_nat (List.length area0)) = DErr ->
  exists code a b1 b2, 0 < code /\
    da_call n nrows ncols fd outlet inlets area0 b10 b20
    = Ok (RI code, [VArrI FLOWDIRCODE; VArrI fd; VArrI inlets; VArrI a; VArrI b1; VArrI b2]) /\
    (da_rejected nrows ncols outlet (Z.of_nat (List.length area0)) inlets = true ->
     a = area0 /\ b1 = b10 /\ b2 = b20).
Proof.
  intros Hnc Hfd Hl1 Hl2 Hn Hna Hn13 HD.
  pose proof (refine_c_delineate_area nrows ncols fd outlet inlets area0 b10 b20 n
                Hnc Hfd Hl1 Hl2 Hn Hna Hn13) as H.
  rewrite HD in H. exact H.
Qed.

(* invalid buffer size / outlet / inlet: a positive code, nothing written *)
Corollary refine_c_delineate_area_rejected nrows ncols fd outlet inlets area0 b10 b20 n :
  0 <= ncols ->
  Z.of_nat (List.length fd) = nrows * ncols ->
  List.length b10 = List.length area0 -> List.length b20 = List.length area0 ->
  (List.length inlets < n)%nat -> (List.length area0 < n)%nat -> (13 < n)%nat ->
  da_rejected nrows ncols outlet (Z.of_nat (List.length area0)) inlets = true ->
  exists code, 0 < code /\
    da_call n nrows ncols fd outlet inlets area0 b10 b20
    = Ok (RI code, [VArrI FLOWDIRCODE; VArrI fd; VArrI inlets; VArrI area0; VArrI b10; VArrI b20]).
Proof.
  intros Hnc Hfd Hl1 Hl2 Hn Hna Hn13 Hrej.
  assert (HD : delineate_area nrows ncols fd outlet inlets (Z.of_nat (List.length area0)) = DErr).
  { unfold da_rejected in Hrej. unfold delineate_area.
    destruct (Z.of_nat (List.length area0) <? 1); [reflexivity|].
    destruct (negb (valid_cell nrows ncols outlet)); [reflexivity|].
    destruct (negb (forallb (valid_cell nrows ncols) inlets)); [reflexivity|discriminate]. }
  destruct (refine_c_delineate_area_err nrows ncols fd outlet inlets area0 b10 b20 n
              Hnc Hfd Hl1 Hl2 Hn Hna Hn13 HD) as (code & a & b1 & b2 & Hcode & Hrun & Hsame).
  destruct (Hsame Hrej) as (-> & -> & ->). exists code. auto.
Qed.

End Main.

(* ---- sanity: the theorem is not vacuous and agrees with a direct run (binary64 instance) ---- *)
Example refine_area_example_model :
  delineate_area 2 2 [2; 4; 1; 0] 3 [] 6 = DOk [0; 1; 2; 3].
Proof. vm_compute. reflexivity. Qed.

Example refine_area_example_run :
  da_call F64 XF64 40 2 2 [2; 4; 1; 0] 3 [] [7; 7; 7; 7; 7; 7] [8; 8; 8; 8; 8; 8] [9; 9; 9; 9; 9; 9]
  = Ok (RI 0, [VArrI FLOWDIRCODE; VArrI [2; 4; 1; 0]; VArrI [];
               VArrI ([0; 1; 2; 3] ++ [7; 7]);
               VArrI (fst (area_bufs 2 2 3 6 [2; 4; 1; 0] [] [8; 8; 8; 8; 8; 8] [9; 9; 9; 9; 9; 9]));
               VArrI (snd (area_bufs 2 2 3 6 [2; 4; 1; 0] [] [8; 8; 8; 8; 8; 8] [9; 9; 9; 9; 9; 9]))]).
Proof. vm_compute. reflexivity. Qed.

Example refine_area_example_err :
  exists code, 0 < code /\
  da_call F64 XF64 40 2 2 [2; 4; 1; 0] 3 [] [7; 7; 7] [8; 8; 8] [9; 9; 9]
  = Ok (RI code, [VArrI FLOWDIRCODE; VArrI [2; 4; 1; 0]; VArrI [];
               VArrI [0; 1; 7]; VArrI [3; 8; 8]; VArrI [0; 1; 9]])
  /\ delineate_area 2 2 [2; 4; 1; 0] 3 [] 3 = DErr.
Proof. eexists. split; [|split; vm_compute; reflexivity]. reflexivity. Qed.

Print Assumptions refine_c_delineate_area.
