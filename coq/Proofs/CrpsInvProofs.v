(* C03, part 4: invariances of the whole output (5 numbers and the table) over
   the reals: order of the members, order of the forecasts, common shift,
   positive scaling. *)
From Coq Require Import ZArith Bool List Reals Lra Lia Permutation Sorted.
From Hy Require Import Base.Num Gen.ConstsC03 Model.Crps
  Proofs.CrpsSort Proofs.CrpsProofs Proofs.CrpsDefProofs.
Import ListNotations.
Open Scope R_scope.

(* ---------- well-formedness is preserved ---------- *)
Lemma wfrows_map (f : rrow -> rrow) m rows :
  (forall r, length (snd (f r)) = length (snd r)) ->
  wfrows m rows -> wfrows m (map f rows).
Proof.
  intros Hf (Hm & Hne & Hlen). split; [exact Hm|]. split.
  - destruct rows; [congruence | discriminate].
  - rewrite Forall_map. eapply Forall_impl; [|exact Hlen]. intros r Hr. rewrite Hf; exact Hr.
Qed.

Lemma wfrows_perm m rows rows' : Permutation rows rows' -> wfrows m rows -> wfrows m rows'.
Proof.
  intros P (Hm & Hne & Hlen). split; [exact Hm|]. split.
  - intros ->. apply Permutation_sym, Permutation_nil in P. congruence.
  - eapply Permutation_Forall; eauto.
Qed.

Lemma wfrows_members m rows r : wfrows m rows -> In r rows -> snd r <> [].
Proof.
  intros (Hm & _ & Hlen) Hin E. rewrite Forall_forall in Hlen.
  specialize (Hlen r Hin). rewrite E in Hlen. simpl in Hlen. lia.
Qed.

(* ---------- order of the members ---------- *)
Definition same_members (r r' : rrow) : Prop :=
  fst r = fst r' /\ Permutation (snd r) (snd r').

Lemma crps_member_order c m rows rows' :
  wfrows m rows -> Forall2 same_members rows rows' ->
  crps_gen RR c rows = crps_gen RR c rows'.
Proof.
  intros Hwf H2.
  assert (Hwf' : wfrows m rows').
  { destruct Hwf as (Hm & Hne & Hlen). split; [exact Hm|]. split.
    - intros ->. inversion H2; subst. congruence.
    - clear Hne. induction H2 as [|r r' rows rows' (_ & P) _ IH]; [constructor|].
      inversion Hlen; subst. constructor; [|apply IH; auto].
      rewrite <- (Permutation_length P); auto. }
  rewrite (crps_RR_eq c m rows Hwf), (crps_RR_eq c m rows' Hwf').
  assert (Hs : sortrows rows = sortrows rows').
  { clear Hwf Hwf'. induction H2 as [|r r' rows rows' (E & P) _ IH]; [reflexivity|].
    simpl. rewrite IH, E, (sort_perm_eq _ _ P). reflexivity. }
  assert (Hy : map fst rows = map fst rows').
  { clear Hwf Hwf' Hs. induction H2 as [|r r' rows rows' (E & P) _ IH]; [reflexivity|].
    simpl. rewrite IH, E. reflexivity. }
  assert (Hn : length rows = length rows').
  { clear Hwf Hwf' Hs Hy. induction H2; simpl; auto. }
  unfold kstate, kunc, wgt. rewrite Hs, Hy, Hn. reflexivity.
Qed.

(* ---------- order of the forecasts ---------- *)
Lemma fold_left_perm_comm {A B} (f : A -> B -> A) :
  (forall s a b, f (f s a) b = f (f s b) a) ->
  forall l l', Permutation l l' -> forall s, fold_left f l s = fold_left f l' s.
Proof.
  intros Hc l l' P; induction P; intros s; simpl; auto.
  - rewrite Hc. reflexivity.
  - rewrite IHP1. apply IHP2.
Qed.

Lemma bin_upd_comm y1 y2 w a1 b1 a2 b2 p :
  bin_upd RR y2 w a2 b2 (bin_upd RR y1 w a1 b1 p) =
  bin_upd RR y1 w a1 b1 (bin_upd RR y2 w a2 b2 p).
Proof. rewrite !bin_upd_RR. cbn [fst snd]. f_equal; ring. Qed.

Lemma bins_upd_nil {T} (N : NumOps T) y w e : bins_upd N y w e [] = [].
Proof. destruct e as [|x [|x' e]]; reflexivity. Qed.

Lemma bins_upd_comm y1 y2 w e1 e2 ab :
  bins_upd RR y2 w e2 (bins_upd RR y1 w e1 ab) =
  bins_upd RR y1 w e1 (bins_upd RR y2 w e2 ab).
Proof.
  revert e1 e2; induction ab as [|p ab IH]; intros e1 e2.
  - rewrite !bins_upd_nil. reflexivity.
  - destruct e1 as [|x1 [|x1' e1]]; try reflexivity;
    destruct e2 as [|x2 [|x2' e2]]; try reflexivity.
    rewrite !bins_upd_cons, bin_upd_comm, IH. reflexivity.
Qed.

Lemma row_step_comm w s r1 r2 :
  row_step RR w (row_step RR w s r1) r2 = row_step RR w (row_step RR w s r2) r1.
Proof.
  unfold row_step; cbn [ac_ab ac_b0 ac_aN ac_o0 ac_oN RR nadd nsub nmul nleb nltb n0].
  f_equal.
  - apply bins_upd_comm.
  - destruct (Rltb (fst r1) (hd 0 (snd r1))), (Rltb (fst r2) (hd 0 (snd r2))); ring.
  - destruct (Rleb (last (snd r1) 0) (fst r1)), (Rleb (last (snd r2) 0) (fst r2)); ring.
  - destruct (Rltb (fst r1) (hd 0 (snd r1))), (Rltb (fst r2) (hd 0 (snd r2))); ring.
  - destruct (Rltb (fst r1) (last (snd r1) 0)), (Rltb (fst r2) (last (snd r2) 0)); ring.
Qed.

Lemma pairabs_perm l l' : Permutation l l' -> pairabs l = pairabs l'.
Proof.
  intros P. assert (H : 2 * pairabs l = 2 * pairabs l')
    by (rewrite <- !dsum_pairabs; apply dsum_perm; auto). lra.
Qed.

Lemma crps_forecast_order c m rows rows' :
  wfrows m rows -> Permutation rows rows' ->
  crps_gen RR c rows = crps_gen RR c rows'.
Proof.
  intros Hwf P.
  rewrite (crps_RR_eq c m rows Hwf), (crps_RR_eq c m rows' (wfrows_perm _ _ _ P Hwf)).
  assert (Hn : wgt rows = wgt rows') by (unfold wgt; rewrite (Permutation_length P); reflexivity).
  f_equal. f_equal.
  - unfold kstate. rewrite Hn. apply fold_left_perm_comm; [intros; apply row_step_comm|].
    unfold sortrows. apply Permutation_map, P.
  - rewrite !kunc_eq, Hn. f_equal. apply pairabs_perm, Permutation_map, P.
Qed.

(* ---------- a step depends on the forecast only through ... ---------- *)
Lemma fold_left_ext_in {A B} (f g : A -> B -> A) l :
  (forall s x, In x l -> f s x = g s x) -> forall s, fold_left f l s = fold_left g l s.
Proof.
  induction l as [|x l IH]; intros H s; [reflexivity|].
  simpl. rewrite H by (left; auto). apply IH. intros; apply H; right; auto.
Qed.

Lemma fold_left_map {A B C} (f : A -> B -> A) (g : C -> B) l s :
  fold_left f (map g l) s = fold_left (fun s x => f s (g x)) l s.
Proof. revert s; induction l as [|x l IH]; intros s; [reflexivity | simpl; apply IH]. Qed.

Lemma hd_map_ne (f : R -> R) e : e <> [] -> hd 0 (map f e) = f (hd 0 e).
Proof. destruct e; [congruence | reflexivity]. Qed.

Lemma last_map_ne (f : R -> R) e : e <> [] -> last (map f e) 0 = f (last e 0).
Proof.
  induction e as [|x e IH]; [congruence|]. intros _.
  destruct e as [|x' e]; [reflexivity|].
  change (last (map f (x :: x' :: e)) 0) with (last (map f (x' :: e)) 0).
  change (last (x :: x' :: e) 0) with (last (x' :: e) 0). apply IH. congruence.
Qed.

(* ---------- common shift ---------- *)
Definition shiftrow (d : R) (r : rrow) : rrow := (fst r + d, map (fun x => x + d) (snd r)).
Definition shiftrows (d : R) (rows : list rrow) : list rrow := map (shiftrow d) rows.

Lemma dab_shift d y x1 x2 :
  da (y + d) (x1 + d) (x2 + d) = da y x1 x2 /\ db (y + d) (x1 + d) (x2 + d) = db y x1 x2.
Proof.
  unfold da, db. rewrite !Rleb_shift, !Rltb_shift.
  destruct (Rleb x2 y), (Rleb y x1), (Rltb x1 y && Rltb y x2)%bool; split; ring.
Qed.

Lemma bins_upd_shift d y w e ab :
  bins_upd RR (y + d) w (map (fun x => x + d) e) ab = bins_upd RR y w e ab.
Proof.
  revert ab; induction e as [|x1 e IH]; intros ab; [reflexivity|].
  destruct e as [|x2 e]; [reflexivity|]. destruct ab as [|p ab]; [reflexivity|].
  cbn [map]. rewrite !bins_upd_cons, !bin_upd_RR.
  destruct (dab_shift d y x1 x2) as [-> ->]. f_equal. apply IH.
Qed.

Lemma row_step_shift d w s r :
  snd r <> [] -> row_step RR w s (shiftrow d r) = row_step RR w s r.
Proof.
  intros Hne. destruct r as [y e]. unfold shiftrow, row_step; cbn [fst snd] in *.
  cbn [RR nadd nsub nmul nleb nltb n0].
  rewrite (hd_map_ne (fun x => x + d)), (last_map_ne (fun x => x + d)) by exact Hne.
  rewrite bins_upd_shift, !Rltb_shift, !Rleb_shift.
  f_equal.
  - destruct (Rltb y (hd 0 e)); [f_equal; ring | reflexivity].
  - destruct (Rleb (last e 0) y); [f_equal; ring | reflexivity].
Qed.

Lemma sortrows_shift d rows : sortrows (shiftrows d rows) = shiftrows d (sortrows rows).
Proof.
  unfold sortrows, shiftrows. rewrite !map_map. apply map_ext. intros [y e].
  unfold shiftrow; cbn [fst snd]. rewrite sort_map; [reflexivity|]. intros; apply Rleb_shift.
Qed.

Lemma pairabs_shift d l : pairabs (map (fun x => x + d) l) = pairabs l.
Proof.
  induction l as [|y l IH]; [reflexivity|]. cbn [map pairabs]. rewrite IH, map_map.
  f_equal. apply Rsum_map_ext. intros x _. f_equal. ring.
Qed.

Lemma crps_shift c m rows d :
  wfrows m rows -> crps_gen RR c (shiftrows d rows) = crps_gen RR c rows.
Proof.
  intros Hwf.
  assert (Hwf' : wfrows m (shiftrows d rows))
    by (apply wfrows_map; [intros; apply map_length | exact Hwf]).
  rewrite (crps_RR_eq c m _ Hwf'), (crps_RR_eq c m rows Hwf).
  assert (Hn : wgt (shiftrows d rows) = wgt rows) by (unfold wgt, shiftrows; rewrite map_length; reflexivity).
  f_equal. f_equal.
  - unfold kstate. rewrite Hn, sortrows_shift. unfold shiftrows. rewrite fold_left_map.
    apply fold_left_ext_in. intros s r Hin. apply row_step_shift.
    unfold sortrows in Hin. apply in_map_iff in Hin. destruct Hin as (r0 & <- & Hin0). cbn [snd].
    intros E. apply (wfrows_members m rows r0 Hwf Hin0).
    apply Permutation_nil. rewrite <- E. apply sort_perm.
  - rewrite !kunc_eq, Hn. f_equal. unfold shiftrows. rewrite map_map. cbn [shiftrow fst].
    rewrite <- (pairabs_shift d (map fst rows)), map_map. reflexivity.
Qed.

(* ---------- positive scaling ---------- *)
Definition scalerow (k : R) (r : rrow) : rrow := (k * fst r, map (fun x => k * x) (snd r)).
Definition scalerows (k : R) (rows : list rrow) : list rrow := map (scalerow k) rows.
Definition scale2 (k : R) (p : R * R) : R * R := (k * fst p, k * snd p).
Definition scale_acc (k : R) (s : @acc R) : @acc R :=
  mkAcc (map (scale2 k) (ac_ab s)) (k * ac_b0 s) (k * ac_aN s) (ac_o0 s) (ac_oN s).
Definition scale_trow (k : R) (r : @trow R) : @trow R :=
  mkTrow (t_p r) (k * t_a r) (k * t_b r) (k * t_g r) (t_o r) (k * t_r r) (k * t_c r).
Definition scale_out (k : R) (o : @crout R) : @crout R :=
  mkCrout (k * o_crps o) (k * o_reli o) (k * o_resol o) (k * o_unc o) (k * o_pot o)
          (map (scale_trow k) (o_table o)).

Lemma dab_scale k y x1 x2 :
  0 < k ->
  da (k * y) (k * x1) (k * x2) = k * da y x1 x2 /\ db (k * y) (k * x1) (k * x2) = k * db y x1 x2.
Proof.
  intros Hk. unfold da, db. rewrite !Rleb_scale, !Rltb_scale by exact Hk.
  destruct (Rleb x2 y), (Rleb y x1), (Rltb x1 y && Rltb y x2)%bool; split; ring.
Qed.

Lemma bins_upd_scale k y w e ab :
  0 < k ->
  bins_upd RR (k * y) w (map (fun x => k * x) e) (map (scale2 k) ab) =
  map (scale2 k) (bins_upd RR y w e ab).
Proof.
  intros Hk. revert ab; induction e as [|x1 e IH]; intros ab; [reflexivity|].
  destruct e as [|x2 e]; [reflexivity|]. destruct ab as [|p ab]; [reflexivity|].
  cbn [map]. rewrite !bins_upd_cons. cbn [map]. rewrite <- IH. f_equal.
  rewrite !bin_upd_RR. destruct (dab_scale k y x1 x2 Hk) as [-> ->].
  unfold scale2; cbn [fst snd]. f_equal; ring.
Qed.

Lemma row_step_scale k w s r :
  0 < k -> snd r <> [] ->
  row_step RR w (scale_acc k s) (scalerow k r) = scale_acc k (row_step RR w s r).
Proof.
  intros Hk Hne. destruct r as [y e]. unfold scalerow, row_step, scale_acc; cbn [fst snd] in *.
  cbn [ac_ab ac_b0 ac_aN ac_o0 ac_oN RR nadd nsub nmul nleb nltb n0].
  rewrite (hd_map_ne (fun x => k * x)), (last_map_ne (fun x => k * x)) by exact Hne.
  rewrite bins_upd_scale, !Rltb_scale, !Rleb_scale by exact Hk.
  f_equal.
  - destruct (Rltb y (hd 0 e)); ring.
  - destruct (Rleb (last e 0) y); ring.
Qed.

Lemma fold_step_scale k w rows s :
  0 < k -> Forall (fun r : rrow => snd r <> []) rows ->
  fold_left (row_step RR w) (map (scalerow k) rows) (scale_acc k s) =
  scale_acc k (fold_left (row_step RR w) rows s).
Proof.
  intros Hk H; revert s; induction H as [|r rows Hr _ IH]; intros s; [reflexivity|].
  cbn [map fold_left]. rewrite row_step_scale by auto. apply IH.
Qed.

Lemma scale_acc0 k n : scale_acc k (acc0 RR n) = acc0 RR n.
Proof.
  unfold scale_acc, acc0; cbn [ac_ab ac_b0 ac_aN ac_o0 ac_oN RR n0].
  f_equal; try ring.
  induction n as [|n IH]; [reflexivity|]. cbn [repeat map]. rewrite IH. f_equal.
  unfold scale2; cbn [fst snd]. f_equal; ring.
Qed.

Lemma sortrows_scale k rows :
  0 < k -> sortrows (scalerows k rows) = scalerows k (sortrows rows).
Proof.
  intros Hk. unfold sortrows, scalerows. rewrite !map_map. apply map_ext. intros [y e].
  unfold scalerow; cbn [fst snd]. rewrite sort_map; [reflexivity|]. intros; apply Rleb_scale, Hk.
Qed.

Lemma pairabs_scale k l : 0 < k -> pairabs (map (fun x => k * x) l) = k * pairabs l.
Proof.
  intros Hk. induction l as [|y l IH]; [simpl; ring|]. cbn [map pairabs]. rewrite IH, map_map.
  replace (Rsum (map (fun x => Rabs (k * y - k * x)) l))
    with (Rsum (map (fun x => k * Rabs (y - x)) l)).
  - rewrite Rsum_map_scal. ring.
  - apply Rsum_map_ext. intros x _.
    replace (k * y - k * x) with (k * (y - x)) by ring.
    rewrite Rabs_mult, (Rabs_right k) by lra. reflexivity.
Qed.

(* the final loop on scaled accumulators *)
Lemma row_first_scale k m b0 o0 :
  row_first RR m (k * b0) o0 = scale_trow k (row_first RR m b0 o0).
Proof.
  unfold row_first, mkrow, scale_trow, sq.
  cbn [t_p t_a t_b t_g t_o t_r t_c RR nadd nsub nmul ndiv n0 n1 neqb].
  destruct (Reqb o0 0); cbn [negb]; f_equal; unfold Rdiv; ring.
Qed.

Lemma row_last_scale k m aN oN :
  row_last RR m (k * aN) oN = scale_trow k (row_last RR m aN oN).
Proof.
  unfold row_last, mkrow, scale_trow, sq.
  cbn [t_p t_a t_b t_g t_o t_r t_c RR nadd nsub nmul ndiv n0 n1 neqb].
  destruct (Reqb oN 1); cbn [negb]; f_equal; unfold Rdiv; ring.
Qed.

Lemma rows_interior_scale k m j ab :
  0 < k -> Forall nonneg2 ab ->
  rows_interior RR m j (map (scale2 k) ab) = map (scale_trow k) (rows_interior RR m j ab).
Proof.
  intros Hk H; revert j; induction H as [|[a b] ab [Ha Hb] _ IH]; intros j; [reflexivity|].
  cbn [map rows_interior]. rewrite IH. f_equal.
  unfold scale2; cbn [fst snd RR nadd ndiv]. cbn [fst snd] in Ha, Hb.
  assert (Ho : k * b / (k * a + k * b) = b / (a + b)).
  { replace (k * a + k * b) with (k * (a + b)) by ring.
    destruct (Req_dec (a + b) 0) as [Hz|Hz].
    - assert (a = 0) by lra. assert (b = 0) by lra. subst. unfold Rdiv; ring.
    - field. split; lra. }
  rewrite Ho. unfold mkrow, scale_trow, sq.
  cbn [t_p t_a t_b t_g t_o t_r t_c RR nadd nsub nmul ndiv n0 n1]. f_equal; ring.
Qed.

Lemma table_scale k c m s :
  0 < k -> Forall nonneg2 (ac_ab s) ->
  table RR c m (scale_acc k s) = map (scale_trow k) (table RR c m s).
Proof.
  intros Hk Hab. unfold table, scale_acc; cbn [ac_ab ac_b0 ac_aN ac_o0 ac_oN].
  cbn [map]. rewrite map_app. cbn [map].
  rewrite row_first_scale, row_last_scale, rows_interior_scale by auto. reflexivity.
Qed.

Lemma g_scale k r : 0 < k ->
  crps_term RR (scale_trow k r) = k * crps_term RR r /\
  g_r (scale_trow k r) = k * g_r r /\ g_c (scale_trow k r) = k * g_c r.
Proof.
  intros Hk. unfold g_r, g_c, crps_term, scale_trow, sq.
  cbn [t_p t_a t_b t_g t_o t_r t_c RR nadd nsub nmul n1].
  replace (Rltb 0 (k * t_g r)) with (Rltb 0 (t_g r))
    by (rewrite <- (Rltb_scale k 0 (t_g r) Hk); f_equal; ring).
  destruct (Rltb 0 (t_g r)); repeat split; ring.
Qed.

Lemma Rsum_map_scale_trow k (f : @trow R -> R) tb :
  (forall r, f (scale_trow k r) = k * f r) ->
  Rsum (map f (map (scale_trow k) tb)) = k * Rsum (map f tb).
Proof.
  intros H. rewrite map_map, <- Rsum_map_scal. apply Rsum_map_ext. intros; apply H.
Qed.

Lemma finish_scale k c m s u :
  0 < k -> Forall nonneg2 (ac_ab s) ->
  finish RR c m (scale_acc k s) (k * u) = scale_out k (finish RR c m s u).
Proof.
  intros Hk Hab. unfold finish, scale_out; cbn [o_crps o_reli o_resol o_unc o_pot o_table].
  rewrite table_scale by auto.
  rewrite !sum_crps_RR, !sum_reli_RR, !sum_pot_RR.
  rewrite (Rsum_map_scale_trow k (crps_term RR)) by (intros; apply g_scale, Hk).
  rewrite (Rsum_map_scale_trow k g_r) by (intros; apply g_scale, Hk).
  rewrite (Rsum_map_scale_trow k g_c) by (intros; apply g_scale, Hk).
  cbn [RR nsub]. f_equal. ring.
Qed.

Lemma crps_scale c m rows k :
  wfrows m rows -> 0 < k ->
  crps_gen RR c (scalerows k rows) = option_map (scale_out k) (crps_gen RR c rows).
Proof.
  intros Hwf Hk.
  assert (Hwf' : wfrows m (scalerows k rows))
    by (apply wfrows_map; [intros; apply map_length | exact Hwf]).
  rewrite (crps_RR_eq c m _ Hwf'), (crps_RR_eq c m rows Hwf). cbn [option_map].
  assert (Hn : wgt (scalerows k rows) = wgt rows)
    by (unfold wgt, scalerows; rewrite map_length; reflexivity).
  assert (Hst : kstate m (scalerows k rows) = scale_acc k (kstate m rows)).
  { unfold kstate. rewrite Hn, sortrows_scale by exact Hk. unfold scalerows.
    rewrite <- (scale_acc0 k (m - 1)) at 1. apply fold_step_scale; [exact Hk|].
    rewrite Forall_forall. intros r Hin.
    unfold sortrows in Hin. apply in_map_iff in Hin. destruct Hin as (r0 & <- & Hin0). cbn [snd].
    intros E. apply (wfrows_members m rows r0 Hwf Hin0).
    apply Permutation_nil. rewrite <- E. apply sort_perm. }
  assert (Hu : kunc (scalerows k rows) = k * kunc rows).
  { rewrite !kunc_eq, Hn. unfold scalerows. rewrite map_map. cbn [scalerow fst].
    rewrite <- (map_map fst (fun x => k * x)), pairabs_scale by exact Hk. ring. }
  rewrite Hst, Hu. f_equal. apply finish_scale; [exact Hk|].
  apply (inv_ab 1). apply kstate_inv. apply Hwf.
Qed.

(* ---------- corollaries used by Props/C03.v ---------- *)
Lemma wfrows_climatology m rows :
  wfrows m rows -> wfrows (length rows) (climatology rows).
Proof.
  intros (Hm & Hne & Hlen). unfold climatology. cbv zeta.
  split; [destruct rows; [congruence | simpl; lia]|]. split.
  - destruct rows; [congruence | discriminate].
  - rewrite Forall_map, Forall_map. rewrite Forall_forall. intros r _. cbn [snd].
    apply map_length.
Qed.

(* the uncertainty is what the kernel itself returns as CRPS for the climatological ensemble *)
Lemma uncertainty_is_kernel_crps_of_climatology c m rows :
  wfrows m rows ->
  exists out outc,
    crps_gen RR c rows = Some out /\ crps_gen RR c (climatology rows) = Some outc /\
    o_unc out = o_crps outc.
Proof.
  intros Hwf. pose proof (wfrows_climatology m rows Hwf) as Hc.
  eexists. eexists. split; [apply crps_RR_eq, Hwf|]. split; [apply crps_RR_eq, Hc|].
  rewrite (out_uncertainty_is_climatology c m rows Hwf).
  rewrite (out_crps_is_definition c _ _ Hc). reflexivity.
Qed.

Lemma table_length {T} (N : NumOps T) c m s :
  length (table N c m s) = S (S (length (ac_ab s))).
Proof.
  unfold table. cbn [length]. rewrite app_length. cbn [length].
  assert (H : forall j ab, length (rows_interior N m j ab) = length ab).
  { intros j ab; revert j; induction ab as [|p ab IH]; intros j; [reflexivity|].
    cbn [rows_interior length]. rewrite IH. reflexivity. }
  rewrite H. lia.
Qed.

Lemma fold_step_ab_length w rows s :
  length (ac_ab (fold_left (row_step RR w) rows s)) = length (ac_ab s).
Proof.
  revert s; induction rows as [|r rows IH]; intros s; [reflexivity|].
  cbn [fold_left]. rewrite IH. apply row_step_ab_length.
Qed.

(* the table has one row per bin: m + 1 *)
Lemma out_table_length c m rows :
  wfrows m rows ->
  length (o_table (finish RR c (Z.of_nat m) (kstate m rows) (kunc rows))) = S m.
Proof.
  intros (Hm & _). unfold finish; cbn [o_table]. rewrite table_length.
  unfold kstate. rewrite fold_step_ab_length. unfold acc0; cbn [ac_ab].
  rewrite repeat_length. lia.
Qed.

(* Hersbach's relations in the interior bins that count: a = g (1-o), b = g o *)
Definition row_hersbach (r : @trow R) : Prop :=
  0 < t_g r -> t_a r = t_g r * (1 - t_o r) /\ t_b r = t_g r * t_o r /\ 0 <= t_o r <= 1.

Lemma rows_interior_hersbach m j ab :
  Forall nonneg2 ab -> Forall row_hersbach (rows_interior RR m j ab).
Proof.
  intros H; revert j; induction H as [|[a b] ab [Ha Hb] _ IH]; intros j; [constructor|].
  cbn [rows_interior]. constructor; [|apply IH].
  unfold row_hersbach, mkrow. cbn [fst snd t_a t_b t_g t_o RR nadd ndiv] in *.
  intros Hg. split; [field; lra|]. split; [field; lra|]. split.
  - apply Rmult_le_pos; [lra | left; apply Rinv_0_lt_compat; lra].
  - apply Rmult_le_reg_r with (a + b); [lra|].
    replace (b / (a + b) * (a + b)) with b by (field; lra). lra.
Qed.

(* the outlier bins: o[0], o[m] are frequencies, g is defined from b[0] / a[m] alone *)
Lemma table_outliers c m s :
  inv 1 s ->
  let r0 := row_first RR m (ac_b0 s) (clamp1 RR c (ac_o0 s)) in
  let rN := row_last RR m (ac_aN s) (clamp1 RR c (ac_oN s)) in
  t_a r0 = 0 /\ t_b rN = 0 /\ 0 <= t_o r0 <= 1 /\ 0 <= t_o rN <= 1 /\
  (0 < t_g r0 -> t_b r0 = t_g r0 * t_o r0) /\
  (0 < t_g rN -> t_a rN = t_g rN * (1 - t_o rN)).
Proof.
  intros [Hab Hb0 HaN Ho0 HoN Hb0z HaNz]. cbv zeta.
  rewrite !clamp1_RR by lra. unfold row_first, row_last, mkrow.
  cbn [t_a t_b t_g t_o RR ndiv nsub n0 n1 neqb].
  repeat split; try lra.
  - destruct (Reqb (ac_o0 s) 0) eqn:E; rcmp; cbn [negb]; intros Hg; [lra | field; lra].
  - destruct (Reqb (ac_oN s) 1) eqn:E; rcmp; cbn [negb]; intros Hg; [lra | field; lra].
Qed.
