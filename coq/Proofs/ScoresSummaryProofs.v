(* Bundled statements restated in Props/C04.v (one lemma per group of clauses). *)
From Coq Require Import ZArith Bool List Reals.
From Hy Require Import Base.Num Gen.Consts Gen.ConstsC04 Model.Scores
  Proofs.ScoresProofs Proofs.ScoresRealProofs Proofs.ScoresCatProofs Proofs.ScoresMissingProofs.
Import ListNotations.
Open Scope R_scope.

Lemma sum_numpy_reductions :
  (forall l, np_sum RR l = sumR l) /\
  (forall l,
  mean RR l = sumR l / lenR l /\
  var RR l = sumR (map (fun x => (x - meanR l) * (x - meanR l)) l) / lenR l /\
  std RR l = sqrt (SS l / lenR l)).
Proof. exact (conj np_sum_R api_mean_std). Qed.

Lemma sum_bias_definition :
  (forall fwd excl ty obs sim,
  length obs = length sim -> obs <> [] ->
  bias_defined ty (map fwd obs) (map fwd sim) ->
  bias RR EPS ln fwd excl ty obs sim =
  SVal (let o := map fwd obs in let s := map fwd sim in
        match ty with
        | BStd => (meanR s - meanR o) / meanR o
        | BNorm => (meanR s - meanR o) / (meanR s + meanR o)
        | BLog => ln (meanR s) - ln (meanR o)
        end)) /\
  (forall ty o s,
  (Rabs (meanR o) < EPS -> bias_core RR EPS ln ty o s = SNan) /\
  (EPS <= Rabs (meanR o) -> meanR s <= EPS \/ meanR o <= EPS ->
   bias_core RR EPS ln BLog o s = SNan)).
Proof. exact (conj bias_R api_bias_guards). Qed.

Lemma sum_kge_definition :
  (forall fwd excl obs sim,
  length obs = length sim -> obs <> [] ->
  kge_defined (map fwd obs) (map fwd sim) ->
  kge RR EPS fwd excl obs sim =
  SVal (let o := map fwd obs in let s := map fwd sim in
        1 - sqrt ((1 - meanR s / meanR o) * (1 - meanR s / meanR o)
                  + (1 - sdR s / sdR o) * (1 - sdR s / sdR o)
                  + (1 - pearsonR o s) * (1 - pearsonR o s)))) /\
  (forall o s,
  Rabs (meanR o) < EPS \/ sdR o < EPS \/ sdR s <= EPS -> kge_core RR EPS o s = SNan).
Proof. exact (conj kge_R kge_core_guards). Qed.

Lemma sum_corr_definition :
  (forall fwd excl st obs sim,
  length obs = length sim -> obs <> [] ->
  EPS <= sdR (map fwd obs) -> 0 < SS (map fwd sim) ->
  corr RR EPS fwd excl st CPearson obs (map (fun v => [v]) sim) =
  SVal (pearsonR (map fwd obs) (map fwd sim))) /\
  (forall fwd excl obs ens,
  length obs = length ens -> obs <> [] -> Forall (fun r => r <> []) ens ->
  EPS <= sdR (map fwd obs) -> 0 < SS (map (fun r => meanR (map fwd r)) ens) ->
  corr RR EPS fwd excl CMean CPearson obs ens =
  SVal (pearsonR (map fwd obs) (map (fun r => meanR (map fwd r)) ens))) /\
  (forall ty o s, sdR o < EPS -> corr_core RR EPS ty o s = SNan).
Proof. exact (conj corr_single_R (conj corr_mean_R corr_core_guard)). Qed.

Lemma sum_perfect_simulation :
  (forall fwd excl ty obs,
  obs <> [] -> bias_defined ty (map fwd obs) (map fwd obs) ->
  bias RR EPS ln fwd excl ty obs obs = SVal 0) /\
  (forall fwd excl obs,
  0 < SS (map fwd obs) -> nse RR fwd excl obs obs = SVal 1) /\
  (forall fwd excl obs,
  kge_defined (map fwd obs) (map fwd obs) -> kge RR EPS fwd excl obs obs = SVal 1) /\
  (forall fwd excl st obs,
  EPS <= sdR (map fwd obs) ->
  corr RR EPS fwd excl st CPearson obs (map (fun v => [v]) obs) = SVal 1).
Proof. exact (conj api_perfect_bias (conj api_perfect_nse (conj api_perfect_kge api_perfect_corr))). Qed.

Lemma sum_upper_bounds :
  (forall fwd excl obs sim,
  length obs = length sim -> 0 < SS (map fwd obs) ->
  exists v, nse RR fwd excl obs sim = SVal v /\ v <= 1) /\
  (forall fwd excl obs sim,
  length obs = length sim -> obs <> [] -> kge_defined (map fwd obs) (map fwd sim) ->
  exists v, kge RR EPS fwd excl obs sim = SVal v /\ v <= 1).
Proof. exact (conj api_nse_le_1 api_kge_le_1). Qed.

Lemma sum_invariances :
  (forall a b excl o s,
  a <> 0 -> length o = length s -> 0 < SS o ->
  nse RR idT excl (map (fun x => a * x + b) o) (map (fun x => a * x + b) s) =
  nse RR idT excl o s) /\
  (forall c excl ty o s,
  0 < c -> length o = length s -> o <> [] ->
  bias_defined ty o s -> bias_defined ty (scale c o) (scale c s) ->
  bias RR EPS ln idT excl ty (scale c o) (scale c s) = bias RR EPS ln idT excl ty o s) /\
  (forall c excl o s,
  0 < c -> length o = length s ->
  kge_defined o s -> kge_defined (scale c o) (scale c s) ->
  kge RR EPS idT excl (scale c o) (scale c s) = kge RR EPS idT excl o s).
Proof. exact (conj api_nse_affine_invariant (conj api_bias_scale_invariant api_kge_scale_invariant)). Qed.

Lemma sum_continuous_nonvacuous :
  (forall ty, bias_defined ty ex_obs ex_sim) /\
  (kge_defined ex_obs ex_sim) /\
  ((forall ty, bias_defined ty ex_obs ex_obs) /\ 0 < SS ex_obs /\ kge_defined ex_obs ex_obs) /\
  (kge_defined (scale 2 ex_obs) (scale 2 ex_sim) /\ forall ty, bias_defined ty (scale 2 ex_obs) (scale 2 ex_sim)).
Proof. exact (conj ex_bias_defined (conj ex_kge_defined (conj api_perfect_nonvacuous ex_scaled_defined))). Qed.

Lemma sum_scores_with_missing :
  (forall fwd ty obs sim o' s',
  length obs = length sim ->
  nonull RN (map fwd obs) (map fwd sim) = Some (o', s') ->
  bias_defined ty (unsome o') (unsome s') ->
  bias RN (Some EPS) lnN fwd true ty obs sim = SVal (Some (biasR ty (unsome o') (unsome s')))) /\
  (forall fwd obs sim o' s',
  length obs = length sim ->
  nonull RN (map fwd obs) (map fwd sim) = Some (o', s') ->
  nse RN fwd true obs sim = SVal (Some (1 - SE (unsome o') (unsome s') / SS (unsome o')))) /\
  (forall fwd obs sim o' s',
  length obs = length sim ->
  nonull RN (map fwd obs) (map fwd sim) = Some (o', s') ->
  kge_defined (unsome o') (unsome s') ->
  kge RN (Some EPS) fwd true obs sim = SVal (Some (kgeR (unsome o') (unsome s')))).
Proof. exact (conj bias_missing_value (conj nse_missing kge_missing_value)). Qed.

Open Scope Z_scope.
Lemma sum_confusion_cells :
  (forall n obs sim i j,
  0 <= i < n -> 0 <= j < n ->
  nth (Z.to_nat j) (nth (Z.to_nat i) (table (zrange n) (zrange n) obs sim) []) 0 =
  Z.of_nat (length (filter (fun p => (fst p =? i) && (snd p =? j)) (combine obs sim)))) /\
  (forall n obs sim, 0 <= n ->
  length (table (zrange n) (zrange n) obs sim) = Z.to_nat n /\
  Forall (fun r => length r = Z.to_nat n) (table (zrange n) (zrange n) obs sim)).
Proof. exact (conj table_cell table_dims). Qed.

Close Scope Z_scope.