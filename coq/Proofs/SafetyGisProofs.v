(* C05 - proofs about the index-level models of the gis kernels (Model/SafetyGis.v). *)
From Coq Require Import ZArith Bool List String Lia Reals Lra PrimFloat.
From Hy Require Import Base.Num Gen.ConstsC05 Model.Safety Model.SafetyGis Proofs.SafetyProofs.
Import ListNotations.
Open Scope Z_scope.

(* ------------------------------------------------------------------ *)
(* postconditions that also constrain `return`                          *)

Definition post3 {S} (r : step S) (PN PB : S -> Prop) (PR : Z -> S -> Prop) : Prop :=
  match r with Next s => PN s | Brk s => PB s | Ret c s => PR c s | Fail _ => False end.

Lemma post3_safe {S} (r : step S) PN PB PR : post3 r PN PB PR -> safe r.
Proof. destruct r; simpl; auto. Qed.

Lemma post3_weaken {S} (r : step S) (PN PB PN' PB' : S -> Prop) (PR PR' : Z -> S -> Prop) :
  post3 r PN PB PR -> (forall s, PN s -> PN' s) -> (forall s, PB s -> PB' s) ->
  (forall c s, PR c s -> PR' c s) -> post3 r PN' PB' PR'.
Proof. destruct r; simpl; auto. Qed.

Lemma post_of_post3 {S} (r : step S) PN PB PR : post3 r PN PB PR -> post r PN PB.
Proof. destruct r; simpl; auto. Qed.

Lemma post3_seq {S} (m : step S) k (PN PB : S -> Prop) PR :
  post3 m (fun s => post3 (k s) PN PB PR) PB PR -> post3 (seq m k) PN PB PR.
Proof. destruct m; simpl; auto. Qed.

Lemma post3_finish {S} d (m : step S) (PN PB : S -> Prop) (PR : Z -> S -> Prop) :
  post3 m (PR d) (PR d) PR -> post3 (finish d m) PN PB PR.
Proof. destruct m; simpl; auto. Qed.

Lemma post3_call {A S} (m : step A) (k : Z -> A -> step S) (P : Z -> A -> Prop) PN PB PR :
  post3 m (fun _ => False) (fun _ => False) P -> (forall c a, P c a -> post3 (k c a) PN PB PR) ->
  post3 (call m k) PN PB PR.
Proof. intros H K; destruct m; simpl in *; auto; contradiction. Qed.

Lemma post3_call_next {A S} (m : step A) (k : Z -> A -> step S) (P : A -> Prop) PN PB PR :
  post3 m P (fun _ => False) (fun _ _ => False) -> (forall a, P a -> post3 (k 0 a) PN PB PR) ->
  post3 (call m k) PN PB PR.
Proof. intros H K; destruct m; simpl in *; auto; contradiction. Qed.

Lemma post3_sub {A S} (m : step A) (f : A -> S) (k : A -> step S) (P : A -> Prop) PN PB
    (PR : Z -> S -> Prop) :
  post3 m P P (fun c a => PR c (f a)) -> (forall a, P a -> post3 (k a) PN PB PR) ->
  post3 (sub m f k) PN PB PR.
Proof. intros H K; destruct m; simpl in *; auto; contradiction. Qed.

Lemma for_loop_post3 {S} (I : Z -> S -> Prop) (Q : S -> Prop) PR (body : Z -> S -> step S) :
  forall n i s, I i s ->
  (forall j t, i <= j < i + Z.of_nat n -> I j t -> post3 (body j t) (I (j + 1)) Q PR) ->
  post3 (for_loop n i body s) (fun t => I (i + Z.of_nat n) t \/ Q t) (fun _ => False) PR.
Proof.
  induction n as [|n IH]; intros i s Hi Hb.
  - simpl. left. now rewrite Z.add_0_r.
  - simpl. assert (Hs := Hb i s ltac:(lia) Hi).
    destruct (body i s) as [s'|s'|c s'|e]; simpl in Hs |- *; auto.
    replace (i + Z.pos (Pos.of_succ_nat n)) with ((i + 1) + Z.of_nat n) by lia.
    apply IH; auto. intros j t Hj; apply Hb; lia.
Qed.

Lemma forZ_post3 {S} (I : Z -> S -> Prop) (Q : S -> Prop) PR lo hi (body : Z -> S -> step S) s :
  lo <= hi -> I lo s ->
  (forall j t, lo <= j < hi -> I j t -> post3 (body j t) (I (j + 1)) Q PR) ->
  post3 (forZ lo hi body s) (fun t => I hi t \/ Q t) (fun _ => False) PR.
Proof.
  intros Hle Hi Hb. unfold forZ.
  assert (E : lo + Z.of_nat (Z.to_nat (hi - lo)) = hi) by lia.
  generalize (for_loop_post3 I Q PR body (Z.to_nat (hi - lo)) lo s Hi).
  rewrite E. intros X; apply X. intros j t Hj; apply Hb; lia.
Qed.

(* invariant-only version: the loop may be empty (hi <= lo) *)
Lemma forZ_inv3 {S} (I : S -> Prop) PR lo hi (body : Z -> S -> step S) s :
  I s ->
  (forall j t, lo <= j < hi -> I t -> post3 (body j t) I I PR) ->
  post3 (forZ lo hi body s) I (fun _ => False) PR.
Proof.
  intros Hi Hb. destruct (Z_le_gt_dec lo hi).
  - eapply post3_weaken; [apply (forZ_post3 (fun _ => I) I PR lo hi body s); auto| | |]; simpl; auto.
    intros ? [?|?]; auto.
  - rewrite forZ_nop by lia. simpl; auto.
Qed.

Lemma for_loop_inv3 {S} (I : S -> Prop) PR n i (body : Z -> S -> step S) s :
  I s ->
  (forall j t, I t -> post3 (body j t) I I PR) ->
  post3 (for_loop n i body s) I (fun _ => False) PR.
Proof.
  intros Hi Hb.
  eapply post3_weaken; [apply (for_loop_post3 (fun _ => I) I PR body n i s); auto| | |]; simpl; auto.
  intros ? [?|?]; auto.
Qed.

Ltac acc3 :=
  match goal with
  | |- context [rd ?n ?d ?l ?i] => rewrite (rd_ok n d l i) by bnd
  | |- context [wr ?n ?l ?i ?v] => rewrite (wr_ok n l i v) by bnd
  | |- context [mark ?n ?l ?i] => rewrite (mark_ok n l i) by bnd
  | |- context [touch ?n ?len ?i] => rewrite (touch_ok n len i) by bnd
  end; cbn [bindr seq bindR].

(* ------------------------------------------------------------------ *)
(* integer helpers                                                      *)

Definition MAX64 : Z := 9223372036854775807.

Lemma chk64_ok' z : - MAX64 - 1 <= z <= MAX64 -> chk64 z = Ok z.
Proof. unfold MAX64; intros; apply chk64_ok; lia. Qed.

Lemma chk32_ok z : -2147483648 <= z <= 2147483647 -> chk32 z = Ok z.
Proof.
  intros; unfold chk32, in_int32.
  replace (_ && _) with true; auto. symmetry; apply andb_true_intro; split; apply Z.leb_le; lia.
Qed.

Lemma getnxy_ok ncols idx : 0 < ncols -> 0 <= idx ->
  exists nx ny, getnxy ncols idx = Ok (nx, ny) /\ 0 <= nx < ncols /\ 0 <= ny /\ idx = ny * ncols + nx.
Proof.
  intros Hc Hi. unfold getnxy, zmod, zdiv.
  destruct (ncols =? 0) eqn:E; zb; [lia|]. cbn [bindR].
  exists (Z.rem idx ncols), (Z.quot (idx - Z.rem idx ncols) ncols). split; [reflexivity|].
  rewrite Z.rem_mod_nonneg by lia.
  assert (Hm := Z.mod_pos_bound idx ncols Hc).
  assert (Hd := Z.div_mod idx ncols ltac:(lia)).
  assert (E2 : idx - idx mod ncols = ncols * (idx / ncols)) by lia.
  rewrite E2. rewrite Z.mul_comm, Z.quot_mul by lia.
  assert (0 <= idx / ncols) by (apply Z.div_pos; lia).
  repeat split; try lia.
Qed.

Lemma getnxy_any ncols idx : ncols <> 0 -> exists p, getnxy ncols idx = Ok p.
Proof.
  intros Hc. unfold getnxy, zmod, zdiv.
  destruct (ncols =? 0) eqn:E; zb; [lia|]. cbn [bindR]. eauto.
Qed.

Lemma Forall_upd {A} (P : A -> Prop) l n v : Forall P l -> P v -> Forall P (upd l n v).
Proof.
  intros H; revert n; induction H; intros [|n] Hv; simpl; auto.
Qed.

Lemma nth_upd_same {A} (l : list A) n v d : (n < List.length l)%nat -> nth n (upd l n v) d = v.
Proof. revert n; induction l; intros [|n] H; simpl in *; auto; try lia. apply IHl; lia. Qed.

Lemma nth_upd_other {A} (l : list A) n m v d : n <> m -> nth m (upd l n v) d = nth m l d.
Proof. revert n m; induction l; intros [|n] [|m] H; simpl; auto; try lia. Qed.

Lemma Zlen_repeat {A} (x : A) n : Zlen (repeat x n) = Z.of_nat n.
Proof. unfold Zlen; now rewrite repeat_length. Qed.

(* ================================================================== *)
(* c_voronoi: any arithmetic, any coordinates, any cell numbers         *)

Section Voronoi.
Context {T : Type} (N : NumOps T).

Lemma voronoi_safe : forall nrows ncols xll yll csz ncells area npoints xyp weights,
  nrows * ncols <= MAX64 -> nrows <= MAX64 ->
  Zlen area = ncells -> Zlen xyp = 2 * npoints -> Zlen weights = npoints ->
  safe (voronoi N true nrows ncols xll yll csz ncells area npoints xyp weights).
Proof.
  intros nrows ncols xll yll csz ncells area npoints xyp weights Hg Hr Ha Hx Hw.
  unfold voronoi. cbn [andb].
  destruct (npoints <? 1) eqn:E1; zb; [exact I|].
  destruct ((nrows <? 1) || (ncols <? 1)) eqn:E2; [exact I|]. zb.
  rewrite chk64_ok' by (unfold MAX64 in *; nia). cbn [bindr].
  apply (post_safe _ (fun _ => True) (fun _ => True)). apply post_of_post3 with (PR := fun _ _ => True).
  apply post3_seq.
  eapply post3_weaken.
  { apply (forZ_inv3 (fun w => Zlen w = npoints)); auto.
    intros j t Hj I1. acc3. cbn. now rewrite Zlen_upd. }
  2: auto. 2: auto.
  cbn beta. intros w Hw1. apply post3_seq.
  eapply post3_weaken.
  { apply (forZ_inv3 (fun w => Zlen w = npoints) (fun _ _ => True)); auto.
    intros i t Hi I1.
    rewrite (rd_ok "idxcells_area" 0 area i) by lia. cbn [bindr].
    set (c := nth (Z.to_nat i) area 0).
    destruct ((c <? 0) || (nrows * ncols <=? c)) eqn:E3; [exact I|]. zb.
    cbn [bindr].
    destruct (getnxy_ok ncols c ltac:(lia) ltac:(lia)) as (nx & ny & G & B1 & B2 & B3).
    rewrite G. cbn [bindr].
    rewrite chk64_ok' by (unfold MAX64 in *; nia). cbn [bindr].
    eapply (post3_sub _ _ _ (fun s => 0 <= vr_jmin s < npoints)).
    - eapply post3_weaken.
      + apply (forZ_inv3 (fun s : vrst => 0 <= vr_jmin s < npoints) (fun _ _ => True)); [cbn; lia|].
        intros j s Hj I2. acc3. acc3.
        destruct (nltb N _ (vr_dmin s)); cbn; lia.
      + auto.
      + intros ? [].
      + auto.
    - intros s Hs. acc3. acc3. cbn. now rewrite Zlen_upd. }
  2: auto. 2: auto.
  cbn beta. intros w2 Hw2. apply post3_finish.
  eapply post3_weaken.
  { apply (forZ_inv3 (fun w => Zlen w = npoints) (fun _ _ => True)); auto.
    intros j t Hj I1. acc3. acc3. cbn. now rewrite Zlen_upd. }
  all: auto.
  Unshelve. all: first [exact (fun _ => True) | exact (fun _ _ => True)].
Qed.

End Voronoi.

(* the pinned kernel: 6 cells, one point -> reads xypoints[2] *)
Lemma voronoi_pinned_unsafe :
  voronoi F64 false 3 3 0%float 0%float 1%float 6 [0; 1; 2; 3; 4; 5] 1 [1; 1]%float [0%float] = Fail (OOB "xypoints" 2).
Proof. vm_compute. reflexivity. Qed.

(* no point at all: writes weights[0] of an empty array *)
Lemma voronoi_pinned_unsafe_nopoint :
  voronoi F64 false 3 3 0%float 0%float 1%float 1 [0] 0 [] [] = Fail (OOB "xypoints" 0).
Proof. vm_compute. reflexivity. Qed.

(* ================================================================== *)
(* c_coord2cell                                                         *)

Section Coord2cell.
Context {T : Type} (N : NumOps T).

(* what the range test of the repaired kernel guarantees about the conversion that follows:
   a value that compares >= 0 and < n (n an int64) converts to an integer of [0, n).
   True of binary64 and of the reals with NaN (proved below for the latter). *)
Hypothesis trunc_in_range : forall x n, 0 <= n <= MAX64 ->
  nleb N (n0 N) x = true -> nltb N x (nofZ N n) = true ->
  exists z, ntrunc N x = Some z /\ 0 <= z < n.

Lemma c2c_point_ok nrows ncols xll yll csz x y :
  0 <= nrows <= MAX64 -> 0 <= ncols <= MAX64 -> nrows * ncols <= MAX64 ->
  exists c, c2c_point N true nrows ncols xll yll csz x y = Ok c.
Proof.
  intros Hr Hc Hg. unfold c2c_point. cbn [andb].
  set (fx := nfloorT N (ndiv N (nsub N x xll) csz)).
  set (fy := nfloorT N (ndiv N (nsub N y yll) csz)).
  destruct (nleb N (n0 N) fx && nltb N fx (nofZ N ncols) &&
            nleb N (n0 N) fy && nltb N fy (nofZ N nrows)) eqn:E; cbn [negb]; [|eauto].
  zb.
  destruct (trunc_in_range fx ncols ltac:(lia)) as (zx & Ex & Bx); auto.
  destruct (trunc_in_range fy nrows ltac:(lia)) as (zy & Ey & By); auto.
  rewrite Ex, Ey. unfold cast64, in_int64.
  replace ((-9223372036854775808 <=? zx) && (zx <=? 9223372036854775807)) with true
    by (symmetry; apply andb_true_intro; split; apply Z.leb_le; unfold MAX64 in *; lia).
  replace ((-9223372036854775808 <=? zy) && (zy <=? 9223372036854775807)) with true
    by (symmetry; apply andb_true_intro; split; apply Z.leb_le; unfold MAX64 in *; lia).
  cbn [bindR]. rewrite chk64_ok' by (unfold MAX64 in *; lia). cbn [bindR].
  destruct ((zx <? 0) || (ncols <=? zx) || (nrows - 1 - zy <? 0) || (nrows <=? nrows - 1 - zy));
    [eauto|].
  rewrite chk64_ok' by (unfold MAX64 in *; nia). eauto.
Qed.

Lemma coord2cell_safe : forall nrows ncols xll yll csz nval xy idxcell,
  0 <= nrows <= MAX64 -> 0 <= ncols <= MAX64 -> nrows * ncols <= MAX64 ->
  Zlen xy = 2 * nval -> Zlen idxcell = nval ->
  safe (coord2cell N true nrows ncols xll yll csz nval xy idxcell).
Proof.
  intros nrows ncols xll yll csz nval xy idxcell Hr Hc Hg Hx Hi.
  unfold coord2cell.
  apply (post3_safe _ (fun _ => False) (fun _ => False) (fun _ _ => True)).
  apply post3_finish. eapply post3_weaken.
  { apply (forZ_inv3 (fun out => Zlen out = nval) (fun _ _ => True)); auto.
    intros i t Hj I1. acc3. acc3.
    destruct (c2c_point_ok nrows ncols xll yll csz (nth (Z.to_nat (2 * i)) xy (n0 N))
                (nth (Z.to_nat (2 * i + 1)) xy (n0 N)) Hr Hc Hg) as (c & Ec).
    rewrite Ec. cbn [bindr]. acc3. cbn. now rewrite Zlen_upd. }
  all: auto.
Qed.

End Coord2cell.

(* the hypothesis holds of the reals extended with a NaN *)
Lemma RN_trunc_in_range : forall x n, 0 <= n <= MAX64 ->
  nleb RN (n0 RN) x = true -> nltb RN x (nofZ RN n) = true ->
  exists z, ntrunc RN x = Some z /\ 0 <= z < n.
Proof.
  intros [x|] n Hn H1 H2; cbn in *; try discriminate.
  apply Rleb_true in H1. apply Rltb_true in H2.
  unfold R_trunc. destruct (Rle_dec 0 x) as [_|Hc]; [|contradiction].
  exists (Int_part x). split; auto.
  destruct (base_Int_part x) as [B1 B2].
  split.
  - apply le_IZR. assert (IZR (Int_part x) > -1)%R by lra.
    apply Rnot_lt_le. intros C. assert (Int_part x <= -1) by (apply lt_IZR in C; lia).
    apply IZR_le in H0. lra.
  - apply lt_IZR. lra.
Qed.

Lemma coord2cell_safe_RN : forall nrows ncols xll yll csz nval xy idxcell,
  0 <= nrows <= MAX64 -> 0 <= ncols <= MAX64 -> nrows * ncols <= MAX64 ->
  Zlen xy = 2 * nval -> Zlen idxcell = nval ->
  safe (coord2cell RN true nrows ncols xll yll csz nval xy idxcell).
Proof. exact (coord2cell_safe RN RN_trunc_in_range). Qed.

(* the pinned kernel converts NaN (or a huge offset) to a long long *)
Lemma coord2cell_pinned_unsafe_nan :
  coord2cell F64 false 3 3 0%float 0%float 1%float 1 [nan; 1]%float [0] = Fail CastRange.
Proof. vm_compute. reflexivity. Qed.
Lemma coord2cell_pinned_unsafe_huge :
  coord2cell F64 false 3 3 0%float 0%float 1%float 1 [0x1p+1000; 1]%float [0] = Fail CastRange.
Proof. vm_compute. reflexivity. Qed.
(* and an (n,1) array read as (n,2) runs past the end: here 5 values for nval = 5 *)
Lemma coord2cell_needs_two_columns :
  coord2cell F64 true 3 3 0%float 0%float 1%float 5 [0; 0; 0; 0; 0]%float [0; 0; 0; 0; 0] = Fail (OOB "xycoords" 5).
Proof. vm_compute. reflexivity. Qed.

(* ================================================================== *)
(* c_neighbours / c_downstream / c_upstream                             *)

Definition cgood (ntot c : Z) : Prop := c = -1 \/ 0 <= c < ntot.      (* a neighbour slot *)
Definition dgood (ntot d : Z) : Prop := d = -2 \/ d = -1 \/ 0 <= d < ntot.   (* a downstream answer *)

Lemma nb_body_post nrows ncols nx0 ny0 nb :
  0 <= nrows -> 0 <= ncols -> nrows * ncols <= MAX64 ->
  Zlen nb = 9 -> Forall (cgood (nrows * ncols)) nb ->
  post3 (nb_body nrows ncols nx0 ny0 nb)
        (fun nb' => Zlen nb' = 9 /\ Forall (cgood (nrows * ncols)) nb') (fun _ => False)
        (fun _ _ => False).
Proof.
  intros Hr Hc Hg Hl Hf. unfold nb_body.
  apply (forZ_inv3 (fun nb' => Zlen nb' = 9 /\ Forall (cgood (nrows * ncols)) nb')); auto.
  intros iy t Hy I1.
  eapply post3_weaken.
  { apply (forZ_inv3 (fun nb' => Zlen nb' = 9 /\ Forall (cgood (nrows * ncols)) nb')
                     (fun _ _ => False)); auto.
    intros ix u Hx (J1 & J2).
    destruct ((ix =? 0) && (iy =? 0)).
    - acc3. cbn. rewrite Zlen_upd. split; auto. apply Forall_upd; auto. left; auto.
    - destruct ((nx0 + ix <? 0) || (ncols - 1 <? nx0 + ix) || (ny0 + iy <? 0) ||
                (nrows - 1 <? ny0 + iy)) eqn:E.
      + acc3. cbn. rewrite Zlen_upd. split; auto. apply Forall_upd; auto. left; auto.
      + zb. rewrite chk64_ok' by (unfold MAX64 in *; nia). cbn [bindr]. acc3. cbn.
        rewrite Zlen_upd. split; auto. apply Forall_upd; auto. right. nia. }
  all: cbn beta; auto; try (intros; contradiction).
Qed.

Lemma neighbours_post nrows ncols idx nb :
  0 <= nrows -> 0 <= ncols -> nrows * ncols <= MAX64 ->
  Zlen nb = 9 -> Forall (cgood (nrows * ncols)) nb ->
  post3 (neighbours nrows ncols idx nb) (fun _ => False) (fun _ => False)
        (fun c nb' => Zlen nb' = 9 /\ Forall (cgood (nrows * ncols)) nb' /\
                      (c = 0 <-> 0 <= idx < nrows * ncols)).
Proof.
  intros Hr Hc Hg Hl Hf. unfold neighbours.
  rewrite chk64_ok' by (unfold MAX64 in *; nia). cbn [bindr].
  destruct ((idx <? 0) || (nrows * ncols <=? idx)) eqn:E.
  - apply orb_true_iff in E. cbn. repeat split; auto; intros; destruct E; zb; lia.
  - zb. assert (0 < ncols) by nia.
    destruct (getnxy_ok ncols idx ltac:(lia) ltac:(lia)) as (nx & ny & G & _).
    rewrite G. cbn [bindr]. apply post3_finish.
    eapply post3_weaken; [apply nb_body_post; auto| | |]; cbn; auto.
    + intros s (A & B). repeat split; auto; lia.
    + intros ? [].
    + intros ? ? [].
Qed.

Lemma nb_local_good ntot : Zlen nb_local = 9 /\ Forall (cgood ntot) nb_local.
Proof. unfold nb_local, NEIGHBOURS_SIZE. cbn. split; auto. repeat constructor; left; auto. Qed.

Lemma neighbours_safe : forall nrows ncols idx nb,
  0 <= nrows -> 0 <= ncols -> nrows * ncols <= MAX64 -> Zlen nb = 9 ->
  safe (neighbours nrows ncols idx nb).
Proof.
  intros nrows ncols idx nb Hr Hc Hg Hl. unfold neighbours.
  rewrite chk64_ok' by (unfold MAX64 in *; nia). cbn [bindr].
  destruct ((idx <? 0) || (nrows * ncols <=? idx)) eqn:E; [exact I|].
  zb. assert (0 < ncols) by nia.
  destruct (getnxy_ok ncols idx ltac:(lia) ltac:(lia)) as (nx & ny & G & _).
  rewrite G. cbn [bindr].
  apply (post3_safe _ (fun _ => False) (fun _ => False) (fun _ _ => True)).
  apply post3_finish. unfold nb_body.
  eapply post3_weaken.
  { apply (forZ_inv3 (fun nb' => Zlen nb' = 9) (fun _ _ => True)); auto.
    intros iy t Hy I1.
    eapply post3_weaken.
    { apply (forZ_inv3 (fun nb' => Zlen nb' = 9) (fun _ _ => True)); auto.
      intros ix u Hx J1.
      destruct ((ix =? 0) && (iy =? 0)).
      - acc3. cbn. now rewrite Zlen_upd.
      - destruct ((nx + ix <? 0) || (ncols - 1 <? nx + ix) || (ny + iy <? 0) ||
                  (nrows - 1 <? ny + iy)) eqn:E2.
        + acc3. cbn. now rewrite Zlen_upd.
        + zb. rewrite chk64_ok' by (unfold MAX64 in *; nia). cbn [bindr]. acc3. cbn.
          now rewrite Zlen_upd. }
    all: cbn beta; auto; try (intros; contradiction). }
  all: cbn beta; auto; try (intros; contradiction).
Qed.

(* ---- c_downstream *)
Lemma downstream_post nrows ncols code flowdir nval idxup idxdown :
  0 <= nrows -> 0 <= ncols -> nrows * ncols <= MAX64 ->
  Zlen code = 9 -> Zlen flowdir = nrows * ncols -> Zlen idxup = nval -> Zlen idxdown = nval ->
  post3 (downstream nrows ncols code flowdir nval idxup idxdown) (fun _ => False) (fun _ => False)
        (fun c out => Zlen out = nval /\ (c = 0 \/ c = 1) /\
           (c = 0 -> forall j, 0 <= j < nval ->
              0 <= nth (Z.to_nat j) idxup 0 < nrows * ncols /\
              dgood (nrows * ncols) (nth (Z.to_nat j) out 0)) /\
           (c = 1 -> exists j, 0 <= j < nval /\ ~ (0 <= nth (Z.to_nat j) idxup 0 < nrows * ncols))).
Proof.
  intros Hr Hc Hg Hcd Hfd Hup Hdn. unfold downstream.
  set (ntot := nrows * ncols) in *.
  apply post3_finish.
  pose (Inv := fun (i : Z) (out : list Z) => Zlen out = nval /\
     forall j, 0 <= j < i -> 0 <= nth (Z.to_nat j) idxup 0 < ntot /\
                              dgood ntot (nth (Z.to_nat j) out 0)).
  assert (0 <= nval) by (rewrite <- Hup; apply Zlen_nonneg).
  eapply post3_weaken.
  { apply (forZ_post3 Inv (fun _ => False)
             (fun c out => Zlen out = nval /\ (c = 0 \/ c = 1) /\ (c = 0 -> forall j, 0 <= j < nval ->
                0 <= nth (Z.to_nat j) idxup 0 < ntot /\ dgood ntot (nth (Z.to_nat j) out 0)) /\
                (c = 1 -> exists j, 0 <= j < nval /\ ~ (0 <= nth (Z.to_nat j) idxup 0 < ntot))));
      [lia|split; [auto|intros; lia]|].
    intros i out Hi (I1 & I2).
    acc3. set (cell := nth (Z.to_nat i) idxup 0).
    rewrite chk64_ok' by (unfold MAX64, ntot in *; nia). cbn [bindr].
    destruct ((cell <? 0) || (ntot <=? cell)) eqn:E.
    { cbn. split; auto. split; auto. split; [intros; discriminate|].
      intros _. exists i. split; [lia|]. fold cell. apply orb_true_iff in E. destruct E; zb; lia. }
    zb.
    destruct (nb_local_good ntot) as (L1 & L2).
    eapply post3_call; [apply neighbours_post; auto|].
    intros c nb (N1 & N2 & _).
    acc3. acc3.
    destruct (nth (Z.to_nat cell) flowdir 0 =? 0).
    - rewrite (wr_ok "idxdown") by (rewrite Zlen_upd; lia). cbn.
      unfold Inv. rewrite !Zlen_upd. split; auto.
      intros j Hj. destruct (Z.eq_dec j i) as [->|Hne].
      + rewrite nth_upd_same by (rewrite upd_length; unfold Zlen in I1; lia).
        split; [fold cell; lia|left; auto].
      + rewrite !nth_upd_other by lia. apply I2; lia.
    - eapply post3_weaken.
      { apply (forZ_inv3 (fun o => Zlen o = nval /\ dgood ntot (nth (Z.to_nat i) o 0) /\
                            forall j, 0 <= j < i -> 0 <= nth (Z.to_nat j) idxup 0 < ntot /\
                                                   dgood ntot (nth (Z.to_nat j) o 0))
                         (fun _ _ => False)).
        - rewrite Zlen_upd. split; auto. split.
          + rewrite nth_upd_same by (unfold Zlen in I1; lia). right; left; auto.
          + intros j Hj. rewrite nth_upd_other by lia. apply I2; lia.
        - intros k o Hk (J1 & J2 & J3). acc3.
          destruct (_ =? _); [|cbn; auto].
          acc3. acc3. cbn. rewrite Zlen_upd. split; auto. split.
          + rewrite nth_upd_same by (unfold Zlen in J1; lia).
            assert (G : cgood ntot (nth (Z.to_nat k) nb 0)).
            { rewrite Forall_forall in N2. apply N2. apply nth_In. unfold Zlen in N1; lia. }
            destruct G as [->|G]; [right; left; auto|right; right; auto].
          + intros j Hj. rewrite nth_upd_other by lia. apply J3; lia. }
      + cbn. intros o (J1 & J2 & J3). unfold Inv. split; auto.
        intros j Hj. destruct (Z.eq_dec j i) as [->|Hne]; [split; [fold cell; lia|auto]|apply J3; lia].
      + intros ? [].
      + intros ? ? []. }
  - cbn. intros out [(I1 & I2)|[]]. split; auto. split; auto. split; auto. intros; discriminate.
  - intros ? [].
  - auto.
Qed.

Lemma downstream_safe : forall nrows ncols code flowdir nval idxup idxdown,
  0 <= nrows -> 0 <= ncols -> nrows * ncols <= MAX64 ->
  Zlen code = 9 -> Zlen flowdir = nrows * ncols -> Zlen idxup = nval -> Zlen idxdown = nval ->
  safe (downstream nrows ncols code flowdir nval idxup idxdown).
Proof. intros; eapply post3_safe; apply downstream_post; auto. Qed.

(* one cell through one-element arrays *)
Lemma down1_post nrows ncols code flowdir c d0 :
  0 <= nrows -> 0 <= ncols -> nrows * ncols <= MAX64 ->
  Zlen code = 9 -> Zlen flowdir = nrows * ncols ->
  post3 (down1 nrows ncols code flowdir c d0)
        (fun r => (fst r = 0 \/ fst r = 1) /\
                  (fst r = 0 -> 0 <= c < nrows * ncols /\ dgood (nrows * ncols) (snd r)) /\
                  (0 <= c < nrows * ncols -> fst r = 0))
        (fun _ => False) (fun _ _ => False).
Proof.
  intros. unfold down1.
  eapply post3_call; [apply downstream_post; auto; reflexivity|].
  cbn. intros rc out (L & B & P & P1). split; auto. split.
  - intros E. specialize (P E 0 ltac:(lia)). cbn in P. auto.
  - intros Hv. destruct B as [B|B]; auto. destruct (P1 B) as (j & Hj & Hn).
    assert (j = 0) by lia. subst j. cbn in Hn. contradiction.
Qed.

(* ================================================================== *)
(* c_accumulate, c_slope                                                *)

Lemma zmod_guard (fx : bool) i nprint :
  fx = true \/ nprint <> 0 ->
  exists v, (if fx && (nprint =? 0) then Ok 0 else zmod i nprint) = Ok v.
Proof.
  intros H. unfold zmod. destruct (nprint =? 0) eqn:E; zb.
  - destruct H as [->|H]; [cbn; eauto|lia].
  - rewrite andb_false_r. eauto.
Qed.

Lemma accumulate_safe : forall nrows ncols nprint maxacc code flowdir ntoacc nacc,
  0 <= ncols -> nrows * ncols <= MAX64 ->
  Zlen code = 9 -> Zlen flowdir = nrows * ncols -> ntoacc = nrows * ncols -> nacc = nrows * ncols ->
  safe (accumulate true nrows ncols nprint maxacc code flowdir ntoacc nacc).
Proof.
  intros nrows ncols nprint maxacc code flowdir ntoacc nacc Hc Hg Hcd Hfd Ht Ha.
  unfold accumulate.
  destruct (maxacc <? 1); [exact I|].
  destruct (nrows <? 1) eqn:E; [exact I|]. zb.
  rewrite chk64_ok' by (unfold MAX64 in *; nia). cbn [bindr].
  set (ntot := nrows * ncols) in *.
  apply (post3_safe _ (fun _ => False) (fun _ => False) (fun _ _ => True)).
  apply post3_finish. eapply post3_weaken.
  { apply (forZ_inv3 (fun _ : unit => True) (fun _ _ => True)); auto.
    intros i u Hi _.
    destruct (zmod_guard true i nprint ltac:(auto)) as (v & Ev). rewrite Ev. cbn [bindr].
    eapply (post3_sub _ _ _ (fun _ => True)).
    - eapply post3_weaken.
      { apply (for_loop_inv3 (fun s => 0 <= ac_up s < ntot) (fun _ _ => True)); [cbn; lia|].
        intros j s Hs.
        eapply post3_call_next; [apply down1_post; auto; lia|].
        { cbn beta. intros [rc d] (B1 & B2 & B3). cbn [fst snd] in *.
          destruct (0 <? rc) eqn:E1; [exact I|]. zb.
          assert (rc = 0) by lia. destruct (B2 H) as (_ & G).
          destruct (d <? 0) eqn:E2; zb.
          + acc3. cbn. auto.
          + assert (0 <= d < ntot) by (destruct G as [G|[G|G]]; lia). acc3. acc3. cbn. lia. } }
      all: cbn beta; auto; try (intros; contradiction).
    - intros; cbn; auto. }
  all: cbn beta; auto; try (intros; contradiction).
Qed.

Lemma accumulate_pinned_unsafe :
  accumulate false 2 2 0 4 [32; 64; 128; 16; 0; 1; 8; 4; 2] [1; 4; 1; 0] 4 4 = Fail DivZero.
Proof. vm_compute. reflexivity. Qed.

Lemma slope_safe : forall nrows ncols nprint code flowdir nalt slopeval,
  0 <= ncols -> nrows * ncols <= MAX64 ->
  Zlen code = 9 -> Zlen flowdir = nrows * ncols -> nalt = nrows * ncols ->
  Zlen slopeval = nrows * ncols ->
  safe (slope true nrows ncols nprint code flowdir nalt slopeval).
Proof.
  intros nrows ncols nprint code flowdir nalt slopeval Hc Hg Hcd Hfd Ha Hs.
  unfold slope.
  destruct (nrows <? 1) eqn:E; [exact I|]. zb.
  rewrite chk64_ok' by (unfold MAX64 in *; nia). cbn [bindr].
  set (ntot := nrows * ncols) in *.
  apply (post3_safe _ (fun _ => False) (fun _ => False) (fun _ _ => True)).
  apply post3_finish. eapply post3_weaken.
  { apply (forZ_inv3 (fun sv => Zlen sv = ntot) (fun _ _ => True)); auto.
    intros i sv Hi I1.
    destruct (zmod_guard true i nprint ltac:(auto)) as (v & Ev). rewrite Ev. cbn [bindr].
    eapply post3_call_next; [apply down1_post; auto; lia|].
    cbn beta. intros [rc d] (B1 & B2 & B3). cbn [fst snd] in *.
    { destruct (0 <? rc) eqn:E1; [exact I|]. zb.
      assert (rc = 0) by lia. destruct (B2 H) as (_ & G).
      destruct (0 <=? d) eqn:E2; zb; [|cbn; auto].
      assert (0 <= d < ntot) by (destruct G as [G|[G|G]]; lia).
      acc3. acc3. acc3. acc3. acc3. acc3. acc3. acc3. cbn. now rewrite Zlen_upd. } }
  all: cbn beta; auto; try (intros; contradiction).
Qed.

Lemma slope_pinned_unsafe :
  slope false 2 2 0 [32; 64; 128; 16; 0; 1; 8; 4; 2] [1; 4; 1; 0] 4 [false; false; false; false]
  = Fail DivZero.
Proof. vm_compute. reflexivity. Qed.

(* ================================================================== *)
(* c_cell2rowcol, c_cell2coord                                          *)

Lemma cell2rowcol_safe : forall nrows ncols nval idxcell rowcols,
  0 <= nrows -> 0 <= ncols -> nrows * ncols <= MAX64 ->
  Zlen idxcell = nval -> Zlen rowcols = 2 * nval ->
  safe (cell2rowcol nrows ncols nval idxcell rowcols).
Proof.
  intros nrows ncols nval idxcell rowcols Hr Hc Hg Hi Ho. unfold cell2rowcol.
  apply (post3_safe _ (fun _ => False) (fun _ => False) (fun _ _ => True)).
  apply post3_finish. eapply post3_weaken.
  { apply (forZ_inv3 (fun rc => Zlen rc = 2 * nval) (fun _ _ => True)); auto.
    intros i rc Hj I1. acc3.
    rewrite chk64_ok' by (unfold MAX64 in *; nia). cbn [bindr].
    destruct ((_ <? 0) || (_ <=? _)) eqn:E.
    - acc3. rewrite (wr_ok "rowcols") by (rewrite Zlen_upd; lia). cbn. now rewrite !Zlen_upd.
    - zb. assert (0 < ncols) by nia.
      destruct (getnxy_ok ncols (nth (Z.to_nat i) idxcell 0) ltac:(lia) ltac:(lia))
        as (nx & ny & G & _).
      rewrite G. cbn [bindr]. acc3.
      rewrite (wr_ok "rowcols") by (rewrite Zlen_upd; lia). cbn. now rewrite !Zlen_upd. }
  all: cbn beta; auto; try (intros; contradiction).
Qed.

Lemma cell2coord_safe : forall nrows ncols nval idxcell xy,
  0 <= nrows -> 0 <= ncols -> nrows * ncols <= MAX64 ->
  Zlen idxcell = nval -> Zlen xy = 2 * nval ->
  safe (cell2coord nrows ncols nval idxcell xy).
Proof.
  intros nrows ncols nval idxcell xy Hr Hc Hg Hi Ho. unfold cell2coord.
  apply (post3_safe _ (fun _ => False) (fun _ => False) (fun _ _ => True)).
  apply post3_finish. eapply post3_weaken.
  { apply (forZ_inv3 (fun o => Zlen o = 2 * nval) (fun _ _ => True)); auto.
    intros i o Hj I1. acc3.
    rewrite chk64_ok' by (unfold MAX64 in *; nia). cbn [bindr].
    destruct ((_ <? 0) || (_ <=? _)) eqn:E.
    - acc3. rewrite (mark_ok "xycoords") by (rewrite Zlen_upd; lia). cbn. now rewrite !Zlen_upd.
    - zb. assert (0 < ncols) by nia.
      destruct (getnxy_ok ncols (nth (Z.to_nat i) idxcell 0) ltac:(lia) ltac:(lia))
        as (nx & ny & G & _).
      rewrite G. cbn [bindr]. acc3.
      rewrite (mark_ok "xycoords") by (rewrite Zlen_upd; lia). cbn. now rewrite !Zlen_upd. }
  all: cbn beta; auto; try (intros; contradiction).
Qed.

(* ================================================================== *)
(* c_delineate_boundary                                                 *)

From Coq Require Import Sorting.Sorted.

Lemma zinsert_length x l : List.length (zinsert x l) = Datatypes.S (List.length l).
Proof. induction l; simpl; auto. destruct (x <=? a); simpl; auto. Qed.
Lemma zsort_length l : List.length (zsort l) = List.length l.
Proof. induction l; simpl; auto. rewrite zinsert_length; auto. Qed.
Lemma Zlen_zsort l : Zlen (zsort l) = Zlen l.
Proof. unfold Zlen; now rewrite zsort_length. Qed.

Lemma zinsert_Forall (P : Z -> Prop) x l : P x -> Forall P l -> Forall P (zinsert x l).
Proof.
  intros Hx H; induction H; simpl; auto.
  destruct (x <=? x0); auto.
Qed.

Lemma zinsert_sorted x l : StronglySorted Z.le l -> StronglySorted Z.le (zinsert x l).
Proof.
  induction 1 as [|a l Hs IH Ha]; simpl.
  - constructor; auto. constructor.
  - destruct (x <=? a) eqn:E; zb.
    + constructor; [constructor; auto|].
      constructor; auto. eapply Forall_impl; [|exact Ha]. intros; lia.
    + constructor; auto. apply zinsert_Forall; auto. lia.
Qed.

Lemma zsort_sorted l : StronglySorted Z.le (zsort l).
Proof. induction l; simpl; [constructor|apply zinsert_sorted; auto]. Qed.

Lemma sorted_between l : StronglySorted Z.le l -> forall k, (k < List.length l)%nat ->
  nth 0 l 0 <= nth k l 0 <= nth (List.length l - 1) l 0.
Proof.
  induction 1 as [|a l Hs IH Ha]; intros k Hk; simpl in Hk; [lia|].
  destruct l as [|b l'].
  - destruct k; simpl in *; try lia.
  - assert (Hlast : nth (List.length (a :: b :: l') - 1) (a :: b :: l') 0 =
                    nth (List.length (b :: l') - 1) (b :: l') 0).
    { simpl. rewrite Nat.sub_0_r. reflexivity. }
    rewrite Hlast.
    destruct k as [|k].
    + cbn [nth]. split; [lia|].
      assert (Hb := IH O ltac:(simpl; lia)). cbn [nth] in Hb.
      rewrite Forall_forall in Ha. assert (a <= b) by (apply Ha; left; auto). lia.
    + change (nth (Datatypes.S k) (a :: b :: l') 0) with (nth k (b :: l') 0).
      change (nth 0 (a :: b :: l') 0) with a.
      assert (Hb := IH k ltac:(simpl in *; lia)).
      rewrite Forall_forall in Ha.
      assert (a <= nth k (b :: l') 0) by (apply Ha; apply nth_In; simpl in *; lia).
      lia.
Qed.

Lemma getnxy_cgood nrows ncols c : 0 < ncols -> 0 <= nrows -> cgood (nrows * ncols) c ->
  exists nx ny, getnxy ncols c = Ok (nx, ny) /\ -1 <= nx < ncols /\ -1 <= ny < Z.max nrows 1.
Proof.
  intros Hc Hr [->|Hv].
  - unfold getnxy, zmod, zdiv. destruct (ncols =? 0) eqn:E; zb; [lia|]. cbn [bindR].
    destruct (Z.eq_dec ncols 1) as [->|Hn].
    + exists 0, (-1). split; [reflexivity|lia].
    + exists (-1), 0.
      assert (R : Z.rem (-1) ncols = -1).
      { change (-1) with (- (1)). rewrite Z.rem_opp_l by lia. rewrite Z.rem_small by lia. auto. }
      rewrite R. replace (-1 - -1) with 0 by lia. rewrite Z.quot_0_l by lia. split; auto. lia.
  - destruct (getnxy_ok ncols c Hc ltac:(lia)) as (nx & ny & G & B1 & B2 & B3).
    exists nx, ny. split; auto. split; [lia|]. split; [lia|].
    assert (ny < nrows) by nia. lia.
Qed.

Lemma post3_call_gen {A S} (m : step A) (k : Z -> A -> step S) (P : Z -> A -> Prop) PN PB PR :
  post3 m (P 0) (P 0) P -> (forall c a, P c a -> post3 (k c a) PN PB PR) ->
  post3 (call m k) PN PB PR.
Proof. intros H K; destruct m; simpl in *; auto; contradiction. Qed.

Definition LIM : Z := 1073741824.      (* 2^30 rows / columns *)

Lemma bd_step1_post ncols ngrid nval area mask buffer :
  1 <= nval -> 0 < ncols <= LIM -> 0 <= ngrid <= LIM * LIM ->
  Zlen area = nval -> Zlen mask = ngrid -> Zlen buffer = nval ->
  (forall k, 0 <= k < nval -> 0 <= nth (Z.to_nat k) area 0 < ngrid) ->
  let P := fun s => Zlen (b1_buf s) = nval /\ 1 <= b1_n s <= nval /\
                    forall k, 0 <= k < b1_n s -> 0 <= nth (Z.to_nat k) (b1_buf s) 0 < ngrid in
  post3 (bd_step1 ncols ngrid nval area mask buffer) P (fun _ => False) (fun _ s => P s).
Proof.
  intros Hn Hc Hg Ha Hm Hb Hr P. unfold bd_step1.
  acc3. acc3.
  pose (Inv := fun (i : Z) (s : bd1st) => Zlen (b1_buf s) = nval /\ 1 <= b1_n s <= i /\
                 forall k, 0 <= k < b1_n s -> 0 <= nth (Z.to_nat k) (b1_buf s) 0 < ngrid).
  eapply post3_weaken.
  { apply (forZ_post3 Inv (fun _ => False) (fun _ s => P s)); [lia| |].
    - unfold Inv; cbn. rewrite Zlen_upd. split; auto. split; [lia|].
      intros k Hk. assert (k = 0) by lia. subst k.
      rewrite nth_upd_same by (unfold Zlen in Hb; lia). apply (Hr 0); lia.
    - intros i s Hi (I1 & I2 & I3). acc3.
      set (cell := nth (Z.to_nat i) area 0). assert (Hcell := Hr i ltac:(lia)). fold cell in Hcell.
      acc3.
      destruct (negb (_ =? 1)).
      { cbn. unfold P. split; [auto|split; [lia|auto]]. }
      eapply (post3_sub _ _ _ (fun _ => True)).
      + eapply post3_weaken.
        { apply (forZ_inv3 (fun _ : Z => True) (fun _ _ => False)); auto.
          intros k io Hk _.
          assert (Hsh : - ncols <= nth (Z.to_nat k) [-1; 1; - ncols; ncols] 0 <= ncols).
          { assert (Hk4 : k = 0 \/ k = 1 \/ k = 2 \/ k = 3) by lia.
            destruct Hk4 as [->|[->|[->| ->]]]; simpl; lia. }
          rewrite (rd_ok "shift" 0 _ k) by (cbn; lia). cbn [bindr].
          set (sh := nth (Z.to_nat k) [-1; 1; - ncols; ncols] 0) in *.
          rewrite chk64_ok' by (unfold MAX64, LIM in *; nia). cbn [bindr].
          destruct ((0 <=? cell + sh) && (cell + sh <? ngrid)) eqn:E; [|cbn; auto].
          zb. acc3. cbn. auto. }
        all: cbn beta; auto; try (intros; contradiction).
      + intros io _. destruct (io =? 0); [|cbn; unfold Inv; split; [auto|split; [lia|auto]]].
        destruct (nval <? b1_n s) eqn:E; zb.
        { cbn. unfold P. split; [auto|split; [lia|auto]]. }
        acc3. cbn. unfold Inv; cbn. rewrite Zlen_upd. split; auto. split; [lia|].
        intros k Hk. destruct (Z.eq_dec k (b1_n s)) as [->|Hne].
        * rewrite nth_upd_same by (unfold Zlen in I1; lia). auto.
        * rewrite nth_upd_other by lia. apply I3; lia. }
  - cbn beta. intros s [(I1 & I2 & I3)|[]]. unfold P. split; [auto|split; [lia|auto]].
  - intros ? [].
  - auto.
Qed.

Section BoundaryProof.
Context {T : Type} (N : NumOps T).

(* (long long)((double)nbuffer * 0.8) is representable: true of binary64 and of the reals *)
Hypothesis thr_ok : forall n, 0 <= n <= MAX64 -> exists z, bd_threshold N n = Ok z.

Lemma bd_step2_safe nrows ncols distmax nval nbuffer buffer out :
  0 < ncols <= LIM -> 0 <= nrows <= LIM -> 0 <= distmax <= LIM ->
  1 <= nbuffer <= nval -> nval <= MAX64 -> Zlen buffer = nval -> Zlen out = nval ->
  (forall k, 0 <= k < nbuffer -> 0 <= nth (Z.to_nat k) buffer 0 < nrows * ncols) ->
  post3 (bd_step2 N true ncols distmax nval nbuffer buffer out)
        (fun _ => True) (fun _ => True) (fun _ _ => True).
Proof.
  intros Hc Hr Hd Hnb Hnv Hb Ho Hrange. unfold bd_step2.
  set (ntot := nrows * ncols) in *.
  acc3. set (start := nth (Z.to_nat 0) buffer 0). assert (Hs := Hrange 0 ltac:(lia)). fold start in Hs.
  destruct (getnxy_ok ncols start ltac:(lia) ltac:(lia)) as (sx & sy & G & _).
  rewrite G. cbn [bindr]. acc3.
  pose (Inv := fun (ibnd : Z) (s : bdst) =>
     Zlen (bd_buf s) = nval /\ Zlen (bd_out s) = nval /\
     (forall k, 0 <= k < nbuffer -> cgood ntot (nth (Z.to_nat k) (bd_buf s) 0)) /\
     cgood ntot (bd_cell s) /\ cgood ntot (bd_next s) /\ -1 <= bd_knext s < nbuffer /\
     0 <= bd_ibnd s).
  pose (Q := fun s : bdst => Zlen (bd_out s) = nval /\ 0 <= bd_ibnd s).
  apply post3_seq. eapply post3_weaken.
  { apply (forZ_post3 Inv Q (fun _ _ => True)); [lia| |].
    - unfold Inv; cbn. rewrite Zlen_upd. repeat split; auto; try lia.
      + intros k Hk. destruct (Z.eq_dec k 0) as [->|Hne].
        * rewrite nth_upd_same by (unfold Zlen in Hb; lia). left; auto.
        * rewrite nth_upd_other by lia. right. apply Hrange; lia.
      + right; auto.
      + left; auto.
    - intros ibnd s Hi (I1 & I2 & I3 & I4 & I5 & I6 & I7).
      destruct (getnxy_cgood nrows ncols (bd_cell s) ltac:(lia) ltac:(lia) I4)
        as (cx & cy & Gc & Bcx & Bcy).
      rewrite Gc. cbn [bindr]. acc3.
      rewrite chk64_ok' by (unfold MAX64, LIM in *; nia). cbn [bindr].
      eapply (post3_sub _ _ _ (fun r => cgood ntot (bi_next r) /\ -1 <= bi_knext r < nbuffer)).
      + eapply post3_weaken.
        { apply (forZ_inv3 (fun r => cgood ntot (bi_next r) /\ -1 <= bi_knext r < nbuffer)
                           (fun _ _ => False)); [cbn; auto|].
          intros k r Hk (J1 & J2). acc3.
          set (buf := nth (Z.to_nat k) (bd_buf s) 0). assert (Hbuf := I3 k Hk). fold buf in Hbuf.
          destruct (buf <? 0); [cbn; auto|].
          destruct (getnxy_cgood nrows ncols buf ltac:(lia) ltac:(lia) Hbuf)
            as (bx & by_ & Gb & Bbx & Bby).
          rewrite Gb. cbn [bindr].
          rewrite chk64_ok' by (unfold MAX64, LIM in *; nia). cbn [bindr].
          destruct ((_ <? bi_dmin r) && (0 <? _)); destruct (_ =? 1); cbn; auto; split; auto; lia. }
        all: cbn beta; auto; try (intros; contradiction).
      + intros r (J1 & J2).
        destruct (thr_ok nbuffer ltac:(lia)) as (thr & Et).
        rewrite Et. cbn [bindr].
        match goal with |- context [if ?c then Brk _ else _] => destruct c end.
        * cbn. unfold Q; cbn. rewrite Zlen_upd. split; auto; lia.
        * cbn [andb].
          destruct (0 <=? bi_knext r) eqn:E; zb; cbn [negb bindr].
          -- acc3. cbn. unfold Inv; cbn. rewrite !Zlen_upd. repeat split; auto; try lia.
             intros k Hk. destruct (Z.eq_dec k (bi_knext r)) as [->|Hne].
             ++ rewrite nth_upd_same by (unfold Zlen in I1; lia). left; auto.
             ++ rewrite nth_upd_other by lia. auto.
          -- cbn. unfold Inv; cbn. rewrite !Zlen_upd. repeat split; auto; lia. }
  2: intros ? []. 2: auto.
  cbn beta. intros s Hs2.
  assert (Hq : Q s) by (destruct Hs2 as [(I1 & I2 & _ & _ & _ & _ & I7)|Hq]; [split; auto|auto]).
  destruct Hq as (Q1 & Q2).
  destruct (nval - 1 <? bd_ibnd s) eqn:E; zb; acc3; cbn; auto.
Qed.

Lemma delineate_boundary_safe : forall nrows ncols nval area buffer mask out,
  nrows <= LIM -> ncols <= LIM -> nval <= MAX64 ->
  Zlen area = nval -> Zlen buffer = nval -> Zlen mask = nrows * ncols -> Zlen out = nval ->
  safe (delineate_boundary N true nrows ncols nval area buffer mask out).
Proof.
  intros nrows ncols nval area buffer mask out Hr Hc Hnv Ha Hb Hm Ho.
  unfold delineate_boundary.
  destruct (nval <? 1) eqn:E1; [exact I|]. zb. cbn [andb].
  destruct ((nrows <? 1) || (ncols <? 1)) eqn:E2; [exact I|]. zb.
  rewrite chk64_ok' by (unfold MAX64, LIM in *; nia). cbn [bindr].
  set (ngrid := nrows * ncols) in *.
  set (sorted := zsort area).
  assert (Hsl : Zlen sorted = nval) by (unfold sorted; rewrite Zlen_zsort; auto).
  acc3. acc3.
  destruct ((nth (Z.to_nat 0) sorted 0 <? 0) || (ngrid <=? nth (Z.to_nat (nval - 1)) sorted 0)) eqn:E3;
    [exact I|]. zb.
  assert (Hrange : forall k, 0 <= k < nval -> 0 <= nth (Z.to_nat k) sorted 0 < ngrid).
  { intros k Hk.
    assert (Hbt := sorted_between sorted (zsort_sorted area) (Z.to_nat k)
                     ltac:(unfold Zlen in Hsl; lia)).
    replace (Datatypes.length sorted - 1)%nat with (Z.to_nat (nval - 1)) in Hbt
      by (unfold Zlen in Hsl; lia).
    change (Z.to_nat 0) with O in *. lia. }
  apply (post3_safe _ (fun _ => True) (fun _ => True) (fun _ _ => True)).
  eapply post3_call_gen with (P := fun (_ : Z) s => Zlen (b1_buf s) = nval /\ 1 <= b1_n s <= nval /\
          forall k, 0 <= k < b1_n s -> 0 <= nth (Z.to_nat k) (b1_buf s) 0 < ngrid).
  { eapply post3_weaken;
      [apply (bd_step1_post ncols ngrid nval sorted mask buffer); auto; unfold LIM in *; try lia; nia| | |].
    - cbn beta. intros s Hs. exact Hs.
    - intros ? [].
    - cbn beta. intros c s Hs. exact Hs. }
  cbn beta. intros c s1 (S1 & S2 & S3).
  destruct (negb (c =? 0)); [exact I|].
  eapply post3_call_gen with (P := fun _ _ => True).
  { eapply post3_weaken;
      [apply (bd_step2_safe nrows ncols (if ncols <? nrows then nrows else ncols) nval (b1_n s1)
                (b1_buf s1) out); auto; unfold LIM in *; try lia| | |]; auto.
    destruct (ncols <? nrows); lia. }
  intros; exact I.
Qed.

End BoundaryProof.

(* the threshold is representable over the reals *)
Lemma RR_thr_ok : forall n, 0 <= n <= MAX64 -> exists z, bd_threshold RR n = Ok z.
Proof.
  intros n Hn. unfold bd_threshold, percmax, PERCMAX_NUM, PERCMAX_DEN. cbn.
  set (x := (IZR n * (4 / 5))%R).
  assert (Hx : (0 <= x <= IZR n)%R).
  { unfold x. assert (0 <= IZR n)%R by (apply IZR_le; lia). lra. }
  unfold R_trunc. destruct (Rle_dec 0 x) as [_|C]; [|lra].
  destruct (base_Int_part x) as [B1 B2].
  assert (0 <= Int_part x <= n).
  { split.
    - apply Z.lt_succ_r. apply lt_IZR. rewrite succ_IZR. lra.
    - apply le_IZR. lra. }
  unfold cast64, in_int64.
  replace ((-9223372036854775808 <=? Int_part x) && (Int_part x <=? 9223372036854775807)) with true
    by (symmetry; apply andb_true_intro; split; apply Z.leb_le; unfold MAX64 in *; lia).
  eauto.
Qed.

Lemma delineate_boundary_safe_RR : forall nrows ncols nval area buffer mask out,
  nrows <= LIM -> ncols <= LIM -> nval <= MAX64 ->
  Zlen area = nval -> Zlen buffer = nval -> Zlen mask = nrows * ncols -> Zlen out = nval ->
  safe (delineate_boundary RR true nrows ncols nval area buffer mask out).
Proof. exact (delineate_boundary_safe RR RR_thr_ok). Qed.

(* pinned kernel, one-cell area: buffer[-1] is written *)
Lemma delineate_boundary_pinned_unsafe :
  delineate_boundary F64 false 3 3 1 [4] [0] [0; 0; 0; 0; 1; 0; 0; 0; 0] [0]
  = Fail (OOB "buffer" (-1)).
Proof. vm_compute. reflexivity. Qed.

(* pinned kernel, area cells outside the grid: the mask is indexed with them *)
Lemma delineate_boundary_pinned_unsafe_cells :
  delineate_boundary F64 false 2 2 2 [-2; -1] [0; 0] [1; 1; 1; 1] [0; 0]
  = Fail (OOB "catchment_area_mask" (-1)).
Proof. vm_compute. reflexivity. Qed.
