(* Lemmas about Model/Scores.v, part 3: confusion matrix and binary scores. *)
From Coq Require Import ZArith Bool List Reals Lra Lia Sorting.Sorted.
From Hy Require Import Base.Num Gen.Consts Gen.ConstsC04 Model.Scores.
Import ListNotations.

(* ================================================================== *)
(* 1. confusion matrix                                                  *)
Open Scope Z_scope.

Lemma insert_u_In x y l : In y (insert_u x l) <-> x = y \/ In y l.
Proof.
  induction l as [|a l IH]; simpl.
  - tauto.
  - destruct (x <? a) eqn:E1; [simpl; tauto|].
    destruct (x =? a) eqn:E2.
    + apply Z.eqb_eq in E2; subst. simpl. tauto.
    + simpl. rewrite IH. tauto.
Qed.

Lemma sort_u_In x l : In x (sort_u l) <-> In x l.
Proof.
  induction l as [|a l IH]; simpl; [tauto|].
  rewrite insert_u_In, IH. tauto.
Qed.

Lemma insert_u_sorted x l : StronglySorted Z.lt l -> StronglySorted Z.lt (insert_u x l).
Proof.
  induction l as [|a l IH]; intros H; simpl.
  - constructor; constructor.
  - inversion H as [|? ? Hs Hf]; subst.
    destruct (x <? a) eqn:E1.
    + apply Z.ltb_lt in E1. constructor; [exact H|]. constructor; [exact E1|].
      eapply Forall_impl; [|exact Hf]. intros; simpl in *; lia.
    + destruct (x =? a) eqn:E2; [exact H|].
      apply Z.ltb_ge in E1. apply Z.eqb_neq in E2.
      constructor; [apply IH; exact Hs|].
      apply Forall_forall. intros y Hy. apply insert_u_In in Hy. destruct Hy as [<-|Hy]; [lia|].
      rewrite Forall_forall in Hf. now apply Hf.
Qed.

Lemma sort_u_sorted l : StronglySorted Z.lt (sort_u l).
Proof. induction l; simpl; [constructor | now apply insert_u_sorted]. Qed.

Fixpoint zseq (lo : Z) (k : nat) : list Z :=
  match k with O => [] | S k' => lo :: zseq (lo + 1) k' end.

Lemma map_of_nat_seq a k : map Z.of_nat (seq a k) = zseq (Z.of_nat a) k.
Proof.
  revert a; induction k as [|k IH]; intros a; simpl; [reflexivity|].
  rewrite IH. do 2 f_equal. lia.
Qed.

Lemma zrange_zseq n : zrange n = zseq 0 (Z.to_nat n).
Proof. unfold zrange. now rewrite map_of_nat_seq. Qed.

Lemma zseq_In lo k x : In x (zseq lo k) <-> lo <= x < lo + Z.of_nat k.
Proof.
  revert lo; induction k as [|k IH]; intros lo; simpl; [lia|].
  rewrite IH. lia.
Qed.

Lemma zseq_NoDup lo k : NoDup (zseq lo k).
Proof.
  revert lo; induction k as [|k IH]; intros lo; simpl; constructor; [|apply IH].
  rewrite zseq_In. lia.
Qed.

Lemma zseq_length lo k : length (zseq lo k) = k.
Proof. revert lo; induction k; intros; simpl; auto. Qed.

Lemma zrange_In n x : In x (zrange n) <-> 0 <= x < n.
Proof. rewrite zrange_zseq, zseq_In. lia. Qed.

Lemma zrange_NoDup n : NoDup (zrange n).
Proof. rewrite zrange_zseq. apply zseq_NoDup. Qed.

Lemma zrange_length n : length (zrange n) = Z.to_nat n.
Proof. rewrite zrange_zseq. apply zseq_length. Qed.

(* a strictly increasing list inside [lo, hi) has at most hi - lo elements *)
Lemma sorted_range_len l : StronglySorted Z.lt l ->
  forall lo hi, Forall (fun x => lo <= x < hi) l -> l <> [] -> Z.of_nat (length l) <= hi - lo.
Proof.
  induction l as [|a l IH]; intros Hs lo hi Hf Hne; [congruence|].
  inversion Hs as [|? ? Hs' Hlt]; subst. inversion Hf as [|? ? Ha Hf']; subst.
  destruct l as [|b l]; [simpl; lia|].
  assert (Hin : Forall (fun x => a + 1 <= x < hi) (b :: l)).
  { apply Forall_forall. intros x Hx. rewrite Forall_forall in Hlt, Hf'.
    specialize (Hlt x Hx). specialize (Hf' x Hx). lia. }
  specialize (IH Hs' (a + 1) hi Hin ltac:(discriminate)).
  change (length (a :: b :: l)) with (S (length (b :: l))). lia.
Qed.

(* ... and when it has exactly that many it is the whole range *)
Lemma sorted_full l : StronglySorted Z.lt l ->
  forall lo, Forall (fun x => lo <= x < lo + Z.of_nat (length l)) l -> l = zseq lo (length l).
Proof.
  induction l as [|a l IH]; intros Hs lo Hf; [reflexivity|].
  inversion Hs as [|? ? Hs' Hlt]; subst. inversion Hf as [|? ? Ha Hf']; subst.
  cbn [length] in *. rewrite Nat2Z.inj_succ in *.
  assert (Ea : a = lo).
  { destruct l as [|b l]; [simpl in *; lia|].
    assert (Hin : Forall (fun x => a + 1 <= x < lo + Z.succ (Z.of_nat (length (b :: l)))) (b :: l)).
    { apply Forall_forall. intros x Hx. rewrite Forall_forall in Hlt, Hf'.
      specialize (Hlt x Hx). specialize (Hf' x Hx). lia. }
    pose proof (sorted_range_len (b :: l) Hs' _ _ Hin ltac:(discriminate)). lia. }
  subst a. simpl. f_equal. apply IH; [exact Hs'|].
  apply Forall_forall. intros x Hx. rewrite Forall_forall in Hlt, Hf'.
  specialize (Hlt x Hx). specialize (Hf' x Hx). lia.
Qed.

(* distinct sorted labels that all lie in [0, n) and are n in number are 0..n-1 *)
Lemma labels_full l n :
  (forall x, In x l -> 0 <= x < n) -> Z.of_nat (length (sort_u l)) = n -> sort_u l = zrange n.
Proof.
  intros Hr Hl. rewrite zrange_zseq. rewrite <- Hl, Nat2Z.id.
  apply sorted_full; [apply sort_u_sorted|].
  apply Forall_forall. intros x Hx. rewrite sort_u_In in Hx. specialize (Hr x Hx). lia.
Qed.

(* ---- inferred number of categories ---- *)
Lemma fold_max_ge l a : a <= fold_left Z.max l a /\ forall x, In x l -> x <= fold_left Z.max l a.
Proof.
  revert a; induction l as [|b l IH]; intros a; simpl; [split; [lia|tauto]|].
  destruct (IH (Z.max a b)) as [H1 H2]. split; [lia|].
  intros x [->|Hx]; [lia|auto].
Qed.

Lemma ncat_fix_bound obs sim x :
  In x obs \/ In x sim -> x < ncat_fix (sort_u obs) (sort_u sim).
Proof.
  intros H. unfold ncat_fix.
  destruct (fold_max_ge (sort_u obs ++ sort_u sim) (-1)) as [_ H2].
  assert (In x (sort_u obs ++ sort_u sim)).
  { apply in_or_app. destruct H; [left|right]; now apply sort_u_In. }
  specialize (H2 x H0). lia.
Qed.

(* ---- the table ---- *)
Theorem confusion_spec ncat obs sim n :
  length obs = length sim ->
  (ncat = Some n \/ (ncat = None /\ n = ncat_fix (sort_u obs) (sort_u sim))) ->
  (forall x, In x obs \/ In x sim -> 0 <= x < n) ->
  confusion ncat obs sim =
  Some (mkCT (zrange n) (zrange n) (table (zrange n) (zrange n) obs sim)).
Proof.
  intros Hl Hn Hr. unfold confusion, confusion_gen. rewrite Hl, Nat.eqb_refl. cbn [negb].
  assert (En : match ncat with Some n0 => n0 | None => ncat_fix (sort_u obs) (sort_u sim) end = n).
  { destruct Hn as [->|[-> ->]]; reflexivity. }
  rewrite En.
  destruct ((Z.of_nat (length (sort_u obs)) =? n) && (Z.of_nat (length (sort_u sim)) =? n)) eqn:E;
    [|reflexivity].
  apply andb_true_iff in E as [E1 E2]. apply Z.eqb_eq in E1, E2.
  rewrite (labels_full obs n), (labels_full sim n); auto.
Qed.

Theorem confusion_inferred obs sim :
  length obs = length sim ->
  (forall x, In x obs \/ In x sim -> 0 <= x) ->
  let n := ncat_fix (sort_u obs) (sort_u sim) in
  confusion None obs sim =
  Some (mkCT (zrange n) (zrange n) (table (zrange n) (zrange n) obs sim)).
Proof.
  intros Hl H0 n. apply confusion_spec; [exact Hl | right; split; reflexivity |].
  intros x Hx. split; [now apply H0 | now apply ncat_fix_bound].
Qed.

Theorem confusion_shape_error infer ncat obs sim :
  length obs <> length sim -> confusion_gen infer ncat obs sim = None.
Proof. intros H. unfold confusion_gen. apply Nat.eqb_neq in H. now rewrite H. Qed.

(* cell (i, j) of the table over 0..n-1 *)
Lemma nth_zrange n i : 0 <= i < n -> nth (Z.to_nat i) (zrange n) 0 = i.
Proof.
  intros H. unfold zrange.
  rewrite (nth_indep _ 0 (Z.of_nat 0)) by (rewrite map_length, seq_length; lia).
  rewrite map_nth, seq_nth by lia. lia.
Qed.

Lemma table_cell n obs sim i j : 0 <= i < n -> 0 <= j < n ->
  nth (Z.to_nat j) (nth (Z.to_nat i) (table (zrange n) (zrange n) obs sim) []) 0 =
  count_pair i j obs sim.
Proof.
  intros Hi Hj. unfold table.
  set (f := fun i0 => map (fun j0 => count_pair i0 j0 obs sim) (zrange n)).
  rewrite (nth_indep _ [] (f 0)) by (rewrite map_length, zrange_length; lia).
  rewrite map_nth. rewrite nth_zrange by exact Hi. unfold f.
  set (g := fun j0 => count_pair i j0 obs sim).
  rewrite (nth_indep _ 0 (g 0)) by (rewrite map_length, zrange_length; lia).
  rewrite map_nth. rewrite nth_zrange by exact Hj. reflexivity.
Qed.

Lemma table_dims n obs sim : 0 <= n ->
  length (table (zrange n) (zrange n) obs sim) = Z.to_nat n /\
  Forall (fun r => length r = Z.to_nat n) (table (zrange n) (zrange n) obs sim).
Proof.
  intros Hn. unfold table. split; [now rewrite map_length, zrange_length|].
  apply Forall_forall. intros r Hr. apply in_map_iff in Hr as (i & <- & _).
  now rewrite map_length, zrange_length.
Qed.

(* ---- every pair is counted exactly once ---- *)
Lemma zsum_map_plus {A} (f g : A -> Z) l :
  zsum (map (fun x => f x + g x) l) = zsum (map f l) + zsum (map g l).
Proof. induction l as [|a l IH]; simpl; [reflexivity|]. unfold zsum in *. simpl. lia. Qed.

Lemma zsum_map_zero {A} (l : list A) : zsum (map (fun _ => 0) l) = 0.
Proof. induction l; simpl; auto. Qed.

Lemma zsum_map_ext {A} (f g : A -> Z) l :
  (forall x, In x l -> f x = g x) -> zsum (map f l) = zsum (map g l).
Proof.
  induction l as [|a l IH]; intros H; simpl; [reflexivity|].
  rewrite (H a) by (left; reflexivity). unfold zsum in *. simpl. rewrite IH; [reflexivity|].
  intros; apply H; now right.
Qed.

Lemma zsum_indicator a l :
  NoDup l -> zsum (map (fun i => if i =? a then 1 else 0) l) = if existsb (Z.eqb a) l then 1 else 0.
Proof.
  induction l as [|b l IH]; intros Hnd; simpl; [reflexivity|].
  inversion Hnd as [|? ? Hnotin Hnd']; subst. unfold zsum in *. simpl. rewrite IH by exact Hnd'.
  destruct (b =? a) eqn:E.
  - apply Z.eqb_eq in E; subst. rewrite Z.eqb_refl. simpl.
    destruct (existsb (Z.eqb a) l) eqn:Ex; [|reflexivity].
    apply existsb_exists in Ex as (y & Hy & Ey). apply Z.eqb_eq in Ey; subst. contradiction.
  - rewrite Z.eqb_sym, E. simpl. reflexivity.
Qed.

Lemma existsb_In a l : In a l -> existsb (Z.eqb a) l = true.
Proof. intros H. apply existsb_exists. exists a. split; [exact H | apply Z.eqb_refl]. Qed.

Definition cntL (i j : Z) (L : list (Z * Z)) : Z := Z.of_nat (length (filter (pair_is i j) L)).
Definition totL (rows cols : list Z) (L : list (Z * Z)) : Z :=
  zsum (map (fun i => zsum (map (fun j => cntL i j L) cols)) rows).

Lemma totL_all rows cols L :
  NoDup rows -> NoDup cols ->
  Forall (fun p => In (fst p) rows /\ In (snd p) cols) L ->
  totL rows cols L = Z.of_nat (length L).
Proof.
  intros Hr Hc. induction L as [|[a b] L IH]; intros Hf.
  - unfold totL, cntL. simpl.
    rewrite (zsum_map_ext _ (fun _ => 0)); [apply zsum_map_zero|].
    intros i _. apply zsum_map_zero.
  - inversion Hf as [|? ? [Ha Hb] Hf']; subst. simpl in Ha, Hb.
    unfold totL in *.
    rewrite (zsum_map_ext _ (fun i => zsum (map (fun j => cntL i j L) cols)
                                      + (if i =? a then 1 else 0))).
    + rewrite zsum_map_plus, IH by exact Hf'.
      rewrite zsum_indicator by exact Hr. rewrite existsb_In by exact Ha.
      cbn [length]. lia.
    + intros i _.
      rewrite (zsum_map_ext _ (fun j => cntL i j L
                                 + (if i =? a then (if j =? b then 1 else 0) else 0))).
      * rewrite zsum_map_plus. f_equal.
        destruct (i =? a); [|apply zsum_map_zero].
        rewrite zsum_indicator by exact Hc. now rewrite existsb_In by exact Hb.
      * intros j _. unfold cntL. cbn [filter]. unfold pair_is at 1. cbn [fst snd].
        rewrite (Z.eqb_sym a i), (Z.eqb_sym b j).
        destruct (i =? a), (j =? b); cbn [andb length]; lia.
Qed.

Lemma table_total_spec rows cols obs sim :
  zsum (map zsum (table rows cols obs sim)) = totL rows cols (combine obs sim).
Proof. unfold table, totL. rewrite map_map. reflexivity. Qed.

Theorem confusion_total ncat obs sim n t :
  length obs = length sim ->
  (ncat = Some n \/ (ncat = None /\ n = ncat_fix (sort_u obs) (sort_u sim))) ->
  (forall x, In x obs \/ In x sim -> 0 <= x < n) ->
  confusion ncat obs sim = Some t -> table_total t = Z.of_nat (length obs).
Proof.
  intros Hl Hn Hr Ht. rewrite (confusion_spec ncat obs sim n Hl Hn Hr) in Ht.
  inversion Ht; subst; clear Ht. unfold table_total. cbn [ct_vals].
  rewrite table_total_spec, totL_all.
  - rewrite combine_length, <- Hl. now rewrite Nat.min_id.
  - apply zrange_NoDup.
  - apply zrange_NoDup.
  - apply Forall_forall. intros [a b] Hp. cbn [fst snd].
    split; apply zrange_In; apply Hr; [left; eapply in_combine_l | right; eapply in_combine_r]; eauto.
Qed.

(* the pinned inference loses pairs *)
Lemma confusion_old_refuted :
  exists obs sim t, length obs = length sim /\ (forall x, In x obs \/ In x sim -> 0 <= x) /\
    confusion_old None obs sim = Some t /\ table_total t <> Z.of_nat (length obs).
Proof.
  exists [0; 2; 2; 0], [0; 0; 0; 0].
  eexists. split; [reflexivity|]. split.
  - intros x [H|H]; simpl in H; lia.
  - split; [vm_compute; reflexivity|]. vm_compute. discriminate.
Qed.

(* the same input on the repaired inference *)
Lemma confusion_fixed_example :
  confusion None [0; 2; 2; 0] [0; 0; 0; 0] =
  Some (mkCT [0; 1; 2] [0; 1; 2] [[2; 0; 0]; [0; 0; 0]; [2; 0; 0]]).
Proof. vm_compute. reflexivity. Qed.

Close Scope Z_scope.

(* ================================================================== *)
(* 2. binary scores                                                     *)
Open Scope R_scope.

Definition gsem (op : gop) (a b : R) : Prop :=
  match op with GLt => a < b | GLe => a <= b | GGt => b < a | GGe => b <= a end.

Lemma gcmp_R op a b : gcmp RR op a b = true <-> gsem op a b.
Proof.
  destruct op; cbn [gcmp gsem nltb nleb RR];
    first [apply Rltb_true | apply Rleb_true].
Qed.

Definition gval (v : gvar) (H F th : R) : R :=
  match v with GH => H | GF => F | GTheta => th end.

Lemma guard_ok_R g H F th :
  guard_ok RR g H F th = true <->
  Forall (fun a => match a with (v, op, z) => gsem op (gval v H F th) (IZR z) end) g.
Proof.
  unfold guard_ok. rewrite forallb_forall, Forall_forall.
  split; intros Hg [[v op] z] Hin; specialize (Hg _ Hin); cbn [nofZ RR] in *.
  - apply gcmp_R in Hg. destruct v; exact Hg.
  - apply gcmp_R. destruct v; exact Hg.
Qed.

Lemma guard_ok_R_false g H F th :
  Exists (fun a => match a with (v, op, z) => ~ gsem op (gval v H F th) (IZR z) end) g ->
  guard_ok RR g H F th = false.
Proof.
  intros He. destruct (guard_ok RR g H F th) eqn:E; [|reflexivity].
  apply guard_ok_R in E. rewrite Forall_forall in E. apply Exists_exists in He as ([[v op] z] & Hin & Hn).
  exfalso. apply Hn. exact (E _ Hin).
Qed.

Section Binary.
Variables tn fp fn tp : Z.
Hypothesis Htn : (0 < tn)%Z.
Hypothesis Hfp : (0 < fp)%Z.
Hypothesis Hfn : (0 < fn)%Z.
Hypothesis Htp : (0 < tp)%Z.

Let a := IZR tp.
Let b := IZR fp.
Let c := IZR fn.
Let d := IZR tn.

Lemma pos_a : 0 < a. Proof. unfold a. now apply IZR_lt. Qed.
Lemma pos_b : 0 < b. Proof. unfold b. now apply IZR_lt. Qed.
Lemma pos_c : 0 < c. Proof. unfold c. now apply IZR_lt. Qed.
Lemma pos_d : 0 < d. Proof. unfold d. now apply IZR_lt. Qed.

Lemma hit_R : hit_rate RR fn tp = a / (a + c).
Proof. unfold hit_rate, zf. cbn [ndiv nofZ RR]. now rewrite plus_IZR. Qed.

Lemma fa_R : false_alarm RR tn fp = b / (d + b).
Proof. unfold false_alarm, zf. cbn [ndiv nofZ RR]. now rewrite plus_IZR. Qed.

Lemma frac_unit x y : 0 < x -> 0 < y -> 0 < x / (x + y) < 1.
Proof.
  intros Hx Hy. assert (Hs : 0 < x + y) by lra.
  split.
  - apply Rdiv_lt_0_compat; assumption.
  - apply Rmult_lt_reg_r with (x + y); [exact Hs|].
    unfold Rdiv. rewrite Rmult_assoc, Rinv_l by lra. lra.
Qed.

Lemma hit_unit : 0 < hit_rate RR fn tp < 1.
Proof. rewrite hit_R. apply frac_unit; [apply pos_a | apply pos_c]. Qed.

Lemma fa_unit : 0 < false_alarm RR tn fp < 1.
Proof.
  rewrite fa_R. replace (d + b) with (b + d) by ring. apply frac_unit; [apply pos_b | apply pos_d].
Qed.

(* the odds ratio along the code's path H(1-F)/(1-H)/F is TP*TN/(FP*FN) *)
Lemma theta_R :
  odds_theta RR (hit_rate RR fn tp) (false_alarm RR tn fp) = (a * d) / (b * c).
Proof.
  rewrite hit_R, fa_R. unfold odds_theta. cbn [nmul nsub ndiv n1 RR].
  pose proof pos_a. pose proof pos_b. pose proof pos_c. pose proof pos_d.
  field. repeat split; lra.
Qed.

Lemma theta_pos : 0 < (a * d) / (b * c).
Proof.
  pose proof pos_a. pose proof pos_b. pose proof pos_c. pose proof pos_d.
  apply Rdiv_lt_0_compat; apply Rmult_lt_0_compat; assumption.
Qed.

(* the guard in front of LOR (as found in the source) holds for four positive counts *)
Lemma lor_guard_ok :
  guard_ok RR LOR_GUARD (hit_rate RR fn tp) (false_alarm RR tn fp)
           (odds_theta RR (hit_rate RR fn tp) (false_alarm RR tn fp)) = true.
Proof.
  apply guard_ok_R. pose proof hit_unit. pose proof fa_unit.
  pose proof theta_pos as Ht. rewrite <- theta_R in Ht.
  unfold LOR_GUARD. repeat (constructor; [cbn [gsem gval]; lra|]). constructor.
Qed.

(* ... and so does the guard in front of ORSS in the repaired source *)
Lemma orss_guard_ok :
  guard_ok RR ORSS_GUARD (hit_rate RR fn tp) (false_alarm RR tn fp)
           (odds_theta RR (hit_rate RR fn tp) (false_alarm RR tn fp)) = true.
Proof.
  apply guard_ok_R. pose proof hit_unit. pose proof fa_unit.
  pose proof theta_pos as Ht. rewrite <- theta_R in Ht.
  unfold ORSS_GUARD. repeat (constructor; [cbn [gsem gval]; lra|]). constructor.
Qed.

(* the pinned guard rejects every odds ratio >= 1 *)
Lemma orss_guard_old_rejects :
  b * c <= a * d ->
  guard_ok RR ORSS_GUARD_OLD (hit_rate RR fn tp) (false_alarm RR tn fp)
           (odds_theta RR (hit_rate RR fn tp) (false_alarm RR tn fp)) = false.
Proof.
  intros Hge. apply guard_ok_R_false. unfold ORSS_GUARD_OLD.
  apply Exists_cons_tl. apply Exists_cons_hd. cbn [gsem gval]. rewrite theta_R.
  pose proof pos_b. pose proof pos_c.
  assert (Hbc : 0 < b * c) by (apply Rmult_lt_0_compat; assumption).
  intros Hlt. apply (Rmult_lt_compat_r (b * c)) in Hlt; [|exact Hbc].
  unfold Rdiv in Hlt. rewrite Rmult_assoc, Rinv_l in Hlt by lra. lra.
Qed.

(* ---- the record returned for four positive counts ---- *)
Definition bin_expected : bscores (T:=R) :=
  {| b_bias := (a + b) / (a + c);
     b_hit := a / (a + c);
     b_prec := a / (a + b);
     b_fa := b / (d + b);
     b_acc := (a + d) / (a + c + (d + b));
     b_f1 := (2 * a) / (2 * a + b + c);
     b_mcc := (a * d - b * c) / sqrt ((a + b) * (a + c) * (d + b) * (d + c));
     b_lor := ln ((a * d) / (b * c));
     b_orss := (a * d - b * c) / (a * d + b * c);
     b_eds := 2 * ln ((a + c) / (a + c + (d + b))) / ln (a / (a + c + (d + b))) - 1 |}.

Lemma binary_R : binary RR ln tn fp fn tp = BOk bin_expected.
Proof.
  unfold binary, binary_gen, mcc_fix.
  assert (E1 : (0 <? tp)%Z = true) by (apply Z.ltb_lt; lia).
  assert (E2 : (tp =? tp + fn + (tn + fp))%Z = false) by (apply Z.eqb_neq; lia).
  rewrite E1, E2. cbn [andb]. rewrite lor_guard_ok.
  unfold orss_of. rewrite orss_guard_ok. rewrite theta_R.
  unfold bin_expected. f_equal.
  unfold zf. cbn [ndiv nofZ nmul nsub nadd nsqrt n1 RR].
  rewrite !hit_R, !fa_R.
  rewrite ?plus_IZR, ?mult_IZR, ?minus_IZR. fold a b c d.
  pose proof pos_a. pose proof pos_b. pose proof pos_c. pose proof pos_d.
  assert (Hbc : 0 < b * c) by (apply Rmult_lt_0_compat; assumption).
  assert (Had : 0 < a * d) by (apply Rmult_lt_0_compat; assumption).
  rewrite ?minus_IZR, ?mult_IZR. fold a b c d.
  replace ((a * d / (b * c) - 1) / (a * d / (b * c) + 1)) with ((a * d - b * c) / (a * d + b * c))
    by (field; repeat split; lra).
  reflexivity.
Qed.

(* ---- count-level facts ---- *)
Lemma f1_harmonic :
  b_f1 bin_expected = 2 * (b_hit bin_expected * b_prec bin_expected)
                      / (b_hit bin_expected + b_prec bin_expected).
Proof.
  cbn [b_f1 b_hit b_prec bin_expected].
  pose proof pos_a. pose proof pos_b. pose proof pos_c.
  field. repeat split; try lra.
  replace (a * (a + b) + a * (a + c)) with (a * (2 * a + b + c)) by ring.
  apply Rmult_integral_contrapositive_currified; lra.
Qed.

Lemma rates_unit :
  0 < b_hit bin_expected < 1 /\ 0 < b_fa bin_expected < 1 /\
  0 < b_prec bin_expected < 1 /\ 0 < b_acc bin_expected < 1 /\ 0 < b_f1 bin_expected < 1.
Proof.
  cbn [b_hit b_fa b_prec b_acc b_f1 bin_expected].
  pose proof pos_a. pose proof pos_b. pose proof pos_c. pose proof pos_d.
  repeat split;
    try (apply frac_unit; lra);
    try (replace (d + b) with (b + d) by ring; apply frac_unit; lra).
  - replace (a + c + (d + b)) with ((a + d) + (c + b)) by ring. apply frac_unit; lra.
  - replace (a + c + (d + b)) with ((a + d) + (c + b)) by ring. apply frac_unit; lra.
  - replace (2 * a + b + c) with (2 * a + (b + c)) by ring. apply frac_unit; lra.
  - replace (2 * a + b + c) with (2 * a + (b + c)) by ring. apply frac_unit; lra.
Qed.

Lemma mcc_den_ge :
  (a * d + b * c) * (a * d + b * c) <= (a + b) * (a + c) * (d + b) * (d + c).
Proof.
  pose proof pos_a. pose proof pos_b. pose proof pos_c. pose proof pos_d.
  set (s := a * d + b * c).
  assert (Hs : 0 <= s) by (unfold s; apply Rplus_le_le_0_compat; apply Rmult_le_pos; lra).
  assert (Hac : 0 <= a * c) by (apply Rmult_le_pos; lra).
  assert (Hbd : 0 <= b * d) by (apply Rmult_le_pos; lra).
  assert (Hab : 0 <= a * b) by (apply Rmult_le_pos; lra).
  assert (Hcd : 0 <= c * d) by (apply Rmult_le_pos; lra).
  assert (P1 : s <= (a + b) * (d + c)) by (unfold s; ring_simplify; lra).
  assert (P2 : s <= (a + c) * (d + b)) by (unfold s; ring_simplify; lra).
  replace ((a + b) * (a + c) * (d + b) * (d + c)) with (((a + b) * (d + c)) * ((a + c) * (d + b))) by ring.
  apply Rmult_le_compat; assumption.
Qed.

Lemma mcc_square_le_1 : b_mcc bin_expected * b_mcc bin_expected <= 1.
Proof.
  cbn [b_mcc bin_expected].
  pose proof pos_a. pose proof pos_b. pose proof pos_c. pose proof pos_d.
  set (P := (a + b) * (a + c) * (d + b) * (d + c)).
  assert (HP : 0 < P).
  { unfold P. repeat apply Rmult_lt_0_compat; lra. }
  assert (Hsq : sqrt P * sqrt P = P) by (apply sqrt_sqrt; lra).
  assert (Hsp : 0 < sqrt P) by (apply sqrt_lt_R0; exact HP).
  assert (Hnum : (a * d - b * c) * (a * d - b * c) <= P).
  { apply Rle_trans with ((a * d + b * c) * (a * d + b * c)); [|apply mcc_den_ge].
    assert (0 <= a * d * (b * c)) by (repeat apply Rmult_le_pos; lra).
    replace ((a * d + b * c) * (a * d + b * c))
      with ((a * d - b * c) * (a * d - b * c) + 4 * (a * d * (b * c))) by ring. lra. }
  replace ((a * d - b * c) / sqrt P * ((a * d - b * c) / sqrt P))
    with ((a * d - b * c) * (a * d - b * c) / (sqrt P * sqrt P)) by (field; lra).
  rewrite Hsq. apply Rmult_le_reg_r with P; [exact HP|].
  unfold Rdiv. rewrite Rmult_assoc, Rinv_l by lra. lra.
Qed.

(* the log odds ratio and the odds-ratio skill score have the sign of TP*TN - FP*FN *)
Lemma lor_orss_sign :
  (0 < b_lor bin_expected <-> b * c < a * d) /\ (0 < b_orss bin_expected <-> b * c < a * d) /\
  (b_lor bin_expected = 0 <-> b * c = a * d) /\ (b_orss bin_expected = 0 <-> b * c = a * d).
Proof.
  cbn [b_lor b_orss bin_expected].
  pose proof pos_a. pose proof pos_b. pose proof pos_c. pose proof pos_d.
  assert (Hbc : 0 < b * c) by (apply Rmult_lt_0_compat; assumption).
  assert (Had : 0 < a * d) by (apply Rmult_lt_0_compat; assumption).
  assert (Hth : 0 < a * d / (b * c)) by (apply Rdiv_lt_0_compat; assumption).
  assert (Hcmp1 : 1 < a * d / (b * c) <-> b * c < a * d).
  { split; intros Hh.
    - apply (Rmult_lt_compat_r (b * c)) in Hh; [|exact Hbc].
      unfold Rdiv in Hh. rewrite Rmult_assoc, Rinv_l in Hh by lra. lra.
    - apply Rmult_lt_reg_r with (b * c); [exact Hbc|].
      unfold Rdiv. rewrite Rmult_assoc, Rinv_l by lra. lra. }
  assert (Hcmp2 : a * d / (b * c) = 1 <-> b * c = a * d).
  { split; intros Hh.
    - apply (f_equal (fun x => x * (b * c))) in Hh.
      unfold Rdiv in Hh. rewrite Rmult_assoc, Rinv_l in Hh by lra. lra.
    - rewrite Hh. field. lra. }
  assert (Hsum : 0 < a * d + b * c) by lra.
  repeat split.
  - intros Hl. apply Hcmp1. rewrite <- ln_1 in Hl. now apply ln_lt_inv in Hl; try lra.
  - intros Hh. apply Hcmp1 in Hh. rewrite <- ln_1. apply ln_increasing; lra.
  - intros Hh. apply (Rmult_lt_compat_r (a * d + b * c)) in Hh; [|exact Hsum].
    unfold Rdiv in Hh. rewrite Rmult_assoc, Rinv_l in Hh by lra. lra.
  - intros Hh. apply Rdiv_lt_0_compat; lra.
  - intros Hl. apply Hcmp2. rewrite <- ln_1 in Hl. apply ln_inv in Hl; lra.
  - intros Hh. apply Hcmp2 in Hh. rewrite Hh. apply ln_1.
  - intros Hh. apply (f_equal (fun x => x * (a * d + b * c))) in Hh.
    unfold Rdiv in Hh. rewrite Rmult_assoc, Rinv_l in Hh by lra. lra.
  - intros Hh. rewrite Hh. unfold Rdiv. ring.
Qed.

Lemma orss_unit : -1 < b_orss bin_expected < 1.
Proof.
  cbn [b_orss bin_expected].
  pose proof pos_a. pose proof pos_b. pose proof pos_c. pose proof pos_d.
  assert (Hbc : 0 < b * c) by (apply Rmult_lt_0_compat; assumption).
  assert (Had : 0 < a * d) by (apply Rmult_lt_0_compat; assumption).
  assert (Hsum : 0 < a * d + b * c) by lra.
  split.
  - apply Rmult_lt_reg_r with (a * d + b * c); [exact Hsum|].
    unfold Rdiv. rewrite Rmult_assoc, Rinv_l by lra. lra.
  - apply Rmult_lt_reg_r with (a * d + b * c); [exact Hsum|].
    unfold Rdiv. rewrite Rmult_assoc, Rinv_l by lra. lra.
Qed.

End Binary.

(* the same facts with the cells spelled out *)
Lemma binary_fields tn fp fn tp :
  (0 < tn)%Z -> (0 < fp)%Z -> (0 < fn)%Z -> (0 < tp)%Z ->
  let a := IZR tp in let b := IZR fp in let c := IZR fn in let d := IZR tn in
  exists s, binary RR ln tn fp fn tp = BOk s /\
    b_hit s = a / (a + c) /\ b_fa s = b / (d + b) /\ b_prec s = a / (a + b) /\
    b_acc s = (a + d) / (a + c + (d + b)) /\ b_bias s = (a + b) / (a + c) /\
    b_f1 s = (2 * a) / (2 * a + b + c) /\
    b_f1 s = 2 * (b_hit s * b_prec s) / (b_hit s + b_prec s) /\
    b_mcc s = (a * d - b * c) / sqrt ((a + b) * (a + c) * (d + b) * (d + c)) /\
    b_lor s = ln ((a * d) / (b * c)) /\
    b_orss s = (a * d - b * c) / (a * d + b * c).
Proof.
  intros Htn Hfp Hfn Htp a b c d. exists (bin_expected tn fp fn tp).
  split; [apply binary_R; assumption|].
  repeat split; try reflexivity. apply f1_harmonic; assumption.
Qed.

Lemma binary_ranges tn fp fn tp :
  (0 < tn)%Z -> (0 < fp)%Z -> (0 < fn)%Z -> (0 < tp)%Z ->
  exists s, binary RR ln tn fp fn tp = BOk s /\
    0 < b_hit s < 1 /\ 0 < b_fa s < 1 /\ 0 < b_prec s < 1 /\ 0 < b_acc s < 1 /\
    0 < b_f1 s < 1 /\ b_mcc s * b_mcc s <= 1 /\ -1 < b_orss s < 1.
Proof.
  intros Htn Hfp Hfn Htp. exists (bin_expected tn fp fn tp).
  split; [apply binary_R; assumption|].
  destruct (rates_unit tn fp fn tp Htn Hfp Hfn Htp) as (H1 & H2 & H3 & H4 & H5).
  repeat split; try tauto; try (apply mcc_square_le_1; assumption);
    apply (orss_unit tn fp fn tp Htn Hfp Hfn Htp).
Qed.

Lemma binary_signs tn fp fn tp :
  (0 < tn)%Z -> (0 < fp)%Z -> (0 < fn)%Z -> (0 < tp)%Z ->
  exists s, binary RR ln tn fp fn tp = BOk s /\
    (0 < b_lor s <-> (fp * fn < tp * tn)%Z) /\ (0 < b_orss s <-> (fp * fn < tp * tn)%Z) /\
    (b_lor s = 0 <-> (fp * fn = tp * tn)%Z) /\ (b_orss s = 0 <-> (fp * fn = tp * tn)%Z).
Proof.
  intros Htn Hfp Hfn Htp. exists (bin_expected tn fp fn tp).
  split; [apply binary_R; assumption|].
  destruct (lor_orss_sign tn fp fn tp Htn Hfp Hfn Htp) as (H1 & H2 & H3 & H4).
  assert (Elt : IZR fp * IZR fn < IZR tp * IZR tn <-> (fp * fn < tp * tn)%Z).
  { rewrite <- !mult_IZR. split; [apply lt_IZR | apply IZR_lt]. }
  assert (Eeq : IZR fp * IZR fn = IZR tp * IZR tn <-> (fp * fn = tp * tn)%Z).
  { rewrite <- !mult_IZR. split; [apply eq_IZR | intros ->; reflexivity]. }
  rewrite <- Elt, <- Eeq. tauto.
Qed.

(* ---- the pinned code on large tables: int64 overflow of the MCC denominator ---- *)
Lemma mcc_old_refuted :
  exists tn fp fn tp, (0 < tn /\ 0 < fp /\ 0 < fn /\ 0 < tp)%Z /\
    forall T (N : NumOps T) (nln : T -> T), binary_old N nln tn fp fn tp = BErr.
Proof.
  exists 30000%Z, 30000%Z, 30000%Z, 30000%Z. split; [lia|]. intros T N nln. reflexivity.
Qed.

(* the pinned ORSS on the executable binary64 instance: NaN although theta = 75 *)
Lemma orss_old_refuted_f64 :
  match binary_old F64 f_ln 50 5 4 30 with
  | BOk s => PrimFloat.is_nan (b_orss s) = true
  | BErr => False
  end.
Proof. vm_compute. reflexivity. Qed.

Lemma bin_example_pos : (0 < 50 /\ 0 < 5 /\ 0 < 4 /\ 0 < 30)%Z.
Proof. lia. Qed.

(* ---- names and shapes re-extracted from the source (Gen/ConstsC04.v) ---- *)
From Coq Require Import String.
Open Scope string_scope.
Definition has (l : list string) (s : string) : bool := existsb (String.eqb s) l.

(* the options and outputs the model covers exist under these names in the source;
   binary insists on a 2 x 2 table *)
Lemma source_ties :
  forallb (has BIAS_TYPES) ["standard"; "normalised"; "log"] = true /\
  forallb (has CORR_STATS) ["mean"; "median"] = true /\
  forallb (has CORR_TYPES) ["Pearson"; "Spearman"] = true /\
  forallb (has BINARY_KEYS) ["bias"; "hitrate"; "precision"; "falsealarm"; "accuracy"; "F1";
                             "MCC"; "LOR"; "ORSS"; "EDS"] = true /\
  BINARY_SHAPE = [2%Z; 2%Z].
Proof. repeat split; vm_compute; reflexivity. Qed.
