(* Theorems about Model/Dutils.v, part 2: the calendar of c_dateutils.c and
   dutils.monthly2daily, flat and cubic (property C08). *)
From Coq Require Import ZArith Bool List Reals Lra Lia.
From Hy Require Import Base.Num Gen.ConstsC08 Model.Dutils Proofs.DutilsProofs.
Import ListNotations.

(* ================================================================== *)
(* 1. calendar                                                          *)
Open Scope Z_scope.

Lemma is_leap_spec y :
  is_leap y = true <-> ((4 | y) /\ (~ (100 | y) \/ (400 | y))).
Proof.
  unfold is_leap, LEAP_A, LEAP_B, LEAP_C.
  rewrite andb_true_iff, orb_true_iff, negb_true_iff, !Z.eqb_eq, Z.eqb_neq.
  rewrite !Z.rem_divide by lia. reflexivity.
Qed.

Definition month_len (leap : bool) (m : Z) : Z :=
  if m =? 2 then (if leap then 29 else 28)
  else if (m =? 4) || (m =? 6) || (m =? 9) || (m =? 11) then 30 else 31.

Lemma days_in_month_valid y m :
  1 <= m <= 12 -> days_in_month y m = month_len (is_leap y) m.
Proof.
  intros H.
  assert (E : m = 1 \/ m = 2 \/ m = 3 \/ m = 4 \/ m = 5 \/ m = 6 \/ m = 7 \/ m = 8 \/
              m = 9 \/ m = 10 \/ m = 11 \/ m = 12) by lia.
  unfold days_in_month. generalize (is_leap y). intros b.
  repeat (destruct E as [->|E]; [destruct b; reflexivity|]).
  subst m. destruct b; reflexivity.
Qed.

Lemma days_in_month_invalid y m : m < 1 \/ 12 < m -> days_in_month y m = -1.
Proof.
  intros H. unfold days_in_month.
  destruct (Z.ltb_spec m 1); [reflexivity|].
  destruct (Z.ltb_spec 12 m); [reflexivity|lia].
Qed.

Lemma days_in_month_bounds y m : 1 <= m <= 12 -> 28 <= days_in_month y m <= 31.
Proof.
  intros H. rewrite days_in_month_valid by exact H. unfold month_len.
  destruct (m =? 2); [destruct (is_leap y); lia|].
  destruct ((m =? 4) || (m =? 6) || (m =? 9) || (m =? 11)); lia.
Qed.

Lemma days_in_february y : days_in_month y 2 = if is_leap y then 29 else 28.
Proof. rewrite days_in_month_valid by lia. reflexivity. Qed.

(* every month fits the evaluation grid of the cubic interpolation *)
Lemma days_in_month_fits_grid y m : 1 <= m <= 12 -> 1 <= days_in_month y m <= M2D_NGRID - 1.
Proof. intros H. pose proof (days_in_month_bounds y m H). unfold M2D_NGRID. lia. Qed.

Definition year_days (y : Z) : Z :=
  fold_right Z.add 0 (map (days_in_month y) [1; 2; 3; 4; 5; 6; 7; 8; 9; 10; 11; 12]).

Lemma year_days_spec y : year_days y = if is_leap y then 366 else 365.
Proof.
  unfold year_days. cbn [map fold_right].
  rewrite !days_in_month_valid by lia. unfold month_len.
  destruct (is_leap y); reflexivity.
Qed.

(* month starts *)
Definition valid_month (ym : Z * Z) : Prop := 1 <= snd ym <= 12.

Lemma next_month_valid ym : valid_month ym -> valid_month (next_month ym).
Proof.
  destruct ym as [y m]. unfold valid_month, next_month. simpl.
  destruct (Z.ltb_spec m 12); simpl; lia.
Qed.

Lemma months_from_valid n : forall ym, valid_month ym -> Forall valid_month (months_from ym n).
Proof.
  induction n as [|n IH]; intros ym H; simpl; constructor; [exact H|].
  apply IH, next_month_valid, H.
Qed.

Lemma months_from_length n : forall ym, length (months_from ym n) = n.
Proof. induction n as [|n IH]; intros ym; simpl; [reflexivity|]. rewrite IH; reflexivity. Qed.

(* the kernel's add-one-month on a first-of-month date is [next_month] *)
Lemma add1month_first ym :
  valid_month ym ->
  c_add1month (fst ym, snd ym, 1) = Some (fst (next_month ym), snd (next_month ym), 1).
Proof.
  destruct ym as [y m]. unfold valid_month; simpl. intros H.
  unfold c_add1month, next_month.
  destruct (Z.ltb_spec m 12); simpl.
  - pose proof (days_in_month_bounds y (m + 1) ltac:(lia)) as B.
    destruct (Z.ltb_spec (days_in_month y (m + 1)) 0); [lia|].
    destruct (Z.ltb_spec (days_in_month y (m + 1)) 1); [lia|]. reflexivity.
  - pose proof (days_in_month_bounds (y + 1) 1 ltac:(lia)) as B.
    destruct (Z.ltb_spec (days_in_month (y + 1) 1) 0); [lia|].
    destruct (Z.ltb_spec (days_in_month (y + 1) 1) 1); [lia|]. reflexivity.
Qed.

(* stepping day by day with the kernel's add-one-day walks through the month
   and lands on the first day of the next month *)
Fixpoint days_from (d : Z * Z * Z) (n : nat) : list (Z * Z * Z) :=
  match n with
  | O => []
  | S n' => d :: match c_add1day d with
                 | Some d' => days_from d' n'
                 | None => []
                 end
  end.

Definition month_days (ym : Z * Z) : list (Z * Z * Z) :=
  map (fun k => (fst ym, snd ym, Z.of_nat k + 1))
      (seq 0 (Z.to_nat (days_in_month (fst ym) (snd ym)))).

Lemma add1day_inside y m d :
  1 <= m <= 12 -> 1 <= d < days_in_month y m -> c_add1day (y, m, d) = Some (y, m, d + 1).
Proof.
  intros Hm Hd. unfold c_add1day.
  destruct (Z.ltb_spec (days_in_month y m) 0); [lia|].
  destruct (Z.ltb_spec d (days_in_month y m)); [reflexivity|lia].
Qed.

Lemma add1day_last y m :
  1 <= m <= 12 ->
  c_add1day (y, m, days_in_month y m) =
  Some (fst (next_month (y, m)), snd (next_month (y, m)), 1).
Proof.
  intros Hm. pose proof (days_in_month_bounds y m Hm). unfold c_add1day, next_month.
  destruct (Z.ltb_spec (days_in_month y m) 0); [lia|].
  rewrite Z.ltb_irrefl, Z.eqb_refl.
  destruct (Z.ltb_spec m 12); reflexivity.
Qed.

(* [k] days of a month starting from day [d], then whatever follows *)
Lemma days_from_month y m : 1 <= m <= 12 -> forall k d rest_n,
  1 <= d -> d + Z.of_nat k = days_in_month y m + 1 ->
  days_from (y, m, d) (k + rest_n) =
  map (fun j => (y, m, d + Z.of_nat j)) (seq 0 k) ++
  match k with
  | O => days_from (y, m, d) rest_n
  | S _ => days_from (fst (next_month (y, m)), snd (next_month (y, m)), 1) rest_n
  end.
Proof.
  intros Hm. induction k as [|k IH]; intros d rest_n Hd He.
  - reflexivity.
  - cbn [Nat.add days_from seq map].
    rewrite Z.add_0_r, <- app_comm_cons. f_equal.
    destruct k as [|k'].
    + (* d is the last day *)
      assert (d = days_in_month y m) by lia. subst d.
      rewrite add1day_last by exact Hm. reflexivity.
    + rewrite add1day_inside by lia.
      rewrite (IH (d + 1)%Z rest_n) by lia. f_equal.
      rewrite <- seq_shift, map_map.
      apply map_ext. intros j. f_equal. lia.
Qed.

Lemma days_from_months : forall months ym rest_n,
  valid_month ym -> months = months_from ym (length months) ->
  days_from (fst ym, snd ym, 1)
            (length (flat_map month_days months) + rest_n) =
  flat_map month_days months ++
  match months with
  | [] => days_from (fst ym, snd ym, 1) rest_n
  | _ => let l := fold_left (fun a _ => next_month a) months ym in
         days_from (fst l, snd l, 1) rest_n
  end.
Proof.
  induction months as [|m0 months IH]; intros ym rest_n Hv E.
  - reflexivity.
  - simpl in E. injection E as E0 E. subst m0.
    destruct ym as [y m]. unfold valid_month in Hv; simpl in Hv.
    cbn [flat_map]. rewrite app_length, <- Nat.add_assoc.
    pose proof (days_in_month_bounds y m Hv) as B.
    assert (Hl : length (month_days (y, m)) = Z.to_nat (days_in_month y m)).
    { unfold month_days. rewrite map_length, seq_length. reflexivity. }
    rewrite Hl. cbn [fst snd].
    rewrite (days_from_month y m Hv (Z.to_nat (days_in_month y m)) 1) by lia.
    rewrite <- app_assoc. f_equal.
    + unfold month_days. cbn [fst snd]. apply map_ext. intros j. f_equal. lia.
    + destruct (Z.to_nat (days_in_month y m)) eqn:En; [lia|].
      rewrite (IH (next_month (y, m)) rest_n (next_month_valid (y, m) Hv) E).
      f_equal. destruct months; reflexivity.
Qed.

(* one stamp per calendar day: walking day by day from the first day of the
   first month enumerates exactly the days of the successive months *)
Theorem month_blocks_are_consecutive_days ym n :
  valid_month ym ->
  days_from (fst ym, snd ym, 1) (length (flat_map month_days (months_from ym n))) =
  flat_map month_days (months_from ym n).
Proof.
  intros Hv.
  pose proof (days_from_months (months_from ym n) ym 0 Hv) as H.
  rewrite months_from_length in H. specialize (H eq_refl).
  rewrite Nat.add_0_r in H. rewrite H.
  rewrite <- (app_nil_r (flat_map month_days (months_from ym n))) at 2. f_equal.
  destruct (months_from ym n); reflexivity.
Qed.

(* ================================================================== *)
(* 2. monthly2daily                                                     *)
Open Scope R_scope.

Definition dim_of (ym : Z * Z) : Z := days_in_month (fst ym) (snd ym).

(* [blocks] holds one block per month: as many values as the month has days,
   adding up to the monthly value *)
Definition month_blocks_ok (start : Z * Z) (vals : list R) (blocks : list (list R)) : Prop :=
  Forall2 (fun p b => Z.of_nat (length b) = dim_of (fst p) /\ lsum b = snd p)
          (combine (months_from start (length vals)) vals) blocks.

Lemma lsum_repeat a n : lsum (repeat a n) = INR n * a.
Proof.
  induction n as [|n IH]; [simpl; lra|].
  cbn [repeat lsum]. rewrite IH, S_INR. lra.
Qed.

Lemma Forall2_map_r {A B} (P : A -> B -> Prop) (f : A -> B) l :
  (forall x, In x l -> P x (f x)) -> Forall2 P l (map f l).
Proof.
  induction l as [|a l IH]; intros H; simpl; constructor.
  - apply H; left; reflexivity.
  - apply IH. intros x Hx. apply H; right; exact Hx.
Qed.

Lemma m2d_flat_month_RR nd v :
  (0 < nd)%Z -> 0 <= v ->
  m2d_flat_month RR 0 nd v = repeat (v / IZR nd) (Z.to_nat nd).
Proof.
  intros Hn Hv. unfold m2d_flat_month, m2d_fill. cbn [nisnan RR ndiv nofZ nltb nnan].
  assert (Hq : 0 <= v / IZR nd).
  { unfold Rdiv. apply Rmult_le_pos; [exact Hv|].
    left. apply Rinv_0_lt_compat. apply IZR_lt. exact Hn. }
  rewrite (proj2 (Rltb_false _ _) Hq). reflexivity.
Qed.

Theorem m2d_flat_spec start vals :
  valid_month start -> Forall (fun v => 0 <= v) vals ->
  exists blocks,
    m2d_flat RR 0 start vals = concat blocks /\
    month_blocks_ok start vals blocks /\
    Forall2 (fun p b => Forall (fun d => d = snd p / IZR (dim_of (fst p))) b)
            (combine (months_from start (length vals)) vals) blocks.
Proof.
  intros Hv Hpos.
  exists (map (fun p => m2d_flat_month RR 0 (dim_of (fst p)) (snd p))
              (combine (months_from start (length vals)) vals)).
  assert (Hin : forall p, In p (combine (months_from start (length vals)) vals) ->
                (28 <= dim_of (fst p) <= 31)%Z /\ 0 <= snd p).
  { intros [ym v] Hp. split.
    - apply in_combine_l in Hp.
      pose proof (months_from_valid (length vals) start Hv) as F.
      rewrite Forall_forall in F. apply days_in_month_bounds, F, Hp.
    - apply in_combine_r in Hp. rewrite Forall_forall in Hpos. apply Hpos, Hp. }
  split; [|split].
  - unfold m2d_flat. rewrite flat_map_concat_map. reflexivity.
  - apply Forall2_map_r. intros p Hp. destruct (Hin p Hp) as [Hd Hp0].
    rewrite m2d_flat_month_RR by (try lia; exact Hp0).
    rewrite repeat_length, lsum_repeat. split; [lia|].
    rewrite INR_IZR_INZ, Z2Nat.id by lia. field.
    apply not_0_IZR. lia.
  - apply Forall2_map_r. intros p Hp. destruct (Hin p Hp) as [Hd Hp0].
    rewrite m2d_flat_month_RR by (try lia; exact Hp0).
    apply Forall_forall. intros d Hd'. apply repeat_spec in Hd'. exact Hd'.
Qed.

(* ---- cubic ---- *)

Lemma telescope (f : Z -> R) n :
  lsum (map (fun k => f (Z.of_nat k + 1)%Z - f (Z.of_nat k)) (seq 0 n)) =
  f (Z.of_nat n) - f 0%Z.
Proof.
  induction n as [|n IH]; [simpl; lra|].
  rewrite seq_S, map_app, lsum_app, IH. cbn [Nat.add map lsum].
  rewrite Nat2Z.inj_succ. unfold Z.succ. lra.
Qed.

(* the cumulative polynomial of a month: f(0) = 0 and f(1) = y, whatever the
   two derivative constraints *)
Lemma cubic_poly_0 r :
  polyval RR 0 (m2d_coefs RR r) = 0.
Proof.
  unfold polyval, m2d_coefs, M2D_MI. cbn [map rev app fold_left nadd nmul n0 RR]. ring.
Qed.

Lemma cubic_poly_1 r :
  polyval RR 1 (m2d_coefs RR r) = m_y r.
Proof.
  unfold polyval, m2d_coefs, m2d_row, M2D_MI.
  cbn [map rev app fold_left nadd nmul n0 nofZ nth RR]. ring.
Qed.

Lemma cubic_month_sum r :
  (1 <= m_nd r <= M2D_NGRID - 1)%Z ->
  lsum (m2d_cubic_month RR r) = m_y r /\
  Z.of_nat (length (m2d_cubic_month RR r)) = m_nd r.
Proof.
  intros H. unfold m2d_cubic_month.
  rewrite Z.min_l by lia. split.
  - cbn [nsub RR].
    rewrite (telescope (fun k => polyval RR (ndiv RR (nofZ RR k) (nofZ RR (m_nd r))) (m2d_coefs RR r))).
    rewrite Z2Nat.id by lia. cbn [ndiv nofZ RR].
    replace (IZR (m_nd r) / IZR (m_nd r)) with 1 by (field; apply not_0_IZR; lia).
    replace (0 / IZR (m_nd r)) with 0 by (field; apply not_0_IZR; lia).
    rewrite cubic_poly_0, cubic_poly_1. lra.
  - rewrite map_length, seq_length. lia.
Qed.

(* the adjustment of the derivatives leaves the number of days and the
   monthly value of every month untouched *)
Definition nd_y (r : mrec (T:=R)) : Z * R := (m_nd r, m_y r).

Lemma smooth_nd_y rest : forall cur,
  map nd_y (m2d_smooth RR cur rest) = map nd_y (cur :: rest).
Proof.
  induction rest as [|nxt rest IH]; intros cur; [reflexivity|].
  cbn [m2d_smooth map]. rewrite IH. reflexivity.
Qed.

Lemma recs_nd_y : forall nds ys dyc,
  length ys = length nds -> length dyc = S (length nds) ->
  map nd_y (m2d_recs RR nds ys dyc) = combine nds ys.
Proof.
  induction nds as [|nd nds IH]; intros ys dyc Hy Hd; [reflexivity|].
  destruct ys as [|y ys]; [discriminate|].
  destruct dyc as [|d0 [|d1 dyc]]; try discriminate.
  cbn [m2d_recs map combine]. f_equal. apply IH; simpl in *; lia.
Qed.

Lemma mids_length u : length (mids RR u) = pred (length u).
Proof.
  induction u as [|a [|b u] IH]; [reflexivity|reflexivity|].
  cbn [mids length] in *. rewrite IH. reflexivity.
Qed.

Lemma dyc_length u : u <> [] -> length (m2d_dyc RR u) = S (length u).
Proof.
  destruct u as [|u0 u]; [congruence|]. intros _.
  unfold m2d_dyc. cbn [length]. rewrite app_length, mids_length. simpl. lia.
Qed.

Lemma cubic_recs_nd_y minthr start vals :
  map nd_y (m2d_cubic_recs RR minthr start vals) =
  combine (map dim_of (months_from start (length vals))) vals.
Proof.
  unfold m2d_cubic_recs.
  replace (map (m2d_fill RR minthr) vals) with vals
    by (symmetry; rewrite <- (map_id vals) at 2; apply map_ext; reflexivity).
  fold dim_of.
  set (nds := map (fun ym => days_in_month (fst ym) (snd ym)) (months_from start (length vals))).
  assert (Hn : length nds = length vals) by (unfold nds; rewrite map_length, months_from_length; reflexivity).
  change (map dim_of (months_from start (length vals))) with nds.
  destruct vals as [|v vals].
  - destruct nds; [reflexivity|discriminate].
  - assert (Hr : map nd_y (m2d_recs RR nds (v :: vals) (m2d_dyc RR (m2d_u RR nds (v :: vals))))
                 = combine nds (v :: vals)).
    { apply recs_nd_y; [lia|].
      rewrite dyc_length.
      - unfold m2d_u. rewrite map_length, combine_length, Hn, Nat.min_id. lia.
      - unfold m2d_u. destruct nds; [discriminate|]. discriminate. }
    destruct (m2d_recs RR nds (v :: vals) (m2d_dyc RR (m2d_u RR nds (v :: vals)))) as [|r0 rest].
    + exact Hr.
    + rewrite smooth_nd_y. exact Hr.
Qed.

Lemma Forall2_map_l_eq {A B C} (f : A -> C) (g : B -> C) l1 l2 :
  map f l1 = map g l2 -> Forall2 (fun a b => f a = g b) l1 l2.
Proof.
  revert l2; induction l1 as [|a l1 IH]; intros [|b l2] H; simpl in H;
    try discriminate; constructor.
  - injection H; auto.
  - apply IH. injection H; auto.
Qed.

Lemma combine_map_l {A B C} (f : A -> C) (l1 : list A) (l2 : list B) :
  combine (map f l1) l2 = map (fun p => (f (fst p), snd p)) (combine l1 l2).
Proof.
  revert l2; induction l1 as [|a l1 IH]; intros [|b l2]; simpl; try reflexivity.
  f_equal. apply IH.
Qed.

Theorem m2d_cubic_spec minthr start vals :
  valid_month start ->
  exists blocks,
    m2d_cubic RR minthr start vals = concat blocks /\
    month_blocks_ok start vals blocks.
Proof.
  intros Hv.
  exists (map (m2d_cubic_month RR) (m2d_cubic_recs RR minthr start vals)). split.
  - unfold m2d_cubic. rewrite flat_map_concat_map. reflexivity.
  - unfold month_blocks_ok.
    pose proof (cubic_recs_nd_y minthr start vals) as E.
    assert (E' : map nd_y (m2d_cubic_recs RR minthr start vals) =
                 map (fun p => (dim_of (fst p), snd p))
                     (combine (months_from start (length vals)) vals)).
    { rewrite E. apply combine_map_l. }
    apply Forall2_map_l_eq in E'.
    pose proof (months_from_valid (length vals) start Hv) as F.
    assert (G : Forall (fun p => valid_month (fst p))
                       (combine (months_from start (length vals)) vals)).
    { apply Forall_forall. intros [ym v] Hp. apply in_combine_l in Hp.
      rewrite Forall_forall in F. apply F, Hp. }
    revert E' G. generalize (combine (months_from start (length vals)) vals).
    generalize (m2d_cubic_recs RR minthr start vals).
    intros recs ps H2. induction H2 as [|r p recs ps Hrp _ IH]; intros G; simpl; constructor.
    + inversion G as [|? ? Gp _]; subst.
      unfold nd_y in Hrp. injection Hrp as Hnd Hy.
      destruct (cubic_month_sum r) as [S1 S2].
      { rewrite Hnd. apply days_in_month_fits_grid. exact Gp. }
      split; [rewrite S2; exact Hnd|rewrite S1; exact Hy].
    + apply IH. inversion G; assumption.
Qed.

(* unknown interpolation: error, any arithmetic instance *)
Theorem m2d_rejects_unknown_interpolation {T} (N : NumOps T) interp minthr start vals :
  interp <> 0%Z -> interp <> 1%Z ->
  py_monthly2daily N interp minthr start vals = DErrArg.
Proof.
  intros H0 H1. unfold py_monthly2daily.
  rewrite (proj2 (Z.eqb_neq _ _) H0), (proj2 (Z.eqb_neq _ _) H1). reflexivity.
Qed.

(* ================================================================== *)
(* 3. concrete instances (non-vacuity)                                  *)

Lemma ex_leap : is_leap 2000 = true /\ is_leap 1900 = false /\ is_leap 2024 = true /\ is_leap 2023 = false.
Proof. repeat split; reflexivity. Qed.

Lemma ex_m2d_hyps : valid_month (2000%Z, 2%Z) /\ Forall (fun v => 0 <= v) [58; 0; 15].
Proof. split; [unfold valid_month; simpl; lia|]. repeat constructor; lra. Qed.

(* February 2000 has 29 days: the flat series starts with 29 values 58/29 *)
Lemma ex_m2d_flat_first_block :
  exists rest, m2d_flat RR 0 (2000%Z, 2%Z) [58; 0; 15] = repeat (58 / 29) 29 ++ rest.
Proof.
  unfold m2d_flat. cbn [length months_from combine flat_map fst snd].
  rewrite m2d_flat_month_RR by (try reflexivity; lra).
  eexists. reflexivity.
Qed.

Lemma ex_cubic_rec : (1 <= m_nd (mkM 29%Z 58 1 3) <= M2D_NGRID - 1)%Z.
Proof. simpl. unfold M2D_NGRID. lia. Qed.

(* ================================================================== *)
(* 4. more about the cubic interpolation                                *)

(* numpy's polyval is Horner's rule, for any number of coefficients *)
Fixpoint horner (c : list R) (x : R) : R :=
  match c with [] => 0 | a :: r => a + x * horner r x end.

Lemma horner_snoc2 x l a b : horner (l ++ [a; b]) x = horner (l ++ [a + b * x]) x.
Proof.
  induction l as [|c l IH]; simpl; [ring|]. rewrite IH. reflexivity.
Qed.

Lemma fold_horner x r : forall acc,
  fold_left (fun c0 ci => ci + c0 * x) r acc = horner (rev r ++ [acc]) x.
Proof.
  induction r as [|a r IH]; intros acc; simpl; [ring|].
  rewrite IH, <- app_assoc. simpl. rewrite horner_snoc2. reflexivity.
Qed.

Theorem polyval_horner x c : polyval RR x c = horner c x.
Proof.
  unfold polyval. destruct (rev c) as [|cl r] eqn:E.
  - apply (f_equal (@rev R)) in E. rewrite rev_involutive in E. subst c. reflexivity.
  - apply (f_equal (@rev R)) in E. rewrite rev_involutive in E. simpl in E. subst c.
    cbn [nadd nmul n0 RR]. rewrite fold_horner.
    replace (cl + x * 0) with cl by ring. reflexivity.
Qed.

(* the coefficients of a month: f(0) = 0, f(1) = y, f'(0) = d0*n, f'(1) = d1*n
   (written on the coefficients: f' = c1 + 2 c2 x + 3 c3 x^2) *)
Theorem cubic_coefs r :
  exists c1 c2 c3, m2d_coefs RR r = [0; c1; c2; c3] /\
    c1 + c2 + c3 = m_y r /\ c1 = m_a r /\ c1 + 2 * c2 + 3 * c3 = m_b r.
Proof.
  unfold m2d_coefs, m2d_row, M2D_MI. cbn [map nth nadd nmul nofZ n0 RR].
  do 3 eexists. split; [reflexivity|]. repeat split; ring.
Qed.

(* after the adjustment loop the slope (per day) at the end of a month equals
   the slope at the start of the next one *)
Fixpoint slopes_match (l : list (mrec (T:=R))) : Prop :=
  match l with
  | r1 :: ((r2 :: _) as t) =>
      m_b r1 / IZR (m_nd r1) = m_a r2 / IZR (m_nd r2) /\ slopes_match t
  | _ => True
  end.

Lemma smooth_head rest cur :
  exists r t, m2d_smooth RR cur rest = r :: t /\ m_a r = m_a cur /\ m_nd r = m_nd cur.
Proof.
  destruct rest as [|nxt rest]; simpl; eexists; eexists; (split; [reflexivity|split; reflexivity]).
Qed.

Theorem smooth_slopes_match rest : forall cur,
  Forall (fun r => m_nd r <> 0%Z) (cur :: rest) -> slopes_match (m2d_smooth RR cur rest).
Proof.
  induction rest as [|nxt rest IH]; intros cur H; [exact I|].
  cbn [m2d_smooth]. inversion H as [|? ? Hc Hr]; subst. inversion Hr as [|? ? Hn Hr']; subst.
  set (d1 := m2d_d1 RR cur nxt).
  set (nxt' := mkM (m_nd nxt) (m_y nxt) (nmul RR d1 (nofZ RR (m_nd nxt))) (m_b nxt)).
  destruct (smooth_head rest nxt') as (r & t & E & Ea & End).
  specialize (IH nxt'). rewrite E in *. cbn [slopes_match]. split.
  - cbn [m_b m_nd]. rewrite Ea, End. unfold nxt'. cbn [m_a m_nd nmul nofZ RR].
    field. split; apply not_0_IZR; assumption.
  - apply IH. constructor; [exact Hn|exact Hr'].
Qed.
