(* Proofs about archive member paths (property C09): the normalisation made by
   PurePosixPath is idempotent, so the member name write_csv stores is itself a
   name under which read_csv finds the member. *)
From Coq Require Import ZArith NArith Bool List String Ascii Lia.
From Hy Require Import Base.Num Gen.ConstsC09 Model.CsvHeader
  Proofs.CsvHeaderProofs Proofs.CsvNamesProofs Proofs.CsvFileProofs.
Import ListNotations.
Open Scope string_scope.

Definition comps (s : string) : list string := filter nonempty_comp (split_on "/" s).
Definition body_of (s : string) : string := join_with "/" (comps s).

Lemma posix_norm_unfold : forall s,
  posix_norm s = if is_empty (posix_root s) && is_empty (body_of s) then "." else posix_root s ++ body_of s.
Proof. reflexivity. Qed.

Lemma split_on_each_lacks : forall a s, Forall (fun c => lacks a c = true) (split_on a s).
Proof.
  induction s; simpl.
  - repeat constructor.
  - destruct (Ascii.eqb a0 a) eqn:E.
    + constructor; [reflexivity | exact IHs].
    + destruct (split_on a s) as [|h t].
      * repeat constructor. unfold lacks. simpl. now rewrite E.
      * inversion IHs; subst. constructor; [|assumption]. unfold lacks in *. simpl. now rewrite E.
Qed.

Lemma comps_ok : forall s, Forall (fun c => nonempty_comp c = true /\ lacks "/" c = true) (comps s).
Proof.
  intros s. unfold comps. rewrite Forall_forall. intros c Hin. apply filter_In in Hin as [Hin Hc].
  split; [exact Hc|]. pose proof (split_on_each_lacks "/" s) as H. rewrite Forall_forall in H. auto.
Qed.

Lemma filter_id : forall {A} (f : A -> bool) l, Forall (fun x => f x = true) l -> filter f l = l.
Proof. induction l; simpl; intros H; [reflexivity|]. inversion H; subst. now rewrite H2, IHl. Qed.

Lemma split_join_slash : forall names, names <> [] ->
  Forall (fun n => lacks "/" n = true) names -> split_on "/" (join_with "/" names) = names.
Proof.
  induction names as [|x r IH]; intros Hne H; [congruence|].
  inversion H as [|? ? Hx Hr]; subst.
  destruct r as [|y r'].
  - simpl. now apply split_on_lacks.
  - change (join_with "/" (x :: y :: r')) with (x ++ String "/" (join_with "/" (y :: r'))).
    rewrite split_on_app by assumption. f_equal. apply IH; [discriminate | assumption].
Qed.

(* the components of the normalised body are the components *)
Lemma comps_body : forall s, comps (body_of s) = comps s.
Proof.
  intros s. unfold body_of. pose proof (comps_ok s) as H.
  destruct (comps s) as [|x r] eqn:E; [reflexivity|].
  unfold comps at 1. rewrite split_join_slash.
  - apply filter_id. eapply Forall_impl; [|exact H]. intros c [Hc _]. exact Hc.
  - discriminate.
  - eapply Forall_impl; [|exact H]. intros c [_ Hc]. exact Hc.
Qed.

Lemma comps_slash : forall x, comps (String "/" x) = comps x.
Proof. intros. unfold comps. simpl. reflexivity. Qed.

Lemma body_of_body : forall s, body_of (body_of s) = body_of s.
Proof. intros. unfold body_of at 1. now rewrite comps_body. Qed.

Lemma body_of_slash : forall x, body_of (String "/" x) = body_of x.
Proof. intros. unfold body_of. now rewrite comps_slash. Qed.

(* the body is empty or starts with a character that is not a slash *)
Lemma body_start : forall s, body_of s = "" \/ exists c r, body_of s = String c r /\ Ascii.eqb c "/" = false.
Proof.
  intros s. unfold body_of. pose proof (comps_ok s) as H.
  destruct (comps s) as [|x r]; [left; reflexivity|]. right.
  inversion H as [|? ? [Hx Lx] _]; subst.
  destruct x as [|c x']; [discriminate|].
  unfold lacks in Lx. simpl in Lx. apply andb_true_iff in Lx as [Lc _]. apply negb_true_iff in Lc.
  destruct r as [|y r'].
  - exists c, x'. auto.
  - change (join_with "/" (String c x' :: y :: r'))
      with (String c (x' ++ String "/" (join_with "/" (y :: r')))). eauto.
Qed.

Lemma root_nonslash : forall c r, Ascii.eqb c "/" = false -> posix_root (String c r) = "".
Proof. intros c r E. destruct c as [[] [] [] [] [] [] [] []]; try reflexivity; discriminate. Qed.

Lemma root_slash_nonslash : forall c r, Ascii.eqb c "/" = false -> posix_root (String "/" (String c r)) = "/".
Proof. intros c r E. destruct c as [[] [] [] [] [] [] [] []]; try reflexivity; discriminate. Qed.

Lemma root_slash2_nonslash : forall c r, Ascii.eqb c "/" = false ->
  posix_root (String "/" (String "/" (String c r))) = "//".
Proof. intros c r E. destruct c as [[] [] [] [] [] [] [] []]; try reflexivity; discriminate. Qed.

Lemma root_cases : forall s, posix_root s = "" \/ posix_root s = "/" \/ posix_root s = "//".
Proof.
  intros s. destruct s as [|c1 s1]; [left; reflexivity|].
  destruct (Ascii.eqb c1 "/") eqn:E1; [|left; now apply root_nonslash].
  apply Ascii.eqb_eq in E1. subst c1.
  destruct s1 as [|c2 s2]; [right; left; reflexivity|].
  destruct (Ascii.eqb c2 "/") eqn:E2; [|right; left; now apply root_slash_nonslash].
  apply Ascii.eqb_eq in E2. subst c2.
  destruct s2 as [|c3 s3]; [right; right; reflexivity|].
  destruct (Ascii.eqb c3 "/") eqn:E3; [|right; right; now apply root_slash2_nonslash].
  apply Ascii.eqb_eq in E3. subst c3. right; left. reflexivity.
Qed.

Theorem posix_norm_idempotent : forall s, posix_norm (posix_norm s) = posix_norm s.
Proof.
  intros s. rewrite (posix_norm_unfold s).
  destruct (body_start s) as [Hb | (c & r & Hb & Hc)];
  destruct (root_cases s) as [Hr | [Hr | Hr]]; rewrite Hr, Hb; simpl is_empty; cbv iota; simpl andb; cbv iota.
  - reflexivity.
  - reflexivity.
  - reflexivity.
  - (* relative path *)
    assert (Hbb : body_of (String c r) = String c r) by (rewrite <- Hb; apply body_of_body).
    change ("" ++ String c r) with (String c r).
    rewrite posix_norm_unfold, Hbb. rewrite root_nonslash by assumption. reflexivity.
  - assert (Hbb : body_of (String c r) = String c r) by (rewrite <- Hb; apply body_of_body).
    change ("/" ++ String c r) with (String "/" (String c r)).
    rewrite posix_norm_unfold, body_of_slash, Hbb.
    rewrite root_slash_nonslash by assumption. reflexivity.
  - assert (Hbb : body_of (String c r) = String c r) by (rewrite <- Hb; apply body_of_body).
    change ("//" ++ String c r) with (String "/" (String "/" (String c r))).
    rewrite posix_norm_unfold, !body_of_slash, Hbb.
    rewrite root_slash2_nonslash by assumption. reflexivity.
Qed.

(* hence: after write_csv(path, archive=...), read_csv finds the member under the
   stored member name as well as under the original path *)
Corollary archive_roundtrip_normalised : forall arc path tag arc',
  write_archive path tag arc = Some arc' -> read_archive arc' (posix_norm path) = ROk tag.
Proof.
  intros arc path tag arc' H. unfold read_archive. rewrite posix_norm_idempotent.
  apply archive_roundtrip in H. exact H.
Qed.
