(* Absence of signed integer overflow (and memory safety) of the OVERFLOW-CHECKED MiniC
   programs regenerated from src/hydrodiy/gis/c_grid.c and c_catchment.c
   (Gen/KernelsAstChk.v, [program_chk]):
   celldist, c_catchment.stepsquaredist, c_exclude_zero_area_boundary, c_slope, c_slice,
   c_delineate_boundary.

   [program_chk] is [program] with every signed +, -, *, /, unary -, ++, --, op= wrapped in
   [IChk W64] (all the integers of these kernels are C [long long]) or [IChk W32] (the
   [int] constants -1, -2, ERROR + __LINE__): the interpreter answers [Err (Overflow ..)]
   when a result does not fit.  The theorems [chk_<name>] below have the conclusions of the
   theorems [<name>] of Proofs/SafeGis.v (about the unchecked [program]), under the same
   hypotheses plus explicit size hypotheses, stated in terms of the C types: they say that
   for ALL such arguments the kernel, besides staying inside its buffers, never overflows a
   signed integer.

   The generic helpers (arrays, qsort, the weakest-precondition layer [wp] and its
   tactics) and the state constructors / invariants that do not mention the program are
   those of Proofs/SafeGis.v.

   Organisation:
   1. the overflow tests ([in_width_W32], [in_width_W64], tactic [chk]: rewrites
      [in_width w e] to [true] by lia from the context; [in_width] is kept folded under
      cbn and [wsimp] of SafeGis.v is extended with [chk]); facts about truncated
      division (what getnxy computes);
   2. Section Chk: getnxy, celldist, stepsquaredist, c_exclude_zero_area_boundary,
      c_neighbours / c_downstream on one cell, c_slope, getcoord / c_coord2cell on one
      point, c_slice;
   3. Section ChkBoundary: c_delineate_boundary (needs a stronger invariant than the
      unchecked proof: the values held by isout, idxcell, next, the live part of buffer,
      nxycell and nxystart are now tracked, [db_rng]);
   4. instances (RR, RN, a run in F64) and findings ([overflow_...]).

   Size hypotheses added, per kernel (LLONG_MAX = [MAXLL] = 2^63-1):
   - celldist:  0 <= n1 -> nrows*ncols fits a long long  (necessary: overflow_celldist_product);
   - stepsquaredist:  n1, n2 fit a long long and are not LLONG_MIN when ncols = -1;
   - c_exclude_zero_area_boundary:  2*nval - 1 <= LLONG_MAX  (index (i+1)*2+1);
   - c_slope:  len(flowdir) = nrows*ncols <= LLONG_MAX  (ntot = nrows*ncols);
   - c_slice:  len(data) = nrows*ncols <= LLONG_MAX (ny*ncols+nx), 2*nval - 1 <= LLONG_MAX
     (index 2*i+1); and [trunc_rng] instead of [trunc_ok] (the VALUE of (long long)fy is
     used in nrows-1-(long long)fy);
   - c_delineate_boundary:  nval <= LLONG_MAX, nrows*ncols + ncols - 1 <= LLONG_MAX
     (idxcell + shift[3]), nrows^2 + ncols^2 <= LLONG_MAX (distmax*distmax, dx*dx+dy*dy;
     violated by a 1 x 3037000500 grid: overflow_delineate_boundary_distmax).
   No hypothesis on integer DATA read from arrays is needed by these kernels: cell numbers
   are validated before any arithmetic, flow directions and mask values are only compared. *)
From Coq Require Import ZArith Bool List String Lia Sorted.
From Coq Require Import PrimFloat Reals Lra.
From Hy Require Import Base.Num Base.MiniC Gen.KernelsAstChk Model.Grid Proofs.SafeGis.
Import ListNotations.
Open Scope string_scope.
Open Scope list_scope.
Open Scope Z_scope.

(* ================================================================== *)
(* The overflow tests                                                   *)
(* ================================================================== *)

Definition MINLL : Z := -9223372036854775808.
(* [MAXLL] = 9223372036854775807 is defined in Proofs/SafeGis.v *)

(* the value fits a C long long *)
Definition fits64 (v : Z) : Prop := -9223372036854775808 <= v <= 9223372036854775807.
Definition fits32 (v : Z) : Prop := -2147483648 <= v <= 2147483647.

Lemma in_width_W32 v : in_width W32 v = true <-> -2147483648 <= v <= 2147483647.
Proof.
  unfold in_width. rewrite andb_true_iff, !Z.leb_le. reflexivity.
Qed.

Lemma in_width_W64 v :
  in_width W64 v = true <-> -9223372036854775808 <= v <= 9223372036854775807.
Proof.
  unfold in_width. rewrite andb_true_iff, !Z.leb_le. reflexivity.
Qed.

Lemma in_width_W64_fits v : fits64 v -> in_width W64 v = true.
Proof. intros H. apply in_width_W64. exact H. Qed.

(* keep the tests folded under cbn, and discharge them by lia from the context *)
#[local] Arguments in_width : simpl never.

Ltac chk1 :=
  match goal with
  | |- context[in_width W64 ?e] =>
      replace (in_width W64 e) with true by (symmetry; apply in_width_W64; lia)
  | |- context[in_width W32 ?e] =>
      replace (in_width W32 e) with true by (symmetry; apply in_width_W32; lia)
  end.
Ltac chk := repeat chk1.

(* the statement runner of SafeGis.v, which now also discharges the overflow tests *)
#[local] Ltac wsimp ::=
  repeat (progress (cbn; rewrite ?truth_b2z, ?b2z_truth_b2z, ?or_ok, ?and_ok, ?zlen_ltb0; chk)).

(* ================================================================== *)
(* Truncated division: the values computed by getnxy                    *)
(* ================================================================== *)

Lemma quot_abs_le a b : b <> 0 -> Z.abs (Z.quot a b) <= Z.abs a.
Proof.
  intros Hb. rewrite <- Z.quot_abs by exact Hb.
  rewrite Z.quot_div_nonneg by lia.
  apply Z.div_le_upper_bound; [lia|]. nia.
Qed.

Lemma rem_abs_le a b : b <> 0 -> Z.abs (Z.rem a b) <= Z.abs a.
Proof.
  intros Hb. rewrite <- Z.rem_abs by exact Hb. apply Z.rem_le; lia.
Qed.

Lemma getny_quot ncols idx : ncols <> 0 -> getny ncols idx = Z.quot idx ncols.
Proof.
  intros Hb. unfold getny.
  replace (idx - Z.rem idx ncols) with (Z.quot idx ncols * ncols)
    by (pose proof (Z.quot_rem' idx ncols); lia).
  apply Z.quot_mul. exact Hb.
Qed.

(* idx - idx % ncols lies between 0 and idx *)
Lemma sub_rem_between ncols idx : ncols <> 0 ->
  (0 <= idx -> 0 <= idx - Z.rem idx ncols <= idx) /\
  (idx <= 0 -> idx <= idx - Z.rem idx ncols <= 0).
Proof.
  intros Hb. pose proof (rem_abs_le idx ncols Hb) as H1.
  pose proof (Z.rem_sign_mul idx ncols Hb) as H2.
  split; intros H; nia.
Qed.

(* the two checked operations of getnxy fit a long long: idx - idx % ncols always,
   the division unless it is LLONG_MIN / -1 *)
Definition getnxy_ok (ncols idx : Z) : Prop :=
  ncols <> 0 /\ fits64 idx /\ ~ (idx = MINLL /\ ncols = -1).

Lemma getnxy_ok_fits ncols idx : getnxy_ok ncols idx ->
  fits64 (idx - Z.rem idx ncols) /\ fits64 (Z.quot (idx - Z.rem idx ncols) ncols).
Proof.
  intros (Hb & Hf & Hm). unfold fits64, MINLL in *.
  destruct (sub_rem_between ncols idx Hb) as [P1 P2].
  split; [lia|].
  change (Z.quot (idx - Z.rem idx ncols) ncols) with (getny ncols idx).
  rewrite getny_quot by exact Hb.
  pose proof (quot_abs_le idx ncols Hb) as Hq.
  assert (Hne : Z.quot idx ncols <> 9223372036854775808).
  { intros E. pose proof (Z.quot_rem' idx ncols) as D. rewrite E in D.
    pose proof (Z.rem_bound_abs idx ncols Hb) as Hr.
    assert (idx = -9223372036854775808) by lia.
    apply Hm. split; [assumption|]. nia. }
  lia.
Qed.

(* a non-negative cell number *)
Lemma getnxy_ok_pos ncols idx : ncols <> 0 -> 0 <= idx <= MAXLL -> getnxy_ok ncols idx.
Proof. unfold getnxy_ok, fits64, MAXLL, MINLL. intros; repeat split; try lia. Qed.

Lemma getn_pos ncols idx : ncols <> 0 -> 0 <= idx ->
  0 <= getnx ncols idx <= idx /\
  ((0 < ncols /\ 0 <= getny ncols idx <= idx) \/ (ncols < 0 /\ - idx <= getny ncols idx <= 0)).
Proof.
  intros Hb Hi.
  pose proof (rem_abs_le idx ncols Hb) as H1.
  pose proof (Z.rem_nonneg idx ncols Hb Hi) as H2.
  split; [unfold getnx; lia|].
  rewrite getny_quot by exact Hb.
  pose proof (quot_abs_le idx ncols Hb) as Hq.
  destruct (Z.lt_ge_cases 0 ncols) as [Hp|Hn].
  - left. split; [exact Hp|]. pose proof (Z.quot_pos idx ncols Hi Hp). lia.
  - right. split; [lia|].
    pose proof (Z.quot_opp_r idx (- ncols) ltac:(lia)) as Ho. rewrite Z.opp_involutive in Ho.
    pose proof (Z.quot_pos idx (- ncols) Hi ltac:(lia)). lia.
Qed.

(* ================================================================== *)

Section Chk.
Context {T : Type} (N : NumOps T) (X : NumLit T).

(* ------------------------------------------------------------------ *)
(* getnxy (c_grid.c):  nxy[0] = idxcell % ncols;  nxy[1] = (idxcell - nxy[0]) / ncols.
   The subtraction and the division are computed in long long.             *)

Lemma chk_getnxy_run n ncols idx a b :
  getnxy_ok ncols idx -> (0 < n)%nat ->
  exec_fun N X program_chk n "getnxy" [AVI ncols; AVI idx; AVArrI [a; b]]
  = Ok (RI 0, [VArrI [getnx ncols idx; getny ncols idx]]).
Proof.
  intros H Hn. destruct (getnxy_ok_fits _ _ H) as [F1 F2]. destruct H as (Hb & _).
  unfold fits64 in F1, F2.
  destruct n as [|n']; [lia|]. cbn. zb. cbn. chk. cbn. zb. cbn. chk. cbn. reflexivity.
Qed.

(* ------------------------------------------------------------------ *)
(* celldist (c_catchment.c).  All the arguments are long long.  The only product is
   nrows*ncols of the validity test  n1<0 || n1>=nrows*ncols || n2<0 || n2>=nrows*ncols
   (evaluated lazily: not at all when n1 < 0).  After the test 0 <= n1, n2 < nrows*ncols
   <= LLONG_MAX, and the differences of the column / row numbers fit.           *)

Theorem chk_safe_celldist nrows ncols n1 n2 n :
  (0 <= n1 -> fits64 (nrows * ncols)) ->
  (0 < n)%nat ->
  exists ret, exec_fun N X program_chk (S n) "celldist" [AVI nrows; AVI ncols; AVI n1; AVI n2]
              = Ok (RI ret, []) /\
    (if (n1 <? 0) || (nrows * ncols <=? n1) || (n2 <? 0) || (nrows * ncols <=? n2)
     then 0 < ret else ret = celldist_spec nrows ncols n1 n2).
Proof.
  intros Hprod Hn. unfold fits64 in Hprod.
  enough (H : exists v outs,
             exec_fun N X program_chk (S n) "celldist" [AVI nrows; AVI ncols; AVI n1; AVI n2] = Ok (v, outs) /\
             (outs = [] /\ exists z, v = RI z /\
              (if (n1 <? 0) || (nrows * ncols <=? n1) || (n2 <? 0) || (nrows * ncols <=? n2)
               then 0 < z else z = celldist_spec nrows ncols n1 n2))).
  { destruct H as (v & outs & E & -> & z & -> & H). exists z. split; assumption. }
  wfun.
  do 4 wstep. wseq. wrun.
  destruct (Z.ltb_spec n1 0) as [Hneg|Hpos].
  - wsimp. wnext. cbn. eexists; split; [reflexivity|]. split; [reflexivity|].
    eexists; split; [reflexivity|]. cbn. lia.
  - specialize (Hprod Hpos). wsimp.
    destruct ((nrows * ncols <=? n1) || (n2 <? 0) || (nrows * ncols <=? n2)) eqn:Hv.
    + wnext. cbn. eexists; split; [reflexivity|]. split; [reflexivity|].
      eexists; split; [reflexivity|]. cbn [orb]. rewrite Hv. lia.
    + apply orb_false_iff in Hv. destruct Hv as [Hv Hv3].
      apply orb_false_iff in Hv. destruct Hv as [Hv1 Hv2].
      apply Z.leb_gt in Hv1. apply Z.ltb_ge in Hv2. apply Z.leb_gt in Hv3.
      assert (Hnc : ncols <> 0) by nia.
      assert (Hok1 : getnxy_ok ncols n1) by (apply getnxy_ok_pos; unfold MAXLL; lia).
      assert (Hok2 : getnxy_ok ncols n2) by (apply getnxy_ok_pos; unfold MAXLL; lia).
      destruct (getn_pos ncols n1 Hnc Hpos) as [Bx1 By1].
      destruct (getn_pos ncols n2 Hnc Hv2) as [Bx2 By2].
      wnext.
      wseq. wrun. rewrite chk_getnxy_run by assumption. cbn. wnext.
      wseq. wrun. rewrite chk_getnxy_run by assumption. cbn. wnext.
      wstep. wseq. wrun. unfold celldist_spec.
      destruct (Z.ltb_spec (getnx ncols n1 - getnx ncols n2) 0); cbn; wnext.
      all: wstep; wseq; wrun.
      all: destruct (Z.ltb_spec (getny ncols n1 - getny ncols n2) 0); cbn; wnext; wrun.
      all: try match goal with |- context[if ?a <? ?b then _ else _] => destruct (Z.ltb_spec a b) end; cbn.
      all: wnext; cbn; eexists; split; [reflexivity|]; split; [reflexivity|];
        eexists; split; [reflexivity|]; cbn [orb];
        replace (nrows * ncols <=? n1) with false by (symmetry; apply Z.leb_gt; lia);
        replace (n2 <? 0) with false by (symmetry; apply Z.ltb_ge; lia);
        replace (nrows * ncols <=? n2) with false by (symmetry; apply Z.leb_gt; lia);
        cbn [orb]; unfold celldist_spec; lia.
Qed.

(* the hypothesis is necessary: when 0 <= n1 and nrows*ncols does not fit a long long the
   checked program stops on the overflow of the product (undefined behaviour in C) *)
Theorem overflow_celldist_product nrows ncols n1 n2 n :
  0 <= n1 -> ~ fits64 (nrows * ncols) ->
  exec_fun N X program_chk (S n) "celldist" [AVI nrows; AVI ncols; AVI n1; AVI n2]
  = Err (Overflow false (nrows * ncols)).
Proof.
  intros H1 Hnf. cbn. replace (n1 <? 0) with false by (symmetry; apply Z.ltb_ge; lia). cbn.
  replace (in_width W64 (nrows * ncols)) with false; [reflexivity|].
  symmetry. apply not_true_iff_false. intros E. apply Hnf. apply in_width_W64. exact E.
Qed.

(* ------------------------------------------------------------------ *)
(* c_catchment.stepsquaredist: two calls of getnxy (static helper; its only caller
   passes cells of the grid and the ncols of that grid).  n1, n2 are long long; the only
   excluded case is LLONG_MIN / -1.                                               *)

Theorem chk_safe_stepsquaredist ncols n1 n2 n :
  ncols <> 0 -> fits64 n1 -> fits64 n2 ->
  ~ (ncols = -1 /\ (n1 = MINLL \/ n2 = MINLL)) ->
  (0 < n)%nat ->
  exec_fun N X program_chk (S n) "c_catchment.stepsquaredist" [AVI ncols; AVI n1; AVI n2]
  = Ok (RF (nofZ N (if (getnx ncols n1 =? getnx ncols n2) || (getny ncols n1 =? getny ncols n2)
                    then 1 else 2)), []).
Proof.
  intros Hnc F1 F2 Hm Hn.
  assert (Hok1 : getnxy_ok ncols n1) by (split; [assumption|]; split; [assumption|]; intros [A B]; apply Hm; tauto).
  assert (Hok2 : getnxy_ok ncols n2) by (split; [assumption|]; split; [assumption|]; intros [A B]; apply Hm; tauto).
  cbn. rewrite chk_getnxy_run by assumption. cbn.
  rewrite chk_getnxy_run by assumption. mc.
  destruct ((getnx ncols n1 =? getnx ncols n2) || (getny ncols n1 =? getny ncols n2)); reflexivity.
Qed.

(* LLONG_MIN / -1 *)
Theorem overflow_stepsquaredist_min n2 n :
  exec_fun N X program_chk (S (S n)) "c_catchment.stepsquaredist" [AVI (-1); AVI MINLL; AVI n2]
  = Err (Overflow false 9223372036854775808).
Proof. reflexivity. Qed.

(* ------------------------------------------------------------------ *)
(* c_exclude_zero_area_boundary (c_catchment.c).  nval (= idxok.shape[0]) and i are long
   long.  The largest index computed is (i+1)*2+1 for i = nval-2, that is 2*nval-1: it
   must fit a long long (it does: xycoords holds 2*nval doubles in memory).            *)

Theorem chk_safe_exclude_zero_area_boundary (deteps : T) (xy : list T) (idxok : list Z) n :
  List.length xy = (2 * List.length idxok)%nat ->
  2 * Z.of_nat (List.length idxok) - 1 <= MAXLL ->
  (List.length idxok < n)%nat ->
  exists ret outs,
    exec_fun N X program_chk (S n) "c_exclude_zero_area_boundary"
      [AVI (zlen idxok); AVF deteps; AVArrF xy; AVArrI idxok] = Ok (ret, outs) /\
    exists c idxok', ret = RI c /\ outs = [VArrF xy; VArrI idxok'] /\
      List.length idxok' = List.length idxok /\
      (if zlen idxok <=? 2 then 0 < c /\ idxok' = idxok
       else c = 0 /\ idxok' = repeat 1 (List.length idxok)).
Proof.
  intros Hxy Hsz Hn. unfold MAXLL in Hsz.
  wfun. rewrite zlen_eq.
  do 11 wstep.
  wseq. wrun.
  destruct (Z.leb_spec (Z.of_nat (List.length idxok)) 2) as [Hle|Hgt]; wsimp.
  { wnext. cbn. eexists; split; [reflexivity|]. do 2 eexists. split; [reflexivity|].
    split; [reflexivity|]. split; [reflexivity|]. split; [lia|reflexivity]. }
  wnext.
  wseq. wrun. wset. wsimp. wnext.
  wseq. wrun. wset. wsimp. wnext.
  wstep.
  wseq.
  apply (wp_for N X (ez_inv (Z.of_nat (List.length idxok)) deteps xy (List.length idxok)) (List.length idxok)).
  - intros k st (i & det & proj & norm & x1 & y1 & x2 & y2 & x3 & y3 & ok & -> & -> & Hok & Hk & Hones).
    unfold ez_state. wsimp.
    destruct (Z.ltb_spec (1 + Z.of_nat k) (Z.of_nat (List.length idxok) - 1)) as [Hlt|Hge].
    + split; [lia|].
      do 7 (wseq; wrun; repeat wget; wsimp; wnext).
      wrun. rewrite if_same. wset. wsimp. wnext.
      wrun. wnext.
      do 11 eexists. split; [unfold ez_state; reflexivity|].
      split; [lia|]. split; [lia|]. split; [lia|].
      intros j Hj. destruct (Z.eq_dec j (1 + Z.of_nat k)) as [->|Hne].
      * eapply zget_zset_same. eassumption.
      * erewrite zget_zset_other; [|eassumption|exact Hne]. apply Hones. lia.
    + split; [lia|]. wnext. wrun. wnext. cbn.
      eexists; split; [reflexivity|]. do 2 eexists. split; [reflexivity|].
      split; [reflexivity|]. split; [lia|]. split; [reflexivity|].
      rewrite <- Hok. apply all_zget_repeat. intros j Hj. apply Hones. lia.
  - do 11 eexists. split; [unfold ez_state; reflexivity|].
    split; [lia|]. split; [lia|]. split; [lia|].
    intros j Hj. change (Z.of_nat 0) with 0 in Hj.
    destruct (Z.eq_dec j (Z.of_nat (List.length idxok) - 1)) as [->|Hne].
    * eapply zget_zset_same. eassumption.
    * erewrite zget_zset_other; [|eassumption|exact Hne].
      replace j with 0 by lia. eapply zget_zset_same. eassumption.
  - lia.
Qed.

(* ------------------------------------------------------------------ *)
(* c_neighbours (c_grid.c) on a valid cell of a grid with nrows, ncols >= 1 and
   nrows*ncols <= LLONG_MAX: the 3x3 double loop.  Checked: 1+ix+(1+iy)*3, nx0+ix, ny0+iy,
   ncols-1, nrows-1, ny*ncols+nx (a cell of the grid).                             *)

Definition cnb_outer_loop : stmt := Eval cbv in seq_nth 13 (body_of c_neighbours_chk_def).
Definition cnb_inner_loop : stmt := Eval cbv in seq_nth 1 (loop_body_of cnb_outer_loop).

Lemma chk_nb_inner cf f nrows ncols idx iy nx0 nx ny0 ny k nb nxy :
  0 < nrows -> 0 < ncols -> nrows * ncols <= MAXLL ->
  0 <= nx0 < ncols -> 0 <= ny0 < nrows ->
  -1 <= iy <= 1 -> nb_good nrows ncols nb -> (3 < f)%nat ->
  wp (xexec N X cf f cnb_inner_loop (nb_state nrows ncols idx (-1) iy nx0 nx ny0 ny k nb nxy))
     (nb_inner_post nrows ncols idx iy nx0 ny0 nxy).
Proof.
  intros Hnr Hnc Hsz Hx0 Hy0 Hiy Hnb Hf. unfold MAXLL in Hsz.
  assert (Hr1 : nrows <= nrows * ncols) by nia.
  assert (Hc1 : ncols <= nrows * ncols) by nia.
  apply (wp_for N X (nb_inner_inv nrows ncols idx iy nx0 ny0 nxy) 3).
  - intros j st (ix & nx1 & ny1 & k1 & nb1 & -> & -> & Hj & Hlen & Hok).
    split; [exact Hj|].
    unfold nb_state. cbn. rewrite truth_b2z.
    destruct (Z.ltb_spec (-1 + Z.of_nat j) 2) as [Hlt|Hge].
    + wstep. wseq. wrun.
      destruct (((-1 + Z.of_nat j =? 0) && (iy =? 0))%bool) eqn:Hc.
      * wsimp. wset. wsimp. wnext. wrun. wnext.
        do 5 eexists. split; [unfold nb_state; reflexivity|].
        split; [lia|]. split; [lia|]. split; [lia|].
        eapply zset_Forall; [exact Hok| |eassumption]. left; reflexivity.
      * wsimp. wnext. wstep. wstep. wrun.
        destruct ((nx0 + (-1 + Z.of_nat j) <? 0) || (ncols - 1 <? nx0 + (-1 + Z.of_nat j))
                  || (ny0 + iy <? 0) || (nrows - 1 <? ny0 + iy)) eqn:Hout.
        -- wsimp. wset. wsimp. wnext. wrun. wnext.
           do 5 eexists. split; [unfold nb_state; reflexivity|].
           split; [lia|]. split; [lia|]. split; [lia|].
           eapply zset_Forall; [exact Hok| |eassumption]. left; reflexivity.
        -- assert (Hcell : 0 <= (ny0 + iy) * ncols + (nx0 + (-1 + Z.of_nat j)) < nrows * ncols) by nia.
           wsimp. wset. wsimp. wnext. wrun. wnext.
           do 5 eexists. split; [unfold nb_state; reflexivity|].
           split; [lia|]. split; [lia|]. split; [lia|].
           eapply zset_Forall; [exact Hok| |eassumption]. right. exact Hcell.
    + wnext. split; [reflexivity|]. do 5 eexists. split; [unfold nb_state; reflexivity|].
      split; assumption.
  - do 5 eexists. split; [unfold nb_state; reflexivity|]. split; [lia|]. split; [lia|]. exact Hnb.
  - exact Hf.
Qed.

Lemma chk_nb_outer cf f nrows ncols idx ix nx0 nx ny0 ny k nb nxy :
  0 < nrows -> 0 < ncols -> nrows * ncols <= MAXLL ->
  0 <= nx0 < ncols -> 0 <= ny0 < nrows ->
  nb_good nrows ncols nb -> (3 < f)%nat ->
  wp (xexec N X cf f cnb_outer_loop (nb_state nrows ncols idx ix (-1) nx0 nx ny0 ny k nb nxy))
     (nb_outer_post nrows ncols idx nx0 ny0 nxy).
Proof.
  intros Hnr Hnc Hsz Hx0 Hy0 Hnb Hf.
  apply (wp_for N X (nb_outer_inv nrows ncols idx nx0 ny0 nxy) 3).
  - intros j st (ix1 & iy & nx1 & ny1 & k1 & nb1 & -> & -> & Hj & Hgood).
    split; [exact Hj|].
    unfold nb_state. cbn. rewrite truth_b2z.
    destruct (Z.ltb_spec (-1 + Z.of_nat j) 2) as [Hlt|Hge].
    + wstep.
      eapply wp_mono; [apply chk_nb_inner; [exact Hnr|exact Hnc|exact Hsz|exact Hx0|exact Hy0|lia|exact Hgood|exact Hf]|].
      intros o st (-> & ix2 & nx2 & ny2 & k2 & nb2 & -> & Hgood2).
      unfold nb_state. wnext. wrun. wnext.
      do 6 eexists. split; [unfold nb_state; reflexivity|].
      split; [lia|]. split; [lia|]. exact Hgood2.
    + wnext. split; [reflexivity|]. do 6 eexists. split; [unfold nb_state; reflexivity|]. exact Hgood.
  - do 6 eexists. split; [unfold nb_state; reflexivity|]. split; [lia|]. split; [lia|]. exact Hnb.
  - exact Hf.
Qed.

(* column and row of a cell of a grid with ncols >= 1 *)
Lemma getn_cell nrows ncols idx :
  0 < ncols -> 0 <= idx < nrows * ncols ->
  0 <= getnx ncols idx < ncols /\ 0 <= getny ncols idx < nrows.
Proof.
  intros Hnc Hidx. unfold getnx. rewrite getny_quot by lia.
  pose proof (Z.rem_bound_pos idx ncols ltac:(lia) Hnc) as Hr.
  pose proof (Z.quot_rem' idx ncols) as D.
  pose proof (Z.quot_pos idx ncols ltac:(lia) Hnc) as Hq.
  split; [exact Hr|]. split; [exact Hq|]. nia.
Qed.

Lemma chk_neighbours_run nrows ncols idx nb n :
  0 < nrows -> 0 < ncols -> nrows * ncols <= MAXLL ->
  nb_good nrows ncols nb -> 0 <= idx < nrows * ncols -> (4 < n)%nat ->
  exists nb', exec_fun N X program_chk n "c_neighbours" [AVI nrows; AVI ncols; AVI idx; AVArrI nb]
              = Ok (RI 0, [VArrI nb']) /\ nb_good nrows ncols nb'.
Proof.
  intros Hnr Hnc Hsz Hgood Hidx Hn. destruct n as [|n]; [lia|].
  enough (H : exists v outs,
             exec_fun N X program_chk (S n) "c_neighbours" [AVI nrows; AVI ncols; AVI idx; AVArrI nb] = Ok (v, outs) /\
             (v = RI 0 /\ exists nb', outs = [VArrI nb'] /\ nb_good nrows ncols nb')).
  { destruct H as (v & outs & E & -> & nb' & -> & H). exists nb'. split; assumption. }
  pose proof Hsz as Hsz'. unfold MAXLL in Hsz'.
  assert (Hok : getnxy_ok ncols idx) by (apply getnxy_ok_pos; [lia|unfold MAXLL; lia]).
  destruct (getn_cell nrows ncols idx Hnc Hidx) as [Bx By].
  wfun.
  do 8 wstep. wseq. wrun. zb. wsimp. wnext.
  wseq. wrun. rewrite chk_getnxy_run by (assumption || lia). wsimp. wnext.
  do 3 wstep. wseq.
  eapply wp_mono; [apply chk_nb_outer; [exact Hnr|exact Hnc|exact Hsz|exact Bx|exact By|exact Hgood|lia]|].
  intros o st (-> & ix2 & iy2 & nx2 & ny2 & k2 & nb2 & -> & Hgood2).
  unfold nb_state. wnext. wrun. wnext. cbn.
  eexists; split; [reflexivity|]. split; [reflexivity|].
  eexists; split; [reflexivity|exact Hgood2].
Qed.

(* ------------------------------------------------------------------ *)
(* c_downstream (c_grid.c) called on ONE cell of the grid (as c_slope does).
   Checked: nrows*ncols of the validity test, i++, j++.                          *)

Definition cds_outer_loop : stmt := Eval cbv in seq_nth 6 (body_of c_downstream_chk_def).
Definition cds_inner_loop : stmt := Eval cbv in seq_nth 7 (loop_body_of cds_outer_loop).

Lemma chk_ds_inner cf f nrows ncols fd idxcell code flowdir c d nb :
  List.length code = 9%nat -> nb_good nrows ncols nb -> dgood (nrows * ncols) d -> (9 < f)%nat ->
  wp (xexec N X cf f cds_inner_loop (ds_state nrows ncols 0 0 fd idxcell code flowdir c d nb))
     (ds_inner_post nrows ncols fd idxcell code flowdir c nb).
Proof.
  intros Hcode [Hnbl Hnb] Hd Hf.
  apply (wp_for N X (ds_inner_inv nrows ncols fd idxcell code flowdir c nb) 9).
  - intros k st (j & d1 & -> & -> & Hk & Hd1).
    split; [exact Hk|].
    unfold ds_state. cbn. rewrite truth_b2z.
    destruct (Z.ltb_spec (Z.of_nat k) 9) as [Hlt|Hge].
    + wrun. wget. wsimp.
      destruct (fd =? x) eqn:Hfd.
      * wsimp. wget. wsimp. wnext. wrun. wnext.
        do 2 eexists. split; [unfold ds_state; reflexivity|].
        split; [lia|]. split; [lia|]. right. eapply zget_Forall; eassumption.
      * wsimp. wnext. wrun. wnext.
        do 2 eexists. split; [unfold ds_state; reflexivity|].
        split; [lia|]. split; [lia|]. exact Hd1.
    + wnext. split; [reflexivity|]. do 2 eexists. split; [unfold ds_state; reflexivity|]. exact Hd1.
  - do 2 eexists. split; [unfold ds_state; reflexivity|]. split; [lia|]. split; [lia|]. exact Hd.
  - exact Hf.
Qed.

Lemma chk_downstream1_run nrows ncols code flowdir c d n :
  0 < nrows -> 0 < ncols -> nrows * ncols <= MAXLL ->
  List.length code = 9%nat -> Z.of_nat (List.length flowdir) = nrows * ncols ->
  0 <= c < nrows * ncols -> (10 < n)%nat ->
  exists d', exec_fun N X program_chk n "c_downstream"
               [AVI nrows; AVI ncols; AVArrI code; AVArrI flowdir; AVI 1; AVArrI [c]; AVArrI [d]]
             = Ok (RI 0, [VArrI code; VArrI flowdir; VArrI [c]; VArrI [d']]) /\
             dgood (nrows * ncols) d'.
Proof.
  intros Hnr Hnc Hsz Hcode Hfl Hc Hn. destruct n as [|n]; [lia|].
  enough (H : exists v outs,
             exec_fun N X program_chk (S n) "c_downstream"
               [AVI nrows; AVI ncols; AVArrI code; AVArrI flowdir; AVI 1; AVArrI [c]; AVArrI [d]] = Ok (v, outs) /\
             (v = RI 0 /\ exists d', outs = [VArrI code; VArrI flowdir; VArrI [c]; VArrI [d']] /\
                                     dgood (nrows * ncols) d')).
  { destruct H as (v & outs & E & -> & d' & -> & H). exists d'. split; assumption. }
  pose proof Hsz as Hsz'. unfold MAXLL in Hsz'.
  wfun. do 6 wstep. wseq.
  apply (wp_for N X (ds_outer_inv nrows ncols code flowdir c) 1).
  - intros k st (i & j & fd & idxcell & d1 & nb & -> & -> & Hk & Hgood & Hd1).
    split; [exact Hk|].
    unfold ds_state. cbn. rewrite truth_b2z.
    destruct (Z.ltb_spec (Z.of_nat k) 1) as [Hlt|Hge].
    + assert (k = 0%nat) by lia. subst k. change (Z.of_nat 0) with 0.
      wstep. wseq. wrun. zb. wsimp. wnext.
      wseq. wrun.
      destruct (chk_neighbours_run nrows ncols c nb n Hnr Hnc Hsz Hgood Hc) as (nb' & Enb & Hgood'); [lia|].
      rewrite Enb. wsimp. wnext.
      wseq. wrun. wget. wsimp. wnext.
      wstep. wseq. wrun.
      destruct (x =? 0) eqn:Hx.
      * wsimp. wnext. wrun. wnext.
        do 6 eexists. split; [unfold ds_state; reflexivity|].
        split; [lia|]. split; [lia|]. split; [exact Hgood'|]. intros _. left; reflexivity.
      * wsimp. wnext. wstep.
        eapply wp_mono; [apply chk_ds_inner; [exact Hcode|exact Hgood'| |lia]|].
        { right; left; reflexivity. }
        intros o st (-> & j2 & d2 & -> & Hd2).
        unfold ds_state. wnext. wrun. wnext.
        do 6 eexists. split; [unfold ds_state; reflexivity|].
        split; [lia|]. split; [lia|]. split; [exact Hgood'|]. intros _. exact Hd2.
    + assert (k = 1%nat) by lia. subst k.
      wnext. wrun. wnext. cbn.
      eexists; split; [reflexivity|]. split; [reflexivity|].
      eexists; split; [reflexivity|]. apply Hd1. reflexivity.
  - do 6 eexists. split; [unfold ds_state; reflexivity|].
    split; [reflexivity|]. split; [lia|]. split; [|intros H; discriminate H].
    split; [reflexivity|]. repeat (constructor; [right; lia|]). constructor.
  - lia.
Qed.

(* ------------------------------------------------------------------ *)
(* c_slope (c_grid.c).  nrows, ncols are the shape of flowdir; ntot = nrows*ncols is
   computed in long long: it is the number of elements of flowdir, which must fit
   (it does for an array in memory).  No arithmetic on the flow direction codes.      *)

Theorem chk_safe_slope nrows ncols nprint (cellsize : T) code flowdir altitude slopeval n :
  List.length code = 9%nat ->
  Z.of_nat (List.length flowdir) = nrows * ncols ->
  Z.of_nat (List.length flowdir) <= MAXLL ->
  List.length altitude = List.length flowdir ->
  List.length slopeval = List.length flowdir ->
  (List.length flowdir + 10 < n)%nat ->
  exists ret outs,
    exec_fun N X program_chk (S n) "c_slope"
      [AVI nrows; AVI ncols; AVI nprint; AVF cellsize; AVArrI code; AVArrI flowdir;
       AVArrF altitude; AVArrF slopeval] = Ok (ret, outs) /\
    exists c slopeval', ret = RI c /\
      outs = [VArrI code; VArrI flowdir; VArrF altitude; VArrF slopeval'] /\
      List.length slopeval' = List.length slopeval /\
      (if nrows <? 1 then 0 < c /\ slopeval' = slopeval else c = 0).
Proof.
  intros Hcode Hfl Hsz Halt Hsl Hn.
  assert (Hsz2 : nrows * ncols <= MAXLL) by lia.
  pose proof Hsz2 as Hsz'. unfold MAXLL in Hsz'.
  destruct code as [|c0 [|c1 [|c2 [|c3 [|c4 [|c5 [|c6 [|c7 [|c8 [|c9 code]]]]]]]]]]; try discriminate Hcode.
  set (code := [c0; c1; c2; c3; c4; c5; c6; c7; c8]) in *.
  wfun. do 10 wstep. wseq. wrun. rewrite orb_diag.
  destruct (nrows <? 1) eqn:Hnr.
  { wnext. cbn. eexists; split; [reflexivity|]. do 2 eexists. split; [reflexivity|].
    split; [reflexivity|]. split; [reflexivity|]. split; [lia|reflexivity]. }
  apply Z.ltb_ge in Hnr.
  wnext. do 2 wstep. wseq.
  apply (wp_for N X (sl_inv nrows ncols nprint cellsize (nsqrt N (nofZ N 2)) code flowdir altitude
                            (List.length slopeval)) (List.length flowdir)).
  - intros k st (i & ierr & fd & altup & altdown & dist & down & up & sv & -> & -> & Hk & Hsv).
    split; [lia|].
    unfold sl_state. cbn. rewrite truth_b2z.
    destruct (Z.ltb_spec (Z.of_nat k) (nrows * ncols)) as [Hlt|Hge].
    + assert (Hnc : 0 < ncols) by nia.
      (* the progress message: nothing happens, whatever nprint *)
      lazymatch goal with
      | |- wp (xexec _ _ _ _ (SSeq _ _) ?st) _ => apply (wp_seq_mid N X (fun st' => st' = st))
      end.
      { wrun. destruct (Z.eqb_spec nprint 0) as [Hnp|Hnp]; wsimp; rewrite ?if_same; wnext; reflexivity. }
      intros st' ->.
      do 2 wstep. wseq. wrun.
      destruct (chk_downstream1_run nrows ncols code flowdir (Z.of_nat k) 0 n ltac:(lia) Hnc Hsz2 Hcode Hfl)
        as (d' & Ed & Hd'); [lia|lia|].
      rewrite Ed. wsimp. wnext.
      wstep. wif.
      destruct (Z.leb_spec 0 d') as [Hd0|Hd0].
      2:{ wrun. wnext. wrun. wnext. do 9 eexists. (split; [unfold sl_state; reflexivity|]). lia. }
      assert (Hdr : 0 <= d' < nrows * ncols) by (destruct Hd' as [?|[?|?]]; lia).
      wseq. wrun. wget. wsimp. wnext.
      wseq. wrun. wget. wsimp. wnext.
      wseq. wrun. wget. wsimp. wnext.
      wstep.
      wseq. wrun.
      match goal with |- context[if ?c then _ else _] => destruct c end; wnext.
      all: wrun; wset; wsimp; wnext; wrun; wnext.
      all: do 9 eexists; (split; [unfold sl_state; reflexivity|]); lia.
    + wnext. wrun. wnext. cbn.
      eexists; split; [reflexivity|]. do 2 eexists. split; [reflexivity|].
      split; [reflexivity|]. split; [lia|]. replace (nrows <? 1) with false by (symmetry; apply Z.ltb_ge; lia). reflexivity.
  - do 9 eexists. split; [unfold sl_state; reflexivity|]. lia.
  - lia.
Qed.

(* ------------------------------------------------------------------ *)
(* getcoord and c_coord2cell on ONE point (as c_slice calls them)         *)

(* getcoord on a cell of a grid with ncols >= 1: nrows-1-nxy[1] is a row number *)
Lemma chk_getcoord_run nrows ncols (xll yll csz : T) idx a b n :
  0 < ncols -> 0 <= idx < nrows * ncols -> nrows * ncols <= MAXLL -> (1 < n)%nat ->
  exists x y, exec_fun N X program_chk n "getcoord"
                [AVI nrows; AVI ncols; AVF xll; AVF yll; AVF csz; AVI idx; AVArrF [a; b]]
              = Ok (RI 0, [VArrF [x; y]]).
Proof.
  intros Hnc Hidx Hsz Hn. destruct n as [|n]; [lia|].
  enough (H : exists v outs,
             exec_fun N X program_chk (S n) "getcoord"
               [AVI nrows; AVI ncols; AVF xll; AVF yll; AVF csz; AVI idx; AVArrF [a; b]] = Ok (v, outs) /\
             (v = RI 0 /\ exists x y, outs = [VArrF [x; y]])).
  { destruct H as (v & outs & E & -> & x & y & ->). exists x, y. exact E. }
  unfold MAXLL in Hsz.
  assert (Hok : getnxy_ok ncols idx) by (apply getnxy_ok_pos; [lia|unfold MAXLL; lia]).
  destruct (getn_cell nrows ncols idx Hnc Hidx) as [Bx By].
  assert (Hr1 : nrows <= nrows * ncols) by nia.
  wfun. wstep. wseq. wrun. rewrite chk_getnxy_run by (assumption || lia). wsimp. wnext.
  do 2 wstep. wrun. wnext. cbn.
  eexists; split; [reflexivity|]. split; [reflexivity|]. do 2 eexists. reflexivity.
Qed.

(* a double that compared inside [0, n) converts to an integer of [0, n) (C: the conversion
   truncates; true in RR and RN below).  This replaces [trunc_ok] of SafeGis.v: the checked
   program computes nrows-1-(long long)fy, so the VALUE of the conversion matters, not
   only that it fits. *)
Definition trunc_rng (n : Z) : Prop :=
  forall x : T, nleb N (nofZ N 0) x = true -> nltb N x (nofZ N n) = true ->
    exists z, ntrunc N x = Some z /\ 0 <= z < n.

(* what c_coord2cell answers: -1, or a cell of a (then non-empty) grid *)
Definition cellok2 (nrows ncols c : Z) : Prop :=
  c = -1 \/ (0 <= c < nrows * ncols /\ 0 < nrows /\ 0 < ncols).

Definition ccc_inv nrows ncols (xll yll csz : T) xy (k : nat) (st : state T) : Prop :=
  exists i nx ny fx fy c,
    st = cc_state nrows ncols i nx ny xll yll csz fx fy c xy /\
    i = Z.of_nat k /\ (k <= 1)%nat /\ (k = 1%nat -> cellok2 nrows ncols c).

Lemma chk_coord2cell1_run nrows ncols (xll yll csz x y : T) rest a n :
  floor_total X -> trunc_rng nrows -> trunc_rng ncols -> nrows * ncols <= MAXLL -> (2 < n)%nat ->
  exists c, exec_fun N X program_chk n "c_coord2cell"
              [AVI nrows; AVI ncols; AVF xll; AVF yll; AVF csz; AVI 1; AVArrF (x :: y :: rest); AVArrI [a]]
            = Ok (RI 0, [VArrF (x :: y :: rest); VArrI [c]]) /\ cellok2 nrows ncols c.
Proof.
  intros Hfl Htr Htc Hsz Hn. destruct n as [|n]; [lia|].
  enough (H : exists v outs,
             exec_fun N X program_chk (S n) "c_coord2cell"
               [AVI nrows; AVI ncols; AVF xll; AVF yll; AVF csz; AVI 1; AVArrF (x :: y :: rest); AVArrI [a]]
             = Ok (v, outs) /\
             (v = RI 0 /\ exists c, outs = [VArrF (x :: y :: rest); VArrI [c]] /\ cellok2 nrows ncols c)).
  { destruct H as (v & outs & E & -> & c & -> & H). exists c. split; assumption. }
  unfold MAXLL in Hsz.
  wfun. do 8 wstep. wseq.
  apply (wp_for N X (ccc_inv nrows ncols xll yll csz (x :: y :: rest)) 1).
  - intros k st (i & nx & ny & fx & fy & c & -> & -> & Hk & Hc).
    split; [exact Hk|].
    unfold cc_state. cbn. rewrite truth_b2z.
    destruct (Z.ltb_spec (Z.of_nat k) 1) as [Hlt|Hge].
    + assert (k = 0%nat) by lia. subst k. change (Z.of_nat 0) with 0.
      wseq. wrun.
      destruct (next X "floor" [ndiv N (nsub N x xll) csz]) as [fx1|] eqn:Efx; [|exfalso; eapply Hfl; eassumption].
      wsimp. wnext.
      wseq. wrun.
      destruct (next X "floor" [ndiv N (nsub N y yll) csz]) as [fy1|] eqn:Efy; [|exfalso; eapply Hfl; eassumption].
      wsimp. wnext.
      wseq. wrun.
      destruct (nleb N (nofZ N 0) fx1 && nltb N fx1 (nofZ N ncols) &&
                nleb N (nofZ N 0) fy1 && nltb N fy1 (nofZ N nrows))%bool eqn:Hin; wsimp.
      2:{ wnext. wrun. wnext. do 6 eexists. split; [unfold cc_state; reflexivity|].
          split; [reflexivity|]. split; [lia|]. intros _. left; reflexivity. }
      apply andb_true_iff in Hin. destruct Hin as [Hin Hy2].
      apply andb_true_iff in Hin. destruct Hin as [Hin Hy1].
      apply andb_true_iff in Hin. destruct Hin as [Hx1 Hx2].
      destruct (Htc fx1 Hx1 Hx2) as (zx & Ezx & Wzx).
      destruct (Htr fy1 Hy1 Hy2) as (zy & Ezy & Wzy).
      assert (Hr1 : nrows <= nrows * ncols) by nia.
      assert (Hc1 : ncols <= nrows * ncols) by nia.
      wnext. wseq. wrun. rewrite Ezx. unfold sem_cast. wsimp. wnext.
      wseq. wrun. rewrite Ezy. unfold sem_cast. wsimp. wnext.
      wrun.
      destruct ((zx <? 0) || (ncols <=? zx) || (nrows - 1 - zy <? 0) || (nrows <=? nrows - 1 - zy)) eqn:Hout.
      * wsimp; wnext; wrun; wnext.
        do 6 eexists. split; [unfold cc_state; reflexivity|].
        split; [reflexivity|]. split; [lia|]. intros _. left; reflexivity.
      * assert (Hcell : 0 <= (nrows - 1 - zy) * ncols + zx < nrows * ncols) by nia.
        wsimp; wnext; wrun; wnext.
        do 6 eexists. split; [unfold cc_state; reflexivity|].
        split; [reflexivity|]. split; [lia|]. intros _. right. split; [exact Hcell|]. lia.
    + assert (k = 1%nat) by lia. subst k.
      wnext. wrun. wnext. cbn.
      eexists; split; [reflexivity|]. split; [reflexivity|].
      eexists; split; [reflexivity|]. apply Hc. reflexivity.
  - do 6 eexists. split; [unfold cc_state; reflexivity|].
    split; [reflexivity|]. split; [lia|]. intros H; discriminate H.
  - lia.
Qed.

(* ------------------------------------------------------------------ *)
(* c_slice (c_grid.c).  nrows, ncols = data.shape; nval = xyslice.shape[0]; all long long.
   Checked: i++, 2*i, 2*i+1 (at most 2*nval-1: xyslice holds 2*nval doubles), and in the
   callees nrows-1, nrows-1-(long long)fy, ny*ncols+nx, nrows-1-nxy[1] (cells / rows of a
   grid of nrows*ncols = len(data) cells).                                          *)

Ltac css_end :=
  wrun; wnext; (split; [|lia]); rewrite Nat2Z.inj_succ; unfold Z.succ;
  unfold ss_any; do 19 eexists; (split; [unfold ss_state; reflexivity|]); lia.
Ltac css_close :=
  unfold ss_any; do 19 eexists; split; [unfold ss_state; reflexivity|]; try assumption; try lia.

Theorem chk_safe_slice nrows ncols (xll yll csz : T) data xys zs n :
  floor_total X -> trunc_rng nrows -> trunc_rng ncols ->
  Z.of_nat (List.length data) = nrows * ncols ->
  Z.of_nat (List.length data) <= MAXLL ->
  List.length xys = (2 * List.length zs)%nat ->
  2 * Z.of_nat (List.length zs) - 1 <= MAXLL ->
  (List.length zs + 2 < n)%nat ->
  exists ret outs,
    exec_fun N X program_chk (S n) "c_slice"
      [AVI nrows; AVI ncols; AVF xll; AVF yll; AVF csz; AVArrF data; AVI (zlen zs); AVArrF xys; AVArrF zs]
    = Ok (ret, outs) /\
    ret = RI 0 /\
    exists zs', outs = [VArrF data; VArrF xys; VArrF zs'] /\ List.length zs' = List.length zs.
Proof.
  intros Hfl Htr Htc Hdata Hdsz Hxys Hzsz Hn.
  assert (Hsz : nrows * ncols <= MAXLL) by lia.
  unfold MAXLL in Hzsz.
  wfun. rewrite zlen_eq. do 24 wstep. wseq.
  match goal with |- context[("tol", ?v)] => set (tol := v) end.
  match goal with |- context[("zero", ?v)] => set (zero := v) end.
  set (nval := Z.of_nat (List.length zs)).
  apply (wp_for N X (ss_inv nrows ncols nval xll yll csz tol (nnan N) zero data xys (List.length zs))
                (List.length zs)).
  - intros k st [(ierr & dx & dy & val1 & val2 & val3 & denom & t1 & t2 & c1 & c2 & c3 & zs1 &
                  a1 & b1 & a2 & b2 & a3 & b3 & -> & Hzs) Hk].
    split; [exact Hk|].
    unfold ss_state. cbn. rewrite truth_b2z. subst nval.
    destruct (Z.ltb_spec (Z.of_nat k) (Z.of_nat (List.length zs))) as [Hlt|Hge].
    + (* zslice[i] = nan *)
      wseq. wrun. wset. wsimp. wnext.
      (* c_coord2cell on the point i *)
      destruct (skipn_two xys (Z.to_nat (2 * Z.of_nat k))) as (px & py & prest & Esk); [lia|].
      wseq. wrun. rewrite (zlen_eq xys). zb. wsimp. rewrite Esk.
      destruct (chk_coord2cell1_run nrows ncols xll yll csz px py prest c1 n Hfl Htr Htc Hsz) as (c1' & Ec1 & Hc1');
        [lia|].
      rewrite Ec1. wsimp. rewrite <- Esk, firstn_skipn. wnext.
      (* invalid cell: continue *)
      wseq. wrun.
      destruct (Z.ltb_spec c1' 0) as [Hneg|Hpos]; wsimp; wnext; [css_end|].
      assert (Hc1 : 0 <= c1' < nrows * ncols /\ 0 < nrows /\ 0 < ncols) by (destruct Hc1' as [?|?]; [lia|assumption]).
      destruct Hc1 as (Hc1 & Hnr & Hnc).
      (* getcoord *)
      destruct (chk_getcoord_run nrows ncols xll yll csz c1' a1 b1 n Hnc Hc1 Hsz) as (gx & gy & Egc); [lia|].
      wseq. wrun. rewrite Egc. wsimp. wnext.
      wstep.
      wseq. wrun. wget. wsimp. wnext.
      wseq. wrun. wset. wsimp. wnext.
      wseq. wrun. wget. wsimp. wnext.
      wseq. wrun. wget. wsimp. wnext.
      do 2 wstep.
      (* if (fabs(dx) > tol) xy2[0] = ... : merge the two paths *)
      apply (wp_seq_mid N X (ss_any nrows ncols (Z.of_nat (List.length zs)) xll yll csz tol (nnan N) zero
                                    data xys (List.length zs) (Z.of_nat k))).
      { wrun. match goal with |- context[if ?c then _ else _] => destruct c end; wsimp; wnext; css_close. }
      clear - Hfl Htr Htc Hdata Hsz Hxys Hzsz Hn Hk Hlt.
      intros st (ierr & dx & dy & val1 & val2 & val3 & denom & t1 & t2 & c1 & c2 & c3 & zs1 &
                 a1 & b1 & a2 & b2 & a3 & b3 & -> & Hzs).
      unfold ss_state.
      do 2 wstep.
      apply (wp_seq_mid N X (ss_any nrows ncols (Z.of_nat (List.length zs)) xll yll csz tol (nnan N) zero
                                    data xys (List.length zs) (Z.of_nat k))).
      { wrun. match goal with |- context[if ?c then _ else _] => destruct c end; wsimp; wnext; css_close. }
      clear - Hfl Htr Htc Hdata Hsz Hxys Hzsz Hn Hk Hlt.
      intros st (ierr & dx & dy & val1 & val2 & val3 & denom & t1 & t2 & c1 & c2 & c3 & zs1 &
                 a1 & b1 & a2 & b2 & a3 & b3 & -> & Hzs).
      unfold ss_state.
      (* c_coord2cell on xy2 *)
      destruct (chk_coord2cell1_run nrows ncols xll yll csz a2 b2 [] c2 n Hfl Htr Htc Hsz) as (c2' & Ec2 & Hc2');
        [lia|].
      wseq. wrun. rewrite Ec2. wsimp. wnext.
      wseq. wrun.
      destruct (Z.ltb_spec c2' 0) as [Hneg|Hpos]; wsimp; wnext; [css_end|].
      assert (Hc2 : 0 <= c2' < nrows * ncols) by (destruct Hc2' as [?|?]; lia).
      (* c_coord2cell on xy3 *)
      destruct (chk_coord2cell1_run nrows ncols xll yll csz a3 b3 [] c3 n Hfl Htr Htc Hsz) as (c3' & Ec3 & Hc3');
        [lia|].
      wseq. wrun. rewrite Ec3. wsimp. wnext.
      wseq. wrun.
      destruct (Z.ltb_spec c3' 0) as [Hneg3|Hpos3]; wsimp; wnext; [css_end|].
      assert (Hc3 : 0 <= c3' < nrows * ncols) by (destruct Hc3' as [?|?]; lia).
      wseq. wrun. wget. wsimp. wnext.
      wseq. wrun. wget. wsimp. wnext.
      wseq. wrun. wset. wsimp. wnext.
      (* the three interpolation cases *)
      wseq. wif. match goal with |- context[if ?c then _ else _] => destruct c end.
      { wseq. wrun. wset. wsimp. wnext. wrun. wnext. css_end. }
      wrun. wnext.
      wseq. wif. match goal with |- context[if ?c then _ else _] => destruct c end.
      { wseq. wrun. wset. wsimp. wnext. wrun. wnext. css_end. }
      wrun. wnext.
      wif. match goal with |- context[if ?c then _ else _] => destruct c end.
      { do 3 wstep. wrun. wset. wsimp. wnext. css_end. }
      wrun. wnext. css_end.
    + wnext. wrun. wnext. cbn.
      eexists; split; [reflexivity|]. split; [reflexivity|].
      eexists; split; [reflexivity|]. lia.
  - split; [|lia]. css_close.
  - lia.
Qed.

End Chk.

(* ================================================================== *)

Section ChkBoundary.
Context {T : Type} (N : NumOps T) (X : NumLit T).

(* ------------------------------------------------------------------ *)
(* c_delineate_boundary (c_catchment.c)                                   *)

Lemma chk_compare_run x y n :
  (0 < n)%nat ->
  exec_fun N X program_chk n "c_catchment.compare" [AVArrI [x]; AVArrI [y]]
  = Ok (RI (cmpz x y), [VArrI [x]; VArrI [y]]).
Proof.
  intros Hn. destruct n as [|n]; [lia|].
  enough (H : exists v outs,
             exec_fun N X program_chk (S n) "c_catchment.compare" [AVArrI [x]; AVArrI [y]] = Ok (v, outs) /\
             (v = RI (cmpz x y) /\ outs = [VArrI [x]; VArrI [y]])).
  { destruct H as (v & outs & E & -> & ->). exact E. }
  wfun. do 4 wstep. unfold cmpz.
  wseq. wrun. destruct (Z.ltb_spec y x) as [H1|H1]; wsimp; wnext.
  { cbn. eexists; split; [reflexivity|]. split; reflexivity. }
  wseq. wrun. destruct (Z.eqb_spec x y) as [H2|H2]; wsimp; wnext.
  { cbn. eexists; split; [reflexivity|]. split; reflexivity. }
  wseq. wrun. zb. wsimp. wnext.
  cbn. eexists; split; [reflexivity|]. split; reflexivity.
Qed.

Lemma chk_compare_call x y n :
  (0 < n)%nat ->
  cmp_call (exec_fun N X program_chk n) "c_catchment.compare" AVArrI [x] [y] = Ok (cmpz x y).
Proof. intros Hn. unfold cmp_call. rewrite chk_compare_run by exact Hn. reflexivity. Qed.

(* column / row of a cell of the grid, or of the "no cell" value -1 (which the kernel
   does pass to getnxy: idxcell = next = -1 when no neighbour has been found) *)
Lemma getn_cell1 nrows ncols idx :
  0 < nrows -> 0 < ncols -> -1 <= idx < nrows * ncols ->
  (-1 <= getnx ncols idx < ncols /\ -1 <= getny ncols idx < nrows) /\
  (0 <= idx -> 0 <= getnx ncols idx /\ 0 <= getny ncols idx).
Proof.
  intros Hnr Hnc Hidx.
  destruct (Z.eq_dec idx (-1)) as [->|Hne].
  - split; [|lia]. unfold getnx. rewrite getny_quot by lia.
    assert (E1 : Z.rem (-1) ncols = - Z.rem 1 ncols) by (apply (Z.rem_opp_l 1 ncols); lia).
    assert (E2 : Z.quot (-1) ncols = - Z.quot 1 ncols) by (apply (Z.quot_opp_l 1 ncols); lia).
    rewrite E1, E2.
    pose proof (Z.rem_bound_pos 1 ncols ltac:(lia) Hnc).
    pose proof (rem_abs_le 1 ncols ltac:(lia)).
    pose proof (quot_abs_le 1 ncols ltac:(lia)).
    pose proof (Z.quot_pos 1 ncols ltac:(lia) Hnc). lia.
  - destruct (getn_cell nrows ncols idx Hnc ltac:(lia)) as [Bx By]. split; [lia|]. lia.
Qed.

Lemma chk_getnxy_cell n nrows ncols idx a b :
  0 < nrows -> 0 < ncols -> nrows * ncols <= MAXLL -> -1 <= idx < nrows * ncols -> (0 < n)%nat ->
  exists gx gy,
    exec_fun N X program_chk n "getnxy" [AVI ncols; AVI idx; AVArrI [a; b]] = Ok (RI 0, [VArrI [gx; gy]]) /\
    (-1 <= gx < ncols /\ -1 <= gy < nrows) /\ (0 <= idx -> 0 <= gx /\ 0 <= gy).
Proof.
  intros Hnr Hnc Hsz Hidx Hn.
  exists (getnx ncols idx), (getny ncols idx). split; [|apply getn_cell1; assumption].
  apply chk_getnxy_run; [|exact Hn].
  unfold getnxy_ok, fits64, MINLL, MAXLL in *. split; [lia|]. split; [lia|]. lia.
Qed.

Definition cdb_loop1 : stmt := Eval cbv in seq_nth 36 (body_of c_delineate_boundary_chk_def).
Definition cdb_loop1_inner : stmt := Eval cbv in seq_nth 4 (loop_body_of cdb_loop1).
Definition cdb_loop2 : stmt := Eval cbv in seq_nth 44 (body_of c_delineate_boundary_chk_def).
Definition cdb_loop2_inner : stmt := Eval cbv in seq_nth 4 (loop_body_of cdb_loop2).

(* the first nbuffer entries of buffer hold cells of the grid or -1 (excluded) *)
Definition buf_rng (ngrid nbuffer : Z) (buffer : list Z) : Prop :=
  forall j, 0 <= j < nbuffer -> exists v, zget buffer j = Some v /\ -1 <= v < ngrid.

Lemma buf_rng_get ngrid nb buffer k x :
  buf_rng ngrid nb buffer -> 0 <= k < nb -> zget buffer k = Some x -> -1 <= x < ngrid.
Proof. intros H Hk E. destruct (H k Hk) as (v & Ev & Hv). rewrite E in Ev. injection Ev as <-. exact Hv. Qed.

Lemma buf_rng_set ngrid nb buffer buffer' k v :
  buf_rng ngrid nb buffer -> zset buffer k v = Some buffer' -> -1 <= v < ngrid ->
  buf_rng ngrid nb buffer'.
Proof.
  intros H E Hv j Hj. destruct (Z.eq_dec j k) as [->|Hne].
  - exists v. split; [eapply zget_zset_same; exact E|exact Hv].
  - rewrite (zget_zset_other _ _ _ _ _ E Hne). apply H. exact Hj.
Qed.

Lemma buf_rng_push ngrid nb buffer buffer' v :
  buf_rng ngrid nb buffer -> zset buffer nb v = Some buffer' -> -1 <= v < ngrid ->
  buf_rng ngrid (nb + 1) buffer'.
Proof.
  intros H E Hv j Hj. destruct (Z.eq_dec j nb) as [->|Hne].
  - exists v. split; [eapply zget_zset_same; exact E|exact Hv].
  - rewrite (zget_zset_other _ _ _ _ _ E Hne). apply H. lia.
Qed.

(* the ranges that keep the arithmetic of the kernel inside long long: isout is 0/1;
   idxcell, next and the live part of buffer hold -1 or cells of the grid; nxycell and
   nxystart hold a column in [-1, ncols) and a row in [-1, nrows) *)
Definition db_rng (nrows ncols nbuffer isout idxcell next : Z) (buffer : list Z) (c1 c2 s1 s2 : Z) : Prop :=
  0 <= isout <= 1 /\ -1 <= idxcell < nrows * ncols /\ -1 <= next < nrows * ncols /\
  buf_rng (nrows * ncols) nbuffer buffer /\
  (-1 <= c1 < ncols /\ -1 <= c2 < nrows) /\ (-1 <= s1 < ncols /\ -1 <= s2 < nrows).

Definition cdb_any (nrows ncols nval distmax : Z) (percmax : T) (area mask shift : list Z)
           (len : nat) (P : Z -> Z -> Z -> Z -> Z -> Z -> Prop) (st : state T) : Prop :=
  exists i k nbuffer isout idxcell idxcelln next buf ibnd start dx dy dist dmin knext
         buffer bnd c1 c2 b1 b2 s1 s2,
    st = db_state nrows ncols nval i k (nrows * ncols) nbuffer isout idxcell idxcelln distmax next buf ibnd
                  start dx dy dist dmin knext percmax area buffer mask bnd shift c1 c2 b1 b2 s1 s2 /\
    List.length buffer = len /\ List.length bnd = len /\ P i k nbuffer ibnd knext idxcell /\
    db_rng nrows ncols nbuffer isout idxcell next buffer c1 c2 s1 s2.

Ltac cdb_rng :=
  unfold db_rng in *;
  (split; [lia|]); (split; [lia|]); (split; [lia|]); (split; [try eassumption; try tauto|]); lia.
Ltac cdb_close :=
  unfold cdb_any; do 23 eexists; split; [unfold db_state; reflexivity|];
  split; [try assumption; try lia|]; split; [try assumption; try lia|];
  split; [cbv beta; try lia|try cdb_rng].

(* ---- phase 1, inner loop: for(k=0; k<4; k++) is the neighbour idxcell+shift[k] in the mask.
   Checked: idxcell+shift[k] (at most (nrows*ncols-1)+ncols), isout *= (0/1), k++ ---- *)

Lemma cdb_inner1 cf f nrows ncols nval i0 nb0 ic0 distmax (percmax : T) area mask len
      isout idxcelln next buf ibnd start dx dy dist dmin knext buffer bnd c1 c2 b1 b2 s1 s2 :
  0 < nrows -> 0 < ncols -> nrows * ncols + ncols - 1 <= MAXLL -> 0 <= ic0 < nrows * ncols ->
  Z.of_nat (List.length mask) = nrows * ncols -> List.length buffer = len -> List.length bnd = len ->
  db_rng nrows ncols nb0 isout ic0 next buffer c1 c2 s1 s2 ->
  (4 < f)%nat ->
  wp (xexec N X cf f cdb_loop1_inner
        (db_state nrows ncols nval i0 0 (nrows * ncols) nb0 isout ic0 idxcelln distmax next buf ibnd
                  start dx dy dist dmin knext percmax area buffer mask bnd [-1; 1; - ncols; ncols]
                  c1 c2 b1 b2 s1 s2))
     (fun o st => o = ONormal /\
        cdb_any nrows ncols nval distmax percmax area mask [-1; 1; - ncols; ncols] len
               (fun i _ nb _ _ ic => i = i0 /\ nb = nb0 /\ ic = ic0) st).
Proof.
  intros Hnr Hnc Hsz Hic Hmask Hbuf Hbnd Hrng Hf. unfold MAXLL in Hsz.
  apply (wp_for N X (fun (j : nat) st =>
           cdb_any nrows ncols nval distmax percmax area mask [-1; 1; - ncols; ncols] len
                  (fun i k nb _ _ ic => i = i0 /\ nb = nb0 /\ ic = ic0 /\ k = Z.of_nat j /\ (j <= 4)%nat) st) 4).
  - intros j st (i & k1 & nb & isout1 & ic & icn & next1 & buf1 & ibnd1 & start1 & dx1 & dy1 & dist1 &
                 dmin1 & knext1 & buffer1 & bnd1 & c11 & c21 & b11 & b21 & s11 & s21 & Est & Hb1 & Hd1 &
                 (Ei & Enb & Eic & Ek & Hj) & Hr1).
    subst st i nb ic k1. destruct Hr1 as (Hiso & Hic1 & Hnx & Hbr & Hcc & Hss).
    split; [exact Hj|].
    unfold db_state. cbn. rewrite truth_b2z.
    destruct (Z.ltb_spec (Z.of_nat j) 4) as [Hlt|Hge].
    + assert (Hj4 : (j = 0 \/ j = 1 \/ j = 2 \/ j = 3)%nat) by lia.
      destruct Hj4 as [-> | [-> | [-> | ->]]].
      all: change (Z.of_nat 0) with 0; change (Z.of_nat 1) with 1; change (Z.of_nat 2) with 2;
        change (Z.of_nat 3) with 3.
      all: wseq; wrun; wnext; wrun.
      all: match goal with |- context[if ?c then _ else _] => destruct c eqn:Hin end.
      all: wsimp;
        try (wget; cbn; match goal with |- context[b2z (?x =? 1)] => destruct (x =? 1) end);
        wsimp; wnext; wrun; wnext; cdb_close.
    + wnext. split; [reflexivity|]. cdb_close.
  - cdb_close.
  - exact Hf.
Qed.

(* ---- phase 2, inner loop: for(k=0; k<nbuffer; k++) nearest remaining boundary cell.
   Checked: dx = nxycell[0]-nxybuf[0], dy = nxycell[1]-nxybuf[1] (columns / rows of the grid),
   dist = dx*dx+dy*dy (at most ncols^2 + nrows^2), k++ ---- *)

Lemma sq_le a n : - n <= a <= n -> 0 <= a * a <= n * n.
Proof. intros H. nia. Qed.

Lemma cdb_inner2 n nrows ncols nval ib0 nb0 distmax (percmax : T) area mask shift len
      i isout idxcell idxcelln next buf start dx dy dist dmin knext buffer bnd c1 c2 b1 b2 s1 s2 :
  0 < nrows -> 0 < ncols -> nrows * ncols <= MAXLL -> nrows * nrows + ncols * ncols <= MAXLL ->
  List.length buffer = len -> List.length bnd = len -> Z.of_nat len <= MAXLL ->
  0 <= nb0 <= Z.of_nat len -> -1 <= knext < nb0 ->
  db_rng nrows ncols nb0 isout idxcell next buffer c1 c2 s1 s2 ->
  (len < n)%nat ->
  wp (xexec N X (exec_fun N X program_chk n) n cdb_loop2_inner
        (db_state nrows ncols nval i 0 (nrows * ncols) nb0 isout idxcell idxcelln distmax next buf ib0
                  start dx dy dist dmin knext percmax area buffer mask bnd shift
                  c1 c2 b1 b2 s1 s2))
     (fun o st => o = ONormal /\
        cdb_any nrows ncols nval distmax percmax area mask shift len
               (fun _ _ nb ibnd kn _ => nb = nb0 /\ ibnd = ib0 /\ -1 <= kn < nb0) st).
Proof.
  intros Hnr Hnc Hsz Hsq Hbuf Hbnd Hlen Hnb Hkn Hrng Hf.
  pose proof Hsz as Hsz'. pose proof Hsq as Hsq'. unfold MAXLL in Hsz', Hsq', Hlen.
  assert (Hrle : nrows <= nrows * ncols) by nia.
  assert (Hcle : ncols <= nrows * ncols) by nia.
  apply (wp_for N X (fun (j : nat) st =>
           cdb_any nrows ncols nval distmax percmax area mask shift len
                  (fun _ k nb ibnd kn _ => nb = nb0 /\ ibnd = ib0 /\ -1 <= kn < nb0 /\
                                           k = Z.of_nat j /\ Z.of_nat j <= nb0) st) len).
  - intros j st (i1 & k1 & nb & isout1 & ic & icn & next1 & buf1 & ibnd1 & start1 & dx1 & dy1 & dist1 &
                 dmin1 & knext1 & buffer1 & bnd1 & c11 & c21 & b11 & b21 & s11 & s21 & Est & Hb1 & Hd1 &
                 (Enb & Eib & Hkn1 & Ek & Hj) & Hr1).
    subst st nb ibnd1 k1. destruct Hr1 as (Hiso & Hic1 & Hnx & Hbr & Hcc & Hss).
    split; [lia|].
    unfold db_state. cbn. rewrite truth_b2z.
    destruct (Z.ltb_spec (Z.of_nat j) nb0) as [Hlt|Hge].
    + wseq. wrun. wget. wsimp. wnext.
      match goal with E : zget buffer1 _ = Some ?x |- _ =>
        assert (Hx : -1 <= x < nrows * ncols) by (eapply buf_rng_get; [exact Hbr| |exact E]; lia) end.
      wseq. wrun. destruct (Z.ltb_spec x 0) as [Hneg|Hpos]; wsimp; wnext.
      { wrun. wnext. replace (Z.of_nat j + 1) with (Z.of_nat (S j)) by lia. cdb_close. }
      destruct (chk_getnxy_cell n nrows ncols x b11 b21 Hnr Hnc Hsz ltac:(lia) ltac:(lia))
        as (gx & gy & Eg & Hg & Hg0).
      specialize (Hg0 Hpos).
      wseq. wrun. rewrite Eg. wsimp. wnext.
      pose proof (sq_le (c11 - gx) ncols ltac:(lia)) as Hdx.
      pose proof (sq_le (c21 - gy) nrows ltac:(lia)) as Hdy.
      do 3 wstep.
      wseq. wrun.
      match goal with |- context[if ?c then _ else _] => destruct c eqn:Hc end; wsimp; wnext.
      all: wrun.
      all: match goal with |- context[if ?c then _ else _] => destruct c eqn:Hc1 end; wsimp; wnext.
      all: try (split; [reflexivity|]; cdb_close).
      all: wrun; wnext; replace (Z.of_nat j + 1) with (Z.of_nat (S j)) by lia; cdb_close.
    + wnext. split; [reflexivity|]. cdb_close.
  - cdb_close.
  - exact Hf.
Qed.

(* the end of c_delineate_boundary: ibnd = min(ibnd, nval-1); boundary[ibnd] = start; return 0 *)
Ltac cdb_ret :=
  cbn; (eexists; split; [reflexivity|]); do 4 eexists; (split; [reflexivity|]); (split; [lia|]);
  (split; [reflexivity|]); repeat split; (reflexivity || assumption || lia).
Ltac cdb_tail :=
  wseq; wrun;
  match goal with |- context[if ?a <? ?b then _ else _] => destruct (Z.ltb_spec a b) end;
  wsimp; wnext; (wseq; wrun; wset; wsimp; wnext); wrun; wnext; cdb_ret.

(* c_delineate_boundary.  nrows, ncols, nval (= idxcells_area.shape[0]) are long long.
   Size hypotheses (beyond nval <= LLONG_MAX, which holds of any long long):
   - nrows*ncols + ncols - 1 <= LLONG_MAX:  idxcelln = idxcell + shift[3] with idxcell a cell of
     the grid (< nrows*ncols) and shift[3] = ncols  (also covers ngrid = nrows*ncols);
   - nrows*nrows + ncols*ncols <= LLONG_MAX:  dmin = distmax*distmax with distmax =
     max(nrows, ncols), and dist = dx*dx + dy*dy with |dx| <= ncols, |dy| <= nrows.
   No hypothesis on the contents of the arrays: the cell numbers are validated (sorted-range
   check) before any arithmetic, the mask is only compared, buffer is written before read. *)
Theorem chk_safe_delineate_boundary nrows ncols area buffer mask bnd n :
  List.length buffer = List.length area -> List.length bnd = List.length area ->
  Z.of_nat (List.length mask) = nrows * ncols ->
  perc_ok N X (Z.of_nat (List.length area)) ->
  Z.of_nat (List.length area) <= MAXLL ->
  nrows * ncols + ncols - 1 <= MAXLL ->
  nrows * nrows + ncols * ncols <= MAXLL ->
  (List.length area + 4 < n)%nat ->
  exists ret outs,
    exec_fun N X program_chk (S n) "c_delineate_boundary"
      [AVI nrows; AVI ncols; AVI (zlen area); AVArrI area; AVArrI buffer; AVArrI mask; AVArrI bnd]
    = Ok (ret, outs) /\
    exists c area' buffer' bnd',
      ret = RI c /\ 0 <= c /\
      outs = [VArrI area'; VArrI buffer'; VArrI mask; VArrI bnd'] /\
      List.length area' = List.length area /\ List.length buffer' = List.length buffer /\
      List.length bnd' = List.length bnd.
Proof.
  intros Hbuf Hbnd Hmask Hperc Hlen Hsh Hsq Hn.
  pose proof Hlen as Hlen'. pose proof Hsh as Hsh'. pose proof Hsq as Hsq'.
  unfold MAXLL in Hlen', Hsh', Hsq'.
  wfun. rewrite zlen_eq. do 22 wstep.
  (* the two argument checks *)
  wseq. wrun. destruct (Z.ltb_spec (Z.of_nat (List.length area)) 1) as [Hnv|Hnv]; wsimp; wnext.
  { cdb_ret. }
  wseq. wrun. destruct ((nrows <? 1) || (ncols <? 1)) eqn:Hrc; wsimp; wnext.
  { cdb_ret. }
  apply orb_false_iff in Hrc. destruct Hrc as [Hnr Hnc]. apply Z.ltb_ge in Hnr, Hnc.
  assert (Hnr0 : 0 < nrows) by lia. assert (Hnc0 : 0 < ncols) by lia.
  assert (Hsz : nrows * ncols <= MAXLL) by lia.
  pose proof Hsz as Hsz'. unfold MAXLL in Hsz'.
  assert (Hrle : nrows <= nrows * ncols) by nia.
  assert (Hcle : ncols <= nrows * ncols) by nia.
  wstep. wseq. wrun. rewrite if_ok. wsimp. wnext.
  wstep.
  (* qsort *)
  destruct (qsort_sorted (exec_fun N X program_chk n) "c_catchment.compare" "idxcells_area" cmpz area)
    as (sa & Esa & Hsa & Hin & Hsorted).
  { intros x y. apply chk_compare_call. lia. }
  { apply cmpz_le. }
  wseq. wrun. rewrite Esa. wsimp. wnext.
  (* the sorted-range check: afterwards every area cell is a cell of the grid *)
  destruct (zget_some sa 0) as (a0 & Ea0); [lia|].
  destruct (zget_some sa (Z.of_nat (List.length area) - 1)) as (aN & EaN); [lia|].
  wseq. wrun. rewrite Ea0. wsimp. rewrite ?EaN. wsimp.
  destruct ((a0 <? 0) || (nrows * ncols <=? aN)) eqn:Hchk; wsimp; wnext.
  { cdb_ret. }
  assert (Hrange : Forall (fun z => 0 <= z < nrows * ncols) sa).
  { assert (Hb : Forall (fun z => a0 <= z <= aN) sa).
    { apply sorted_bounds; [exact Hsorted|exact Ea0|rewrite Hsa; exact EaN]. }
    eapply Forall_impl; [|exact Hb]. cbv beta. intros z Hz. lia. }
  assert (Ha0 : 0 <= a0 < nrows * ncols)
    by (apply (zget_Forall (fun z => 0 <= z < nrows * ncols) sa 0 a0 Hrange); assumption).
  do 5 wstep.
  wseq. wrun. rewrite Ea0. wsimp. wset. wsimp. wnext.
  wstep.
  (* phase 1: the boundary cells of the area go to buffer[1 .. nbuffer-1], nbuffer <= i *)
  set (len := List.length area) in *.
  set (distmax := if ncols <? nrows then nrows else ncols).
  assert (Hdm : 0 <= distmax * distmax <= 9223372036854775807).
  { unfold distmax. destruct (ncols <? nrows); nia. }
  clearbody distmax.
  match goal with |- context[("percmax", ?v)] => set (percmax := v) end.
  set (shift := [-1; 1; - ncols; ncols]).
  match goal with Eb : zset buffer 0 a0 = Some ?l' |- _ =>
    assert (Hbr0 : buf_rng (nrows * ncols) 1 l')
      by (intros j Hj; replace j with 0 by lia; exists a0; split; [eapply zget_zset_same; exact Eb|lia])
  end.
  wseq.
  apply (wp_for N X (fun (j : nat) st =>
           cdb_any nrows ncols (Z.of_nat len) distmax percmax sa mask shift len
                  (fun i _ nb _ _ _ => i = 1 + Z.of_nat j /\ 1 <= nb <= i /\ 1 + Z.of_nat j <= Z.of_nat len) st) len).
  - intros j st (i1 & k1 & nb & isout1 & ic & icn & next1 & buf1 & ibnd1 & start1 & dx1 & dy1 & dist1 &
                 dmin1 & knext1 & buffer1 & bnd1 & c11 & c21 & b11 & b21 & s11 & s21 & Est & Hb1 & Hd1 &
                 (Ei & Hnb & Hj) & Hr1).
    subst st i1. destruct Hr1 as (Hiso & Hic1 & Hnx & Hbr & Hcc & Hss).
    split; [lia|].
    unfold db_state. cbn. rewrite truth_b2z.
    destruct (Z.ltb_spec (1 + Z.of_nat j) (Z.of_nat len)) as [Hlt|Hge].
    + wseq. wrun. wget. wsimp. wnext.
      assert (Hx : 0 <= x < nrows * ncols)
        by (apply (zget_Forall (fun z => 0 <= z < nrows * ncols) sa (1 + Z.of_nat j) x Hrange); assumption).
      wseq. wrun. wget. wsimp.
      destruct (x0 =? 1) eqn:Hm; wsimp; wnext.
      2:{ cdb_ret. }
      do 2 wstep.
      wseq.
      eapply wp_mono; [apply cdb_inner1 with (len := len);
                         [exact Hnr0|exact Hnc0|exact Hsh|exact Hx|exact Hmask|exact Hb1|exact Hd1| |lia]|].
      { unfold db_rng. split; [lia|]. split; [lia|]. split; [lia|]. split; [exact Hbr|]. lia. }
      intros o st (-> & i2 & k2 & nb2 & isout2 & ic2 & icn2 & next2 & buf2 & ibnd2 & start2 & dx2 & dy2 &
                   dist2 & dmin2 & knext2 & buffer2 & bnd2 & c12 & c22 & b12 & b22 & s12 & s22 & Est &
                   Hb2 & Hd2 & (Ei2 & Enb2 & Eic2) & Hr2).
      subst st i2 nb2 ic2. destruct Hr2 as (Hiso2 & Hic2 & Hnx2 & Hbr2 & Hcc2 & Hss2).
      unfold db_state. wnext.
      wif. destruct (isout2 =? 0) eqn:Hiso0.
      * wseq. wrun. zb. wsimp. wnext.
        wseq. wrun. wset. wsimp. wnext.
        wrun. wnext. wrun. wnext.
        fold shift. cdb_close.
        unfold db_rng. split; [lia|]. split; [lia|]. split; [lia|].
        split; [eapply buf_rng_push; [exact Hbr2|eassumption|lia]|]. lia.
      * wrun. wnext. wrun. wnext. fold shift. cdb_close.
    + (* phase 2: walk along the boundary *)
      wnext.
      wseq. wrun. wget. wsimp. wnext.
      assert (Hx : -1 <= x < nrows * ncols) by (eapply buf_rng_get; [exact Hbr| |eassumption]; lia).
      wseq. wrun. wget. wsimp. wnext.
      assert (Hx0 : -1 <= x0 < nrows * ncols) by (eapply buf_rng_get; [exact Hbr| |eassumption]; lia).
      destruct (chk_getnxy_cell n nrows ncols x0 s11 s21 Hnr0 Hnc0 Hsz Hx0 ltac:(lia))
        as (sx & sy & Es & Hs & _).
      wseq. wrun. rewrite Es. wsimp. wnext.
      wseq. wrun. wset. wsimp. wnext.
      match goal with Eb : zset buffer1 0 (-1) = Some ?l' |- _ =>
        assert (Hbr1 : buf_rng (nrows * ncols) nb l') by (eapply buf_rng_set; [exact Hbr|exact Eb|lia])
      end.
      do 3 wstep.
      wseq.
      apply (wp_for N X (fun (j2 : nat) st =>
               cdb_any nrows ncols (Z.of_nat len) distmax percmax sa mask shift len
                      (fun _ _ nb2 ibnd kn _ => nb2 = nb /\ ibnd = Z.of_nat j2 /\ -1 <= kn < nb /\
                                                Z.of_nat j2 <= nb) st) len).
      * intros j2 st (i2 & k2 & nb2 & isout2 & ic2 & icn2 & next2 & buf2 & ibnd2 & start2 & dx2 & dy2 &
                      dist2 & dmin2 & knext2 & buffer2 & bnd2 & c12 & c22 & b12 & b22 & s12 & s22 & Est &
                      Hb2 & Hd2 & (Enb2 & Eib2 & Hkn2 & Hj2) & Hr2).
        subst st nb2 ibnd2. destruct Hr2 as (Hiso2 & Hic2 & Hnx2 & Hbr2 & Hcc2 & Hss2).
        split; [lia|].
        unfold db_state. cbn. rewrite truth_b2z.
        destruct (Z.ltb_spec (Z.of_nat j2) nb) as [Hlt2|Hge2].
        -- destruct (chk_getnxy_cell n nrows ncols ic2 c12 c22 Hnr0 Hnc0 Hsz Hic2 ltac:(lia))
             as (cx & cy & Ec & Hc & _).
           wseq. wrun. rewrite Ec. wsimp. wnext.
           wseq. wrun. wset. wsimp. wnext.
           do 2 wstep.
           wseq.
           eapply wp_mono; [apply cdb_inner2 with (len := len);
                              [exact Hnr0|exact Hnc0|exact Hsz|exact Hsq|exact Hb2|lia|exact Hlen|lia|lia| |lia]|].
           { unfold db_rng. split; [lia|]. split; [lia|]. split; [lia|]. split; [exact Hbr2|]. lia. }
           intros o st (-> & i3 & k3 & nb3 & isout3 & ic3 & icn3 & next3 & buf3 & ibnd3 & start3 & dx3 & dy3 &
                        dist3 & dmin3 & knext3 & buffer3 & bnd3 & c13 & c23 & b13 & b23 & s13 & s23 & Est &
                        Hb3 & Hd3 & (Enb3 & Eib3 & Hkn3) & Hr3).
           subst st nb3 ibnd3. destruct Hr3 as (Hiso3 & Hic3 & Hnx3 & Hbr3 & Hcc3 & Hss3).
           unfold db_state. wnext.
           (* the 80 % threshold *)
           destruct (Hperc nb) as (zt & Ezt & Wzt); [lia|].
           wseq.
           eapply wp_if; [wsimp; fold percmax; unfold percmax; rewrite Ezt; unfold sem_cast; rewrite Wzt; wsimp; reflexivity|].
           rewrite ?truth_b2z.
           assert (Hrest : forall dx4 dy4 dist4,
             wp (xexec N X (exec_fun N X program_chk n) n (seq_nth 6 (loop_body_of cdb_loop2))
                  (db_state nrows ncols (Z.of_nat len) i3 k3 (nrows * ncols) nb isout3 ic3 icn3 distmax
                     next3 buf3 (Z.of_nat j2) start3 dx4 dy4 dist4 dmin3 knext3 percmax sa buffer3 mask
                     bnd3 shift c13 c23 b13 b23 s13 s23))
                (seq_post (xexec N X (exec_fun N X program_chk n) n (seq_nth 7 (loop_body_of cdb_loop2)))
                   (for_post (xexec N X (exec_fun N X program_chk n) n
                                (SSetI "ibnd" (IChk W64 (IBin IAdd (IVar "ibnd") (IConst 1)))))
                      (fun st => cdb_any nrows ncols (Z.of_nat len) distmax percmax sa mask
                                   shift len
                                   (fun _ _ nb2 ibnd kn _ => nb2 = nb /\ ibnd = Z.of_nat (S j2) /\
                                                             -1 <= kn < nb /\ Z.of_nat (S j2) <= nb) st)
                      K))).
           { intros dx4 dy4 dist4. unfold db_state. cbn [seq_nth loop_body_of cdb_loop2].
             wif. destruct (Z.leb_spec 0 knext3) as [Hk0|Hk0].
             - wrun. wset. wsimp. wnext. wrun. wnext. wrun. wnext.
               replace (Z.of_nat j2 + 1) with (Z.of_nat (S j2)) by lia. cdb_close.
               unfold db_rng. split; [lia|]. split; [lia|]. split; [lia|].
               split; [eapply buf_rng_set; [exact Hbr3|eassumption|lia]|]. lia.
             - wrun. wnext. wrun. wnext. wrun. wnext.
               replace (Z.of_nat j2 + 1) with (Z.of_nat (S j2)) by lia. cdb_close. }
           destruct (Z.ltb_spec zt (Z.of_nat j2)) as [Hthr|Hthr].
           ++ pose proof (sq_le (c13 - s13) ncols ltac:(lia)) as Hdx.
              pose proof (sq_le (c23 - s23) nrows ltac:(lia)) as Hdy.
              do 3 wstep. wrun.
              match goal with |- context[if ?a <? ?b then _ else _] => destruct (Z.ltb_spec a b) end;
                wsimp; wnext.
              ** cdb_tail.
              ** wseq. apply Hrest.
           ++ wrun. wnext. wseq. apply Hrest.
        -- wnext. cdb_tail.
      * cdb_close.
      * lia.
  - cdb_close.
  - lia.
Qed.

End ChkBoundary.

(* ================================================================== *)
(* The hypotheses on the arithmetic are satisfied by the instances       *)
(* ================================================================== *)

Lemma trunc_rng_RR n : trunc_rng RR n.
Proof.
  intros x H1 H2. cbn in *. apply Rleb_true in H1. apply Rltb_true in H2.
  unfold R_trunc. destruct (Rle_dec 0 x) as [_|Hc]; [|contradiction].
  exists (Int_part x). split; [reflexivity|]. apply Int_part_range; assumption.
Qed.

Lemma trunc_rng_RN n : trunc_rng RN n.
Proof.
  intros [x|] H1 H2; cbn in *; try discriminate.
  apply Rleb_true in H1. apply Rltb_true in H2.
  unfold R_trunc. destruct (Rle_dec 0 x) as [_|Hc]; [|contradiction].
  exists (Int_part x). split; [reflexivity|]. apply Int_part_range; assumption.
Qed.

(* c_slice over the reals extended with NaN (None): NaN and huge coordinates included; only
   size hypotheses are left *)
Corollary chk_safe_slice_reals_with_nan nrows ncols (xll yll csz : option R) data xys zs n :
  Z.of_nat (List.length data) = nrows * ncols ->
  Z.of_nat (List.length data) <= MAXLL ->
  List.length xys = (2 * List.length zs)%nat ->
  2 * Z.of_nat (List.length zs) - 1 <= MAXLL ->
  (List.length zs + 2 < n)%nat ->
  exists ret outs,
    exec_fun RN XRN program_chk (S n) "c_slice"
      [AVI nrows; AVI ncols; AVF xll; AVF yll; AVF csz; AVArrF data; AVI (zlen zs); AVArrF xys; AVArrF zs]
    = Ok (ret, outs) /\
    ret = RI 0 /\
    exists zs', outs = [VArrF data; VArrF xys; VArrF zs'] /\ List.length zs' = List.length zs.
Proof.
  apply chk_safe_slice; [exact floor_total_RN|apply trunc_rng_RN|apply trunc_rng_RN].
Qed.

(* c_delineate_boundary over the reals: only size hypotheses are left *)
Corollary chk_safe_delineate_boundary_reals nrows ncols area buffer mask bnd n :
  List.length buffer = List.length area -> List.length bnd = List.length area ->
  Z.of_nat (List.length mask) = nrows * ncols ->
  Z.of_nat (List.length area) < MAXLL ->
  nrows * ncols + ncols - 1 <= MAXLL ->
  nrows * nrows + ncols * ncols <= MAXLL ->
  (List.length area + 4 < n)%nat ->
  exists ret outs,
    exec_fun RR XRR program_chk (S n) "c_delineate_boundary"
      [AVI nrows; AVI ncols; AVI (zlen area); AVArrI area; AVArrI buffer; AVArrI mask; AVArrI bnd]
    = Ok (ret, outs) /\
    exists c area' buffer' bnd',
      ret = RI c /\ 0 <= c /\
      outs = [VArrI area'; VArrI buffer'; VArrI mask; VArrI bnd'] /\
      List.length area' = List.length area /\ List.length buffer' = List.length buffer /\
      List.length bnd' = List.length bnd.
Proof.
  intros Hb Hd Hm Hl Hs1 Hs2 Hn. apply chk_safe_delineate_boundary; try assumption; [|lia].
  apply perc_ok_RR. exact Hl.
Qed.

(* non-vacuity in binary64: the checked kernels run on a 3x3 grid and agree with the
   unchecked ones (delineate_boundary_runs_F64 of SafeGis.v) *)
Example chk_delineate_boundary_runs_F64 :
  exec_fun F64 XF64 program_chk 50 "c_delineate_boundary"
    [AVI 3; AVI 3; AVI 3; AVArrI [5; 4; 1]; AVArrI [9; 9; 9]; AVArrI [0; 1; 0; 0; 1; 1; 0; 0; 0]; AVArrI [9; 9; 9]]
  = Ok (RI 0, [VArrI [1; 4; 5]; VArrI [-1; -1; -1]; VArrI [0; 1; 0; 0; 1; 1; 0; 0; 0]; VArrI [1; 4; 1]]).
Proof. vm_compute. reflexivity. Qed.

(* ================================================================== *)
(* Findings: arguments of the C type long long on which the checked program overflows *)
(* ================================================================== *)

(* celldist(2^32, 2^32, 0, 0): the product nrows*ncols of the validity test is 2^64
   (general form: overflow_celldist_product) *)
Example overflow_celldist_product_2p32 :
  exec_fun F64 XF64 program_chk 5 "celldist" [AVI 4294967296; AVI 4294967296; AVI 0; AVI 0]
  = Err (Overflow false 18446744073709551616).
Proof. vm_compute. reflexivity. Qed.

(* c_delineate_boundary on a 1 x 3037000500 grid (wrapper-admissible: the pyx wrapper asserts
   nrows*ncols == catchment_area_mask.shape[0] and equal lengths of the three other arrays; the
   mask would be a 24.3 GB array of long long) with a one-cell area: dmin = distmax*distmax
   = 3037000500^2 = 9223372037000250000 > LLONG_MAX = 9223372036854775807.  The mask is never
   read on this path, so the statement holds for every mask, in particular for one of the
   admissible length.  Generic over the arithmetic. *)
Theorem overflow_delineate_boundary_distmax {T : Type} (N : NumOps T) (X : NumLit T)
        (mask : list Z) (b0 d0 : Z) :
  exec_fun N X program_chk 10 "c_delineate_boundary"
    [AVI 1; AVI 3037000500; AVI 1; AVArrI [0]; AVArrI [b0]; AVArrI mask; AVArrI [d0]]
  = Err (Overflow false 9223372037000250000).
Proof. vm_compute. reflexivity. Qed.

(* the memory-safety findings of SafeGis.v are unchanged in the checked program: the
   interpreter stops on the same error before any overflow *)
Example chk_unsafe_stepsquaredist_ncols0 :
  exec_fun F64 XF64 program_chk 5 "c_catchment.stepsquaredist" [AVI 0; AVI 7; AVI 8] = Err DivZero.
Proof. vm_compute. reflexivity. Qed.

Example chk_unsafe_slice_short_zslice :
  exec_fun F64 XF64 program_chk 50 "c_slice"
    [AVI 1; AVI 1; AVF 0%float; AVF 0%float; AVF 1%float; AVArrF [1%float]; AVI 1;
     AVArrF [0.5%float; 0.5%float]; AVArrF []]
  = Err (OOB "zslice" 0).
Proof. vm_compute. reflexivity. Qed.

Example chk_unsafe_exclude_zero_area_boundary_one_column :
  exec_fun F64 XF64 program_chk 50 "c_exclude_zero_area_boundary"
    [AVI 3; AVF 0%float; AVArrF [0%float; 0%float; 0%float]; AVArrI [0; 0; 0]]
  = Err (OOB "xycoords" 3).
Proof. vm_compute. reflexivity. Qed.
