(* C14 on the regenerated program: the property theorems of Proofs/Var2hProofs.v and
   Proofs/Var2hIntegralProofs.v (every value written is missing or the period average
   of the interpolant; conservation; which periods are missing) transported through
   the refinement theorem of Proofs/RefineVar2h.v.  Every statement is about
   [exec_fun RN XRN program] - the MiniC translation of src/hydrodiy/data/c_var2h.c
   regenerated from the tree under test - run on the reals with an explicit missing
   value ([RN], None = NaN), for every display flag, every maxgap, every content of
   the output buffer. *)
From Coq Require Import ZArith Bool List String Lia Reals.
From Coquelicot Require Import Coquelicot.
From Hy Require Import Base.Num Base.MiniC Gen.KernelsAst Gen.Consts Gen.ConstsC14 Model.Var2h
  Proofs.Var2hProofs Proofs.Var2hIntegralProofs Proofs.RefineVar2h.
Import ListNotations.
Open Scope string_scope.
Open Scope list_scope.

(* the call made by the Cython wrapper: nvalvar, nvalh, period length (s), rainfall
   flag, display flag, maxgapsec, varsec, varvalues, hstartsec, hvalues *)
Definition run_var2h (n : nat) (P rain disp maxgap hstart : Z) (sec : list Z)
    (vals hinit : list (option R)) :=
  exec_fun RN XRN program (S n) "c_var2h"
    [AVI (MiniC.zlen sec); AVI (MiniC.zlen hinit); AVI P; AVI rain; AVI disp; AVI maxgap;
     AVArrI sec; AVArrF vals; AVI hstart; AVArrF hinit].

(* [run_var2h] is the execution of the translated program, nothing else *)
Lemma run_var2h_is_exec n P rain disp maxgap hstart sec vals hinit :
  run_var2h n P rain disp maxgap hstart sec vals hinit =
  exec_fun RN XRN program (S n) "c_var2h"
    [AVI (MiniC.zlen sec); AVI (MiniC.zlen hinit); AVI P; AVI rain; AVI disp; AVI maxgap;
     AVArrI sec; AVArrF vals; AVI hstart; AVArrF hinit].
Proof. reflexivity. Qed.

(* the run, with the model's output as the witness: non-decreasing stamps, admissible
   period, flag 0/1, first stamp <= origin < some stamp: the translated kernel returns
   0, leaves stamps and values untouched, writes as many values as the buffer holds
   and never touches the last one *)
Lemma kernel_var2h_run P rain disp maxgap hstart sec vals hinit n :
  var2h_pre P rain hstart sec ->
  List.length vals = List.length sec ->
  (Nat.max (List.length sec) (List.length hinit) < n)%nat ->
  exists out,
    c_var2h_RN true P rain maxgap hstart sec vals hinit = VOk out /\
    run_var2h n P rain disp maxgap hstart sec vals hinit =
      Ok (RI 0%Z, [VArrI sec; VArrF vals; VArrF out]) /\
    List.length out = List.length hinit /\
    (forall d, nth (List.length hinit - 1) out d = nth (List.length hinit - 1) hinit d).
Proof.
  intros Hpre Hv Hn.
  destruct (kernel_ok true P rain maxgap hstart sec vals hinit Hpre) as (out & Hout & Hlen & Hlast).
  exists out. split; [exact Hout|]. split; [|split; [exact Hlen|exact Hlast]].
  pose proof (refine_c_var2h_RN P rain disp maxgap hstart sec vals hinit n Hv Hn) as H.
  rewrite Hout in H. exact H.
Qed.

(* MAIN COROLLARY (the first sentence of C14).  Every value the translated kernel
   writes (all periods but the last entry of the buffer, which it leaves alone) is
   missing, or it is the period average of the data: it equals area / P, where
   [area] is the sum over ALL intervals of the series of the trapezoids (level
   data) / prorated increments (rainfall) clipped to the period, and - times P - it
   is the Riemann integral over the period [hstart + i P, hstart + (i+1) P] of the
   piecewise interpolant [ginterp] of the observations. *)
Theorem kernel_var2h_period_average P rain disp maxgap hstart sec vals hinit n :
  var2h_pre P rain hstart sec ->
  List.length vals = List.length sec ->
  (Nat.max (List.length sec) (List.length hinit) < n)%nat ->
  exists out,
    run_var2h n P rain disp maxgap hstart sec vals hinit =
      Ok (RI 0%Z, [VArrI sec; VArrF vals; VArrF out]) /\
    List.length out = List.length hinit /\
    (forall d, nth (List.length hinit - 1) out d = nth (List.length hinit - 1) hinit d) /\
    (forall i, (i < List.length hinit - 1)%nat ->
       nth i out None = None \/
       nth i out None =
         Some (area P rain sec vals (pstart P hstart (Z.of_nat i)) (pend P hstart (Z.of_nat i))
               / IZR P)%R) /\
    (forall i x, (i < List.length hinit - 1)%nat -> nth i out None = Some x ->
       is_RInt (ginterp P rain sec vals)
               (IZR (pstart P hstart (Z.of_nat i))) (IZR (pend P hstart (Z.of_nat i)))
               (x * IZR P)%R).
Proof.
  intros Hpre Hv Hn.
  destruct (kernel_var2h_run P rain disp maxgap hstart sec vals hinit n Hpre Hv Hn)
    as (out & Hout & Hrun & Hlen & Hlast).
  exists out. split; [exact Hrun|]. split; [exact Hlen|]. split; [exact Hlast|]. split.
  - intros i Hi. exact (period_value true P rain maxgap hstart sec vals hinit Hpre out i Hout Hi).
  - intros i x Hi Hx.
    exact (period_value_is_integral P rain maxgap hstart sec vals hinit Hpre out i x Hout Hi Hx).
Qed.

(* conservation: over any run of periods the translated kernel fills with numbers, the
   values times P add up to the area between the start of the first and the end of
   the last (no double counting, nothing lost at the period boundaries) *)
Theorem kernel_var2h_conservation P rain disp maxgap hstart sec vals hinit n :
  var2h_pre P rain hstart sec ->
  List.length vals = List.length sec ->
  (Nat.max (List.length sec) (List.length hinit) < n)%nat ->
  exists out,
    run_var2h n P rain disp maxgap hstart sec vals hinit =
      Ok (RI 0%Z, [VArrI sec; VArrF vals; VArrF out]) /\
    (forall a m, (a + m <= List.length hinit - 1)%nat ->
       (forall i, (a <= i < a + m)%nat -> nth i out None <> None) ->
       (osum out a m * IZR P)%R =
       area P rain sec vals (pstart P hstart (Z.of_nat a))
                            (pstart P hstart (Z.of_nat a + Z.of_nat m))).
Proof.
  intros Hpre Hv Hn.
  destruct (kernel_var2h_run P rain disp maxgap hstart sec vals hinit n Hpre Hv Hn)
    as (out & Hout & Hrun & _).
  exists out. split; [exact Hrun|].
  intros a m Ham Hnn.
  exact (conservation true P rain maxgap hstart sec vals hinit Hpre out a m Hout Ham Hnn).
Qed.

(* which periods are missing, in terms of the data: a period that extends past the
   last stamp is missing; an invalid interval (missing / negative end value, or longer
   than maxgapsec) with a positive length in common with the period makes it missing;
   a period inside the data whose intervals are all valid holds its average *)
Theorem kernel_var2h_missing P rain disp maxgap hstart sec vals hinit n :
  var2h_pre P rain hstart sec ->
  List.length vals = List.length sec ->
  (Nat.max (List.length sec) (List.length hinit) < n)%nat ->
  exists out,
    run_var2h n P rain disp maxgap hstart sec vals hinit =
      Ok (RI 0%Z, [VArrI sec; VArrF vals; VArrF out]) /\
    (forall i, (i < List.length hinit - 1)%nat ->
       (tsec sec (List.length sec - 1) < pend P hstart (Z.of_nat i))%Z ->
       nth i out None = None) /\
    (forall i j, (i < List.length hinit - 1)%nat -> (S j < List.length sec)%nat ->
       (tsec sec j < pend P hstart (Z.of_nat i))%Z ->
       (pstart P hstart (Z.of_nat i) < tsec sec (S j))%Z ->
       ivl_invalid_spec maxgap sec vals j -> nth i out None = None) /\
    (forall i, (i < List.length hinit - 1)%nat ->
       (pend P hstart (Z.of_nat i) <= tsec sec (List.length sec - 1))%Z ->
       (forall j, (S j < List.length sec)%nat ->
                  (tsec sec j < pend P hstart (Z.of_nat i))%Z ->
                  (pstart P hstart (Z.of_nat i) <= tsec sec (S j))%Z ->
                  ~ ivl_invalid_spec maxgap sec vals j) ->
       nth i out None =
         Some (area P rain sec vals (pstart P hstart (Z.of_nat i)) (pend P hstart (Z.of_nat i))
               / IZR P)%R).
Proof.
  intros Hpre Hv Hn.
  destruct (kernel_var2h_run P rain disp maxgap hstart sec vals hinit n Hpre Hv Hn)
    as (out & Hout & Hrun & _).
  exists out. split; [exact Hrun|]. split; [|split].
  - intros i Hi Hend.
    exact (uncovered_missing true P rain maxgap hstart sec vals hinit Hpre out i eq_refl Hout Hi Hend).
  - intros i j Hi Hj H1 H2 Hinv.
    exact (missing_if_overlap_invalid true P rain maxgap hstart sec vals hinit Hpre out i j
             Hout Hi Hj H1 H2 Hinv).
  - intros i Hi Hend Hval.
    exact (present_if_valid true P rain maxgap hstart sec vals hinit Hpre out i Hout Hi Hend Hval).
Qed.

(* the hypotheses are satisfiable: the series of Props/C14.v (level 3 at 0, 3600,
   7200, 7800 s; half-hour periods from 3600 s) executed on the translated kernel:
   3, 3, missing (the third period extends past the data), last entry untouched *)
Example kernel_var2h_example :
  run_var2h 5 1800 0 0 432000 3600 w_sec w_vals w_hinit =
  Ok (RI 0%Z, [VArrI w_sec; VArrF w_vals; VArrF [Some 3%R; Some 3%R; None; None]]).
Proof.
  destruct (kernel_var2h_run 1800 0 0 432000 3600 w_sec w_vals w_hinit 5 w_pre eq_refl)
    as (out & Hout & Hrun & Hlen & Hlast); [cbn; lia|].
  destruct fixed_kernel_example as (out' & Hout' & H0 & H1 & H2 & _).
  rewrite Hout in Hout'. injection Hout' as <-.
  specialize (Hlast None). cbn in Hlast, Hlen.
  destruct out as [|a [|b [|c [|d [|e r]]]]]; try discriminate.
  cbn in H0, H1, H2, Hlast. subst. exact Hrun.
Qed.
