(* Theorems about Model/Summary.v (property C20), part 6 (extended results):
   standard_normal with sorted=True; the violin abscissae are sorted and stay within the
   range of the finite data enlarged by the jitter scale. *)
From Coq Require Import ZArith Bool List Reals Lra Lia Permutation Sorted.
From Hy Require Import Base.Num Gen.ConstsC20 Model.Summary.
From Hy Require Import Proofs.SummaryProofs Proofs.SummaryLhsProofs Proofs.SummaryStatsProofs.
Import ListNotations.
Open Scope R_scope.

(* ---------- standard_normal(sorted=True): ranks 0..n-1, scores increase with the index ---------- *)
Section SortedScores.
Variable ppf : R -> R.
Hypothesis ppf_increasing : forall p q, 0 < p -> p < q -> q < 1 -> ppf p < ppf q.

Theorem standard_normal_sorted x cst ranks args :
  0 <= cst <= 1/2 ->
  standard_normal_args RR x cst true = Some (ranks, args) ->
  length ranks = length x /\ length args = length x /\
  (forall i, (i < length x)%nat -> nth i ranks 0 = IZR (Z.of_nat i)) /\
  forall i j, (i < j)%nat -> (j < length x)%nat -> ppf (nth i args 0) < ppf (nth j args 0).
Proof.
  intros Hc. unfold standard_normal_args.
  destruct (existsb (nisnan RR) x); [discriminate|]. intros E; inversion E; subst ranks args; clear E.
  rewrite !map_length, zseq_length.
  assert (Er : forall k, (k < length x)%nat ->
            nth k (map (nofZ RR) (zseq 0 (length x))) 0 = IZR (Z.of_nat k)).
  { intros k Hk.
    transitivity (nofZ RR (nth k (zseq 0 (length x)) 0%Z));
      [exact (map_nth (nofZ RR) _ 0%Z k) | rewrite zseq_nth by lia; reflexivity]. }
  split; [reflexivity|]. split; [reflexivity|]. split; [exact Er|].
  intros i j Hij Hj.
  set (n := Z.of_nat (length x)).
  assert (Ea : forall k, (k < length x)%nat ->
            nth k (map (nscore_arg RR n cst) (map (nofZ RR) (zseq 0 (length x)))) 0 =
            nscore_arg RR n cst (IZR (Z.of_nat k))).
  { intros k Hk.
    rewrite nth_indep with (d' := nscore_arg RR n cst (nofZ RR 0%Z))
      by (rewrite !map_length, zseq_length; lia).
    rewrite map_nth. f_equal. apply Er. exact Hk. }
  rewrite !Ea by lia. subst n.
  apply nscore_increasing_in_rank; auto; try lia.
  - apply IZR_le. lia.
  - apply IZR_lt. lia.
  - rewrite <- minus_IZR. apply IZR_le. lia.
Qed.
End SortedScores.

(* ---------- violin abscissae ---------- *)
Theorem violin_kde_x_sorted data npts u : StronglySorted Rle (violin_kde_x RR data npts u).
Proof. unfold violin_kde_x, violin_kde_x_gen. apply sort_values_spec. Qed.

(* linspace stays between its end points *)
Lemma linspace_range a b num v : a <= b -> In v (linspace RR a b num) -> a <= v <= b.
Proof.
  intros Hab Hin. destruct (In_nth _ _ 0 Hin) as (k & Hk & <-).
  rewrite linspace_length in Hk. rewrite linspace_nth by lia.
  destruct (Z.eqb_spec num 1); [lra|].
  assert (Hn : (2 <= num)%Z) by lia.
  assert (Hd : 0 < IZR (num - 1)) by (apply IZR_lt; lia).
  assert (H0 : 0 <= IZR (Z.of_nat k)) by (apply IZR_le; lia).
  assert (H1 : IZR (Z.of_nat k) <= IZR (num - 1)) by (apply IZR_le; lia).
  assert (Hq : 0 <= (b - a) / IZR (num - 1)).
  { apply Rmult_le_pos; [lra|]. apply Rlt_le, Rinv_0_lt_compat; exact Hd. }
  split; [nra|].
  assert (IZR (Z.of_nat k) * ((b - a) / IZR (num - 1)) <= IZR (num - 1) * ((b - a) / IZR (num - 1)))
    by (apply Rmult_le_compat_r; assumption).
  assert (IZR (num - 1) * ((b - a) / IZR (num - 1)) = b - a) by (field; lra).
  lra.
Qed.

Lemma map2_In {A B C} (f : A -> B -> C) la lb c : In c (map2 f la lb) ->
  exists a b, In a la /\ In b lb /\ c = f a b.
Proof.
  revert lb; induction la as [|a la IH]; intros [|b lb] H; simpl in H; try contradiction.
  destruct H as [<-|H].
  - exists a, b. simpl. auto.
  - destruct (IH lb H) as (a' & b' & Ha & Hb & E). exists a', b'. simpl. auto.
Qed.

(* every abscissa lies in [min - e, max + e] of the finite data, e = |extracted jitter scale|,
   when the draws satisfy |u| <= 1 *)
Theorem violin_kde_x_range data npts u v :
  data <> [] -> Forall (fun w => -1 <= w <= 1) u ->
  In v (violin_kde_x RR data npts u) ->
  tmin RR data - Rabs VIOLIN_ERR_SCALE_R <= v <= tmax RR data + Rabs VIOLIN_ERR_SCALE_R.
Proof.
  intros Hne Hu Hin. unfold violin_kde_x, violin_kde_x_gen in Hin.
  rewrite finite_values_RR in Hin.
  apply (Permutation_in _ (Permutation_sym (proj2 (sort_values_spec _)))) in Hin.
  destruct (tmin_spec data Hne) as [Imin Hmin]. destruct (tmax_spec data Hne) as [Imax Hmax].
  assert (Hmm : tmin RR data <= tmax RR data) by (apply Hmin; exact Imax).
  assert (Hpos := Rabs_pos VIOLIN_ERR_SCALE_R).
  apply in_app_or in Hin. destruct Hin as [Hin|Hin].
  - apply linspace_range in Hin; [lra | exact Hmm].
  - apply map2_In in Hin. destruct Hin as (q & e & Hq & He & ->).
    apply in_map_iff in Hq. destruct Hq as (lev & <- & Hlev).
    apply in_map_iff in He. destruct He as (w & <- & Hw).
    rewrite Forall_forall in Hu. specialize (Hu w Hw).
    cbn [n0 n1 RR] in Hlev. apply linspace_range in Hlev; [|lra].
    set (s := sort_values RR data) in *.
    assert (Hs : StronglySorted Rle s) by apply sort_values_spec.
    assert (Hsn : s <> []) by (apply sort_values_nonempty; exact Hne).
    assert (B := percentile_bounds s Hs Hsn (lev * 100) ltac:(lra)).
    unfold s in B. rewrite (sorted_first_is_min data Hne), (sorted_last_is_max data Hne) in B.
    rewrite pd_quantile_RR. fold s in B. fold s.
    cbn [nadd nmul RR].
    replace (qc RR VIOLIN_ERR_SCALE_NUM VIOLIN_ERR_SCALE_DEN) with VIOLIN_ERR_SCALE_R
      by (symmetry; apply consts_R_agree).
    set (e := VIOLIN_ERR_SCALE_R).
    assert (- Rabs e <= e * w <= Rabs e).
    { unfold Rabs. destruct (Rcase_abs e); split; nra. }
    lra.
Qed.
