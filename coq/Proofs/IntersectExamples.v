(* Concrete instances showing that the hypotheses of the C16 theorems can be
   met and that their conclusions are not trivial (non-vacuity). *)
From Coq Require Import ZArith Bool List Reals Lra Lia Psatz.
From Hy Require Import Base.Num Gen.Consts Gen.ConstsC16 Model.Grid Model.Intersect
     Proofs.GridGeomProofs Proofs.IntersectProofs Proofs.IntersectGridProofs Proofs.VoronoiProofs.
Import ListNotations.
Open Scope R_scope.

(* decide the comparisons of concrete reals met in a goal *)
Ltac rbool :=
  repeat match goal with
  | |- context [Rleb ?a ?b] =>
      first [ replace (Rleb a b) with true by (symmetry; apply Rleb_true; lra)
            | replace (Rleb a b) with false by (symmetry; apply Rleb_false; lra) ]
  | |- context [Rltb ?a ?b] =>
      first [ replace (Rltb a b) with true by (symmetry; apply Rltb_true; lra)
            | replace (Rltb a b) with false by (symmetry; apply Rltb_false; lra) ]
  end.

(* three points, two of them inside a 1x1 grid of cell size 2, fine cells of size 1:
   the weights carry two fine cells' worth of area *)
Example conservation_example :
  Rsum (map snd (c_intersect RR 1 1 0 0 2 1 [(1 / 2, 1 / 2); (3 / 2, 1 / 2); (5, 5)])) * (2 * 2) =
  2 * (1 * 1).
Proof.
  rewrite c_intersect_area_conserved by lra.
  unfold countb, in_extent_b. cbn [filter fst snd]. rbool. cbn. lra.
Qed.

(* the point (1/2, 1/2) lies in the footprint of cell (0,0) of that grid and is located there *)
Example footprint_iff_example : coord2cell RR 1 1 0 0 2 (1 / 2, 1 / 2) = (0 * 1 + 0)%Z.
Proof.
  apply coord2cell_footprint_iff; [lra|lia|lia|]. unfold in_footprint. cbn [fst snd]. simpl. lra.
Qed.

(* the weight of that cell: two points in its footprint, each worth (1/2)^2 *)
Example weight_example w :
  In ((0 * 1 + 0)%Z, w) (c_intersect RR 1 1 0 0 2 1 [(1 / 2, 1 / 2); (3 / 2, 1 / 2); (5, 5)]) ->
  w = 1 / 2.
Proof.
  intros H. apply c_intersect_weight in H; [|lra|lia|lia]. rewrite H.
  unfold countb, in_footprint_b. cbn [filter fst snd]. simpl IZR. rbool. cbn. lra.
Qed.

Lemma weight_example_listed :
  In (0 * 1 + 0)%Z (map fst (c_intersect RR 1 1 0 0 2 1 [(1 / 2, 1 / 2); (3 / 2, 1 / 2); (5, 5)])).
Proof.
  apply c_intersect_cells; [lra|]. exists 0%Z, 0%Z. repeat split; try lia.
  exists (1 / 2, 1 / 2). split; [left; reflexivity|]. unfold in_footprint. cbn [fst snd]. simpl. lra.
Qed.

(* a 2x2 catchment of unit cells inside one coarse cell of size 2: intersect returns a result *)
Example intersect_py_example :
  exists r, intersect_py RR 2 2 0 0 1 false [0; 1; 2; 3]%Z [] 1 1 0 0 2 = Some r.
Proof.
  destruct (intersect_py RR 2 2 0 0 1 false [0; 1; 2; 3]%Z [] 1 1 0 0 2) as [r|] eqn:E; [exists r; reflexivity|].
  exfalso.
  pose proof (proj1 (intersect_py_none_RR 2 2 0 0 1 false [0; 1; 2; 3]%Z [] 1 1 0 0 2 ltac:(lra)) E) as E'.
  apply (E' 0%Z); [left; reflexivity|].
  change (cell2coord RR 2 2 0 0 1 0) with (cell2coord RR 2 2 0 0 1 (0 * 2 + 0)).
  rewrite (cell2coord_centre 2 2 0 0 1 0 0) by lia.
  unfold in_extent. cbn [fst snd]. simpl. lra.
Qed.

(* ... and the same catchment left of the grid raises the error *)
Example intersect_py_error_example :
  intersect_py RR 2 2 (-10) 0 1 false [0; 3]%Z [] 1 1 0 0 2 = None.
Proof.
  apply intersect_py_none_RR; [lra|]. intros c Hc. cbn in Hc. destruct Hc as [<-|[<-|[]]].
  - change (cell2coord RR 2 2 (-10) 0 1 0) with (cell2coord RR 2 2 (-10) 0 1 (0 * 2 + 0)).
    rewrite (cell2coord_centre 2 2 (-10) 0 1 0 0) by lia.
    unfold in_extent. cbn [fst snd]. simpl. lra.
  - change (cell2coord RR 2 2 (-10) 0 1 3) with (cell2coord RR 2 2 (-10) 0 1 (1 * 2 + 1)).
    rewrite (cell2coord_centre 2 2 (-10) 0 1 1 1) by lia.
    unfold in_extent. cbn [fst snd]. simpl. lra.
Qed.

(* Voronoi: two equidistant points and a farther one - the lowest index is selected *)
Example voronoi_tie_example :
  nearest RR VORONOI_DISTMAX_R (0, 0) [(1, 0); (-1, 0); (2, 0)] = Z.of_nat 0.
Proof.
  assert (S1 : sqrt 1 = 1) by apply sqrt_1.
  assert (D0 : dist RR (0, 0) (1, 0) = 1).
  { rewrite dist_RR. cbn [fst snd]. replace ((0 - 1) * (0 - 1) + (0 - 0) * (0 - 0)) with 1 by lra. exact S1. }
  assert (D1 : dist RR (0, 0) (-1, 0) = 1).
  { rewrite dist_RR. cbn [fst snd]. replace ((0 - -1) * (0 - -1) + (0 - 0) * (0 - 0)) with 1 by lra. exact S1. }
  assert (D2 : 1 <= dist RR (0, 0) (2, 0)).
  { rewrite dist_RR. cbn [fst snd]. rewrite <- S1 at 1. apply sqrt_le_1_alt. lra. }
  apply nearest_is_lowest_nearest.
  - exists O. split; [cbn; lia|]. cbn [nth]. rewrite D0. unfold VORONOI_DISTMAX_R. lra.
  - split; [cbn; lia|]. split.
    + intros [|[|[|i']]] Hi; cbn [nth]; rewrite ?D0, ?D1; try lra. cbn in Hi. lia.
    + intros i' Hi. lia.
Qed.

Example voronoi_sum_example :
  Rsum (voronoi RR VORONOI_DISTMAX_R 2 2 0 0 1 [0; 1; 2]%Z [(1 / 2, 3 / 2); (3, 3)]) = 1.
Proof. apply voronoi_sum_one; discriminate. Qed.
